#!/bin/sh
# Builds the checker offline from files on disk only.
set -e
cd "$(dirname "$0")"
export GOFLAGS=-mod=mod GOPROXY=off GOSUMDB=off GOTOOLCHAIN=local GOWORK=off
mkdir -p bin evidence
if [ -d checker ]; then (cd checker && go build -o ../bin/updogcheck .); fi
