#!/bin/sh
# usage: checkall.sh [updogcheck-binary]  — runs the three checker-test corpora and all 19 quick checks with the given binary
# (development aid; not a registered check). Exit 0 iff everything is as expected.
B=${1:-/verif/bin/updogcheck}
export UPDOGCHECK=$B
rc=0
python3 /verif/benign/run_all.py | tail -1 | tee /dev/stderr | grep -q ", 0 with alarms" || rc=1
python3 /verif/seeded/run_all.py | tail -1 | tee /dev/stderr | grep -q ", 0 not caught" || rc=1
python3 /verif/checker/mutants/run.py | tail -1 | tee /dev/stderr | grep -q ", 0 not killed" || rc=1
for i in 01 02 03 04 05 06 07 08 09 10 11 12 13 14 15 16 17 18 19; do
  $B -repo /repo -verif /verif -prop C$i -no-evidence | tail -1 | grep -q " 0 violated/undecided" || { echo "C$i FAILS on /repo" >&2; rc=1; }
done
[ $rc = 0 ] && echo "ALL GOOD" || echo "PROBLEMS"
exit $rc
