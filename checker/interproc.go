package main

// Helper-function awareness shared by the shape rules: a maintainer may move a loop, a duplicated block or a predicate
// into a small helper of the same package without changing behaviour. Rules therefore look at an anchor function
// together with the module functions it calls statically (its "scope"), treat a call as performing the events its
// callee performs (must / may summaries), and follow values through helper results and parameters.

import (
	"golang.org/x/tools/go/ssa"
)

// scope returns fn, its function literals, and the same-package module functions statically called from them,
// transitively up to depth (anchors of other roles can be excluded by the caller).
func (c *Ctx) scope(fn *ssa.Function, depth int, exclude ...*ssa.Function) []*ssa.Function {
	return c.scopeX(fn, depth, false, exclude...)
}

// scopeSyn is scope for rules that follow *values* through the helpers (taint): it also returns the bodies ssa
// synthesises for the module — instances of the module's generic functions (mapSlice[Expression, uint64] has a body of
// its own under ssa.InstantiateGenerics) and the wrappers themselves (the thunk of a method expression
// `Expression.cacheKey` is where the interface method is invoked; no module function is behind it to look through to).
func (c *Ctx) scopeSyn(fn *ssa.Function, depth int, exclude ...*ssa.Function) []*ssa.Function {
	return c.scopeX(fn, depth, true, exclude...)
}

func (c *Ctx) scopeX(fn *ssa.Function, depth int, syn bool, exclude ...*ssa.Function) []*ssa.Function {
	ex := map[*ssa.Function]bool{}
	for _, e := range exclude {
		ex[e] = true
	}
	seen := map[*ssa.Function]bool{}
	var out []*ssa.Function
	var visit func(f *ssa.Function, d int)
	visit = func(f *ssa.Function, d int) {
		if f == nil || seen[f] || ex[f] || f.Blocks == nil {
			return
		}
		// synthetic wrappers (bound method values `x.m`, thunks): look through to the function they call
		if f.Synthetic != "" && !(syn && len(f.TypeArgs()) > 0) {
			seen[f] = true
			if syn && c.w.inModule(f) && c.w.pkgPathOf(f) == c.w.pkgPathOf(fn) {
				out = append(out, f)
			}
			allInstrs(f, func(i ssa.Instruction) {
				if cc := callCommon(i); cc != nil {
					visit(calleeFunc(cc), d)
				}
			})
			return
		}
		if !c.w.inModule(f) || c.w.pkgPathOf(f) != c.w.pkgPathOf(fn) {
			return
		}
		seen[f] = true
		out = append(out, f)
		for _, an := range f.AnonFuncs {
			visit(an, d)
		}
		if d <= 0 {
			return
		}
		allInstrs(f, func(i ssa.Instruction) {
			if cc := callCommon(i); cc != nil {
				visit(calleeFunc(cc), d-1)
			}
			// function values passed on (method values handed to db.View, named functions used as callbacks)
			for _, op := range i.Operands(nil) {
				if op == nil || *op == nil {
					continue
				}
				switch v := (*op).(type) {
				case *ssa.Function:
					visit(v, d-1)
				case *ssa.MakeClosure:
					if g, ok := v.Fn.(*ssa.Function); ok {
						visit(g, d-1)
					}
				}
			}
		})
	}
	visit(fn, depth)
	return out
}

func instrsOf(fns []*ssa.Function, f func(ssa.Instruction)) {
	for _, fn := range fns {
		allInstrs(fn, f)
	}
}

// mustPass: every path from the entry of g to any of its returns passes an instruction satisfying pred (or a call to a
// module function that must pass one).
func (fc *flowCtx) mustPass(g *ssa.Function, pred func(ssa.Instruction) bool, depth int) bool {
	if g == nil || g.Blocks == nil || depth < 0 {
		return false
	}
	ip := func(i ssa.Instruction) bool {
		if pred(i) {
			return true
		}
		if cc := callCommon(i); cc != nil {
			if _, isGo := i.(*ssa.Go); isGo {
				return false
			}
			if _, isDefer := i.(*ssa.Defer); isDefer {
				return false
			}
			if h := calleeFunc(cc); h != nil && h != g && fc.w.inModule(h) && fc.mustPass(h, pred, depth-1) {
				return true
			}
		}
		return false
	}
	isRet := func(i ssa.Instruction) bool { _, ok := i.(*ssa.Return); return ok }
	return fc.pathAvoiding(g, nil, isRet, ip) == nil && fc.canReturn(g)
}

// mayContain: some instruction of g (or of a module function it calls) satisfies pred.
func (fc *flowCtx) mayContain(g *ssa.Function, pred func(ssa.Instruction) bool, depth int) bool {
	if g == nil || g.Blocks == nil || depth < 0 {
		return false
	}
	found := false
	allInstrs(g, func(i ssa.Instruction) {
		if found {
			return
		}
		if pred(i) {
			found = true
			return
		}
		if cc := callCommon(i); cc != nil {
			if h := calleeFunc(cc); h != nil && h != g && fc.w.inModule(h) && fc.mayContain(h, pred, depth-1) {
				found = true
			}
		}
	})
	return found
}

// ipAvoid lifts an "event" predicate for use as the avoid set of a path search: a call counts as the event when its
// (module) callee performs the event on every path.
func (fc *flowCtx) ipAvoid(pred func(ssa.Instruction) bool) func(ssa.Instruction) bool {
	return func(i ssa.Instruction) bool {
		if pred(i) {
			return true
		}
		cc := callCommon(i)
		if cc == nil {
			return false
		}
		if _, isGo := i.(*ssa.Go); isGo {
			return false
		}
		h := calleeFunc(cc)
		return h != nil && fc.w.inModule(h) && fc.mustPass(h, pred, 2)
	}
}

// ipTarget lifts an event predicate for use as the target of a path search: a call counts when its callee may perform it.
func (fc *flowCtx) ipTarget(pred func(ssa.Instruction) bool) func(ssa.Instruction) bool {
	return func(i ssa.Instruction) bool {
		if pred(i) {
			return true
		}
		cc := callCommon(i)
		if cc == nil {
			return false
		}
		h := calleeFunc(cc)
		return h != nil && fc.w.inModule(h) && fc.mayContain(h, pred, 2)
	}
}

// resultOrigins follows a value that is (an extract of) the result of a call to a module function into that function's
// return statements: it returns, for result index k, the returned operands of all (non-recover) returns, together with
// the call (for parameter binding). ok is false if v is not such a call result.
func resultOrigins(w *World, v ssa.Value) (call *ssa.Call, callee *ssa.Function, vals []ssa.Value, ok bool) {
	idx := 0
	switch x := v.(type) {
	case *ssa.Extract:
		c, isCall := x.Tuple.(*ssa.Call)
		if !isCall {
			return nil, nil, nil, false
		}
		call, idx = c, x.Index
	case *ssa.Call:
		call = x
	default:
		return nil, nil, nil, false
	}
	callee = calleeFunc(&call.Call)
	if callee == nil || !w.inModule(callee) || callee.Blocks == nil {
		return nil, nil, nil, false
	}
	allInstrs(callee, func(i ssa.Instruction) {
		if ret, isRet := i.(*ssa.Return); isRet && !isRecoverBlockReturn(ret) && idx < len(ret.Results) {
			vals = append(vals, retVals(ret)[idx])
		}
	})
	return call, callee, vals, len(vals) > 0
}

// resultReturns is resultOrigins with the return statements kept: for a value that is (an extract of) the result of a
// call to a module function it yields the callee's (non-recover) returns and, in parallel, the operand each of them
// returns at the value's result index — for rules whose verdict about a returned operand depends on what is known at
// the return it leaves by (a guard on the path to that return).
func resultReturns(w *World, v ssa.Value) (call *ssa.Call, callee *ssa.Function, rets []*ssa.Return, vals []ssa.Value, ok bool) {
	idx := 0
	if x, isX := v.(*ssa.Extract); isX {
		idx = x.Index
	}
	call, callee, _, ok = resultOrigins(w, v)
	if !ok {
		return nil, nil, nil, nil, false
	}
	allInstrs(callee, func(i ssa.Instruction) {
		if ret, isRet := i.(*ssa.Return); isRet && !isRecoverBlockReturn(ret) && idx < len(ret.Results) {
			rets = append(rets, ret)
			vals = append(vals, retVals(ret)[idx])
		}
	})
	return call, callee, rets, vals, len(vals) > 0
}

// argFor returns the call-site argument bound to parameter p of the callee (nil if p is not a parameter of it).
func argFor(call *ssa.Call, callee *ssa.Function, p ssa.Value) ssa.Value {
	for k, q := range callee.Params {
		if ssa.Value(q) == p && k < len(call.Call.Args) {
			return call.Call.Args[k]
		}
	}
	return nil
}

// liftTo maps an instruction that lives in a helper called (transitively) from anchor to the call instruction in anchor
// through which it is reached; instructions of anchor itself map to themselves. nil if there is no such call.
func (c *Ctx) liftTo(ins ssa.Instruction, anchor *ssa.Function) ssa.Instruction {
	if ins.Parent() == anchor {
		return ins
	}
	var contains func(f *ssa.Function, depth int) bool
	contains = func(f *ssa.Function, depth int) bool {
		if f == nil || depth < 0 {
			return false
		}
		if f == ins.Parent() {
			return true
		}
		if f.Blocks == nil || !c.w.inModule(f) {
			return false
		}
		found := false
		allInstrs(f, func(i ssa.Instruction) {
			if cc := callCommon(i); cc != nil && !found {
				if g := calleeFunc(cc); g != nil && g != f && contains(g, depth-1) {
					found = true
				}
			}
		})
		return found
	}
	var out ssa.Instruction
	allInstrs(anchor, func(i ssa.Instruction) {
		if out != nil {
			return
		}
		if cc := callCommon(i); cc != nil {
			if g := calleeFunc(cc); g != nil && contains(g, 2) {
				out = i
			}
		}
	})
	return out
}
