package main

import (
	"fmt"
	"go/types"

	"golang.org/x/tools/go/ssa"
)

func init() {
	register(&propDef{
		id:  "C08",
		run: runC08,
		explanation: "Decided (structural, for every query and every sequence of executions): in the set of module functions reachable from Index.Execute " +
			"no instruction writes a field of Query or of any Expression implementation, no map/slice reachable from such a field is updated, re-sliced-and-appended, " +
			"sorted or copied into, unless the written object was created during this execution (local freshness analysis); no reflect/unsafe call is reachable there. " +
			"Under that, the caller-visible fields of the Query are unchanged by Execute and repeated executions start from the same Query state. " +
			"NOT decided: that two executions return equal results (needs purity of evaluation, which C03.pure decides, and determinism of roaring, trusted).",
		assumptions: []string{"go/ssa and the call graph over-approximate the calls that can happen (no reflection/unsafe in the reachable set: asserted)",
			"fresh-returning API table for roaring/proto (DESIGN Appendix A.1)"},
	})
}

// protectedWrite reports the first protected struct on the path of a non-fresh write.
func protectedField(w *World, e writeEv, protected map[*types.Named]bool) (*types.Named, *types.Var) {
	for _, f := range e.fields() {
		if o := w.ownerOf(f); o != nil && protected[o] {
			return o, f
		}
	}
	return nil, nil
}

// protectedVia: like protectedField, but when the path starts at a parameter of a module function, also looks at what
// the callers (inside the reachable set) pass for that parameter, a few levels up.
func protectedVia(c *Ctx, re *Reach, e writeEv, protected map[*types.Named]bool) (*types.Named, *types.Var) {
	if o, f := protectedField(c.w, e, protected); o != nil {
		return o, f
	}
	var visit func(root ssa.Value, depth int) (*types.Named, *types.Var)
	visit = func(root ssa.Value, depth int) (*types.Named, *types.Var) {
		par, ok := root.(*ssa.Parameter)
		if !ok || depth > 3 {
			return nil, nil
		}
		fn := par.Parent()
		idx := -1
		for i, q := range fn.Params {
			if q == par {
				idx = i
			}
		}
		node := c.w.CG.Nodes[fn]
		if node == nil {
			return nil, nil
		}
		for _, in := range node.In {
			if in.Site == nil || !re.Funcs[in.Caller.Func] {
				continue
			}
			cc := in.Site.Common()
			if calleeFunc(cc) != fn || idx >= len(cc.Args) {
				continue
			}
			ap := path(cc.Args[idx])
			for _, st := range ap.Steps {
				if st.Field != nil {
					if o := c.w.ownerOf(st.Field); o != nil && protected[o] {
						return o, st.Field
					}
				}
			}
			if o, f := visit(ap.Root, depth+1); o != nil {
				return o, f
			}
		}
		return nil, nil
	}
	// the root may be a loop-carried slice variable: phi(parameter, append(that[:i], …)) still denotes (also) the caller's
	// backing array
	seen := map[ssa.Value]bool{}
	var roots func(v ssa.Value, depth int) (*types.Named, *types.Var)
	roots = func(v ssa.Value, depth int) (*types.Named, *types.Var) {
		if v == nil || seen[v] || depth > 6 {
			return nil, nil
		}
		seen[v] = true
		switch x := v.(type) {
		case *ssa.Parameter:
			return visit(x, 0)
		case *ssa.Phi:
			for _, ed := range x.Edges {
				if o, f := roots(ed, depth+1); o != nil {
					return o, f
				}
			}
		case *ssa.Call:
			if b, ok := x.Call.Value.(*ssa.Builtin); ok && b.Name() == "append" && len(x.Call.Args) > 0 {
				ap := path(x.Call.Args[0])
				for _, st := range ap.Steps {
					if st.Field != nil {
						if o := c.w.ownerOf(st.Field); o != nil && protected[o] {
							return o, st.Field
						}
					}
				}
				return roots(ap.Root, depth+1)
			}
		case *ssa.Slice:
			return roots(path(x.X).Root, depth+1)
		}
		return nil, nil
	}
	return roots(e.Target.Root, 0)
}

// readonlyRule is shared by C08.readonly, C04.noargwrite, C02.fresh.
func readonlyRule(c *Ctx, rule string, entries []*ssa.Function, protected map[*types.Named]bool, what string) *Reach {
	re := c.w.reach(entries...)
	fr := newFresh(c)
	nWrites := 0
	for _, fn := range re.sorted() {
		viol := 0
		for _, e := range fr.writes(fn) {
			nWrites++
			if e.Fresh {
				continue
			}
			owner, fld := protectedVia(c, re, e, protected)
			if owner == nil {
				continue
			}
			viol++
			c.r.bad(rule, fmt.Sprintf("%s: %s %s.%s", safeFname(fn), e.Kind, owner.Obj().Name(), fld.Name()),
				fmt.Sprintf("%s of %s.%s through a value that was not created during this call: %s", e.Kind, owner.Obj().Name(), fld.Name(), what),
				[]string{c.w.ipos(e.Ins)}, re.chain(fn)...)
		}
		if viol == 0 {
			c.r.ok(rule, safeFname(fn), "no write to protected state through a non-fresh reference", c.w.pos(fn.Pos()))
		}
		// reflect / unsafe deny-list (trusted-base assertion)
		allInstrs(fn, func(i ssa.Instruction) {
			if cc := callCommon(i); cc != nil {
				if f := calleeFunc(cc); f != nil && f.Pkg != nil {
					if p := f.Pkg.Pkg.Path(); p == "reflect" || p == "unsafe" {
						c.r.bad(rule, safeFname(fn)+": call "+funcFullName(f), "reflection/unsafe in the reachable set voids the write census", []string{c.w.ipos(i)}, re.chain(fn)...)
					}
				}
			}
		})
	}
	c.r.Stats["reachable_functions_"+rule] = len(re.Funcs)
	c.r.Stats["writes_examined_"+rule] = nWrites
	return re
}

func exprProtected(c *Ctx) map[*types.Named]bool {
	m := map[*types.Named]bool{c.a.QueryT: true}
	for _, n := range c.a.ExprImpls {
		m[n] = true
	}
	return m
}

func runC08(c *Ctx) {
	if !c.need("C08.readonly", c.a.Execute, c.a.QueryT, c.a.ExprIface) {
		return
	}
	re := readonlyRule(c, "C08.readonly", []*ssa.Function{c.a.Execute}, exprProtected(c),
		"executing a query must leave the Query and its expression tree unchanged")
	c.r.expect("C08.readonly", 10)
	c.r.Notes = append(c.r.Notes, fmt.Sprintf("reachable from Execute: %v", re.names()))
}
