package main

import (
	"fmt"
	"go/token"
	"go/types"
	"strings"

	"golang.org/x/tools/go/ssa"
)

// Rules added after the fourth round of independently seeded changes. Each is a who-may-do-what rule: it names a kind
// of state or operation and the only places that may touch it.

func init() {
	addRule("C05", "C05.nostate — the library package keeps no mutable package-level state (no store to a package-level variable, no update of a package-level map or sync.Map outside initialisation): what a file name or a Query pointer meant in an earlier call cannot leak into a later open or execution; "+
		"C05.bucketfield — no bbolt bucket is kept in a field of a writer, index or getter (a bucket dies with its transaction; the writers commit and re-begin theirs); "+
		"C05.rowidflow — in the big writer's merge, a row id decoded from a temp key goes straight into a bitmap Add in the same iteration; it is not buffered in loop-carried variables (run building across the value boundary).",
		func(c *Ctx) {
			noPackageStateRule(c, "C05.nostate")
			bucketFieldRule(c, "C05.bucketfield")
			rowIDFlowRule(c, "C05.rowidflow")
		})
	addRule("C01", "C01.rowidflow (= C05.rowidflow).", func(c *Ctx) { rowIDFlowRule(c, "C01.rowidflow") })
	addRule("C08", "C08.nostate (= C05.nostate: a memo keyed by the Query pointer makes the second index answer with the first one's data).", func(c *Ctx) { noPackageStateRule(c, "C08.nostate") })
	addRule("C03", "C03.nostate (= C05.nostate); C03.cachesites — the result cache is read and written only by the eval methods of the expression types (keyed by their own cacheKey, see keypair): other code has no expression whose key it could use.",
		func(c *Ctx) {
			noPackageStateRule(c, "C03.nostate")
			cacheSitesRule(c, "C03.cachesites")
		})
	addRule("C17", "C17.refsites — the connection's reference count is changed only in the open function's critical section and in the connection's Close (a second pin/unpin protocol cannot leak references and keep the file locked after the last Close).",
		func(c *Ctx) { refSitesRule(c, "C17.refsites") })
}

// noPackageStateRule: no function of the library package (outside package initialisation) mutates a package-level
// variable. Recognised mutations: store to the variable, update/delete of a map held in it, append-assign, and the
// mutating methods of a package-level sync.Map. Exempt: a store inside the function handed to (*sync.Once).Do /
// sync.OnceFunc / OnceValue(s) (lazy initialisation of an immutable value), sync.Pool, atomic counters and mutexes
// (they carry no answer-relevant state).
func noPackageStateRule(c *Ctx, rule string) {
	syncMapMut := map[string]bool{"Store": true, "LoadOrStore": true, "LoadAndDelete": true, "Delete": true, "Swap": true, "CompareAndSwap": true, "CompareAndDelete": true, "Clear": true}
	isOwnGlobal := func(v ssa.Value) *ssa.Global {
		g, ok := v.(*ssa.Global)
		if !ok || g.Pkg == nil || g.Pkg.Pkg.Path() != pkgRoot {
			return nil
		}
		return g
	}
	// closures handed to sync.Once
	onceFns := map[*ssa.Function]bool{}
	for _, fn := range c.w.ModFuncs {
		allInstrs(fn, func(i ssa.Instruction) {
			cc := callCommon(i)
			if cc == nil {
				return
			}
			n := calleeName(cc)
			if n == "(*sync.Once).Do" || strings.HasPrefix(n, "sync.Once") {
				for _, a := range cc.Args {
					switch v := a.(type) {
					case *ssa.MakeClosure:
						if f, ok := v.Fn.(*ssa.Function); ok {
							onceFns[f] = true
						}
					case *ssa.Function:
						onceFns[v] = true
					}
				}
			}
		})
	}
	n := 0
	for _, fn := range c.w.ModFuncs {
		if c.w.pkgPathOf(fn) != pkgRoot || onceFns[fn] || fn.Name() == "init" {
			continue
		}
		allInstrs(fn, func(i ssa.Instruction) {
			var g *ssa.Global
			what := ""
			switch x := i.(type) {
			case *ssa.Store:
				if g = isOwnGlobal(x.Addr); g != nil {
					what = "assigned"
				}
			case *ssa.MapUpdate:
				if ld, ok := x.Map.(*ssa.UnOp); ok {
					if g = isOwnGlobal(ld.X); g != nil {
						what = "updated (map entry stored)"
					}
				}
			case *ssa.Call:
				if b, ok := x.Call.Value.(*ssa.Builtin); ok && (b.Name() == "delete" || b.Name() == "clear") && len(x.Call.Args) > 0 {
					if ld, ok := x.Call.Args[0].(*ssa.UnOp); ok {
						if g = isOwnGlobal(ld.X); g != nil {
							what = "updated (" + b.Name() + ")"
						}
					}
				}
				name := calleeName(&x.Call)
				if strings.HasPrefix(name, "(*sync.Map).") && syncMapMut[name[len("(*sync.Map)."):]] && len(x.Call.Args) > 0 {
					if g = isOwnGlobal(x.Call.Args[0]); g != nil {
						what = "updated (sync.Map." + name[len("(*sync.Map)."):] + ")"
					}
				}
			}
			if g == nil {
				return
			}
			n++
			c.r.bad(rule, fmt.Sprintf("%s: %s", safeFname(fn), g.Name()), fmt.Sprintf("package-level variable %s is %s at run time: the library keeps state across calls that is keyed by something (a file name, a Query pointer) which does not identify what is on disk or which index is asked — a later open or execution is answered from an earlier one's data", g.Name(), what), []string{c.w.ipos(i)})
		})
	}
	if n == 0 {
		c.r.ok(rule, "package updog", "no package-level variable is mutated outside initialisation")
	}
}

// bucketFieldRule: no store of a *bbolt.Bucket into a field of a long-lived object (writers, index, getters).
func bucketFieldRule(c *Ctx, rule string) {
	long := map[*types.Named]bool{}
	for _, t := range []*types.Named{c.a.MemWriterT, c.a.BigWriterT, c.a.IndexT, c.a.PreloadedT, c.a.OnDemandT, c.a.LRUT} {
		if t != nil {
			long[t] = true
		}
	}
	n := 0
	for _, fn := range c.w.ModFuncs {
		if c.w.pkgPathOf(fn) != pkgRoot {
			continue
		}
		allInstrs(fn, func(i ssa.Instruction) {
			st, ok := i.(*ssa.Store)
			if !ok || !typeIs(st.Val.Type(), pkgBolt, "Bucket") {
				return
			}
			fa, ok := st.Addr.(*ssa.FieldAddr)
			if !ok {
				return
			}
			f := fieldOf(fa.X.Type(), fa.Field)
			if f == nil || !long[c.w.ownerOf(f)] {
				return
			}
			n++
			c.r.bad(rule, fmt.Sprintf("%s: store %s.%s", safeFname(fn), c.w.ownerOf(f).Obj().Name(), f.Name()), "a bbolt bucket is kept in a field of an object that outlives the transaction the bucket belongs to: after the next Commit the bucket is dead (\"tx closed\"), so rows beyond the commit batch are lost or rejected", []string{c.w.ipos(i)})
		})
	}
	if n == 0 {
		c.r.ok(rule, "package updog", "no bucket is stored in a writer, index or getter field")
	}
}

// rowIDFlowRule: in the function that holds the big writer's merge loop, every 32-bit value decoded from a cursor key
// (the row id part of the temp key) is used only as the argument of a bitmap Add (through integer conversions). A use
// as a phi operand, in arithmetic, in a comparison or a store means ids are buffered across iterations; the run that is
// flushed later can then span the point where the value index changes.
func rowIDFlowRule(c *Ctx, rule string) {
	if c.a.BigFlush == nil {
		return
	}
	addNames := map[string]bool{"Add": true, "AddInt": true, "CheckedAdd": true}
	n := 0
	for _, fn := range c.scope(c.a.BigFlush, 2) {
		allInstrs(fn, func(i ssa.Instruction) {
			call, ok := i.(*ssa.Call)
			if !ok || !strings.HasPrefix(calleeName(&call.Call), "(encoding/binary.") || !strings.HasSuffix(calleeName(&call.Call), ").Uint32") {
				return
			}
			src := call.Call.Args[len(call.Call.Args)-1]
			if sl, ok := src.(*ssa.Slice); ok {
				src = sl.X
			}
			if !isCursorKey(src) {
				return
			}
			n++
			key := fmt.Sprintf("%s: row id#%d", safeFname(fn), n)
			bad := ""
			var badAt ssa.Instruction
			seen := map[ssa.Value]bool{}
			var follow func(v ssa.Value)
			follow = func(v ssa.Value) {
				if seen[v] || bad != "" {
					return
				}
				seen[v] = true
				for _, u := range referrers(v) {
					switch x := u.(type) {
					case *ssa.Convert:
						follow(x)
					case *ssa.ChangeType:
						follow(x)
					case *ssa.DebugRef:
					case *ssa.Call:
						nm := calleeName(&x.Call)
						if strings.HasPrefix(nm, "(*"+roaringPkg+".Bitmap).") && addNames[nm[len("(*"+roaringPkg+".Bitmap)."):]] {
							continue
						}
						// a helper that adds its parameter: follow the parameter
						if h := calleeFunc(&x.Call); h != nil && c.w.inModule(h) && h.Blocks != nil {
							for k, a := range x.Call.Args {
								if a == v && k < len(h.Params) {
									follow(h.Params[k])
								}
							}
							continue
						}
						bad, badAt = "passed to "+shortName(nm), u
					case *ssa.Phi:
						bad, badAt = "carried into the next iteration (phi)", u
					case *ssa.BinOp:
						bad, badAt = "used in arithmetic or a comparison", u
					case *ssa.Store:
						bad, badAt = "stored in a variable", u
					default:
						bad, badAt = fmt.Sprintf("used by %T", u), u
					}
				}
			}
			follow(call)
			if bad != "" {
				c.r.bad(rule, key, "a row id read from the sorted temp keys is "+bad+" instead of going straight into the current value's bitmap: ids buffered across iterations can be flushed into the wrong value's bitmap when the value changes", []string{c.w.ipos(badAt)})
			} else {
				c.r.ok(rule, key, "decoded row id goes straight into a bitmap Add", c.w.ipos(call))
			}
		})
	}
	if n == 0 {
		c.r.undecided(rule, "<vacuity>", "no row id decoded from a cursor key found in the big writer's flush")
	}
}

// cacheSitesRule: Cache.Get / Cache.Put are invoked only from eval methods of the expression types, or from a helper
// all of whose callers are such methods.
func cacheSitesRule(c *Ctx, rule string) {
	if c.a.CacheIface == nil || c.a.Execute == nil {
		return
	}
	isEval := func(fn *ssa.Function) bool {
		if fn == nil || fn.Signature.Recv() == nil || fn.Name() != "eval" {
			return false
		}
		n := namedOf(fn.Signature.Recv().Type())
		for _, t := range c.a.ExprImpls {
			if t == n {
				return true
			}
		}
		return false
	}
	callers := func(fn *ssa.Function) []*ssa.Function {
		var out []*ssa.Function
		if node := c.w.CG.Nodes[fn]; node != nil {
			for _, in := range node.In {
				if in.Caller != nil && in.Caller.Func != nil && c.w.inModule(in.Caller.Func) {
					out = append(out, in.Caller.Func)
				}
			}
		}
		return out
	}
	var allowed func(fn *ssa.Function, depth int) bool
	allowed = func(fn *ssa.Function, depth int) bool {
		if isEval(fn) {
			return true
		}
		if depth > 2 {
			return false
		}
		cs := callers(fn)
		if len(cs) == 0 {
			return false
		}
		for _, cl := range cs {
			if !allowed(cl, depth+1) {
				return false
			}
		}
		return true
	}
	n := 0
	for _, fn := range c.w.reach(c.a.Execute).sorted() {
		if c.w.pkgPathOf(fn) != pkgRoot {
			continue
		}
		allInstrs(fn, func(i ssa.Instruction) {
			call, ok := i.(*ssa.Call)
			if !ok || !call.Call.IsInvoke() || namedOf(call.Call.Value.Type()) != c.a.CacheIface {
				return
			}
			m := call.Call.Method.Name()
			if m != "Get" && m != "Put" {
				return
			}
			n++
			key := fmt.Sprintf("%s: Cache.%s#%d", safeFname(fn), m, n)
			c.r.check(allowed(fn, 0), rule, key, "cache used by an expression's evaluation", "the result cache is used outside the eval methods of the expression types: cache keys identify expressions, so a bitmap stored from other code (an intermediate group-by intersection, say) is stored under the key of an expression it is not the result of, and later queries are answered with it", c.w.ipos(call))
		})
	}
	if n == 0 {
		c.r.undecided(rule, "<vacuity>", "no use of the Cache interface reachable from Execute")
	}
}

// refSitesRule: the atomic reference count of the file connection is modified only in the open function (and the helper
// holding its critical section) and in the connection's Close (and its helper).
func refSitesRule(c *Ctx, rule string) {
	if c.a.FileConnT == nil || c.a.DrvOpenFile == nil || c.a.FileConnClose == nil {
		return
	}
	ok := map[*ssa.Function]bool{}
	for _, f := range c.scope(c.a.DrvOpenFile, 2) {
		ok[f] = true
	}
	for _, f := range c.scope(c.a.FileConnClose, 2) {
		ok[f] = true
	}
	n := 0
	for _, fn := range c.w.ModFuncs {
		if c.w.pkgPathOf(fn) != pkgDriver {
			continue
		}
		allInstrs(fn, func(i ssa.Instruction) {
			cc := callCommon(i)
			if cc == nil {
				return
			}
			name := calleeName(cc)
			if !strings.HasPrefix(name, "(*sync/atomic.Int") && !strings.HasPrefix(name, "sync/atomic.Add") && !strings.HasPrefix(name, "(*sync/atomic.Uint") {
				return
			}
			if !(strings.HasSuffix(name, ".Add") || strings.HasSuffix(name, ".Store") || strings.HasSuffix(name, ".Swap") || strings.HasSuffix(name, ".CompareAndSwap") || strings.HasPrefix(name, "sync/atomic.Add")) {
				return
			}
			if len(cc.Args) == 0 {
				return
			}
			f := path(cc.Args[0]).lastField()
			if f == nil || c.w.ownerOf(f) != c.a.FileConnT {
				return
			}
			n++
			key := fmt.Sprintf("%s: %s fileConn.%s", safeFname(fn), shortName(name), f.Name())
			c.r.check(ok[fn], rule, key, "reference count changed by open/Close only", "the connection's reference count is changed outside the open function and the connection's Close: every extra pin needs a matching unpin on every path (database/sql never closes the statements of direct queries), otherwise the count never reaches zero, the index is never closed and the file stays locked after the last Close", c.w.ipos(i))
		})
	}
	if n == 0 {
		c.r.undecided(rule, "<vacuity>", "no update of the file connection's reference count found")
	}
}

func init() {
	addRule("C03", "C03.keyall — the function that hashes a list of operand keys encodes every element of the list into the hash input: its loop over the list has no exit other than the end of the list and no path through the body that skips the element; "+
		"C03.keyleaf — the cache key of an expression type without operands is computed from all of its (string) fields.",
		func(c *Ctx) {
			keyAllRule(c, "C03.keyall")
			keyLeafRule(c, "C03.keyleaf")
		})
}

// keyAllRule: module functions that take a []uint64 parameter and feed a recognised hash (the key combiner) iterate over
// the whole parameter: the range loop over it is left only through its header test, and every path through its body
// passes an encoder call that takes the current element.
func keyAllRule(c *Ctx, rule string) {
	n := 0
	for _, fn := range c.w.ModFuncs {
		if c.w.pkgPathOf(fn) != pkgRoot || fn.Blocks == nil {
			continue
		}
		var list *ssa.Parameter
		for _, p := range fn.Params {
			if sl, ok := p.Type().Underlying().(*types.Slice); ok {
				if b, ok := sl.Elem().Underlying().(*types.Basic); ok && b.Kind() == types.Uint64 {
					list = p
				}
			}
		}
		if list == nil {
			continue
		}
		hashes := false
		allInstrs(fn, func(i ssa.Instruction) {
			if call, ok := i.(*ssa.Call); ok && hashSinks[calleeName(&call.Call)] {
				hashes = true
			}
		})
		if !hashes {
			continue
		}
		n++
		name := safeFname(fn)
		// element loads: list[i]
		var elems []*ssa.UnOp
		allInstrs(fn, func(i ssa.Instruction) {
			if ld, ok := i.(*ssa.UnOp); ok {
				if ia, ok := ld.X.(*ssa.IndexAddr); ok && ia.X == ssa.Value(list) {
					elems = append(elems, ld)
				}
			}
		})
		if len(elems) == 0 {
			c.r.bad(rule, name, "the list of operand keys is never read element by element: the operands' keys do not reach the hash", []string{c.w.pos(fn.Pos())})
			continue
		}
		okAll, why := true, ""
		var at ssa.Instruction = elems[0]
		for _, ld := range elems {
			var loop *loopInfo
			for _, l := range loopsOf(fn) {
				if l.blocks[ld.Block()] {
					loop = l
				}
			}
			if loop == nil {
				okAll, why, at = false, "an element of the key list is read outside a loop over the list (only some positions are hashed)", ld
				continue
			}
			// index: a counter from the first element, bounded by len(list) in the header
			ia := ld.X.(*ssa.IndexAddr)
			ib, io := lin(ia.Index)
			if lb, isCtr := phiLower(ib); !isCtr || lb+io != 0 {
				okAll, why, at = false, "the loop over the key list does not start at its first element", ld
				continue
			}
			// exits of the loop: only from the header
			for b := range loop.blocks {
				for _, s := range b.Succs {
					if !loop.blocks[s] && b != loop.header {
						okAll, why, at = false, "the loop over the key list can be left before the end of the list (break/return in the body): operands beyond that point do not influence the key", b.Instrs[len(b.Instrs)-1]
					}
				}
				if _, isRet := b.Instrs[len(b.Instrs)-1].(*ssa.Return); isRet && b != loop.header {
					okAll, why, at = false, "the loop over the key list returns from inside the body", b.Instrs[len(b.Instrs)-1]
				}
			}
			// upper bound: the header compares the counter with len(list)
			upper := false
			for _, cm := range cmpsAt(ld) {
				if cm.Y != nil && cm.Op == token.LSS && cm.X == ia.Index && isLenOf(cm.Y, list) {
					upper = true
				}
			}
			if !upper {
				okAll, why, at = false, "the loop over the key list is not bounded by the length of the list (it may stop earlier)", ld
			}
			// every path from the element load back to the header encodes the element
			isEnc := func(i ssa.Instruction) bool {
				call, ok := i.(*ssa.Call)
				if !ok {
					return false
				}
				for _, a := range call.Call.Args {
					if peelConv(a) == ssa.Value(ld) {
						return true
					}
				}
				return false
			}
			hdr := loop.header.Instrs[0]
			if p := c.fc.pathFrom(fn, ld, func(i ssa.Instruction) bool { return i == hdr }, isEnc, func(pred, succ *ssa.BasicBlock) bool { return !loop.blocks[succ] }); p != nil {
				okAll, why, at = false, "an element of the key list can be skipped (a path through the loop body does not encode it)", p[len(p)-1]
			}
		}
		c.r.check(okAll, rule, name, "every element of the key list is encoded into the hash input", why+": expressions that differ only in the skipped operands share a cache entry", c.w.ipos(at))
	}
	if n == 0 {
		c.r.ok(rule, "package updog", "no function hashes a list of keys passed as a parameter (shape not present; C03.keyhash/keyoperands apply)")
	}
}

// keyLeafRule: for expression types without Expression-typed fields, every string field is read by cacheKey and the value
// read flows into the call whose result is returned (the hash), so two leaves that differ in any field get different keys.
func keyLeafRule(c *Ctx, rule string) {
	for _, T := range c.a.ExprImpls {
		if hasExprFields(c, T) {
			continue
		}
		st, ok := T.Underlying().(*types.Struct)
		if !ok {
			continue
		}
		fn := c.a.methodOf(T, "cacheKey")
		name := "(*" + T.Obj().Name() + ").cacheKey"
		if fn == nil {
			c.r.undecided(rule, name, "method not found")
			continue
		}
		// values that flow into a returned call (transitively through arguments, conversions, appends, concatenations)
		reach := map[ssa.Value]bool{}
		var mark func(v ssa.Value, depth int)
		mark = func(v ssa.Value, depth int) {
			if v == nil || reach[v] || depth > 12 {
				return
			}
			reach[v] = true
			switch x := v.(type) {
			case *ssa.Call:
				for _, a := range x.Call.Args {
					mark(a, depth+1)
				}
				// a module helper: what its parameters flow into is approximated by "all arguments matter"
			case *ssa.Convert:
				mark(x.X, depth+1)
			case *ssa.ChangeType:
				mark(x.X, depth+1)
			case *ssa.BinOp:
				mark(x.X, depth+1)
				mark(x.Y, depth+1)
			case *ssa.Phi:
				for _, e := range x.Edges {
					mark(e, depth+1)
				}
			case *ssa.Slice:
				mark(x.X, depth+1)
			case *ssa.MakeInterface:
				mark(x.X, depth+1)
			}
		}
		allInstrs(fn, func(i ssa.Instruction) {
			if ret, ok := i.(*ssa.Return); ok && !isRecoverBlockReturn(ret) {
				for _, rv := range retVals(ret) {
					mark(rv, 0)
				}
			}
		})
		var missing []string
		for i := 0; i < st.NumFields(); i++ {
			f := st.Field(i)
			if b, ok := f.Type().Underlying().(*types.Basic); !ok || b.Kind() != types.String {
				continue
			}
			used := false
			for v := range reach {
				if ld, ok := v.(*ssa.UnOp); ok {
					if fa, ok := ld.X.(*ssa.FieldAddr); ok && fieldOf(fa.X.Type(), fa.Field) == f {
						used = true
					}
				}
			}
			if !used {
				missing = append(missing, f.Name())
			}
		}
		c.r.check(len(missing) == 0, rule, name, "all fields reach the key", fmt.Sprintf("the cache key of this expression type does not depend on its field(s) %v: two tests that differ only there share a cache entry", missing), c.w.pos(fn.Pos()))
	}
}
