package main

import (
	"fmt"
	"go/token"
	"go/types"
	"strings"

	"golang.org/x/tools/go/ssa"
)

// Rules added after the fourth round of independently seeded changes. Each is a who-may-do-what rule: it names a kind
// of state or operation and the only places that may touch it.

func init() {
	addRule("C05", "C05.nostate — the library package keeps no mutable package-level state (no store to a package-level variable, no update of a package-level map or sync.Map outside initialisation): what a file name or a Query pointer meant in an earlier call cannot leak into a later open or execution; "+
		"C05.bucketfield — no bbolt bucket is kept in a field of a writer, index or getter (a bucket dies with its transaction; the writers commit and re-begin theirs); "+
		"C05.rowidflow — in the big writer's merge, a row id decoded from a temp key goes straight into a bitmap Add in the same iteration; it is not buffered in loop-carried variables (run building across the value boundary).",
		func(c *Ctx) {
			noPackageStateRule(c, "C05.nostate")
			bucketFieldRule(c, "C05.bucketfield")
			rowIDFlowRule(c, "C05.rowidflow")
		})
	addRule("C01", "C01.rowidflow (= C05.rowidflow).", func(c *Ctx) { rowIDFlowRule(c, "C01.rowidflow") })
	addRule("C04", "C04.nostate (= C05.nostate: package-level objects — a memo, a registry, a shared hasher or buffer — are written by every caller; concurrent queries race on them).", func(c *Ctx) { noPackageStateRule(c, "C04.nostate") })
	addRule("C15", "C15.nostate (= C05.nostate: a process-wide registry of open files outlives a failed open).", func(c *Ctx) { noPackageStateRule(c, "C15.nostate") })
	addRule("C08", "C08.nostate (= C05.nostate: a memo keyed by the Query pointer makes the second index answer with the first one's data).", func(c *Ctx) { noPackageStateRule(c, "C08.nostate") })
	addRule("C03", "C03.nostate (= C05.nostate); C03.cachesites — the result cache is read and written only by the eval methods of the expression types (keyed by their own cacheKey, see keypair): other code has no expression whose key it could use.",
		func(c *Ctx) {
			noPackageStateRule(c, "C03.nostate")
			cacheSitesRule(c, "C03.cachesites")
		})
	addRule("C17", "C17.refsites — the connection's reference count is changed only in the open function's critical section and in the connection's Close (a second pin/unpin protocol cannot leak references and keep the file locked after the last Close).",
		func(c *Ctx) { refSitesRule(c, "C17.refsites") })
}

// noPackageStateRule: no function of the library package (outside package initialisation) mutates a package-level
// variable. Recognised mutations: store to the variable, update/delete of a map held in it, append-assign, and the
// mutating methods of a package-level sync.Map. Exempt: a store inside the function handed to (*sync.Once).Do /
// sync.OnceFunc / OnceValue(s) (lazy initialisation of an immutable value), sync.Pool, atomic counters and mutexes
// (they carry no answer-relevant state).
func noPackageStateRule(c *Ctx, rule string) {
	syncMapMut := map[string]bool{"Store": true, "LoadOrStore": true, "LoadAndDelete": true, "Delete": true, "Swap": true, "CompareAndSwap": true, "CompareAndDelete": true, "Clear": true}
	isOwnGlobal := func(v ssa.Value) *ssa.Global {
		g, ok := v.(*ssa.Global)
		if !ok || g.Pkg == nil || g.Pkg.Pkg.Path() != pkgRoot {
			return nil
		}
		return g
	}
	// closures handed to sync.Once
	onceFns := map[*ssa.Function]bool{}
	for _, fn := range c.w.ModFuncs {
		allInstrs(fn, func(i ssa.Instruction) {
			cc := callCommon(i)
			if cc == nil {
				return
			}
			n := calleeName(cc)
			if n == "(*sync.Once).Do" || strings.HasPrefix(n, "sync.Once") {
				for _, a := range cc.Args {
					switch v := a.(type) {
					case *ssa.MakeClosure:
						if f, ok := v.Fn.(*ssa.Function); ok {
							onceFns[f] = true
						}
					case *ssa.Function:
						onceFns[v] = true
					}
				}
			}
		})
	}
	n := 0
	for _, fn := range c.w.ModFuncs {
		if c.w.pkgPathOf(fn) != pkgRoot || onceFns[fn] || fn.Name() == "init" {
			continue
		}
		allInstrs(fn, func(i ssa.Instruction) {
			var g *ssa.Global
			what := ""
			switch x := i.(type) {
			case *ssa.Store:
				if g = isOwnGlobal(x.Addr); g != nil {
					what = "assigned"
				}
			case *ssa.MapUpdate:
				if ld, ok := x.Map.(*ssa.UnOp); ok {
					if g = isOwnGlobal(ld.X); g != nil {
						what = "updated (map entry stored)"
					}
				}
			case *ssa.Call:
				if b, ok := x.Call.Value.(*ssa.Builtin); ok && (b.Name() == "delete" || b.Name() == "clear") && len(x.Call.Args) > 0 {
					if ld, ok := x.Call.Args[0].(*ssa.UnOp); ok {
						if g = isOwnGlobal(ld.X); g != nil {
							what = "updated (" + b.Name() + ")"
						}
					}
				}
				name := calleeName(&x.Call)
				if strings.HasPrefix(name, "(*sync.Map).") && syncMapMut[name[len("(*sync.Map)."):]] && len(x.Call.Args) > 0 {
					if g = isOwnGlobal(x.Call.Args[0]); g != nil {
						what = "updated (sync.Map." + name[len("(*sync.Map)."):] + ")"
					}
				}
				// a method with pointer receiver called on a package-level object of a library type that is neither a
				// synchronisation primitive nor a logger: a shared hasher, buffer, builder, random source … is state that
				// every caller mutates (and races on)
				if g == nil && !x.Call.IsInvoke() && len(x.Call.Args) > 0 {
					if f := calleeFunc(&x.Call); f != nil && f.Signature.Recv() != nil && !c.w.inModule(f) {
						recv := x.Call.Args[0]
						var gg *ssa.Global
						if ld, ok := recv.(*ssa.UnOp); ok && ld.Op == token.MUL {
							gg = isOwnGlobal(ld.X) // var h = xxhash.New(): the pointer is loaded from the variable
						} else {
							gg = isOwnGlobal(recv) // var b bytes.Buffer: the variable's address is the receiver
						}
						if gg != nil {
							if _, isPtr := f.Signature.Recv().Type().(*types.Pointer); isPtr {
								pkg := ""
								if f.Pkg != nil {
									pkg = f.Pkg.Pkg.Path()
								}
								switch pkg {
								case "sync", "sync/atomic", "log", "log/slog":
								default:
									g = gg
									what = "used through " + shortName(name) + " (a method that changes the shared object)"
								}
							}
						}
					}
				}
			}
			if g == nil {
				return
			}
			n++
			c.r.bad(rule, fmt.Sprintf("%s: %s", safeFname(fn), g.Name()), fmt.Sprintf("package-level variable %s is %s at run time: the library keeps state across calls that is keyed by something (a file name, a Query pointer) which does not identify what is on disk or which index is asked — a later open or execution is answered from an earlier one's data", g.Name(), what), []string{c.w.ipos(i)})
		})
	}
	if n == 0 {
		c.r.ok(rule, "package updog", "no package-level variable is mutated outside initialisation")
	}
}

// bucketFieldRule: no store of a *bbolt.Bucket into a field of a long-lived object (writers, index, getters).
func bucketFieldRule(c *Ctx, rule string) {
	long := map[*types.Named]bool{}
	for _, t := range []*types.Named{c.a.MemWriterT, c.a.BigWriterT, c.a.IndexT, c.a.PreloadedT, c.a.OnDemandT, c.a.LRUT} {
		if t != nil {
			long[t] = true
		}
	}
	n := 0
	for _, fn := range c.w.ModFuncs {
		if c.w.pkgPathOf(fn) != pkgRoot {
			continue
		}
		allInstrs(fn, func(i ssa.Instruction) {
			st, ok := i.(*ssa.Store)
			if !ok || !typeIs(st.Val.Type(), pkgBolt, "Bucket") {
				return
			}
			fa, ok := st.Addr.(*ssa.FieldAddr)
			if !ok {
				return
			}
			f := fieldOf(fa.X.Type(), fa.Field)
			if f == nil || !long[c.w.ownerOf(f)] {
				return
			}
			n++
			c.r.bad(rule, fmt.Sprintf("%s: store %s.%s", safeFname(fn), c.w.ownerOf(f).Obj().Name(), f.Name()), "a bbolt bucket is kept in a field of an object that outlives the transaction the bucket belongs to: after the next Commit the bucket is dead (\"tx closed\"), so rows beyond the commit batch are lost or rejected", []string{c.w.ipos(i)})
		})
	}
	if n == 0 {
		c.r.ok(rule, "package updog", "no bucket is stored in a writer, index or getter field")
	}
}

// rowIDFlowRule: in the function that holds the big writer's merge loop, every 32-bit value decoded from a cursor key
// (the row id part of the temp key) is used only as the argument of a bitmap Add (through integer conversions). A use
// as a phi operand, in arithmetic, in a comparison or a store means ids are buffered across iterations; the run that is
// flushed later can then span the point where the value index changes.
func rowIDFlowRule(c *Ctx, rule string) {
	if c.a.BigFlush == nil {
		return
	}
	addNames := map[string]bool{"Add": true, "AddInt": true, "CheckedAdd": true}
	n := 0
	for _, fn := range c.scope(c.a.BigFlush, 2) {
		allInstrs(fn, func(i ssa.Instruction) {
			call, ok := i.(*ssa.Call)
			if !ok || !strings.HasPrefix(calleeName(&call.Call), "(encoding/binary.") || !strings.HasSuffix(calleeName(&call.Call), ").Uint32") {
				return
			}
			src := call.Call.Args[len(call.Call.Args)-1]
			if sl, ok := src.(*ssa.Slice); ok {
				src = sl.X
			}
			if !isCursorKey(src) && !boundToCursorKey(c, src) {
				return
			}
			n++
			key := fmt.Sprintf("%s: row id#%d", safeFname(fn), n)
			bad := ""
			var badAt ssa.Instruction
			seen := map[ssa.Value]bool{}
			var follow func(v ssa.Value)
			follow = func(v ssa.Value) {
				if seen[v] || bad != "" {
					return
				}
				seen[v] = true
				for _, u := range referrers(v) {
					switch x := u.(type) {
					case *ssa.Convert:
						follow(x)
					case *ssa.ChangeType:
						follow(x)
					case *ssa.DebugRef:
					case *ssa.Call:
						nm := calleeName(&x.Call)
						if strings.HasPrefix(nm, "(*"+roaringPkg+".Bitmap).") && addNames[nm[len("(*"+roaringPkg+".Bitmap)."):]] {
							continue
						}
						// a helper that adds its parameter: follow the parameter
						if h := calleeFunc(&x.Call); h != nil && c.w.inModule(h) && h.Blocks != nil {
							for k, a := range x.Call.Args {
								if a == v && k < len(h.Params) {
									follow(h.Params[k])
								}
							}
							continue
						}
						bad, badAt = "passed to "+shortName(nm), u
					case *ssa.Return:
						// a decoding helper (`decodeTempKey(k) (valueIdx, rowID, err)`) hands the id to its callers: follow the
						// result at every call site. A helper that is also used as a function value has callers that are
						// not seen: where the id goes is not known.
						h := x.Parent()
						if c.usedAsValue(h) {
							bad, badAt = "returned by "+safeFname(h)+", which is also used as a function value,", u
							continue
						}
						for idx, rv := range x.Results {
							if rv != v {
								continue
							}
							for _, g := range c.w.ModFuncs {
								allInstrs(g, func(j ssa.Instruction) {
									if hc, ok := j.(*ssa.Call); ok && calleeFunc(&hc.Call) == h {
										if res := resultValue(hc, idx); res != nil {
											follow(res)
										}
									}
								})
							}
						}
					case *ssa.Phi:
						bad, badAt = "carried into the next iteration (phi)", u
					case *ssa.BinOp:
						bad, badAt = "used in arithmetic or a comparison", u
					case *ssa.Store:
						bad, badAt = "stored in a variable", u
					default:
						bad, badAt = fmt.Sprintf("used by %T", u), u
					}
				}
			}
			follow(call)
			if bad != "" {
				c.r.bad(rule, key, "a row id read from the sorted temp keys is "+bad+" instead of going straight into the current value's bitmap: ids buffered across iterations can be flushed into the wrong value's bitmap when the value changes", []string{c.w.ipos(badAt)})
			} else {
				c.r.ok(rule, key, "decoded row id goes straight into a bitmap Add", c.w.ipos(call))
			}
		})
	}
	if n == 0 {
		c.r.undecided(rule, "<vacuity>", "no row id decoded from a cursor key found in the big writer's flush")
	}
}

// boundToCursorKey: src is a parameter of a decoding helper and some call site in the module passes a cursor key (or a
// re-slice of one) for it: the helper decodes temp keys. A helper of a helper is followed once more.
func boundToCursorKey(c *Ctx, src ssa.Value) bool {
	var bound func(v ssa.Value, depth int) bool
	bound = func(v ssa.Value, depth int) bool {
		p, ok := peel(v).(*ssa.Parameter)
		if !ok || depth > 1 || p.Parent() == nil {
			return false
		}
		for _, bs := range c.bindingSites(p.Parent(), p) {
			arg := bs.arg
			if sl, ok := arg.(*ssa.Slice); ok {
				arg = sl.X
			}
			if isCursorKey(arg) || bound(arg, depth+1) {
				return true
			}
		}
		return false
	}
	return bound(src, 0)
}

// cacheSitesRule: Cache.Get / Cache.Put are invoked only from eval methods of the expression types, or from a helper
// all of whose callers are such methods.
func cacheSitesRule(c *Ctx, rule string) {
	if c.a.CacheIface == nil || c.a.Execute == nil {
		return
	}
	isEval := func(fn *ssa.Function) bool {
		if fn == nil || fn.Signature.Recv() == nil || fn.Name() != evalName {
			return false
		}
		n := namedOf(fn.Signature.Recv().Type())
		for _, t := range c.a.ExprImpls {
			if t == n {
				return true
			}
		}
		return false
	}
	callers := func(fn *ssa.Function) []*ssa.Function {
		var out []*ssa.Function
		if node := c.w.CG.Nodes[fn]; node != nil {
			for _, in := range node.In {
				if in.Caller != nil && in.Caller.Func != nil && c.w.inModule(in.Caller.Func) {
					out = append(out, in.Caller.Func)
				}
			}
		}
		return out
	}
	var allowed func(fn *ssa.Function, depth int) bool
	allowed = func(fn *ssa.Function, depth int) bool {
		if isEval(fn) {
			return true
		}
		if depth > 2 {
			return false
		}
		cs := callers(fn)
		if len(cs) == 0 {
			return false
		}
		for _, cl := range cs {
			if !allowed(cl, depth+1) {
				return false
			}
		}
		return true
	}
	n := 0
	for _, fn := range c.w.reach(c.a.Execute).sorted() {
		if c.w.pkgPathOf(fn) != pkgRoot {
			continue
		}
		allInstrs(fn, func(i ssa.Instruction) {
			call, ok := i.(*ssa.Call)
			if !ok || !call.Call.IsInvoke() || namedOf(call.Call.Value.Type()) != c.a.CacheIface {
				return
			}
			m := call.Call.Method.Name()
			if m != "Get" && m != "Put" {
				return
			}
			n++
			key := fmt.Sprintf("%s: Cache.%s#%d", safeFname(fn), m, n)
			c.r.check(allowed(fn, 0), rule, key, "cache used by an expression's evaluation", "the result cache is used outside the eval methods of the expression types: cache keys identify expressions, so a bitmap stored from other code (an intermediate group-by intersection, say) is stored under the key of an expression it is not the result of, and later queries are answered with it", c.w.ipos(call))
		})
	}
	if n == 0 {
		c.r.undecided(rule, "<vacuity>", "no use of the Cache interface reachable from Execute")
	}
}

// refSitesRule: the atomic reference count of the file connection is modified only in the open function (and the helper
// holding its critical section) and in the connection's Close (and its helper).
func refSitesRule(c *Ctx, rule string) {
	if c.a.FileConnT == nil || c.a.DrvOpenFile == nil || c.a.FileConnClose == nil {
		return
	}
	ok := map[*ssa.Function]bool{}
	for _, f := range c.scope(c.a.DrvOpenFile, 2) {
		ok[f] = true
	}
	for _, f := range c.scope(c.a.FileConnClose, 2) {
		ok[f] = true
	}
	n := 0
	for _, fn := range c.w.ModFuncs {
		if c.w.pkgPathOf(fn) != pkgDriver {
			continue
		}
		allInstrs(fn, func(i ssa.Instruction) {
			cc := callCommon(i)
			if cc == nil {
				return
			}
			name := calleeName(cc)
			if !strings.HasPrefix(name, "(*sync/atomic.Int") && !strings.HasPrefix(name, "sync/atomic.Add") && !strings.HasPrefix(name, "(*sync/atomic.Uint") {
				return
			}
			if !(strings.HasSuffix(name, ".Add") || strings.HasSuffix(name, ".Store") || strings.HasSuffix(name, ".Swap") || strings.HasSuffix(name, ".CompareAndSwap") || strings.HasPrefix(name, "sync/atomic.Add")) {
				return
			}
			if len(cc.Args) == 0 {
				return
			}
			f := path(cc.Args[0]).lastField()
			if f == nil || c.w.ownerOf(f) != c.a.FileConnT {
				return
			}
			n++
			key := fmt.Sprintf("%s: %s fileConn.%s", safeFname(fn), shortName(name), f.Name())
			c.r.check(ok[fn], rule, key, "reference count changed by open/Close only", "the connection's reference count is changed outside the open function and the connection's Close: every extra pin needs a matching unpin on every path (database/sql never closes the statements of direct queries), otherwise the count never reaches zero, the index is never closed and the file stays locked after the last Close", c.w.ipos(i))
		})
	}
	if n == 0 {
		c.r.undecided(rule, "<vacuity>", "no update of the file connection's reference count found")
	}
}

func init() {
	addRule("C03", "C03.keyall — the function that hashes a list of operand keys encodes every element of the list into the hash input: its loop over the list has no exit other than the end of the list and no path through the body that skips the element; "+
		"C03.keyleaf — the cache key of an expression type without operands is computed from all of its (string) fields.",
		func(c *Ctx) {
			keyAllRule(c, "C03.keyall")
			keyLeafRule(c, "C03.keyleaf")
		})
}

// keyAllRule: module functions that take a []uint64 parameter and feed a recognised hash (the key combiner) iterate over
// the whole parameter: the range loop over it is left only through its header test, and every path through its body
// passes an encoder call that takes the current element.
func keyAllRule(c *Ctx, rule string) {
	n := 0
	for _, fn := range c.w.ModFuncs {
		if c.w.pkgPathOf(fn) != pkgRoot || fn.Blocks == nil {
			continue
		}
		var list *ssa.Parameter
		for _, p := range fn.Params {
			if sl, ok := p.Type().Underlying().(*types.Slice); ok {
				if b, ok := sl.Elem().Underlying().(*types.Basic); ok && b.Kind() == types.Uint64 {
					list = p
				}
			}
		}
		if list == nil {
			continue
		}
		hashes := false
		allInstrs(fn, func(i ssa.Instruction) {
			if call, ok := i.(*ssa.Call); ok && hashSinks[calleeName(&call.Call)] {
				hashes = true
			}
		})
		if !hashes {
			continue
		}
		n++
		name := safeFname(fn)
		// element loads: list[i]
		var elems []*ssa.UnOp
		allInstrs(fn, func(i ssa.Instruction) {
			if ld, ok := i.(*ssa.UnOp); ok {
				if ia, ok := ld.X.(*ssa.IndexAddr); ok && ia.X == ssa.Value(list) {
					elems = append(elems, ld)
				}
			}
		})
		if len(elems) == 0 {
			c.r.bad(rule, name, "the list of operand keys is never read element by element: the operands' keys do not reach the hash", []string{c.w.pos(fn.Pos())})
			continue
		}
		okAll, why := true, ""
		var at ssa.Instruction = elems[0]
		for _, ld := range elems {
			var loop *loopInfo
			for _, l := range loopsOf(fn) {
				if l.blocks[ld.Block()] {
					loop = l
				}
			}
			if loop == nil {
				okAll, why, at = false, "an element of the key list is read outside a loop over the list (only some positions are hashed)", ld
				continue
			}
			// index: a counter from the first element, bounded by len(list) in the header
			ia := ld.X.(*ssa.IndexAddr)
			ib, io := lin(ia.Index)
			if lb, isCtr := phiLower(ib); !isCtr || lb+io != 0 {
				okAll, why, at = false, "the loop over the key list does not start at its first element", ld
				continue
			}
			// exits of the loop: only from the header
			for b := range loop.blocks {
				for _, s := range b.Succs {
					if !loop.blocks[s] && b != loop.header {
						okAll, why, at = false, "the loop over the key list can be left before the end of the list (break/return in the body): operands beyond that point do not influence the key", b.Instrs[len(b.Instrs)-1]
					}
				}
				if _, isRet := b.Instrs[len(b.Instrs)-1].(*ssa.Return); isRet && b != loop.header {
					okAll, why, at = false, "the loop over the key list returns from inside the body", b.Instrs[len(b.Instrs)-1]
				}
			}
			// upper bound: the header compares the counter with len(list)
			upper := false
			for _, cm := range cmpsAt(ld) {
				if cm.Y != nil && cm.Op == token.LSS && cm.X == ia.Index && isLenOf(cm.Y, list) {
					upper = true
				}
			}
			if !upper {
				okAll, why, at = false, "the loop over the key list is not bounded by the length of the list (it may stop earlier)", ld
			}
			// every path from the element load back to the header encodes the element
			isEnc := func(i ssa.Instruction) bool {
				call, ok := i.(*ssa.Call)
				if !ok {
					return false
				}
				for _, a := range call.Call.Args {
					if peelConv(a) == ssa.Value(ld) {
						return true
					}
				}
				return false
			}
			hdr := loop.header.Instrs[0]
			if p := c.fc.pathFrom(fn, ld, func(i ssa.Instruction) bool { return i == hdr }, isEnc, func(pred, succ *ssa.BasicBlock) bool { return !loop.blocks[succ] }); p != nil {
				okAll, why, at = false, "an element of the key list can be skipped (a path through the loop body does not encode it)", p[len(p)-1]
			}
		}
		c.r.check(okAll, rule, name, "every element of the key list is encoded into the hash input", why+": expressions that differ only in the skipped operands share a cache entry", c.w.ipos(at))
	}
	if n == 0 {
		c.r.ok(rule, "package updog", "no function hashes a list of keys passed as a parameter (shape not present; C03.keyhash/keyoperands apply)")
	}
}

// keyLeafRule: for expression types without Expression-typed fields, every string field is read by cacheKey and the value
// read flows into the call whose result is returned (the hash), so two leaves that differ in any field get different keys.
func keyLeafRule(c *Ctx, rule string) {
	for _, T := range c.a.ExprImpls {
		if hasExprFields(c, T) {
			continue
		}
		st, ok := T.Underlying().(*types.Struct)
		if !ok {
			continue
		}
		fn := c.a.methodOf(T, c.a.KeyName)
		name := "(*" + T.Obj().Name() + ")." + nameOr(c.a.KeyName, "cacheKey")
		if fn == nil {
			c.r.undecided(rule, name, "method not found")
			continue
		}
		// values that flow into a returned call (transitively through arguments, conversions, appends, concatenations)
		reach := map[ssa.Value]bool{}
		var mark func(v ssa.Value, depth int)
		mark = func(v ssa.Value, depth int) {
			if v == nil || reach[v] || depth > 12 {
				return
			}
			reach[v] = true
			switch x := v.(type) {
			case *ssa.Call:
				for _, a := range x.Call.Args {
					mark(a, depth+1)
				}
				// a module helper: what its parameters flow into is approximated by "all arguments matter"
			case *ssa.Convert:
				mark(x.X, depth+1)
			case *ssa.ChangeType:
				mark(x.X, depth+1)
			case *ssa.BinOp:
				mark(x.X, depth+1)
				mark(x.Y, depth+1)
			case *ssa.Phi:
				for _, e := range x.Edges {
					mark(e, depth+1)
				}
			case *ssa.Slice:
				mark(x.X, depth+1)
			case *ssa.MakeInterface:
				mark(x.X, depth+1)
			}
		}
		allInstrs(fn, func(i ssa.Instruction) {
			if ret, ok := i.(*ssa.Return); ok && !isRecoverBlockReturn(ret) {
				for _, rv := range retVals(ret) {
					mark(rv, 0)
				}
			}
		})
		var missing []string
		for i := 0; i < st.NumFields(); i++ {
			f := st.Field(i)
			if b, ok := f.Type().Underlying().(*types.Basic); !ok || b.Kind() != types.String {
				continue
			}
			used := false
			for v := range reach {
				if ld, ok := v.(*ssa.UnOp); ok {
					if fa, ok := ld.X.(*ssa.FieldAddr); ok && fieldOf(fa.X.Type(), fa.Field) == f {
						used = true
					}
				}
			}
			if !used {
				missing = append(missing, f.Name())
			}
		}
		c.r.check(len(missing) == 0, rule, name, "all fields reach the key", fmt.Sprintf("the cache key of this expression type does not depend on its field(s) %v: two tests that differ only there share a cache entry", missing), c.w.pos(fn.Pos()))
	}
}

func init() {
	addRule("C01", "C01.colcheck — every evaluation of an equality test checks its column against the schema: either (*ExprEqual).eval looks its own column up on every path to a successful return, or the pre-pass that does it is a traversal whose type switch has a case for every expression type (a missing case leaves the tests below that node unchecked).",
		func(c *Ctx) { colCheckRule(c, "C01.colcheck") })
}

// colCheckRule: see the description above. The lookup is the comma-ok lookup in the schema's column map keyed by the
// Column field of an ExprEqual.
func colCheckRule(c *Ctx, rule string) {
	if c.a.SchemaT == nil || c.a.Execute == nil {
		return
	}
	colsF := structFieldNamed(c.a.SchemaT, "Columns")
	var eqT *types.Named
	for _, t := range c.a.ExprImpls {
		if !hasExprFields(c, t) {
			eqT = t
		}
	}
	if colsF == nil || eqT == nil {
		c.r.undecided(rule, "<anchor>", "schema column map or the leaf expression type not found")
		return
	}
	isColLookup := func(i ssa.Instruction) bool {
		lk, ok := i.(*ssa.Lookup)
		if !ok || !lk.CommaOk || path(lk.X).lastField() != colsF {
			return false
		}
		f := path(lk.Index).lastField()
		return f != nil && c.w.ownerOf(f) == eqT
	}
	ev := c.a.methodOf(eqT, c.a.EvalName) // (unexported interface method: resolved name, rules_ag10.go)
	if ev != nil {
		has := false
		allInstrs(ev, func(i ssa.Instruction) {
			if isColLookup(i) {
				has = true
			}
		})
		if has {
			if p := c.fc.pathAvoiding(ev, nil, isSuccessReturn, isColLookup); p != nil {
				c.r.bad(rule, safeFname(ev), "the equality test can be evaluated without its column having been looked up in the schema: a test on a column that occurs in no row yields a count instead of an error", []string{c.w.ipos(p[len(p)-1])}, c.fc.witnessStrings(p)...)
			} else {
				c.r.ok(rule, safeFname(ev), "every successful evaluation has looked the column up", c.w.pos(ev.Pos()))
			}
			return
		}
	}
	// a pre-pass: functions reachable from Execute that hold the lookup
	n := 0
	for _, fn := range c.w.reach(c.a.Execute).sorted() {
		has := false
		allInstrs(fn, func(i ssa.Instruction) {
			if isColLookup(i) {
				has = true
			}
		})
		if !has {
			continue
		}
		n++
		handled := map[*types.Named]bool{}
		allInstrs(fn, func(i ssa.Instruction) {
			if ta, ok := i.(*ssa.TypeAssert); ok && types.Identical(ta.X.Type(), c.a.ExprIface) {
				if nt := namedOf(ta.AssertedType); nt != nil {
					handled[nt] = true
				}
			}
		})
		var missing []string
		for _, t := range c.a.ExprImpls {
			if !handled[t] {
				missing = append(missing, t.Obj().Name())
			}
		}
		c.r.check(len(missing) == 0, rule, safeFname(fn), "the traversal that checks the columns handles every expression type", fmt.Sprintf("the traversal that checks the columns of the equality tests has no case for %v: tests below such a node are evaluated without the check, and an unknown column there yields a count instead of an error", missing), c.w.pos(fn.Pos()))
	}
	if n == 0 {
		c.r.bad(rule, "Execute", "nothing reachable from Execute looks the column of an equality test up in the schema", []string{c.w.pos(c.a.Execute.Pos())})
	}
}

func init() {
	addRule("C09", "C09.chainop — the loop that collects the operands of an AND / OR node continues on exactly one operator token kind (one constant, or the builder's own operator parameter): a chain that mixes '&' and '|' is not a sentence of the grammar and must not be folded into one node.",
		func(c *Ctx) { chainLoopRule(c, "C09.chainop") })
}

// chainLoopRule: see rules_r8.go (round 8 rewrite of the round-5 refutation rule).

func init() {
	addRule("C12", "C12.fieldorder — a group's values reach the row in the group's own field order: a ResultField value is appended, or stored at the very index it was read from, never at a position derived from its column name (repeated group-by columns share a name).",
		func(c *Ctx) { fieldOrderRule(c, "C12.fieldorder") })
	addRule("C17", "C17.pairing — every map of the driver that the open function adds an entry to is cleared of that entry on the path on which the connection's Close closes the index (state that outlives the last handle changes what later opens do); a map that is provably a memo of a pure function of its key with plain-data values (parsed option strings) is not such state.",
		func(c *Ctx) { driverMapPairingRule(c, "C17.pairing") })
}

// fieldOrderRule (refutation): in the function that builds the rows, every load of ResultField.Value that is stored
// through an index expression must use the index its ResultField element was read with.
func fieldOrderRule(c *Ctx, rule string) {
	if c.a.NewRows == nil {
		return
	}
	valF := c.w.field(pkgRoot, "ResultField", "Value")
	if valF == nil {
		return
	}
	n, bad := 0, 0
	for _, fn := range c.scope(c.a.NewRows, 2) {
		allInstrs(fn, func(i ssa.Instruction) {
			ld, ok := i.(*ssa.UnOp)
			if !ok || ld.Op != token.MUL {
				return
			}
			fa, ok := ld.X.(*ssa.FieldAddr)
			if !ok || fieldOf(fa.X.Type(), fa.Field) != valF {
				return
			}
			// the element's own index in the Fields slice
			var srcIdx ssa.Value
			if ia, ok := fa.X.(*ssa.IndexAddr); ok {
				srcIdx = ia.Index
			}
			for _, u := range referrers(ld) {
				st, ok := u.(*ssa.Store)
				if !ok || st.Val != ssa.Value(ld) {
					continue
				}
				dst, ok := st.Addr.(*ssa.IndexAddr)
				if !ok {
					continue
				}
				if _, isArr := dst.X.Type().Underlying().(*types.Pointer); isArr {
					continue // the one-element array of a variadic append
				}
				n++
				if srcIdx == nil || dst.Index != srcIdx {
					bad++
					c.r.bad(rule, fmt.Sprintf("%s: value placement#%d", safeFname(fn), n), "a group's value is stored at a position that is not the position it has in the group's field list (a position looked up by column name, say): with a repeated group-by column two values land on one position and another stays empty", []string{c.w.ipos(st)})
				}
			}
		})
	}
	if bad == 0 {
		c.r.ok(rule, safeFname(c.a.NewRows), "values keep their position", c.w.pos(c.a.NewRows.Pos()))
	}
}

// driverMapPairingRule: map-typed fields of the driver type other than the connection cache itself (C17.evict covers
// that one) that the open function's scope updates must be deleted from on every path to the Index.Close call in the
// connection's Close scope. Exempt: a map that is a memo of a pure function of its key, kept by one accessor whose hit and
// miss branches return the same plain-data value (c17MemoMap, rules_ag30.go) — such an entry is not state of a connection.
func driverMapPairingRule(c *Ctx, rule string) {
	if c.a.DriverT == nil || c.a.DrvOpenFile == nil || c.a.FileConnClose == nil || c.a.IndexClose == nil {
		return
	}
	st, ok := c.a.DriverT.Underlying().(*types.Struct)
	if !ok {
		return
	}
	n := 0
	for i := 0; i < st.NumFields(); i++ {
		f := st.Field(i)
		m, isMap := f.Type().Underlying().(*types.Map)
		if !isMap || namedOf(m.Elem()) == c.a.FileConnT { // (the file connection type: by shape, rules_ag10.go)
			continue
		}
		inserted := false
		var at ssa.Instruction
		instrsOf(c.scope(c.a.DrvOpenFile, 2), func(ins ssa.Instruction) {
			if mu, ok := ins.(*ssa.MapUpdate); ok && path(mu.Map).lastField() == f {
				inserted, at = true, ins
			}
		})
		if !inserted {
			continue
		}
		n++
		key := "updogDriver." + f.Name()
		// the function that closes the index
		var closer *ssa.Function
		var closeCall ssa.Instruction
		for _, g := range c.scope(c.a.FileConnClose, 2) {
			allInstrs(g, func(ins ssa.Instruction) {
				if call, ok := ins.(*ssa.Call); ok && calleeFunc(&call.Call) == c.a.IndexClose {
					closer, closeCall = g, ins
				}
			})
		}
		if closer == nil {
			c.r.undecided(rule, key, "the connection's Close does not close the index in a function the rule follows", c.w.ipos(at))
			continue
		}
		isDel := func(ins ssa.Instruction) bool {
			call, ok := ins.(*ssa.Call)
			if !ok {
				return false
			}
			b, isB := call.Call.Value.(*ssa.Builtin)
			return isB && b.Name() == "delete" && len(call.Call.Args) > 0 && path(call.Call.Args[0]).lastField() == f
		}
		if p := c.fc.pathAvoiding(closer, nil, func(x ssa.Instruction) bool { return x == closeCall }, c.fc.ipAvoid(isDel)); p != nil {
			// a memo of a pure function of the key (parsed option strings, say) is not state of a connection: an entry that
			// outlives the last handle gives later opens exactly what they would compute themselves (c17MemoMap, rules_ag30.go)
			isMemo, why := c17PairingMemo(c, f)
			if isMemo {
				c.r.ok(rule, key, why, c.w.ipos(at))
				continue
			}
			wit := c.fc.witnessStrings(p)
			if why != "" {
				wit = append(wit, "(not a memo of a pure function of its key: "+why+")")
			}
			c.r.bad(rule, key, "the open function records something in this map of the driver, but the connection's Close closes the index without removing it: the entry outlives the last handle and changes what later opens of the file do (e.g. they are refused, or answered from stale state)", []string{c.w.ipos(at)}, wit...)
		} else {
			c.r.ok(rule, key, "the entry is removed before the index is closed", c.w.ipos(at))
		}
	}
	if n == 0 {
		c.r.ok(rule, "updogDriver", "the open function updates no driver map other than the connection cache")
	}
}

func init() {
	addRule("C14", "C14.evalnil — an expression's eval never reports success with a nil bitmap: every successful return yields the result of a roaring constructor/combinator, a cache hit, or a value a dominating (or edge) test shows to be non-nil — a nil result panics in the cache, in Execute or in the enclosing operator, and the handler has no recover (an AND without operands decodes fine from the wire).",
		func(c *Ctx) { evalNilRule(c, "C14.evalnil") })
}

func evalNilRule(c *Ctx, rule string) {
	var nonNil func(v ssa.Value, at ssa.Instruction, facts []cmp, depth int) bool
	nonNil = func(v ssa.Value, at ssa.Instruction, facts []cmp, depth int) bool {
		if depth > 6 || v == nil {
			return false
		}
		for _, cm := range facts {
			if cm.Op == token.NEQ && cm.Y != nil && cm.X == v && isNilConst(cm.Y) {
				return true
			}
		}
		switch x := v.(type) {
		case *ssa.Call:
			n := calleeName(&x.Call)
			if strings.HasPrefix(n, roaringPkg+".") || strings.HasPrefix(n, "(*"+roaringPkg+".Bitmap).") {
				return typeIs(x.Type(), roaringPkg, "Bitmap")
			}
			// a call of a function-typed parameter (`combine(elems...)` with roaring.FastAnd / FastOr passed for it): every
			// function passed at the call sites must be a roaring constructor/combinator or a module function whose returns are non-nil
			if fp, isParam := x.Call.Value.(*ssa.Parameter); isParam && depth < 3 {
				fn := fp.Parent()
				idx := -1
				for k, q := range fn.Params {
					if q == fp {
						idx = k
					}
				}
				node := c.w.CG.Nodes[fn]
				if idx < 0 || node == nil || len(node.In) == 0 {
					return false
				}
				for _, e := range node.In {
					if e.Site == nil || e.Site.Common().StaticCallee() != fn || idx >= len(e.Site.Common().Args) {
						return false
					}
					var g *ssa.Function
					switch a := peel(e.Site.Common().Args[idx]).(type) {
					case *ssa.MakeClosure:
						g, _ = a.Fn.(*ssa.Function)
					case *ssa.Function:
						g = a
					}
					if g == nil {
						return false
					}
					if c.w.pkgPathOf(g) == roaringPkg && typeIs(x.Type(), roaringPkg, "Bitmap") {
						continue
					}
					if !c.w.inModule(g) || g.Blocks == nil {
						return false
					}
					ok, cnt := true, 0
					allInstrs(g, func(i ssa.Instruction) {
						ret, isRet := i.(*ssa.Return)
						if !isRet || i.Parent() != g || isRecoverBlockReturn(ret) || len(ret.Results) == 0 {
							return
						}
						cnt++
						if !nonNil(retVals(ret)[0], ret, cmpsAt(ret), depth+1) {
							ok = false
						}
					})
					if !ok || cnt == 0 {
						return false
					}
				}
				return true
			}
			// a module helper all of whose successful returns are non-nil
			if h := calleeFunc(&x.Call); h != nil && c.w.inModule(h) && h.Blocks != nil && depth < 3 {
				ok, n := true, 0
				allInstrs(h, func(i ssa.Instruction) {
					ret, isRet := i.(*ssa.Return)
					if !isRet || isRecoverBlockReturn(ret) || len(ret.Results) == 0 {
						return
					}
					n++
					if !nonNil(retVals(ret)[0], ret, cmpsAt(ret), depth+1) {
						ok = false
					}
				})
				return ok && n > 0
			}
		case *ssa.Parameter:
			// a helper's parameter: non-nil if it is at every call site (`difference(result, exclude)` returning its first argument)
			fn := x.Parent()
			idx := -1
			for k, q := range fn.Params {
				if q == x {
					idx = k
				}
			}
			node := c.w.CG.Nodes[fn]
			if idx < 0 || node == nil || len(node.In) == 0 || depth >= 3 {
				return false
			}
			for _, e := range node.In {
				if e.Site == nil || e.Site.Common().StaticCallee() != fn || idx >= len(e.Site.Common().Args) {
					return false
				}
				if !nonNil(e.Site.Common().Args[idx], e.Site, cmpsAt(e.Site), depth+1) {
					return false
				}
			}
			return true
		case *ssa.Extract:
			// the result of calling a function-typed parameter (`evalCached(idx, key, compute)` returning compute()'s bitmap):
			// non-nil if the successful returns of every function passed for it are
			if call, ok := x.Tuple.(*ssa.Call); ok && x.Index == 0 {
				if fp, isParam := call.Call.Value.(*ssa.Parameter); isParam && depth < 3 {
					fn := fp.Parent()
					idx := -1
					for k, q := range fn.Params {
						if q == fp {
							idx = k
						}
					}
					node := c.w.CG.Nodes[fn]
					if idx < 0 || node == nil || len(node.In) == 0 {
						return false
					}
					for _, e := range node.In {
						if e.Site == nil || e.Site.Common().StaticCallee() != fn || idx >= len(e.Site.Common().Args) {
							return false
						}
						var g *ssa.Function
						switch a := peel(e.Site.Common().Args[idx]).(type) {
						case *ssa.MakeClosure:
							g, _ = a.Fn.(*ssa.Function)
						case *ssa.Function:
							g = a
						}
						if g == nil || g.Blocks == nil {
							return false
						}
						ok, n := true, 0
						allInstrs(g, func(i ssa.Instruction) {
							if i.Parent() != g || !isSuccessReturn(i) {
								return
							}
							n++
							ret := i.(*ssa.Return)
							if !nonNil(retVals(ret)[0], ret, cmpsAt(ret), depth+1) {
								ok = false
							}
						})
						if !ok || n == 0 {
							return false
						}
					}
					return true
				}
			}
			if call, ok := x.Tuple.(*ssa.Call); ok && x.Index == 0 {
				// cache hit: Get's bitmap where its found flag is known true
				if call.Call.IsInvoke() && call.Call.Method.Name() == "Get" && namedOf(call.Call.Value.Type()) == c.a.CacheIface {
					if okv := extractOf(call, 1); okv != nil {
						for _, cm := range facts {
							if cm.Y == nil && cm.Op == token.EQL && cm.X == ssa.Value(okv) {
								return true
							}
						}
					}
					return false
				}
				// a helper returning (bitmap, error): non-nil where the helper's successful returns are
				if h := calleeFunc(&call.Call); h != nil && c.w.inModule(h) && h.Blocks != nil && depth < 3 {
					ok, n := true, 0
					allInstrs(h, func(i ssa.Instruction) {
						if !isSuccessReturn(i) {
							return
						}
						n++
						ret := i.(*ssa.Return)
						if !nonNil(retVals(ret)[0], ret, cmpsAt(ret), depth+1) {
							ok = false
						}
					})
					return ok && n > 0
				}
			}
		case *ssa.Phi:
			for k, e := range x.Edges {
				ef := cmpsOnEdge(x.Block().Preds[k], x.Block())
				if !nonNil(e, x, ef, depth+1) {
					return false
				}
			}
			return len(x.Edges) > 0
		case *ssa.Alloc, *ssa.MakeInterface:
			return true
		}
		return c.fc.nonNilAt(v, at)
	}
	n := 0
	for _, T := range c.a.ExprImpls {
		ev := c.a.methodOf(T, c.a.EvalName) // (unexported interface method: resolved name, rules_ag10.go)
		if ev == nil {
			continue
		}
		k := 0
		allInstrs(ev, func(i ssa.Instruction) {
			if i.Parent() != ev {
				return // returns of function literals inside eval are judged where their results are used
			}
			handsOn := false
			if ret, isRet := i.(*ssa.Return); isRet && len(ret.Results) == 2 && !isRecoverBlockReturn(ret) {
				// `return helper(…)`: successful exactly where the helper is; its successful returns are judged in nonNil
				rv := retVals(ret)
				if e0, ok := rv[0].(*ssa.Extract); ok && e0.Index == 0 {
					if e1, ok := rv[1].(*ssa.Extract); ok && e1.Index == 1 && e1.Tuple == e0.Tuple {
						if call, ok := e0.Tuple.(*ssa.Call); ok {
							if h := calleeFunc(&call.Call); h != nil && c.w.inModule(h) && h.Blocks != nil {
								handsOn = true
							}
						}
					}
				}
			}
			if !isSuccessReturn(i) && !handsOn {
				return
			}
			ret := i.(*ssa.Return)
			if len(ret.Results) != 2 {
				return
			}
			n++
			k++
			key := fmt.Sprintf("%s: return#%d", safeFname(ev), k)
			c.r.check(nonNil(retVals(ret)[0], ret, cmpsAt(ret), 0), rule, key, "successful results are non-nil bitmaps",
				"an expression's evaluation can report success with a bitmap that may be nil (e.g. the accumulator of an incremental fold that is only assigned inside the operand loop: an AND without operands, which decodes fine from the wire, leaves it nil): the next use of the result panics and takes the server down", c.w.ipos(ret))
		})
	}
	if n == 0 {
		c.r.undecided(rule, "<vacuity>", "no successful return in any eval method")
	}
}

func init() {
	addRule("C17", "C17.keyorder — nothing that depends on the iteration order of a map flows into the key of the driver's connection cache (ranging over url.Values to build the key makes two opens of one DSN disagree about the key, and the second blocks on the file lock).",
		func(c *Ctx) { keyOrderRule(c, "C17.keyorder") })
	bal := "a counter of the parser that is both incremented and decremented (a nesting-depth guard) is decremented on every path after each increment: a counter that only grows turns a limit on depth into a limit on the length of the query, and the formatter's output for a wide expression is rejected."
	addRule("C09", "C09.counterbalance — "+bal, func(c *Ctx) { counterBalanceRule(c, "C09.counterbalance") })
	addRule("C10", "C10.counterbalance — "+bal, func(c *Ctx) { counterBalanceRule(c, "C10.counterbalance") })
}

// keyOrderRule (refutation): forward taint from the key/value of every `range` over a map in the open function's scope;
// sinks are stores into fields of the connection-cache key type and the key operand of lookups/updates of the cache map.
// A value that goes through a sort call is considered order-independent from there on.
func keyOrderRule(c *Ctx, rule string) {
	if c.a.DriverT == nil || c.a.DrvOpenFile == nil {
		return
	}
	var cache *types.Var
	var keyT types.Type
	if st, ok := c.a.DriverT.Underlying().(*types.Struct); ok {
		for i := 0; i < st.NumFields(); i++ {
			if m, ok := st.Field(i).Type().Underlying().(*types.Map); ok && c.a.FileConnT != nil && namedOf(m.Elem()) == c.a.FileConnT {
				cache, keyT = st.Field(i), m.Key()
			}
		}
	}
	if cache == nil {
		return
	}
	isKeyStructAddr := func(v ssa.Value) bool {
		fa, ok := v.(*ssa.FieldAddr)
		if !ok {
			return false
		}
		pt, ok := fa.X.Type().Underlying().(*types.Pointer)
		return ok && types.Identical(pt.Elem(), keyT)
	}
	n, bad := 0, 0
	for _, fn := range c.scope(c.a.DrvOpenFile, 2) {
		allInstrs(fn, func(i ssa.Instruction) {
			rg, ok := i.(*ssa.Range)
			if !ok {
				return
			}
			if _, isMap := rg.X.Type().Underlying().(*types.Map); !isMap {
				return
			}
			n++
			tainted := map[ssa.Value]bool{}
			var work []ssa.Value
			add := func(v ssa.Value) {
				if v != nil && !tainted[v] {
					tainted[v] = true
					work = append(work, v)
				}
			}
			for _, r := range referrers(rg) {
				if nx, ok := r.(*ssa.Next); ok {
					add(nx)
				}
			}
			var sink ssa.Instruction
			for len(work) > 0 && sink == nil {
				v := work[0]
				work = work[1:]
				for _, u := range referrers(v) {
					switch x := u.(type) {
					case *ssa.Extract, *ssa.BinOp, *ssa.Phi, *ssa.Convert, *ssa.ChangeType, *ssa.MakeInterface, *ssa.Slice, *ssa.UnOp, *ssa.Index, *ssa.Field:
						add(x.(ssa.Value))
					case *ssa.Call:
						nm := calleeName(&x.Call)
						if strings.HasPrefix(nm, "sort.") || strings.HasPrefix(nm, "slices.Sort") {
							continue // sorted: order-independent from here on
						}
						add(x)
					case *ssa.Store:
						if x.Val == v {
							if isKeyStructAddr(x.Addr) {
								sink = x
							} else if al, ok := peelCell(x.Addr).(*ssa.Alloc); ok {
								// a local variable: its later loads carry the taint
								for _, r := range referrers(al) {
									if ld, ok := r.(*ssa.UnOp); ok {
										add(ld)
									}
								}
							}
						}
					case *ssa.Lookup:
						if x.Index == v && path(x.X).lastField() == cache {
							sink = x
						}
					case *ssa.MapUpdate:
						if x.Key == v && path(x.Map).lastField() == cache {
							sink = x
						}
					}
				}
			}
			if sink != nil {
				bad++
				c.r.bad(rule, fmt.Sprintf("%s: range over map#%d", safeFname(fn), n), "the key of the driver's connection cache is built from values in the iteration order of a map, which differs from call to call: a second open of the same DSN computes a different key, misses the cached connection, and blocks on the file lock while holding the driver mutex", []string{c.w.ipos(sink)}, c.w.ipos(rg))
			}
		})
	}
	if bad == 0 {
		c.r.ok(rule, safeFname(c.a.DrvOpenFile), "no map iteration order reaches the connection-cache key", c.w.pos(c.a.DrvOpenFile.Pos()))
	}
}

// counterBalanceRule (refutation; no instance on a parser without such a counter): integer fields of the parser type
// that are incremented somewhere and decremented somewhere. In every parser function, from each increment (a store of
// field+const, or a call of a parser method that only increments) every path to a return passes a decrement (same
// forms, or a deferred one). The diverging error helper ends a path.
func counterBalanceRule(c *Ctx, rule string) {
	ps := c.a.PS
	if ps == nil || ps.ParserT == nil {
		return
	}
	delta := func(i ssa.Instruction, f *types.Var) int {
		st, ok := i.(*ssa.Store)
		if !ok {
			return 0
		}
		fa, ok := st.Addr.(*ssa.FieldAddr)
		if !ok || fieldOf(fa.X.Type(), fa.Field) != f {
			return 0
		}
		b, ok := st.Val.(*ssa.BinOp)
		if !ok || srcField(b.X) != f {
			return 0
		}
		k, isK := constInt(b.Y)
		if !isK {
			return 0
		}
		switch b.Op {
		case token.ADD:
			return int(k)
		case token.SUB:
			return -int(k)
		}
		return 0
	}
	st, ok := ps.ParserT.Underlying().(*types.Struct)
	if !ok {
		return
	}
	var fns []*ssa.Function
	for _, fn := range c.w.ModFuncs {
		if c.w.pkgPathOf(fn) == pkgParser && fn.Blocks != nil {
			fns = append(fns, fn)
		}
	}
	n := 0
	for fi := 0; fi < st.NumFields(); fi++ {
		f := st.Field(fi)
		if b, ok := f.Type().Underlying().(*types.Basic); !ok || b.Info()&types.IsInteger == 0 {
			continue
		}
		// helpers whose net effect is +/-: a function with increments only / decrements only
		plusFn, minusFn := map[*ssa.Function]bool{}, map[*ssa.Function]bool{}
		anyPlus, anyMinus := false, false
		for _, fn := range fns {
			p, m := 0, 0
			allInstrs(fn, func(i ssa.Instruction) {
				if d := delta(i, f); d > 0 {
					p++
				} else if d < 0 {
					m++
				}
			})
			if p > 0 {
				anyPlus = true
			}
			if m > 0 {
				anyMinus = true
			}
			if p > 0 && m == 0 {
				plusFn[fn] = true
			}
			if m > 0 && p == 0 {
				minusFn[fn] = true
			}
		}
		if !anyPlus || !anyMinus {
			continue // a look-ahead count, a position: not a balanced counter
		}
		isInc := func(i ssa.Instruction) bool {
			if delta(i, f) > 0 {
				return true
			}
			if call, ok := i.(*ssa.Call); ok {
				return plusFn[calleeFunc(&call.Call)]
			}
			return false
		}
		isDec := func(i ssa.Instruction) bool {
			if delta(i, f) < 0 {
				return true
			}
			if cc := callCommon(i); cc != nil {
				if _, isGo := i.(*ssa.Go); !isGo {
					return minusFn[calleeFunc(cc)]
				}
			}
			return false
		}
		for _, fn := range fns {
			if plusFn[fn] || minusFn[fn] {
				continue // the inc/dec helpers themselves
			}
			k := 0
			allInstrs(fn, func(i ssa.Instruction) {
				if !isInc(i) {
					return
				}
				n++
				k++
				key := fmt.Sprintf("%s: %s increment#%d", safeFname(fn), f.Name(), k)
				// a decrement deferred before the increment covers every exit
				deferred := false
				allInstrs(fn, func(j ssa.Instruction) {
					if d, ok := j.(*ssa.Defer); ok && isDec(d) && d.Block().Dominates(i.Block()) {
						deferred = true
					}
				})
				if deferred {
					c.r.ok(rule, key, "a deferred decrement covers every exit", c.w.ipos(i))
					return
				}
				if p := c.fc.pathAvoiding(fn, i, func(x ssa.Instruction) bool { _, r := x.(*ssa.Return); return r }, isDec); p != nil {
					c.r.bad(rule, key, "the parser's counter "+f.Name()+" is incremented here but a path returns without decrementing it: it then counts how many such constructs the input contains instead of how deeply they are nested, and a long but shallow query (which the formatter produces for a wide expression) is rejected", []string{c.w.ipos(i)}, c.fc.witnessStrings(p)...)
				} else {
					c.r.ok(rule, key, "decremented on every path to a return", c.w.ipos(i))
				}
			})
		}
	}
	if n == 0 {
		c.r.ok(rule, "parser", "the parser keeps no balanced counter")
	}
}
