package main

import (
	"sort"

	"golang.org/x/tools/go/ssa"
)

// Reach is the set of module functions reachable from a set of entry points, with a parent map for call chains.
type Reach struct {
	w      *World
	Funcs  map[*ssa.Function]bool
	parent map[*ssa.Function]*ssa.Function
	via    map[*ssa.Function]ssa.Instruction
}

// reach computes the module functions reachable from entries:
//   - call-graph edges out of module functions (quick: CHA over the module-only program; thorough: VTA over the
//     whole program, which resolves interface and function-value calls more precisely),
//   - plus every function value (closure or named function) referenced in a reachable module function:
//     taking its address in reachable code is treated as calling it (sound over-approximation that makes
//     closures passed to bbolt.View, sort.Slice, strings.Map, Walk, defer … reachable in both tiers).
func (w *World) reach(entries ...*ssa.Function) *Reach {
	r := &Reach{w: w, Funcs: map[*ssa.Function]bool{}, parent: map[*ssa.Function]*ssa.Function{}, via: map[*ssa.Function]ssa.Instruction{}}
	seen := map[*ssa.Function]bool{}
	var queue []*ssa.Function
	push := func(f, from *ssa.Function, via ssa.Instruction) {
		if f == nil || seen[f] {
			return
		}
		seen[f] = true
		if from != nil {
			r.parent[f] = from
			r.via[f] = via
		}
		queue = append(queue, f)
	}
	for _, e := range entries {
		push(e, nil, nil)
	}
	for len(queue) > 0 {
		f := queue[0]
		queue = queue[1:]
		inMod := w.inModule(f)
		if inMod && f.Blocks != nil {
			r.Funcs[f] = true
		}
		if !inMod {
			// Library functions are not traversed, in either tier: a whole-program traversal (tried with VTA) drags in
			// unrelated module callbacks through shared library wrappers (every func(*bbolt.Tx) error becomes a callee of
			// DB.View) and turns into false alarms. Callbacks handed to libraries are covered by the address-taken rule
			// below; methods that libraries invoke through interfaces (database/sql driver methods) are listed as entry
			// points by the rules that need them.
			continue
		}
		if n := w.CG.Nodes[f]; n != nil {
			for _, e := range n.Out {
				var site ssa.Instruction
				if e.Site != nil {
					site = e.Site
					// CHA resolves the call of a function *value* to every function of that signature, also to
					// declared functions that are never used as a value (`closeWriter()` with a func() variable gets
					// an edge to main.main, and with it to everything the program does). Such a function cannot be
					// what the variable holds.
					if w.neverAValue(e.Site, e.Callee.Func) {
						continue
					}
				}
				push(e.Callee.Func, f, site)
			}
		}
		if inMod {
			allInstrs(f, func(i ssa.Instruction) {
				for _, op := range i.Operands(nil) {
					if op == nil || *op == nil {
						continue
					}
					switch v := (*op).(type) {
					case *ssa.Function:
						push(v, f, i)
					case *ssa.MakeClosure:
						if fn, ok := v.Fn.(*ssa.Function); ok {
							push(fn, f, i)
						}
					}
				}
			})
		}
	}
	return r
}

func (r *Reach) sorted() []*ssa.Function {
	var out []*ssa.Function
	for f := range r.Funcs {
		out = append(out, f)
	}
	sort.Slice(out, func(i, j int) bool { return r.w.posOf(out[i].Pos()) < r.w.posOf(out[j].Pos()) })
	return out
}

// chain renders the call chain entry → … → f.
func (r *Reach) chain(f *ssa.Function) []string {
	var rev []string
	for x := f; x != nil; x = r.parent[x] {
		s := safeFname(x)
		if v := r.via[x]; v != nil {
			s += " (called at " + r.w.ipos(v) + ")"
		}
		rev = append(rev, s)
		if len(rev) > 40 {
			break
		}
	}
	for i, j := 0, len(rev)-1; i < j; i, j = i+1, j-1 {
		rev[i], rev[j] = rev[j], rev[i]
	}
	return rev
}

func (r *Reach) names() []string {
	var out []string
	for _, f := range r.sorted() {
		out = append(out, safeFname(f))
	}
	return out
}

// addrTaken caches, per world, the declared module functions that occur as a value (operand that is not the callee of a
// static call) somewhere in the module.
var addrTaken = map[*World]map[*ssa.Function]bool{}

// neverAValue: site calls a function value (not a method through an interface, not a static callee) and callee is a
// declared (named, non-method) function of the module whose address is taken nowhere in the module: the call-graph edge
// is an artefact of signature matching. Methods (method values and expressions go through synthetic wrappers) and
// functions outside the module are left alone.
func (w *World) neverAValue(site ssa.CallInstruction, callee *ssa.Function) bool {
	cc := site.Common()
	if cc.IsInvoke() || callee == nil {
		return false
	}
	switch cc.Value.(type) {
	case *ssa.Function, *ssa.MakeClosure, *ssa.Builtin:
		return false // static
	}
	if callee.Parent() != nil || callee.Synthetic != "" || callee.Signature.Recv() != nil || !w.inModule(callee) {
		return false
	}
	taken, ok := addrTaken[w]
	if !ok {
		taken = map[*ssa.Function]bool{}
		scan := func(fn *ssa.Function) {
			allInstrs(fn, func(i ssa.Instruction) {
				var calleeOp *ssa.Value
				if c := callCommon(i); c != nil && !c.IsInvoke() {
					calleeOp = &c.Value
				}
				for _, op := range i.Operands(nil) {
					if op == nil || *op == nil || op == calleeOp {
						continue
					}
					if g, isFn := (*op).(*ssa.Function); isFn {
						taken[g] = true
					}
				}
			})
		}
		for _, fn := range w.ModFuncs {
			scan(fn)
		}
		// package-level initialisers (var f = g) run in the synthetic init functions, which are not in ModFuncs
		for _, p := range w.SSA {
			if init := p.Func("init"); init != nil {
				scan(init)
			}
		}
		addrTaken[w] = taken
	}
	return !taken[callee]
}
