package main

import (
	"fmt"
	"go/token"
	"sort"
	"strings"

	"golang.org/x/tools/go/ssa"
)

type codecSite struct {
	fn    *ssa.Function
	call  *ssa.Call
	order string
	width int
	put   bool
	kind  string // value | rows | temp | ""
	off   int64
}

func (s codecSite) String() string {
	dir := "read"
	if s.put {
		dir = "write"
	}
	return fmt.Sprintf("%s %s-endian uint%d at key/item offset %d", dir, s.order, s.width, s.off)
}

// codecRule: TABLE agreement of the encoders and decoders of the three on-disk record kinds.
func codecRule(c *Ctx, rule string) {
	var sites []codecSite
	prefixLen := int64(1)
	if n, ok := globalSliceLen(c, c.a.KeyValue); ok {
		prefixLen = n
	}
	offUnknown := map[*ssa.Call]bool{}
	offsetOf := func(call *ssa.Call, v ssa.Value) int64 {
		if v == nil {
			return 0
		}
		if k, ok := intValue(c, v); ok {
			return k
		}
		offUnknown[call] = true
		return 0
	}
	for _, fn := range c.w.ModFuncs {
		if c.w.pkgPathOf(fn) != pkgRoot {
			continue
		}
		hasPrefixTest := testsValuePrefix(c, fn)
		allInstrs(fn, func(i ssa.Instruction) {
			call, ok := i.(*ssa.Call)
			if !ok {
				return
			}
			name := calleeName(&call.Call)
			if !strings.HasPrefix(name, "(encoding/binary.") {
				return
			}
			s := codecSite{fn: fn, call: call}
			switch {
			case strings.Contains(name, "bigEndian"):
				s.order = "big"
			case strings.Contains(name, "littleEndian"):
				s.order = "little"
			default:
				s.order = "?"
			}
			m := name[strings.LastIndex(name, ".")+1:]
			switch {
			case strings.HasSuffix(m, "16"):
				s.width = 16
			case strings.HasSuffix(m, "32"):
				s.width = 32
			case strings.HasSuffix(m, "64"):
				s.width = 64
			}
			args := call.Call.Args
			switch {
			case strings.HasPrefix(m, "PutUint"):
				s.put = true
				buf := args[len(args)-2]
				arr := sliceArray(buf)
				if sl, ok := buf.(*ssa.Slice); ok && sl.Low != nil {
					s.off = offsetOf(call, sl.Low)
				}
				// how is the array used?
				kind, shift := arrayRecord(c, fn, arr, prefixLen, 0)
				s.kind = kind
				s.off += shift
			case strings.HasPrefix(m, "AppendUint"):
				s.put = true
				// The bytes already in the base slice give the offset: an empty slice, the bitmap-key prefix appended to an
				// empty slice, or either of them extended by earlier AppendUintNN calls (a chain builds a multi-field key).
				off, prefixed, ok := appendBase(c, args[len(args)-2], prefixLen, 0)
				if !ok {
					return // appends to other byte strings (e.g. hashing input of cache keys) are not on-disk records
				}
				s.off = off
				if prefixed {
					s.kind = "value"
					break
				}
				// an encoding of its own: which record is the finished byte string (this append, or a later link of the
				// chain it is the base of) stored as? Also when the chain lives in a helper and the caller does the Put.
				switch arg, kk := flowsToPut(c, call, 0); {
				case arg == 2 && kk == "rows":
					s.kind = "rows"
				case arg == 1:
					s.kind = "temp"
				default:
					return
				}
			case strings.HasPrefix(m, "Uint"):
				x := args[len(args)-1]
				src := x
				if sl, ok := x.(*ssa.Slice); ok {
					src = sl.X
					if sl.Low != nil {
						s.off = offsetOf(call, sl.Low)
					}
				}
				if gc, ok := peel(src).(*ssa.Call); ok && calleeName(&gc.Call) == "(*go.etcd.io/bbolt.Bucket).Get" && keyKind(c, gc.Call.Args[1]) == "rows" {
					s.kind = "rows"
				} else if isCursorKey(src) {
					if hasPrefixTest {
						s.kind = "value"
					} else {
						s.kind = "temp"
					}
				} else if p, isP := peel(src).(*ssa.Parameter); isP {
					// a decoding helper (`decodeTempKey(k)`): the record is whatever its callers pass for k. One site per
					// classified binding, so a helper that decodes for two record kinds is compared with both writers.
					if bound := boundKeySources(c, p, func(v ssa.Value) int64 { return offsetOf(call, v) }, 0); len(bound) > 0 {
						for _, b := range bound {
							sb := s
							sb.kind, sb.off = b.kind, s.off+b.off
							sites = append(sites, sb)
						}
						return
					}
				}
			default:
				return
			}
			sites = append(sites, s)
		})
	}
	c.r.Stats["codec_sites"] = len(sites)
	byKind := map[string][]codecSite{}
	for _, s := range sites {
		if (s.kind == "" || offUnknown[s.call]) && !touchesBolt(s) {
			continue // an encoding that never meets the database (hash input of cache keys, say) is not an on-disk record
		}
		if offUnknown[s.call] {
			s.kind = ""
		}
		if s.kind == "" {
			c.r.undecided(rule, fmt.Sprintf("%s: %s", safeFname(s.fn), shortName(calleeName(&s.call.Call))), "a binary encode/decode whose record kind (bitmap key, row counter, temp key) the rule cannot determine", c.w.ipos(s.call))
			continue
		}
		byKind[s.kind] = append(byKind[s.kind], s)
	}
	for _, kind := range []string{"value", "rows", "temp"} {
		ss := byKind[kind]
		label := map[string]string{"value": "bitmap key", "rows": "row counter", "temp": "temp key"}[kind]
		var w, r []string
		orders := map[string]bool{}
		var posn []string
		for _, s := range ss {
			d := fmt.Sprintf("off%d:uint%d", s.off, s.width)
			if s.put {
				w = append(w, d)
			} else {
				r = append(r, d)
			}
			orders[s.order] = true
			posn = append(posn, fmt.Sprintf("%s at %s: %s", safeFname(s.fn), c.w.ipos(s.call), s))
		}
		ws, rs := uniqSorted(w), uniqSorted(r)
		sort.Strings(posn)
		switch {
		case len(ws) == 0 || len(rs) == 0:
			c.r.bad(rule, label, fmt.Sprintf("%s has %d writer and %d reader encodings: one side is missing", label, len(w), len(r)), nil, posn...)
		case len(orders) != 1 || orders["?"]:
			c.r.bad(rule, label, "writers and readers of the "+label+" do not all use the same byte order: the reader looks up / decodes a different number than the writer stored", nil, posn...)
		case strings.Join(ws, ",") != strings.Join(rs, ","):
			c.r.bad(rule, label, fmt.Sprintf("writers encode %v but readers decode %v: widths/offsets of the %s disagree", ws, rs, label), nil, posn...)
		default:
			c.r.ok(rule, label, fmt.Sprintf("%d writer and %d reader sites agree: %v, %s-endian", len(w), len(r), ws, firstKey(orders)))
		}
	}
	c.r.expect(rule, 3)
}

// testsValuePrefix: fn tests some byte string for the bitmap-key prefix (bytes.HasPrefix(k, keyPrefixValue)): the cursor
// keys it decodes are bitmap keys of the data bucket, not temp keys.
func testsValuePrefix(c *Ctx, fn *ssa.Function) bool {
	found := false
	allInstrs(fn, func(i ssa.Instruction) {
		if call, ok := i.(*ssa.Call); ok && calleeName(&call.Call) == "bytes.HasPrefix" && isGlobalLoad(peel(call.Call.Args[1]), c.a.KeyValue) {
			found = true
		}
	})
	return found
}

// keySource: one origin of the bytes a decoding helper reads through a parameter: the record kind of the caller's
// argument and the offset within the record at which the parameter's bytes start (`decode(k[1:])`: 1).
type keySource struct {
	kind string
	off  int64
}

// boundKeySources binds parameter p of a decoding helper to the arguments of the helper's call sites in the module
// (depth 2: a helper of a helper) and classifies each: the row-counter item, or a cursor key — a bitmap key if the
// caller or the helper tests the bitmap-key prefix, else a temp key. Arguments that are neither (bytes that never were
// in the database) give no entry, exactly as an unclassified decode in the function itself gives no site. A helper that
// is also used as a function value can run on byte strings the call sites do not show: no entries (the decode is then
// not counted as a reader, and a record without reader is reported).
func boundKeySources(c *Ctx, p *ssa.Parameter, offsetOf func(ssa.Value) int64, depth int) []keySource {
	fn := p.Parent()
	if fn == nil || depth > 1 || c.usedAsValue(fn) {
		return nil
	}
	var out []keySource
	for _, bs := range c.bindingSites(fn, p) {
		arg, off := bs.arg, int64(0)
		if sl, ok := arg.(*ssa.Slice); ok {
			if sl.Low != nil {
				off = offsetOf(sl.Low)
			}
			arg = sl.X
		}
		switch {
		case isCursorKey(arg):
			kind := "temp"
			if testsValuePrefix(c, bs.in) || testsValuePrefix(c, fn) {
				kind = "value"
			}
			out = append(out, keySource{kind, off})
		default:
			switch x := peel(arg).(type) {
			case *ssa.Call:
				if calleeName(&x.Call) == "(*go.etcd.io/bbolt.Bucket).Get" && keyKind(c, x.Call.Args[1]) == "rows" {
					out = append(out, keySource{"rows", off})
				}
			case *ssa.Parameter:
				for _, b := range boundKeySources(c, x, offsetOf, depth+1) {
					if b.kind == "temp" && testsValuePrefix(c, fn) {
						b.kind = "value"
					}
					out = append(out, keySource{b.kind, b.off + off})
				}
			}
		}
	}
	return out
}

func isCursorKey(v ssa.Value) bool {
	seen := map[ssa.Value]bool{}
	var visit func(v ssa.Value) bool
	visit = func(v ssa.Value) bool {
		if seen[v] {
			return false
		}
		seen[v] = true
		switch x := v.(type) {
		case *ssa.Phi:
			for _, e := range x.Edges {
				if visit(e) {
					return true
				}
			}
		case *ssa.Extract:
			if call, ok := x.Tuple.(*ssa.Call); ok && strings.HasPrefix(calleeName(&call.Call), "(*go.etcd.io/bbolt.Cursor).") && x.Index == 0 {
				return true
			}
		}
		return false
	}
	return visit(v)
}

// arrayRecord: as which record are the bytes of the local array arr (of fn) stored? `append(keyPrefixValue, arr[:]...)`
// makes it a bitmap key (the fields then sit behind the prefix: shift), a Put of arr[:] under the row-counter key the
// row counter, a Put with arr[:] as the key a temp key. An array that an encoding helper returns by value
// (`return key` with `key [12]byte`) is followed into the callers' variable that receives the result.
func arrayRecord(c *Ctx, fn *ssa.Function, arr ssa.Value, prefixLen int64, depth int) (kind string, shift int64) {
	if arr == nil || depth > 2 {
		return "", 0
	}
	allInstrs(fn, func(j ssa.Instruction) {
		jc, ok := j.(*ssa.Call)
		if !ok {
			return
		}
		if b, ok := jc.Call.Value.(*ssa.Builtin); ok && b.Name() == "append" && len(jc.Call.Args) == 2 {
			if isGlobalLoad(peel(jc.Call.Args[0]), c.a.KeyValue) && sliceArray(jc.Call.Args[1]) == arr {
				kind, shift = "value", prefixLen
			}
		}
		if calleeName(&jc.Call) == boltPut {
			if sliceArray(jc.Call.Args[2]) == arr && keyKind(c, jc.Call.Args[1]) == "rows" {
				kind, shift = "rows", 0
			}
			if sliceArray(jc.Call.Args[1]) == arr {
				kind, shift = "temp", 0
			}
		}
	})
	if kind != "" {
		return kind, shift
	}
	// returned by value: `t = *arr; return t` -> in each caller `*cell = call`
	al, isAlloc := arr.(*ssa.Alloc)
	if !isAlloc {
		return "", 0
	}
	for _, r := range referrers(al) {
		ld, ok := r.(*ssa.UnOp)
		if !ok || ld.Op != token.MUL {
			continue
		}
		for _, rr := range referrers(ld) {
			ret, ok := rr.(*ssa.Return)
			if !ok {
				continue
			}
			for idx, rv := range ret.Results {
				if rv != ssa.Value(ld) {
					continue
				}
				for _, g := range c.w.ModFuncs {
					allInstrs(g, func(j ssa.Instruction) {
						call, ok := j.(*ssa.Call)
						if !ok || calleeFunc(&call.Call) != fn || kind != "" {
							return
						}
						res := resultValue(call, idx)
						if res == nil {
							return
						}
						for _, u := range referrers(res) {
							if st, ok := u.(*ssa.Store); ok && st.Val == res {
								if k, sh := arrayRecord(c, g, st.Addr, prefixLen, depth+1); k != "" {
									kind, shift = k, sh
								}
							}
						}
					})
				}
			}
		}
	}
	return kind, shift
}

// appendBase: the number of bytes the base slice of an AppendUintNN call already holds, and whether they start with the
// bitmap-key prefix. Recognised bases: an empty slice (0), append(empty, keyPrefixValue...) (the prefix length), the
// prefix global itself (`AppendUint64(keyPrefixValue, v)`: the prefix length; the encoded field sits right behind the
// prefix exactly as in `append(keyPrefixValue, buf[:]...)`), and AppendUintNN(base', …) (width of base' plus NN/8).
// ok is false for any other byte string.
func appendBase(c *Ctx, base ssa.Value, prefixLen int64, depth int) (off int64, prefixed, ok bool) {
	if depth > 8 {
		return 0, false, false
	}
	base = peel(base)
	switch {
	case emptyBytes(base):
		return 0, false, true
	case prefixedEmpty(c, base), isGlobalLoad(base, c.a.KeyValue):
		return prefixLen, true, true
	}
	if call, isCall := base.(*ssa.Call); isCall {
		if w := appendUintWidth(&call.Call); w > 0 {
			args := call.Call.Args
			o, p, ok := appendBase(c, args[len(args)-2], prefixLen, depth+1)
			return o + int64(w/8), p, ok
		}
	}
	return 0, false, false
}

// appendUintWidth: NN if cc is a call of encoding/binary's AppendUintNN (any byte order), else 0.
func appendUintWidth(cc *ssa.CallCommon) int {
	name := calleeName(cc)
	if !strings.HasPrefix(name, "(encoding/binary.") {
		return 0
	}
	switch m := name[strings.LastIndex(name, ".")+1:]; m {
	case "AppendUint16":
		return 16
	case "AppendUint32":
		return 32
	case "AppendUint64":
		return 64
	}
	return 0
}

func uniqSorted(in []string) []string {
	m := map[string]bool{}
	for _, s := range in {
		m[s] = true
	}
	var out []string
	for s := range m {
		out = append(out, s)
	}
	sort.Strings(out)
	return out
}

func firstKey(m map[string]bool) string {
	for k := range m {
		return k
	}
	return ""
}

// globalSliceLen: the length of a package-level slice variable that is initialised from a composite literal and never
// assigned again anywhere in the module.
func globalSliceLen(c *Ctx, g *ssa.Global) (int64, bool) {
	if g == nil {
		return 0, false
	}
	n, have := int64(0), false
	stores := 0
	for _, fn := range append([]*ssa.Function{g.Pkg.Func("init")}, c.w.ModFuncs...) {
		if fn == nil {
			continue
		}
		allInstrs(fn, func(i ssa.Instruction) {
			st, ok := i.(*ssa.Store)
			if !ok || st.Addr != ssa.Value(g) {
				return
			}
			stores++
			if sl, ok := st.Val.(*ssa.Slice); ok && sl.Low == nil && sl.High == nil {
				if al, ok := sl.X.(*ssa.Alloc); ok {
					if k, ok := arrayLen(al.Type()); ok {
						n, have = k, true
					}
				}
			}
		})
	}
	return n, have && stores == 1
}

// intValue: an integer constant, or len() of a package-level slice whose length is fixed (globalSliceLen).
func intValue(c *Ctx, v ssa.Value) (int64, bool) {
	if k, ok := constInt(v); ok {
		return k, true
	}
	if call, ok := peelConv(v).(*ssa.Call); ok {
		if b, ok := call.Call.Value.(*ssa.Builtin); ok && b.Name() == "len" {
			if ld, ok := peel(call.Call.Args[0]).(*ssa.UnOp); ok {
				if g, ok := ld.X.(*ssa.Global); ok {
					return globalSliceLen(c, g)
				}
			}
		}
	}
	return 0, false
}

// emptyBytes: v is an empty byte slice (nil, make([]byte, 0, …), x[:0] of a fresh array).
func emptyBytes(v ssa.Value) bool {
	switch x := v.(type) {
	case *ssa.Const:
		return x.IsNil()
	case *ssa.MakeSlice:
		k, ok := constInt(x.Len)
		return ok && k == 0
	case *ssa.Slice:
		if _, isAlloc := x.X.(*ssa.Alloc); isAlloc && x.High != nil && x.Low == nil {
			k, ok := constInt(x.High)
			return ok && k == 0
		}
	}
	return false
}

// flowsToPut: where do the bytes produced by v end up? Returns the argument index of a bbolt Put that receives them
// (1 = key, 2 = value) and, for a value, the kind of the key it is stored under. Follows phis, re-slices, and returns of
// the producing helper into its callers (depth 2).
func flowsToPut(c *Ctx, v ssa.Value, depth int) (int, string) {
	seen := map[ssa.Value]bool{}
	var visit func(v ssa.Value, depth int) (int, string)
	visit = func(v ssa.Value, depth int) (int, string) {
		if seen[v] || depth > 2 {
			return 0, ""
		}
		seen[v] = true
		for _, r := range referrers(v) {
			switch x := r.(type) {
			case *ssa.Call:
				if calleeName(&x.Call) == boltPut {
					if x.Call.Args[2] == v {
						return 2, keyKind(c, x.Call.Args[1])
					}
					if x.Call.Args[1] == v {
						return 1, ""
					}
				}
				// v is the base of a further append (next link of an AppendUintNN chain, or plain append(v, …)): its bytes
				// are the head of the result
				if b, isB := x.Call.Value.(*ssa.Builtin); (isB && b.Name() == "append" && x.Call.Args[0] == v) ||
					(appendUintWidth(&x.Call) > 0 && x.Call.Args[len(x.Call.Args)-2] == v) {
					if a, k := visit(x, depth); a != 0 {
						return a, k
					}
				}
			case *ssa.Phi:
				if a, k := visit(x, depth); a != 0 {
					return a, k
				}
			case *ssa.Slice:
				if a, k := visit(x, depth); a != 0 {
					return a, k
				}
			case *ssa.Return:
				fn := x.Parent()
				idx := -1
				for k, rv := range x.Results {
					if rv == v {
						idx = k
					}
				}
				if idx < 0 {
					continue
				}
				for _, g := range c.w.ModFuncs {
					var hit struct {
						a int
						k string
					}
					allInstrs(g, func(j ssa.Instruction) {
						call, ok := j.(*ssa.Call)
						if !ok || calleeFunc(&call.Call) != fn || hit.a != 0 {
							return
						}
						if rv := resultValue(call, idx); rv != nil {
							hit.a, hit.k = visit(rv, depth+1)
						}
					})
					if hit.a != 0 {
						return hit.a, hit.k
					}
				}
			}
		}
		return 0, ""
	}
	return visit(v, depth)
}

// touchesBolt: the buffer an encode site writes (or the value a decode site reads) is passed to / obtained from a bbolt
// call in the same function.
func touchesBolt(s codecSite) bool {
	args := s.call.Call.Args
	var bufs []ssa.Value
	if s.put {
		bufs = append(bufs, args[len(args)-2])
	} else {
		bufs = append(bufs, args[len(args)-1])
	}
	roots := map[ssa.Value]bool{}
	for _, b := range bufs {
		roots[b] = true
		roots[path(b).Root] = true
		if sl, ok := b.(*ssa.Slice); ok {
			roots[sl.X] = true
			roots[path(sl.X).Root] = true
		}
	}
	delete(roots, nil)
	hit := false
	allInstrs(s.fn, func(i ssa.Instruction) {
		cc := callCommon(i)
		if cc == nil || !strings.Contains(calleeName(cc), "go.etcd.io/bbolt") {
			return
		}
		for _, a := range cc.Args {
			if roots[a] || roots[path(a).Root] {
				hit = true
			}
			if sl, ok := a.(*ssa.Slice); ok && (roots[sl.X] || roots[path(sl.X).Root]) {
				hit = true
			}
		}
		// values obtained from bbolt (cursor keys, Get results)
		if v, ok := i.(ssa.Value); ok {
			for r := range roots {
				if e, isE := r.(*ssa.Extract); isE && e.Tuple == v {
					hit = true
				}
				if r == v {
					hit = true
				}
			}
		}
	})
	return hit
}
