package main

import (
	"fmt"
	"go/constant"
	"go/token"
	"go/types"
	"sort"
	"strings"

	"golang.org/x/tools/go/ssa"
)

func init() {
	register(&propDef{
		id:  "C09",
		run: runC09,
		explanation: "Decided (structural, for every input string): " +
			"C09.goroutine — every goroutine started on behalf of ParseQuery runs a function that closes the channel it sends tokens on at every exit, and ParseQuery defers (on every path) a function that receives from that channel until it is closed — or, instead of draining, every send on that channel is the case of a blocking select that also waits for a quit channel, and ParseQuery defers (on every path) a function that closes the quit channel before it waits for anything (a plain send left beside such selects is reported); so no parse, wherever it stops, leaves the lexer goroutine blocked (or there is no goroutine at all); " +
			"C09.eof — every path through the top-level parse function to a return that can carry a query takes the branch on which the next token's type equals the end-of-input token (paths ending in the diverging error helper are cut), so trailing tokens are never accepted; " +
			"C09.phrange — the int32 placeholder number stored in the tree comes only from constants or from strconv.ParseInt(_, 10, bits<=32) with its error tested (or an explicit upper-bound test), so huge numbers cannot wrap; the `>= 1` test dominates the store (a value produced by a parser helper is followed into every operand the helper can return, judged by what is known at that return, and a helper's parameter back to the call's argument — so parse, tests and the conversion may live in a helper); " +
			"C09.lexinput — the lexer scans exactly ParseQuery's argument; C09.unquote — the string decoder removes exactly one delimiter at each end of a value token before turning `\"\"` into one quote (so '\"\"' adjacent to the delimiters is kept); " +
			"C09.panics — every panic in the parser package carries a value implementing error (or is the re-panic of a recovered runtime.Error), and ParseQuery defers a recover handler, so parse errors surface as errors. " +
			"C09.progress — termination of the lexer: each state function is interpreted over the finite partition of the rune domain induced by the constants it compares the current rune with; every cycle of the state graph is shown to consume at least one rune (a direct next() with a rune present, or acceptRun(S) reached only with the current rune in S), and every loop inside the lexer calls next() on each iteration; " +
			"C09.noquery — in the function that converts parse panics into the error result, no other result is assigned before the last call that can raise a parse error (so an error is never accompanied by a query); " +
			"C09.closedtoken — on the edge on which a rune obtained from next() turns out to be the end of the input, every path raises a lexical error before it can emit a token (an unterminated string never becomes a value token); " +
			"C09.nodrop — no lexer state returns after consuming input without emitting a token, raising a lexical error, explicitly skipping it or backing up (so an unterminated string cannot vanish from the token stream and leave a shorter, acceptable query); " +
			"The unexported entities these rules talk about (lexer type, state functions, next/peek/backup/acceptRun/emit/errorf, the end-of-input rune and token kind, the parser type, its top-level parse function and its diverging error helper) are resolved from the program's shape, today's identifiers being only the first guess (rules_ag5.go); an entity found neither way makes the rules that need it undecided. " +
			"NOT decided: that the accepted language equals the documented EBNF and that the tree has the prescribed shape (language equivalence); absence of runtime panics from the lexer's index arithmetic (needs relational numeric invariants); termination of the recursive-descent parser itself (follows from the lexer delivering a finite token stream, not checked).",
		assumptions: []string{"go/ssa CFG; NORETURN summary of the error helper (all its exits are panics)", "channel close/receive semantics"},
	})
}

func runC09(c *Ctx) {
	if !c.need("C09.eof", c.a.ParseQuery, c.a.ParserParse, c.a.ParserErrorf) {
		return
	}
	c09Goroutine(c)
	c09EOF(c)
	c09PhRange(c)
	c09Panics(c)
	unquoteRule(c, "C09.unquote")
	lexInputRule(c, "C09.lexinput")
	c09Progress(c)
	c09NoDrop(c)
	c09ClosedToken(c)
	c09NoQueryOnError(c)
}

func c09Goroutine(c *Ctx) {
	const rule = "C09.goroutine"
	re := c.w.reach(c.a.ParseQuery)
	var gos []*ssa.Go
	for _, fn := range re.sorted() {
		allInstrs(fn, func(i ssa.Instruction) {
			if g, ok := i.(*ssa.Go); ok {
				gos = append(gos, g)
			}
		})
	}
	if len(gos) == 0 {
		c.r.ok(rule, "ParseQuery", "no goroutine is started while parsing (synchronous lexer)", c.w.pos(c.a.ParseQuery.Pos()))
		return
	}
	for k, g := range gos {
		key := fmt.Sprintf("go#%d in %s", k+1, safeFname(g.Parent()))
		spawned := calleeFunc(&g.Call)
		if spawned == nil {
			c.r.undecided(rule, key, "goroutine runs a function value the rule cannot resolve", c.w.ipos(g))
			continue
		}
		// channel fields the goroutine sends on, and how: a plain (blocking) send, or the send case of a select — which
		// blocks only as long as none of its other cases is ready (sendsOf would hide that difference)
		sre := c.w.reach(spawned)
		chans := map[*types.Var][]lexSend{}
		var order []*types.Var
		undec := false
		for _, fn := range sre.sorted() {
			allInstrs(fn, func(i ssa.Instruction) {
				add := func(ch ssa.Value, s lexSend) {
					f := path(ch).lastField()
					if f == nil {
						undec = true
						return
					}
					if _, had := chans[f]; !had {
						order = append(order, f)
					}
					s.at, s.fn = i, fn
					chans[f] = append(chans[f], s)
				}
				switch x := i.(type) {
				case *ssa.Send:
					add(x.Chan, lexSend{plain: true})
				case *ssa.Select:
					var s lexSend
					s.nonblocking = !x.Blocking
					for _, st := range x.States {
						if st.Dir == types.RecvOnly {
							if q := path(st.Chan).lastField(); q != nil {
								s.guards = append(s.guards, q)
							}
						}
					}
					for _, st := range x.States {
						if st.Dir == types.SendOnly {
							add(st.Chan, s)
						}
					}
				}
			})
		}
		if undec {
			c.r.undecided(rule, key, "goroutine sends on a channel that is not a struct field; the rule identifies channels by field", c.w.ipos(g))
			continue
		}
		if len(chans) == 0 {
			c.r.ok(rule, key, "goroutine does not send on any channel", c.w.ipos(g))
			continue
		}
		for _, ch := range order {
			ckey := key + ": chan " + ch.Name()
			isClose := func(i ssa.Instruction) bool {
				cc := callCommon(i)
				if cc == nil {
					return false
				}
				if _, isGo := i.(*ssa.Go); isGo {
					return false
				}
				b, ok := cc.Value.(*ssa.Builtin)
				return ok && b.Name() == "close" && path(cc.Args[0]).lastField() == ch
			}
			isReturn := func(i ssa.Instruction) bool { _, ok := i.(*ssa.Return); return ok }
			// (i) every exit of the spawned function has passed close(ch) (call or defer registration)
			if p := c.fc.pathAvoiding(spawned, nil, isReturn, isClose); p != nil {
				c.r.bad(rule, ckey+": close", "the lexer goroutine can finish without closing the channel it sends on: a reader cannot tell it is done, and draining it would block", []string{c.w.ipos(g)}, c.fc.witnessStrings(p)...)
				continue
			}
			// (ii) the goroutine is released wherever the parse stops. Either ParseQuery defers a drain of ch on every path
			// (whatever is sent, and however, is then received) …
			pq := c.a.ParseQuery
			deferredOnEveryPath := func(what func(f *ssa.Function) bool) []ssa.Instruction {
				return c.fc.pathAvoiding(pq, nil, isReturn, func(i ssa.Instruction) bool {
					d, ok := i.(*ssa.Defer)
					if !ok {
						return false
					}
					f := calleeFunc(&d.Call)
					return f != nil && what(f)
				})
			}
			noDrain := deferredOnEveryPath(func(f *ssa.Function) bool { return drains(c, f, ch, 2) })
			if noDrain == nil {
				c.r.ok(rule, ckey, "closed by the goroutine at every exit; drained by a function ParseQuery defers on every path", c.w.ipos(g))
				continue
			}
			// … or the quit protocol: nothing receives the remaining tokens, instead every send on ch is the case of a
			// blocking select that also waits for a quit channel (a channel field of its own), and ParseQuery defers on every
			// path a function that closes that channel (before it waits for anything). From then on no send can block, so the
			// goroutine runs to its end (C09.progress). A send outside such a select is never released.
			quits := map[*types.Var]bool{}
			for _, s := range chans[ch] {
				for _, q := range s.guards {
					if !s.plain && !s.nonblocking {
						quits[q] = true
					}
				}
			}
			anyNonblocking := false
			for _, s := range chans[ch] {
				anyNonblocking = anyNonblocking || s.nonblocking
			}
			if len(quits) == 0 && !anyNonblocking {
				c.r.bad(rule, ckey+": drain", "ParseQuery can return without having deferred a function that receives from the lexer's channel until it is closed: a parse that stops before the end of the input leaves the lexer goroutine blocked on its send forever",
					[]string{c.w.pos(pq.Pos())}, c.fc.witnessStrings(noDrain)...)
				continue
			}
			stopped := map[*types.Var]bool{}
			var qnames []string
			for q := range quits {
				q := q
				stopped[q] = deferredOnEveryPath(func(f *ssa.Function) bool { return closesFirst(c, f, q, 2) }) == nil
				qnames = append(qnames, q.Name())
			}
			sort.Strings(qnames)
			good := true
			reported := map[string]bool{}
			for _, s := range chans[ch] {
				skey := ckey + ": send in " + safeFname(s.fn)
				if reported[skey] {
					continue
				}
				released := false
				for _, q := range s.guards {
					if stopped[q] {
						released = true
					}
				}
				switch {
				case s.plain && len(quits) == 0:
					c.r.bad(rule, skey, "a plain blocking send on the lexer's channel, and ParseQuery can return without having deferred a function that receives from that channel until it is closed: a parse that stops before the end of the input leaves the lexer goroutine blocked on this send forever", []string{c.w.ipos(s.at)})
				case s.plain:
					c.r.bad(rule, skey, "a plain blocking send on the lexer's channel, while ParseQuery does not drain that channel but stops the lexer by closing "+strings.Join(qnames, "/")+" (which the other sends wait for in a select): if the parse stops before this token is read, the send blocks forever — the goroutine never finishes, and a ParseQuery that waits for it never returns",
						[]string{c.w.ipos(s.at)})
				case s.nonblocking:
					c.r.undecided(rule, skey, "a non-blocking send (select with default) on the lexer's channel: it cannot block, but it drops the token whenever the parser is not already waiting for it", c.w.ipos(s.at))
				case len(s.guards) == 0:
					c.r.undecided(rule, skey, "the send is a case of a select whose other cases the rule cannot identify as a quit channel (a channel field closed by a function ParseQuery defers)", c.w.ipos(s.at))
				case !released:
					c.r.bad(rule, skey, "the select around this send waits for a channel that ParseQuery does not close on every path (no deferred function that closes it before waiting for anything else): a parse that stops before the end of the input leaves the lexer goroutine blocked in this select forever",
						[]string{c.w.ipos(s.at), c.w.pos(pq.Pos())})
				default:
					continue
				}
				reported[skey] = true
				good = false
			}
			if good {
				c.r.ok(rule, ckey, "closed by the goroutine at every exit; every send on it is a select that also waits for "+strings.Join(qnames, "/")+", which a function ParseQuery defers on every path closes", c.w.ipos(g))
			}
		}
	}
}

// lexSend: one send of the lexer goroutine on a channel field. plain: a send statement; otherwise the send case of a
// select, with the channel fields its receive cases wait for (guards); nonblocking: the select has a default case.
type lexSend struct {
	at          ssa.Instruction
	fn          *ssa.Function
	plain       bool
	nonblocking bool
	guards      []*types.Var
}

// closesFirst: fn closes the channel field q on every path to its return, and before it can wait for anything (a
// receive, a send, a blocking select, WaitGroup.Wait — `close(l.quit); l.wg.Wait()`; the other order, or a deferred
// close, would wait for a goroutine that has not been told to stop). A wrapper all of whose paths call such a function
// first counts as well (depth).
func closesFirst(c *Ctx, fn *ssa.Function, q *types.Var, depth int) bool {
	if fn == nil || fn.Blocks == nil {
		return false
	}
	isReturn := func(i ssa.Instruction) bool { _, ok := i.(*ssa.Return); return ok }
	waits := func(i ssa.Instruction) bool {
		switch x := i.(type) {
		case *ssa.Send:
			return true
		case *ssa.Select:
			return x.Blocking
		case *ssa.UnOp:
			return x.Op == token.ARROW
		case *ssa.Call:
			return calleeName(&x.Call) == "(*sync.WaitGroup).Wait"
		}
		return false
	}
	closes := func(i ssa.Instruction) bool {
		call, ok := i.(*ssa.Call)
		if !ok {
			return false
		}
		if b, ok := call.Call.Value.(*ssa.Builtin); ok {
			return b.Name() == "close" && len(call.Call.Args) == 1 && path(call.Call.Args[0]).lastField() == q
		}
		f := calleeFunc(&call.Call)
		return depth > 0 && f != nil && f != fn && c.w.inModule(f) && closesFirst(c, f, q, depth-1)
	}
	found := false
	allInstrs(fn, func(i ssa.Instruction) {
		if closes(i) {
			found = true
		}
	})
	if !found {
		return false
	}
	return c.fc.pathAvoiding(fn, nil, isReturn, closes) == nil && c.fc.pathAvoiding(fn, nil, waits, closes) == nil
}

// drains: fn (or a callee within depth) receives from channel field ch with the comma-ok form and returns only once ok is false.
func drains(c *Ctx, fn *ssa.Function, ch *types.Var, depth int) bool {
	if fn == nil || fn.Blocks == nil {
		return false
	}
	var oks []ssa.Value
	allInstrs(fn, func(i ssa.Instruction) {
		u, ok := i.(*ssa.UnOp)
		if !ok || u.Op != token.ARROW || !u.CommaOk {
			return
		}
		if path(u.X).lastField() != ch {
			return
		}
		if e := extractOf(u, 1); e != nil {
			oks = append(oks, e)
		}
	})
	if len(oks) > 0 {
		// no path from entry to a return that avoids the "ok == false" edge of such a receive
		cut := func(pred, succ *ssa.BasicBlock) bool {
			for _, f := range factsOnEdge(pred, succ) {
				if len(pred.Instrs) == 0 {
					continue
				}
				if iff, ok := pred.Instrs[len(pred.Instrs)-1].(*ssa.If); !ok || iff.Cond != f.Cond {
					continue
				}
				for _, cm := range trueCmps(f) {
					if cm.Y == nil && cm.Op == token.NEQ {
						for _, okv := range oks {
							if cm.X == okv {
								return true
							}
						}
					}
				}
			}
			return false
		}
		if c.fc.pathAvoidingEdges(fn, func(i ssa.Instruction) bool { _, ok := i.(*ssa.Return); return ok }, nil, cut) == nil {
			return true
		}
	}
	if depth > 0 {
		// a wrapper all of whose paths call a draining function
		var calls []ssa.Instruction
		allInstrs(fn, func(i ssa.Instruction) {
			if call, ok := i.(*ssa.Call); ok {
				if f := calleeFunc(&call.Call); f != nil && c.w.inModule(f) && f != fn && drains(c, f, ch, depth-1) {
					calls = append(calls, i)
				}
			}
			// … or register it with defer (`func (p *parser) finish(errp *error) { defer p.lexer.drain(); … }`): it runs
			// when the wrapper returns or panics
			if d, ok := i.(*ssa.Defer); ok {
				if f := calleeFunc(&d.Call); f != nil && c.w.inModule(f) && f != fn && drains(c, f, ch, depth-1) {
					calls = append(calls, i)
				}
			}
		})
		if len(calls) > 0 {
			isCall := func(i ssa.Instruction) bool {
				for _, x := range calls {
					if x == i {
						return true
					}
				}
				return false
			}
			if c.fc.pathAvoiding(fn, nil, func(i ssa.Instruction) bool { _, ok := i.(*ssa.Return); return ok }, isCall) == nil {
				return true
			}
		}
	}
	return false
}

func c09EOF(c *Ctx) {
	const rule = "C09.eof"
	fn := c.a.ParserParse
	// the end-of-input token kind and the token-kind type come from the lexer's shape (what the states emit when the
	// current rune is the end-of-input marker), not from the identifiers itemEOF / itemType
	ps := c.a.PS
	if !ps.need(rule, "eof kind", "token kind type") {
		return
	}
	itemTypeT := ps.KindT
	eofVal := ps.EOFKind
	isEOFEdge := func(pred, succ *ssa.BasicBlock) bool {
		iff, ok := pred.Instrs[len(pred.Instrs)-1].(*ssa.If)
		if !ok || len(pred.Succs) != 2 {
			return false
		}
		for _, cm := range trueCmps(fact{iff.Cond, pred.Succs[0] == succ}) {
			if cm.Op != token.EQL || cm.Y == nil {
				continue
			}
			x, y := cm.X, cm.Y
			if _, isK := x.(*ssa.Const); isK {
				x, y = y, x
			}
			k, isK := y.(*ssa.Const)
			if !isK || k.Value == nil || !constant.Compare(k.Value, token.EQL, eofVal) {
				continue
			}
			if types.Identical(x.Type(), itemTypeT) && fromTokenSource(c, x) {
				return true
			}
		}
		return false
	}
	target := func(i ssa.Instruction) bool {
		ret, ok := i.(*ssa.Return)
		if !ok || isRecoverBlockReturn(ret) || len(ret.Results) == 0 {
			return false
		}
		return !isNilConst(retVals(ret)[0])
	}
	n := 0
	allInstrs(fn, func(i ssa.Instruction) {
		if target(i) {
			n++
		}
	})
	if n == 0 {
		c.r.undecided(rule, safeFname(fn), "the top-level parse function has no return carrying a query", c.w.pos(fn.Pos()))
		return
	}
	if p := c.fc.pathAvoidingEdges(fn, target, nil, isEOFEdge); p != nil {
		c.r.bad(rule, safeFname(fn), "a query can be returned on a path that never establishes that the next token is the end of the input: trailing tokens (e.g. `a=\"1\" & b=\"2\" | c=\"3\"`, `a = \"x\" )`) are silently dropped",
			[]string{c.w.ipos(p[len(p)-1])}, c.fc.witnessStrings(p)...)
	} else {
		c.r.ok(rule, safeFname(fn), fmt.Sprintf("all %d query-carrying returns lie behind an `== %s` branch on the next token", n, ps.kindName(eofVal)), c.w.pos(fn.Pos()))
	}
}

// fromTokenSource: v is the kind field of a token obtained from a token source: a function of the parser package that
// returns a token and (transitively) receives it from the lexer's channel — today the parser's peek/next and the
// lexer's nextItem. A token that does not come out of the stream (a stale copy, a literal) does not count.
func fromTokenSource(c *Ctx, v ssa.Value) bool {
	root := path(v).Root
	call, ok := peel(root).(*ssa.Call)
	if !ok {
		return false
	}
	return c.a.PS.isTokenSource(calleeFunc(&call.Call))
}

func c09PhRange(c *Ctx) {
	const rule = "C09.phrange"
	eqT := c.w.namedType(pkgProto, "Query_Expression_Equal")
	ph := structFieldNamed(eqT, "Placeholder")
	if ph == nil {
		c.r.undecided(rule, "<anchor>", "field Query_Expression_Equal.Placeholder not found")
		return
	}
	n := 0
	for _, fn := range c.w.ModFuncs {
		if c.w.pkgPathOf(fn) != pkgParser {
			continue
		}
		allInstrs(fn, func(i ssa.Instruction) {
			st, ok := i.(*ssa.Store)
			if !ok {
				return
			}
			fa, ok := st.Addr.(*ssa.FieldAddr)
			if !ok || fieldOf(fa.X.Type(), fa.Field) != ph {
				return
			}
			if k, isK := constInt(st.Val); isK {
				_ = k
				c.r.ok(rule, fmt.Sprintf("%s: store#%d", safeFname(fn), n+1), "constant", c.w.ipos(i))
				n++
				return
			}
			n++
			key := fmt.Sprintf("%s: store#%d", safeFname(fn), n)
			// The value may be produced (tested, converted) by a helper of the parser — `value, placeholder :=
			// p.parseOperand()`: both walks below follow a helper's result into its return statements and judge each
			// returned operand by what is known at the return it leaves by, and follow a helper's parameter back to the
			// argument of the call they came in by (binds).
			binds := phBinds{}
			why := boundedInt32(c, st.Val, st, 0, map[ssa.Value]bool{}, binds)
			if why == "" {
				// and the >= 1 test: on every non-constant origin of the stored value (through phis and helper returns), on the edge it arrives by
				lower := lowerBounded(c, st.Val, st.Block(), st, map[ssa.Value]bool{}, binds, 0)
				if lower {
					c.r.ok(rule, key, "value comes from a 32-bit parse with tested error (or constants) and is known to be >= 1", c.w.ipos(i))
				} else {
					c.r.bad(rule, key, "the placeholder number stored in the tree is not known to be >= 1 at this point", []string{c.w.ipos(i)})
				}
			} else {
				c.r.bad(rule, key, "the placeholder number is narrowed to int32 without a range guarantee ("+why+"): `$4294967297` would be stored as $1", []string{c.w.ipos(i)})
			}
		})
	}
	if n == 0 {
		c.r.undecided(rule, "parser", "no store to the Placeholder field found in the parser package")
	}
}

// sameOrigin: a and b are the same value up to numeric conversions.
func sameOrigin(a, b ssa.Value) bool { return peelConv(a) == peelConv(b) }

// cmpsAtPruned: comparisons known at `at` when blocks ending in a diverging call are treated as dead ends:
// a join block whose other predecessors all diverge inherits the facts of its one live predecessor.
func cmpsAtPruned(fc *flowCtx, at ssa.Instruction) []cmp {
	var out []cmp
	b := at.Block()
	for steps := 0; b != nil && steps < 1000; steps++ {
		var live []*ssa.BasicBlock
		for _, p := range b.Preds {
			if !blockDiverges(fc, p) {
				live = append(live, p)
			}
		}
		if len(live) != 1 {
			// fall back to dominator facts from here
			for _, f := range factsAtBlock(b) {
				out = append(out, trueCmps(f)...)
			}
			return out
		}
		p := live[0]
		if iff, ok := p.Instrs[len(p.Instrs)-1].(*ssa.If); ok && len(p.Succs) == 2 && p.Succs[0] != p.Succs[1] {
			out = append(out, trueCmps(fact{iff.Cond, p.Succs[0] == b})...)
		}
		b = p
	}
	return out
}

func blockDiverges(fc *flowCtx, b *ssa.BasicBlock) bool {
	for _, i := range b.Instrs {
		if fc.diverges(i) {
			return true
		}
	}
	return false
}

// phBinds records, for the parameters of the helpers the placeholder walks have entered through a call, the call and
// the argument bound to the parameter there (a helper is entered from the one call whose result is being explained, so
// the binding is exact for the value under consideration, not a join over all callers).
type phBinds map[*ssa.Parameter]phBind

type phBind struct {
	call *ssa.Call
	arg  ssa.Value
}

// enter binds callee's parameters to the arguments of call. If the helper was entered before from another call, what
// the walk has memoised about values inside it was established under the other binding and is forgotten.
func (b phBinds) enter(call *ssa.Call, callee *ssa.Function, seen map[ssa.Value]bool) {
	for _, q := range callee.Params {
		if old, ok := b[q]; ok && old.call != call {
			for v := range seen {
				if v.Parent() == callee {
					delete(seen, v)
				}
			}
			break
		}
	}
	for _, q := range callee.Params {
		if a := argFor(call, callee, q); a != nil {
			b[q] = phBind{call, a}
		}
	}
}

// upperTested: an explicit test `v <= K` / `v < K` with K within int32 is known at `at` (v taken up to conversions).
func upperTested(c *Ctx, v ssa.Value, at ssa.Instruction) bool {
	if at == nil {
		return false
	}
	for _, cm := range cmpsAtPruned(c.fc, at) {
		if cm.Y == nil {
			continue
		}
		if k, ok := constInt(cm.Y); ok && sameOrigin(cm.X, v) {
			if (cm.Op == token.LEQ && k <= (1<<31)-1) || (cm.Op == token.LSS && k <= (1<<31)) {
				return true
			}
		}
	}
	return false
}

// boundedInt32 returns "" if v (to be stored as int32) provably fits, else why not. `at` is the instruction at which v
// is handed on (the store; inside a helper, the return v leaves by): an explicit upper-bound test counts if it is
// known there. A value that is the result of a module helper is judged on every operand the helper can return for it
// (so the parse, the test, or the conversion to int32 may live in the helper); a helper's parameter is judged on the
// argument of the call the walk came in by.
func boundedInt32(c *Ctx, v ssa.Value, at ssa.Instruction, depth int, seen map[ssa.Value]bool, binds phBinds) string {
	if depth > 8 {
		return "value flows too deep for the rule"
	}
	if q, ok := v.(*ssa.Parameter); ok {
		// not memoised: the same helper may be entered again from another call with another argument
		if upperTested(c, v, at) {
			return ""
		}
		if b, ok := binds[q]; ok {
			return boundedInt32(c, b.arg, b.call, depth+1, seen, binds)
		}
		return "unrecognised source parameter " + q.Name() + " of " + safeFname(q.Parent())
	}
	if seen[v] {
		return ""
	}
	seen[v] = true
	if k, ok := constInt(v); ok {
		if k >= -(1<<31) && k < (1<<31) {
			return ""
		}
		return "constant out of range"
	}
	// an explicit upper bound test dominating the place the value is handed on
	if upperTested(c, v, at) {
		return ""
	}
	switch x := v.(type) {
	case *ssa.Convert:
		// fits already if the operand type is no wider than 32 bits
		if b, ok := x.X.Type().Underlying().(*types.Basic); ok {
			switch b.Kind() {
			case types.Int8, types.Int16, types.Int32, types.Uint8, types.Uint16:
				return ""
			}
		}
		return boundedInt32(c, x.X, at, depth+1, seen, binds)
	case *ssa.ChangeType:
		return boundedInt32(c, x.X, at, depth+1, seen, binds)
	case *ssa.Phi:
		for _, e := range x.Edges {
			if why := boundedInt32(c, e, at, depth+1, seen, binds); why != "" {
				return why
			}
		}
		return ""
	case *ssa.Extract, *ssa.Call:
		if e, isE := x.(*ssa.Extract); isE {
			if call, ok := e.Tuple.(*ssa.Call); ok && e.Index == 0 {
				name := calleeName(&call.Call)
				if name == "strconv.ParseInt" || name == "strconv.ParseUint" {
					bits, ok := constInt(call.Call.Args[2])
					if !ok || bits > 32 || bits <= 0 || (name == "strconv.ParseUint" && bits > 31) {
						return fmt.Sprintf("%s with bitSize %v", name, call.Call.Args[2])
					}
					ev := extractOf(call, 1)
					out := c.fc.errTested(call.Parent(), ev, e)
					if !out {
						return name + " error is not tested before the value is used"
					}
					return ""
				}
				if name == "strconv.Atoi" {
					return "strconv.Atoi yields a platform int"
				}
			}
		}
		// the result of a helper of the module: every operand it can return for this result, at its return
		if call, callee, rets, vals, ok := resultReturns(c.w, v); ok {
			binds.enter(call, callee, seen)
			for k, rv := range vals {
				if why := boundedInt32(c, rv, rets[k], depth+1, seen, binds); why != "" {
					return why
				}
			}
			return ""
		}
		if call, ok := x.(*ssa.Call); ok {
			return "unrecognised source " + calleeName(&call.Call)
		}
		return "unrecognised source " + v.String()
	}
	return "unrecognised source " + v.String()
}

// errTested: every use of val (the value result) that is not itself the error test happens where err == nil is known
// (also when the error branch ends in the diverging error helper instead of a return: `if err != nil { p.errorf(…) }`).
func (fc *flowCtx) errTested(fn *ssa.Function, errv ssa.Value, val ssa.Value) bool {
	if errv == nil {
		return false
	}
	for _, u := range usesOf(val) {
		okHere := false
		for _, cm := range append(cmpsAt(u), cmpsAtPruned(fc, u)...) {
			if cm.Op == token.EQL && cm.Y != nil && ((cm.X == errv && isNilConst(cm.Y)) || (cm.Y == errv && isNilConst(cm.X))) {
				okHere = true
			}
		}
		if !okHere {
			return false
		}
	}
	return true
}

func c09Panics(c *Ctx) {
	const rule = "C09.panics"
	errIface := types.Universe.Lookup("error").Type().Underlying().(*types.Interface)
	n := 0
	for _, fn := range c.w.ModFuncs {
		if c.w.pkgPathOf(fn) != pkgParser {
			continue
		}
		allInstrs(fn, func(i ssa.Instruction) {
			p, ok := i.(*ssa.Panic)
			if !ok || selectNoCasePanic(p) {
				return
			}
			n++
			key := fmt.Sprintf("%s: panic#%d", safeFname(fn), n)
			switch x := p.X.(type) {
			case *ssa.MakeInterface:
				if types.Implements(x.X.Type(), errIface) {
					c.r.ok(rule, key, "panics with an error value", c.w.ipos(i))
				} else {
					c.r.bad(rule, key, "panic with a value of type "+typeString(x.X.Type())+" that is not an error: the recover handler's e.(error) assertion would itself panic and ParseQuery would crash its caller", []string{c.w.ipos(i)})
				}
			case *ssa.ChangeInterface:
				if types.Implements(x.X.Type(), errIface) {
					c.r.ok(rule, key, "panics with an error value", c.w.ipos(i))
				} else {
					c.r.bad(rule, key, "panic with a value of type "+typeString(x.X.Type())+" that is not an error", []string{c.w.ipos(i)})
				}
			default:
				// re-panic of the recovered value: must be under a successful runtime.Error assertion. The recovered value may
				// be a parameter of a helper that every caller hands the result of recover() (`handlePanic(recover(), errp)`).
				recovered := ssa.Value(nil)
				if call, ok := p.X.(*ssa.Call); ok {
					if b, ok := call.Call.Value.(*ssa.Builtin); ok && b.Name() == "recover" {
						recovered = call
					}
				}
				if par, ok := p.X.(*ssa.Parameter); ok {
					pf := par.Parent()
					idx := -1
					for k, q := range pf.Params {
						if q == par {
							idx = k
						}
					}
					if node := c.w.CG.Nodes[pf]; node != nil && idx >= 0 && len(node.In) > 0 {
						all := true
						for _, e := range node.In {
							if e.Site == nil || e.Site.Common().StaticCallee() != pf || idx >= len(e.Site.Common().Args) {
								all = false
								break
							}
							rc, isCall := e.Site.Common().Args[idx].(*ssa.Call)
							if !isCall {
								all = false
								break
							}
							if b, ok := rc.Call.Value.(*ssa.Builtin); !ok || b.Name() != "recover" {
								all = false
								break
							}
						}
						if all {
							recovered = par
						}
					}
				}
				if recovered != nil {
					{
						call := recovered
						guarded := false
						for _, cm := range cmpsAt(p) {
							if cm.Y == nil && cm.Op == token.EQL {
								if e, ok := cm.X.(*ssa.Extract); ok && e.Index == 1 {
									if ta, ok := e.Tuple.(*ssa.TypeAssert); ok && ta.X == call && typeIs(ta.AssertedType, "runtime", "Error") {
										guarded = true
									}
								}
							}
						}
						c.r.check(guarded, rule, key, "re-panics only runtime errors", "the recovered value is re-panicked without being a runtime.Error: parse errors would crash the caller", c.w.ipos(i))
						return
					}
				}
				if types.Implements(p.X.Type(), errIface) {
					c.r.ok(rule, key, "panics with an error value", c.w.ipos(i))
				} else {
					c.r.undecided(rule, key, "panic operand the rule cannot classify", c.w.ipos(i))
				}
			}
		})
	}
	// ParseQuery defers a recover handler on every path
	pq := c.a.ParseQuery
	isRecoverDefer := func(i ssa.Instruction) bool {
		d, ok := i.(*ssa.Defer)
		if !ok {
			return false
		}
		f := calleeFunc(&d.Call)
		if f == nil || f.Blocks == nil {
			return false
		}
		has := false
		allInstrs(f, func(j ssa.Instruction) {
			if call, ok := j.(*ssa.Call); ok {
				if b, ok := call.Call.Value.(*ssa.Builtin); ok && b.Name() == "recover" {
					has = true
				}
			}
		})
		return has
	}
	if p := c.fc.pathAvoiding(pq, nil, func(i ssa.Instruction) bool {
		call, ok := i.(*ssa.Call)
		return ok && calleeFunc(&call.Call) == c.a.ParserParse
	}, isRecoverDefer); p != nil {
		c.r.bad(rule, "ParseQuery: recover", "ParseQuery calls the parser without having deferred a recover handler: syntax errors (raised as panics) would crash the caller", []string{c.w.pos(pq.Pos())}, c.fc.witnessStrings(p)...)
	} else {
		c.r.ok(rule, "ParseQuery: recover", "a recover handler is deferred before parsing starts", c.w.pos(pq.Pos()))
	}
	c.r.expect(rule, 3)
}

// selectNoCasePanic: the panic go/ssa puts behind the case dispatch of a blocking select ("blocking select matched no
// case"): not a statement of the program and unreachable — a blocking select always yields the index of one of its
// cases. Recognised by its place: a position-less panic in the block reached only on the false edge of the comparison
// of a select's case index with a constant.
func selectNoCasePanic(p *ssa.Panic) bool {
	b := p.Block()
	if p.Pos() != token.NoPos || b == nil || len(b.Preds) != 1 {
		return false
	}
	pred := b.Preds[0]
	iff, ok := pred.Instrs[len(pred.Instrs)-1].(*ssa.If)
	if !ok || len(pred.Succs) != 2 || pred.Succs[1] != b || pred.Succs[0] == b {
		return false
	}
	cmp, ok := iff.Cond.(*ssa.BinOp)
	if !ok || cmp.Op != token.EQL {
		return false
	}
	ex, ok := cmp.X.(*ssa.Extract)
	if !ok || ex.Index != 0 {
		return false
	}
	sel, ok := ex.Tuple.(*ssa.Select)
	if _, isK := constInt(cmp.Y); !isK || !ok || !sel.Blocking {
		return false
	}
	mi, ok := p.X.(*ssa.MakeInterface)
	if !ok {
		return false
	}
	_, isStr := constString(mi.X)
	return isStr
}

// lowerBounded: v >= 1 is known for every non-constant origin of v (constants are accepted as they are: 0 means "no placeholder").
// Origins are followed through phis (the test may sit on the edge the value arrives by), into the returns of a module
// helper whose result v is (the test may sit on the path to the return the value leaves by — `if placeholder < 1
// { errorf }; return "", placeholder`), and from a helper's parameter to the argument of the call the walk came in by.
func lowerBounded(c *Ctx, v ssa.Value, blk *ssa.BasicBlock, at ssa.Instruction, seen map[ssa.Value]bool, binds phBinds, depth int) bool {
	v = peelConv(v)
	if depth > 8 {
		return false
	}
	has := func(cs []cmp) bool {
		for _, cm := range cs {
			if cm.Y == nil {
				continue
			}
			if k, ok := constInt(cm.Y); ok && sameOrigin(cm.X, v) {
				if (cm.Op == token.GEQ && k >= 1) || (cm.Op == token.GTR && k >= 0) {
					return true
				}
			}
		}
		return false
	}
	if q, ok := v.(*ssa.Parameter); ok {
		// not memoised: the same helper may be entered again from another call with another argument
		if at != nil && has(cmpsAtPruned(c.fc, at)) {
			return true
		}
		if b, ok := binds[q]; ok {
			return lowerBounded(c, b.arg, b.call.Block(), b.call, seen, binds, depth+1)
		}
		return false
	}
	if seen[v] {
		return true
	}
	seen[v] = true
	if _, ok := constInt(v); ok {
		return true
	}
	if at != nil && has(cmpsAtPruned(c.fc, at)) {
		return true
	}
	if phi, ok := v.(*ssa.Phi); ok {
		for k, e := range phi.Edges {
			pred := phi.Block().Preds[k]
			if blockDiverges(c.fc, pred) {
				continue
			}
			ev := peelConv(e)
			if _, isK := constInt(ev); isK {
				continue
			}
			// facts at the end of pred, plus the edge fact
			var cs []cmp
			if len(pred.Instrs) > 0 {
				cs = cmpsAtPruned(c.fc, pred.Instrs[len(pred.Instrs)-1])
			}
			if iff, ok := pred.Instrs[len(pred.Instrs)-1].(*ssa.If); ok && len(pred.Succs) == 2 {
				cs = append(cs, trueCmps(fact{iff.Cond, pred.Succs[0] == phi.Block()})...)
			}
			okEdge := false
			for _, cm := range cs {
				if cm.Y == nil {
					continue
				}
				if kk, ok := constInt(cm.Y); ok && sameOrigin(cm.X, ev) {
					if (cm.Op == token.GEQ && kk >= 1) || (cm.Op == token.GTR && kk >= 0) {
						okEdge = true
					}
				}
			}
			if !okEdge {
				switch ev.(type) {
				case *ssa.Phi:
					if lowerBounded(c, ev, pred, nil, seen, binds, depth+1) {
						continue
					}
				case *ssa.Call, *ssa.Extract, *ssa.Parameter:
					// the value arriving by this edge was tested where it was produced (a helper) or before it came in
					if lowerBounded(c, ev, pred, pred.Instrs[len(pred.Instrs)-1], seen, binds, depth+1) {
						continue
					}
				}
				return false
			}
		}
		return true
	}
	// the result of a helper of the module: every operand it can return for this result must be >= 1 (or a constant)
	// at the return it leaves by
	if call, callee, rets, vals, ok := resultReturns(c.w, v); ok {
		binds.enter(call, callee, seen)
		for k, rv := range vals {
			if !lowerBounded(c, rv, rets[k].Block(), rets[k], seen, binds, depth+1) {
				return false
			}
		}
		return true
	}
	return false
}

// c09NoQueryOnError: "otherwise it returns an error and no query". Parse errors are raised by panic and turned into the
// error result by a deferred recover handler; the other named result keeps whatever was assigned to it before the panic.
// So in a function that defers such a handler, a non-nil store to a result cell other than the error must not be able
// to reach a call that can raise a parse error (the diverging helper, directly or through parser methods): otherwise the
// function returns a query together with the error.
func c09NoQueryOnError(c *Ctx) {
	const rule = "C09.noquery"
	n := 0
	for _, fn := range c.w.ModFuncs {
		if c.w.pkgPathOf(fn) != pkgParser || fn.Blocks == nil || fn.Recover == nil {
			continue
		}
		// a deferred handler that calls recover()
		handles := false
		allInstrs(fn, func(i ssa.Instruction) {
			d, ok := i.(*ssa.Defer)
			if !ok {
				return
			}
			h := calleeFunc(&d.Call)
			if h == nil || h.Blocks == nil {
				return
			}
			if c.fc.mayContain(h, func(j ssa.Instruction) bool {
				call, ok := j.(*ssa.Call)
				if !ok {
					return false
				}
				b, isB := call.Call.Value.(*ssa.Builtin)
				return isB && b.Name() == "recover"
			}, 1) {
				handles = true
			}
		})
		if !handles {
			continue
		}
		// result cells: what the recover block's return loads
		var cells []ssa.Value
		for _, ins := range fn.Recover.Instrs {
			if ret, ok := ins.(*ssa.Return); ok {
				for _, rv := range ret.Results {
					if ld, ok := rv.(*ssa.UnOp); ok && ld.Op == token.MUL && !isErrorType(rv.Type()) {
						cells = append(cells, ld.X)
					}
				}
			}
		}
		if len(cells) == 0 {
			continue
		}
		n++
		mayRaise := func(i ssa.Instruction) bool {
			if _, ok := i.(*ssa.Panic); ok {
				return true
			}
			call, ok := i.(*ssa.Call)
			if !ok {
				return false
			}
			if c.fc.diverges(i) {
				return true
			}
			h := calleeFunc(&call.Call)
			if h == nil || !c.w.inModule(h) || c.w.pkgPathOf(h) != pkgParser {
				return false
			}
			return c.fc.mayContain(h, func(j ssa.Instruction) bool {
				if _, ok := j.(*ssa.Panic); ok {
					return true
				}
				return c.fc.diverges(j)
			}, 4)
		}
		var witness []ssa.Instruction
		allInstrs(fn, func(i ssa.Instruction) {
			st, ok := i.(*ssa.Store)
			if !ok || witness != nil || isNilConst(st.Val) {
				return
			}
			isCell := false
			for _, cl := range cells {
				if st.Addr == cl {
					isCell = true
				}
			}
			if !isCell {
				return
			}
			if p := c.fc.pathAvoiding(fn, st, mayRaise, nil); p != nil {
				witness = p
			}
		})
		if witness != nil {
			c.r.bad(rule, safeFname(fn), "a result other than the error is assigned before a call that can raise a parse error: the recover handler then returns the error together with a (partial) query instead of no query",
				[]string{c.w.ipos(witness[len(witness)-1])}, c.fc.witnessStrings(witness)...)
		} else {
			c.r.ok(rule, safeFname(fn), "no result is assigned before the last call that can raise a parse error", c.w.pos(fn.Pos()))
		}
	}
	if n == 0 {
		c.r.ok(rule, "parser", "no function of the parser converts panics into an error result next to another result")
	}
}
