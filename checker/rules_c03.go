package main

import (
	"fmt"
	"go/constant"
	"go/token"
	"go/types"
	"sort"
	"strings"

	"golang.org/x/tools/go/ssa"
)

func init() {
	register(&propDef{
		id:  "C03",
		run: runC03,
		explanation: "Decided (structural, for every query sequence and cache capacity): " +
			"C03.keyhash — in every cacheKey method of an expression type with operands, the operands' keys flow only through order-preserving encoders (append, binary Put/AppendUint64, helper parameters) into a recognised hash (xxhash), never through arithmetic/bitwise operators or math/bits, the method returns that hash, and a per-type constant tag reaches the same hash input with tags pairwise distinct; " +
			"C03.keyoperands — the list of keys an n-ary operator hashes is exactly one cacheKey() per operand in operand order (no operand skipped, replaced or expanded into its own operands; the collecting loop may live in a helper, also a generic map helper mapSlice(xs, f) whose function argument — method expression, literal or named wrapper — is resolved and must return x.cacheKey() of its parameter; a re-sliced operand list is not the operand list); " +
			"C03.keypair — each eval looks up and stores under its own cacheKey(), stores exactly the bitmap it returns, and returns the cached bitmap itself on a hit; " +
			"C03.pure — in everything reachable from Execute/GetSchema every call of a mutating roaring.Bitmap method (called directly, or through a function value read from a struct field into which the module stores the method expression — an operator table's `accumulate: (*roaring.Bitmap).And`) has a receiver created in that function and not yet handed to Cache.Put, and every roaring package function called is in the reviewed non-mutating table; " +
			"C03.storeimm — fields of Index and of the column getters are written only by the open/option/close functions; " +
			"C03.cacheowner — every cache installed with WithCache in non-test code is created in the installing function for that one index (cache keys do not identify the index, so a shared cache would mix results of different files). " +
			"NOT decided: equality of results with an uncached index as such (follows from the above plus determinism of roaring, trusted); 64-bit hash collisions (assumed away by the property); LRU behaviour (C07).",
		assumptions: []string{"roaring API classification (DESIGN Appendix A.1)", "xxhash is a hash with no exploitable structure on 8-byte-aligned inputs", "call graph over-approximates (no reflection/unsafe in reachable set)"},
	})
}

var hashSinks = map[string]bool{
	"github.com/cespare/xxhash/v2.Sum64":                 true,
	"github.com/cespare/xxhash/v2.Sum64String":           true,
	"(*github.com/cespare/xxhash/v2.Digest).Write":       true,
	"(*github.com/cespare/xxhash/v2.Digest).WriteString": true,
	"(hash.Hash).Write":                                  true,
	"(hash.Hash64).Write":                                true,
	"(io.Writer).Write":                                  false,
}

var encoders = map[string]bool{
	"(encoding/binary.bigEndian).PutUint64": true, "(encoding/binary.bigEndian).AppendUint64": true,
	"(encoding/binary.littleEndian).PutUint64": true, "(encoding/binary.littleEndian).AppendUint64": true,
	"(encoding/binary.ByteOrder).PutUint64": true, "(encoding/binary.AppendByteOrder).AppendUint64": true,
}

// taintRun is a forward, flow-insensitive, interprocedural (module functions only) propagation of a set of values.
// Calls of a function-typed parameter of a followed helper (`f(x)` in mapSlice(xs, f)) are bound to the functions
// passed for it at the helper's call sites (calleesOf), so keys produced in the thunk of `Expression.cacheKey` or in
// a literal come back through the map helper's result.
type taintRun struct {
	c        *Ctx
	tainted  map[ssa.Value]bool
	cont     map[ssa.Value]bool // containers (allocs/slices) holding tainted elements
	viol     []taintViol
	hashed   map[ssa.Value]bool // results of hash sinks fed by tainted input
	funcs    map[*ssa.Function]bool
	sinkHits int
	sinks    map[ssa.Instruction]bool
	strict   bool // report non-transparent uses
}

type taintViol struct {
	ins  ssa.Instruction
	msg  string
	kind string // violated | undecided
}

func newTaint(c *Ctx, strict bool) *taintRun {
	return &taintRun{c: c, tainted: map[ssa.Value]bool{}, cont: map[ssa.Value]bool{}, hashed: map[ssa.Value]bool{}, funcs: map[*ssa.Function]bool{}, strict: strict, sinks: map[ssa.Instruction]bool{}}
}

func (t *taintRun) isT(v ssa.Value) bool {
	if v == nil {
		return false
	}
	return t.tainted[v]
}

func arith(op token.Token) bool {
	switch op {
	case token.ADD, token.SUB, token.MUL, token.QUO, token.REM, token.AND, token.OR, token.XOR, token.SHL, token.SHR, token.AND_NOT:
		return true
	}
	return false
}

// run propagates to a fixpoint starting from the seeds already placed in t.tainted, over fn and the module functions it passes tainted values to.
func (t *taintRun) run(start *ssa.Function) {
	t.funcs[start] = true
	seenViol := map[string]bool{}
	report := func(ins ssa.Instruction, kind, msg string) {
		k := t.c.w.ipos(ins) + msg
		if !seenViol[k] {
			seenViol[k] = true
			t.viol = append(t.viol, taintViol{ins, msg, kind})
		}
	}
	mark := func(v ssa.Value) bool {
		if v == nil || t.tainted[v] {
			return false
		}
		t.tainted[v] = true
		return true
	}
	for changed := true; changed; {
		changed = false
		var fns []*ssa.Function
		for f := range t.funcs {
			fns = append(fns, f)
		}
		for _, fn := range fns {
			allInstrs(fn, func(i ssa.Instruction) {
				switch x := i.(type) {
				case *ssa.Phi:
					for _, e := range x.Edges {
						if t.isT(e) && mark(x) {
							changed = true
						}
					}
				case *ssa.ChangeType:
					if t.isT(x.X) && mark(x) {
						changed = true
					}
				case *ssa.Convert:
					if t.isT(x.X) && mark(x) {
						changed = true
					}
				case *ssa.MakeInterface:
					if t.isT(x.X) && mark(x) {
						changed = true
					}
				case *ssa.Slice:
					if t.isT(x.X) && mark(x) {
						changed = true
					}
				case *ssa.IndexAddr:
					if t.isT(x.X) && mark(x) {
						changed = true
					}
				case *ssa.Index:
					if t.isT(x.X) && mark(x) {
						changed = true
					}
				case *ssa.FieldAddr, *ssa.Field:
				case *ssa.UnOp:
					if x.Op == token.MUL {
						if t.isT(x.X) && mark(x) {
							changed = true
						}
					} else if t.isT(x.X) {
						if t.strict {
							report(i, "violated", fmt.Sprintf("operand key goes through unary operator %s", x.Op))
						}
						if mark(x) {
							changed = true
						}
					}
				case *ssa.Store:
					if t.isT(x.Val) {
						// storing a tainted value: the container (array alloc / slice) becomes tainted
						switch a := x.Addr.(type) {
						case *ssa.IndexAddr:
							if mark(a.X) {
								changed = true
							}
							if mark(a) {
								changed = true
							}
						case *ssa.Alloc:
							if mark(a) {
								changed = true
							}
						default:
							if _, ok := peelCell(x.Addr).(*ssa.Alloc); ok {
								if mark(peelCell(x.Addr)) {
									changed = true
								}
								if mark(x.Addr) {
									changed = true
								}
							} else if t.strict {
								report(i, "undecided", "operand key stored into memory the rule does not follow")
							}
						}
					}
				case *ssa.BinOp:
					if t.isT(x.X) || t.isT(x.Y) {
						if arith(x.Op) {
							if t.strict {
								report(i, "violated", fmt.Sprintf("operand keys combined with arithmetic/bitwise operator %s: commutative and self-cancelling combiners make expressions of different meaning share a key", x.Op))
							}
							if mark(x) {
								changed = true
							}
						}
					}
				case *ssa.Return:
					// handled by callers via funcReturnsTainted
				case *ssa.Call:
					cc := &x.Call
					name := calleeName(cc)
					args := callArgs(cc)
					anyT := false
					for _, a := range args {
						if t.isT(a) {
							anyT = true
						}
					}
					if b, ok := cc.Value.(*ssa.Builtin); ok {
						switch b.Name() {
						case "append":
							if anyT && mark(x) {
								changed = true
							}
						case "len", "cap":
						case "copy":
							if len(args) == 2 && t.isT(args[1]) && mark(args[0]) {
								changed = true
							}
						default:
							if anyT && t.strict {
								report(i, "undecided", "operand key passed to builtin "+b.Name())
							}
						}
						return
					}
					targets, known := t.calleesOf(x)
					if !anyT {
						// results of module helpers (or of the functions passed for a function parameter) that return tainted values
						for _, fn := range targets {
							if t.funcs[fn] && t.returnsTainted(fn) && mark(x) {
								changed = true
							}
						}
						return
					}
					if hashSinks[name] {
						if !t.sinks[x] {
							t.sinks[x] = true
							t.sinkHits++
						}
						if !t.hashed[x] {
							t.hashed[x] = true
							changed = true
						}
						return
					}
					if encoders[name] {
						// PutUint64(buf, v): buf becomes tainted; AppendUint64(buf, v): result tainted
						for _, a := range args {
							if _, ok := a.Type().Underlying().(*types.Slice); ok {
								if mark(a) {
									changed = true
								}
								if sl, ok := a.(*ssa.Slice); ok && mark(sl.X) {
									changed = true
								}
							}
						}
						if mark(x) {
							changed = true
						}
						return
					}
					if strings.HasPrefix(name, "math/bits.") {
						if t.strict {
							report(i, "violated", "operand key passed to "+name+": bit tricks on operand keys are not an injective encoding")
						}
						if mark(x) {
							changed = true
						}
						return
					}
					followed := known && len(targets) > 0
					for _, fn := range targets {
						if !t.c.w.inModule(fn) || fn.Blocks == nil {
							followed = false
						}
					}
					if followed {
						hashedAll := true
						for _, fn := range targets {
							if !t.funcs[fn] {
								t.funcs[fn] = true
								changed = true
							}
							for k, a := range cc.Args {
								if t.isT(a) && k < len(fn.Params) && mark(fn.Params[k]) {
									changed = true
								}
							}
							if t.returnsTainted(fn) && mark(x) {
								changed = true
							}
							if !t.returnsHashed(fn) {
								hashedAll = false
							}
						}
						if hashedAll && !t.hashed[x] {
							t.hashed[x] = true
							changed = true
						}
						return
					}
					if t.strict {
						report(i, "undecided", "operand key passed to "+name+", which the rule does not recognise as an encoder or hash")
					}
				}
			})
		}
		// hashed values propagate through phis/converts and helper returns
		for _, fn := range fns {
			allInstrs(fn, func(i ssa.Instruction) {
				switch x := i.(type) {
				case *ssa.Phi:
					all := len(x.Edges) > 0
					for _, e := range x.Edges {
						if !t.hashed[e] {
							all = false
						}
					}
					if all && !t.hashed[x] {
						t.hashed[x] = true
						changed = true
					}
				case *ssa.Convert:
					if t.hashed[x.X] && !t.hashed[x] {
						t.hashed[x] = true
						changed = true
					}
				case *ssa.Call:
					if fn := calleeFunc(&x.Call); fn != nil && t.funcs[fn] && t.returnsHashed(fn) && !t.hashed[x] {
						t.hashed[x] = true
						changed = true
					}
				}
			})
		}
	}
}

// calleesOf: the functions a call may run, as far as they are known statically — the static callee, or, for a call of a
// function-typed parameter of a followed helper (`f(x)` in a map helper mapSlice(xs, f)), the functions passed for that
// parameter at the helper's call sites in the followed functions (method expressions resolve to their thunk, literals
// to their body). known is false if some call site passes a function value that cannot be resolved.
func (t *taintRun) calleesOf(call *ssa.Call) (out []*ssa.Function, known bool) {
	cc := &call.Call
	if cc.IsInvoke() {
		return nil, false
	}
	if fn := calleeFunc(cc); fn != nil {
		return []*ssa.Function{fn}, true
	}
	p, ok := peel(cc.Value).(*ssa.Parameter)
	if !ok {
		return nil, false
	}
	h := p.Parent()
	known = true
	seen := map[*ssa.Function]bool{}
	for f := range t.funcs {
		allInstrs(f, func(i ssa.Instruction) {
			site, isCall := i.(*ssa.Call)
			if !isCall || calleeFunc(&site.Call) != h {
				return
			}
			g := funcValueOf(argFor(site, h, p), nil)
			if g == nil {
				known = false
				return
			}
			if !seen[g] {
				seen[g] = true
				out = append(out, g)
			}
		})
	}
	sort.Slice(out, func(i, j int) bool { return out[i].String() < out[j].String() })
	return out, known
}

func (t *taintRun) returnsTainted(fn *ssa.Function) bool {
	r := false
	allInstrs(fn, func(i ssa.Instruction) {
		if ret, ok := i.(*ssa.Return); ok {
			for _, v := range retVals(ret) {
				if t.isT(v) {
					r = true
				}
			}
		}
	})
	return r
}

func (t *taintRun) returnsHashed(fn *ssa.Function) bool {
	n, all := 0, true
	allInstrs(fn, func(i ssa.Instruction) {
		if ret, ok := i.(*ssa.Return); ok && len(ret.Results) > 0 {
			n++
			if !t.hashed[retVals(ret)[0]] {
				all = false
			}
		}
	})
	return n > 0 && all
}

// childKeyCalls finds calls of Expression.cacheKey (interface or static) inside fn.
func childKeyCalls(c *Ctx, fn *ssa.Function) []*ssa.Call {
	var out []*ssa.Call
	allInstrs(fn, func(i ssa.Instruction) {
		call, ok := i.(*ssa.Call)
		if !ok {
			return
		}
		cc := &call.Call
		if cc.IsInvoke() && cc.Method.Name() == keyName && typeIs(cc.Value.Type(), pkgRoot, "Expression") {
			out = append(out, call)
			return
		}
		// (a static call of an expression node's method; a method of the same name on another type — an operator table
		// `opAnd.cacheKey(e.Exprs)` that derives the key for the node — is a helper the keys travel through, not an operand)
		if f := calleeFunc(cc); f != nil && f.Name() == keyName && f.Signature.Recv() != nil && c.w.inModule(f) && isExprMethod(c, f) {
			out = append(out, call)
		}
	})
	return out
}

func hasExprFields(c *Ctx, n *types.Named) bool {
	st, ok := n.Underlying().(*types.Struct)
	if !ok {
		return false
	}
	for i := 0; i < st.NumFields(); i++ {
		t := st.Field(i).Type()
		if types.Identical(t, c.a.ExprIface) {
			return true
		}
		if sl, ok := t.Underlying().(*types.Slice); ok && types.Identical(sl.Elem(), c.a.ExprIface) {
			return true
		}
	}
	return false
}

func runC03(c *Ctx) {
	c03Keyhash(c)
	c03KeyOperands(c)
	c03Keypair(c)
	c03Pure(c)
	c03StoreImm(c)
	cacheOwnerRule(c, "C03.cacheowner")
}

func c03Keyhash(c *Ctx) {
	const rule = "C03.keyhash"
	if !c.need(rule, c.a.ExprIface) {
		return
	}
	tags := map[string][]string{}
	n := 0
	for _, T := range c.a.ExprImpls {
		if !hasExprFields(c, T) {
			continue
		}
		n++
		name := "(*" + T.Obj().Name() + ")." + nameOr(c.a.KeyName, "cacheKey")
		fn := c.a.methodOf(T, c.a.KeyName)
		if fn == nil {
			c.r.undecided(rule, name, "method not found")
			continue
		}
		site := c.w.pos(fn.Pos())
		// the helpers the keys travel through, including instances of generic helpers and the thunks of method expressions
		// (combineCacheKeys(tag, mapSlice(e.Exprs, Expression.cacheKey)...): the operands' cacheKey is invoked in the thunk,
		// called in the instance of mapSlice, whose result carries the keys back)
		helpers := c.scopeSyn(fn, 2)
		var srcs []*ssa.Call
		for _, h := range helpers {
			srcs = append(srcs, childKeyCalls(c, h)...)
		}
		if len(srcs) == 0 {
			c.r.bad(rule, name, "the key of an expression with operands does not use the operands' keys at all", []string{site})
			continue
		}
		t := newTaint(c, true)
		for _, s := range srcs {
			t.tainted[s] = true
		}
		for _, h := range helpers {
			t.funcs[h] = true
		}
		t.run(fn)
		bad := false
		for _, v := range t.viol {
			bad = true
			if v.kind == "violated" {
				c.r.bad(rule, name, v.msg, []string{c.w.ipos(v.ins)})
			} else {
				c.r.undecided(rule, name, v.msg, c.w.ipos(v.ins))
			}
		}
		if bad {
			continue
		}
		if t.returnsTainted(fn) {
			c.r.bad(rule, name, "an operand's key is returned without being hashed together with the operator tag", []string{site})
			continue
		}
		if t.sinkHits == 0 || !t.returnsHashed(fn) {
			c.r.bad(rule, name, "the returned key is not the result of a recognised hash over the operands' keys", []string{site})
			continue
		}
		// tag: constants of this method that reach the hash input
		var consts []*ssa.Const
		allInstrs(fn, func(i ssa.Instruction) {
			if cc := callCommon(i); cc != nil {
				for _, a := range cc.Args {
					if k, ok := peelConv(a).(*ssa.Const); ok && k.Value != nil && k.Value.Kind() == constant.Int {
						consts = append(consts, k)
					}
				}
			}
		})
		var reached []string
		for _, k := range consts {
			tt := newTaint(c, false)
			// seed: every use of this constant as call argument in fn
			allInstrs(fn, func(i ssa.Instruction) {
				if cc := callCommon(i); cc != nil {
					for ai, a := range cc.Args {
						if peelConv(a) == ssa.Value(k) {
							tt.tainted[a] = true
							if f := calleeFunc(cc); f != nil && c.w.inModule(f) && ai < len(f.Params) {
								tt.tainted[f.Params[ai]] = true
								tt.funcs[f] = true
							}
						}
					}
				}
			})
			tt.run(fn)
			if tt.sinkHits > 0 {
				reached = append(reached, k.Value.ExactString())
			}
		}
		// the tag may also be a constant of the operator table the method delegates to (`opAnd.cacheKey(e.Exprs)` with
		// opAnd = naryOp{tag: maskAnd, …}, a package-level variable only its initialiser writes): it counts if the field's
		// value, read in the table's method, reaches the hash input
		for _, tg := range tableTags(c, fn) {
			tt := newTaint(c, false)
			for _, v := range tg.loads {
				tt.tainted[v] = true
			}
			tt.funcs[tg.in] = true
			tt.run(fn)
			if tt.sinkHits > 0 {
				reached = append(reached, tg.k.Value.ExactString())
			}
		}
		sort.Strings(reached)
		if len(reached) == 0 {
			c.r.bad(rule, name, "no per-operator constant tag reaches the hash input: different operators over the same operands would share a key", []string{site})
			continue
		}
		tags[T.Obj().Name()] = reached
		c.r.ok(rule, name, fmt.Sprintf("operand keys reach %d hash call(s) only through order-preserving encoders; tag(s) %v hashed with them", t.sinkHits, reached), site)
	}
	// pairwise distinct tags
	var names []string
	for k := range tags {
		names = append(names, k)
	}
	sort.Strings(names)
	for i := 0; i < len(names); i++ {
		for j := i + 1; j < len(names); j++ {
			a, b := tags[names[i]], tags[names[j]]
			common := ""
			for _, x := range a {
				for _, y := range b {
					if x == y {
						common = x
					}
				}
			}
			c.r.check(common == "", "C03.keytags", names[i]+"/"+names[j], "operator tags are distinct",
				"both operators hash the same tag "+common+": the same operands under either operator share a key")
		}
	}
	c.r.min["C03.keyhash"] = n
}

// ownKeyCall: v is the result of calling T.cacheKey on fn's receiver.
func ownKeyCall(c *Ctx, fn *ssa.Function, v ssa.Value) bool {
	call, ok := peel(v).(*ssa.Call)
	if !ok {
		return false
	}
	f := calleeFunc(&call.Call)
	if f == nil || f.Name() != keyName || f.Signature.Recv() == nil || fn.Signature.Recv() == nil {
		return false
	}
	if !types.Identical(f.Signature.Recv().Type(), fn.Signature.Recv().Type()) {
		return false
	}
	return len(call.Call.Args) > 0 && len(fn.Params) > 0 && peel(call.Call.Args[0]) == ssa.Value(fn.Params[0])
}

func cacheCalls(fn *ssa.Function, method string) []*ssa.Call {
	var out []*ssa.Call
	allInstrs(fn, func(i ssa.Instruction) {
		if call, ok := i.(*ssa.Call); ok && call.Call.IsInvoke() && call.Call.Method.Name() == method && typeIs(call.Call.Value.Type(), pkgRoot, "Cache") {
			out = append(out, call)
		}
	})
	return out
}

func c03Keypair(c *Ctx) {
	const rule = "C03.keypair"
	for _, T := range c.a.ExprImpls {
		name := "(*" + T.Obj().Name() + ")." + nameOr(c.a.EvalName, "eval")
		fn := c.a.methodOf(T, c.a.EvalName)
		if fn == nil {
			c.r.undecided(rule, name, "method not found")
			continue
		}
		site := c.w.pos(fn.Pos())
		gets, puts := cacheCalls(fn, "Get"), cacheCalls(fn, "Put")
		if len(gets) == 0 && len(puts) == 0 {
			c.r.ok(rule, name, "does not use the cache", site)
			continue
		}
		okAll := true
		fail := func(ins ssa.Instruction, msg string) {
			okAll = false
			c.r.bad(rule, name, msg, []string{c.w.ipos(ins)})
		}
		for _, g := range gets {
			if !ownKeyCall(c, fn, g.Call.Args[0]) {
				fail(g, "Cache.Get is not keyed by the receiver's own cacheKey()")
			}
			// hit path: returns the Get result itself
			bmv := extractOf(g, 0)
			okv := extractOf(g, 1)
			if bmv == nil || okv == nil {
				fail(g, "result of Cache.Get is not used as (bitmap, found)")
				continue
			}
			hit := false
			allInstrs(fn, func(i ssa.Instruction) {
				if ret, ok := i.(*ssa.Return); ok && knownTrue(okv, ret) {
					hit = true
					if len(ret.Results) < 1 || peel(retVals(ret)[0]) != ssa.Value(bmv) {
						fail(ret, "on a cache hit something other than the cached bitmap is returned")
					}
				}
			})
			if !hit {
				fail(g, "no return on the found branch of Cache.Get: a hit is ignored or mishandled")
			}
		}
		for _, p := range puts {
			if !ownKeyCall(c, fn, p.Call.Args[0]) {
				fail(p, "Cache.Put is not keyed by the receiver's own cacheKey(): a result would be stored under another expression's key")
			}
			// every return reachable after the Put returns exactly the stored bitmap
			stored := p.Call.Args[1]
			allInstrs(fn, func(i ssa.Instruction) {
				ret, ok := i.(*ssa.Return)
				if !ok || !c.fc.reachableFrom(fn, p, ret) {
					return
				}
				if len(ret.Results) < 1 || !sameValue(retVals(ret)[0], stored) {
					fail(ret, "the bitmap stored in the cache is not the one returned: later hits would answer differently from this evaluation")
				}
			})
		}
		// every non-hit success return must have passed a Put (otherwise results are computed but inconsistently cached — allowed) — not required.
		if okAll {
			c.r.ok(rule, name, fmt.Sprintf("%d Get / %d Put keyed by own cacheKey(); stored bitmap is the returned one; hit returns cached bitmap", len(gets), len(puts)), site)
		}
	}
	c.r.expect(rule, 4)
}

func c03Pure(c *Ctx) {
	const rule = "C03.pure"
	if !c.need(rule, c.a.Execute, c.a.GetSchema) {
		return
	}
	re := c.w.reach(c.a.Execute, c.a.GetSchema)
	fr := newFresh(c)
	nCalls := 0
	for _, fn := range re.sorted() {
		bad := 0
		var puts []*ssa.Call
		allInstrs(fn, func(i ssa.Instruction) {
			if call, ok := i.(*ssa.Call); ok && call.Call.IsInvoke() && call.Call.Method.Name() == "Put" {
				puts = append(puts, call)
			}
		})
		for _, e := range fr.writes(fn) {
			if !strings.HasPrefix(e.Kind, "call:roaring.Bitmap.") {
				continue
			}
			nCalls++
			key := fmt.Sprintf("%s: %s", safeFname(fn), strings.TrimPrefix(e.Kind, "call:"))
			if e.What == "unclassified" {
				bad++
				c.r.undecided(rule, key, "method of roaring.Bitmap that is in neither the mutating nor the read-only table", c.w.ipos(e.Ins))
				continue
			}
			cc := callCommon(e.Ins)
			if !e.Fresh {
				bad++
				c.r.bad(rule, key, "mutating bitmap method on a bitmap that was not created here (it may be a stored, preloaded or cached bitmap, or an operand's result)",
					[]string{c.w.ipos(e.Ins)}, re.chain(fn)...)
				continue
			}
			for _, p := range puts {
				if len(p.Call.Args) >= 2 && sameValue(p.Call.Args[1], cc.Args[0]) && c.fc.reachableFrom(fn, p, e.Ins) {
					bad++
					c.r.bad(rule, key, "bitmap is modified after it was handed to Cache.Put", []string{c.w.ipos(e.Ins)}, re.chain(fn)...)
				}
			}
		}
		// an in-place operation called through a function value that is kept in a struct field (an operator table
		// `naryOp{accumulate: (*roaring.Bitmap).And}`, called as op.accumulate(acc, x)): if one of the functions the module
		// stores in that field is a mutating bitmap method, the call writes to the bitmap it is given as receiver. (Function
		// values that do not come from a field, or fields some store of which does not resolve to a function, are not
		// followed: the rule stays silent on them, as it always was on calls of function values.)
		allInstrs(fn, func(i ssa.Instruction) {
			cc := callCommon(i)
			if cc == nil || cc.IsInvoke() || calleeFunc(cc) != nil || len(cc.Args) == 0 {
				return
			}
			targets, known := fieldFuncTargets(c, cc.Value)
			if !known {
				return
			}
			for _, g := range targets {
				m, isBM := bitmapMethodOfThunk(g)
				if !isBM || roaringReadOnly[m] {
					continue
				}
				nCalls++
				key := fmt.Sprintf("%s: roaring.Bitmap.%s", safeFname(fn), m)
				if !roaringMutators[m] {
					bad++
					c.r.undecided(rule, key, "method of roaring.Bitmap that is in neither the mutating nor the read-only table (called through a function value)", c.w.ipos(i))
					continue
				}
				if !fr.freshBasedRef(cc.Args[0]) {
					bad++
					c.r.bad(rule, key, "mutating bitmap method, called through the function value of an operator table, on a bitmap that was not created here (it may be a stored, preloaded or cached bitmap, or an operand's result: an operator's result has just been put into — or was served from — the result cache under the operand's key)",
						[]string{c.w.ipos(i)}, re.chain(fn)...)
				}
			}
		})
		// roaring package-level functions must be in the reviewed table
		allInstrs(fn, func(i ssa.Instruction) {
			cc := callCommon(i)
			if cc == nil {
				return
			}
			f := calleeFunc(cc)
			if f == nil || f.Pkg == nil || f.Pkg.Pkg.Path() != roaringPkg || f.Signature.Recv() != nil {
				return
			}
			nCalls++
			if _, ok := freshReturning[funcFullName(f)]; !ok {
				bad++
				c.r.undecided(rule, safeFname(fn)+": "+shortName(funcFullName(f)), "roaring function not in the reviewed non-mutating table", c.w.ipos(i))
			}
		})
		if bad == 0 {
			c.r.ok(rule, safeFname(fn), "no in-place bitmap operation on a shared bitmap", c.w.pos(fn.Pos()))
		}
	}
	c.r.Stats["roaring_calls_examined"] = nCalls
	c.r.expect(rule, 12)
}

func c03StoreImm(c *Ctx) {
	const rule = "C03.storeimm"
	if !c.need(rule, c.a.IndexT, c.a.PreloadedT, c.a.OnDemandT, c.a.OpenFromDB, c.a.OpenIndex, c.a.IndexClose) {
		return
	}
	protected := map[*types.Named]bool{c.a.IndexT: true, c.a.PreloadedT: true, c.a.OnDemandT: true}
	allowed := c.w.reach(c.a.OpenIndex, c.a.OpenFromDB, c.a.WithCache, c.a.WithPreloaded, c.a.WithMetrics, c.a.IndexClose)
	fr := newFresh(c)
	n := 0
	for _, fn := range c.w.ModFuncs {
		if allowed.Funcs[fn] {
			continue
		}
		for _, e := range fr.writes(fn) {
			if e.Fresh {
				continue
			}
			owner, fld := protectedField(c.w, e, protected)
			if owner == nil {
				continue
			}
			n++
			c.r.bad(rule, fmt.Sprintf("%s: %s %s.%s", safeFname(fn), e.Kind, owner.Obj().Name(), fld.Name()),
				"index state is written outside the open/option/close functions", []string{c.w.ipos(e.Ins)})
		}
	}
	if n == 0 {
		c.r.ok(rule, "Index/colGetter fields", fmt.Sprintf("written only in %d open/option/close functions", len(allowed.Funcs)))
	}
}

// cacheOwnerRule: every cache handed to an index (updog.WithCache) is created for that index in the calling function.
// Cache keys are content hashes of (column, value, operator) and do not identify the index file, so a cache object
// shared by two indexes (or surviving a reopen of a rewritten file) answers one file's queries with the other's bitmaps.
func cacheOwnerRule(c *Ctx, rule string) {
	if c.a.WithCache == nil {
		return
	}
	fr := newFresh(c)
	n := 0
	for _, fn := range c.w.ModFuncs {
		allInstrs(fn, func(i ssa.Instruction) {
			call, ok := i.(*ssa.Call)
			if !ok || calleeFunc(&call.Call) != c.a.WithCache {
				return
			}
			n++
			key := fmt.Sprintf("%s: WithCache#%d", safeFname(fn), n)
			c.r.check(fr.level(call.Call.Args[0]) >= shallow, rule, key, "the cache is created in this function for this index",
				"the cache passed to WithCache is not created here for this one index (it comes from a field, map, global or parameter): cache keys do not identify the index file, so indexes sharing a cache return each other's bitmaps", c.w.ipos(i))
		})
	}
	if n == 0 {
		c.r.ok(rule, "module", "no non-test code installs a cache")
	}
	cacheOptionKept(c, rule, fr)
}

// c03KeyOperands: the key of an n-ary operator is computed from exactly one key per operand, in operand order: the
// []uint64 handed to the hashing step is built by collecting x.cacheKey() for every element x of the operand list (append
// loop or make+index, directly or in a helper — also a map helper mapSlice(xs, f) that makes the per-element call
// through its function parameter, see elementLoopF), with no element skipped, replaced or expanded. Splicing the keys of a
// nested node's operands into the parent's list (to exploit associativity) makes AND(x, AND()) share a key with AND(x)
// although one is empty and the other is x.
func c03KeyOperands(c *Ctx) {
	const rule = "C03.keyoperands"
	for _, T := range c.a.ExprImpls {
		st, ok := T.Underlying().(*types.Struct)
		if !ok {
			continue
		}
		var listF *types.Var
		for i := 0; i < st.NumFields(); i++ {
			if sl, ok := st.Field(i).Type().Underlying().(*types.Slice); ok && types.Identical(sl.Elem(), c.a.ExprIface) {
				listF = st.Field(i)
			}
		}
		if listF == nil {
			continue
		}
		name := "(*" + T.Obj().Name() + ")." + nameOr(c.a.KeyName, "cacheKey")
		fn := c.a.methodOf(T, c.a.KeyName)
		if fn == nil {
			c.r.undecided(rule, name, "method not found")
			continue
		}
		isSrc := func(v ssa.Value) bool { return path(v).lastField() == listF }
		keyCall := func(ec *ssa.Call) (ssa.Value, bool) {
			if ec.Call.IsInvoke() && ec.Call.Method.Name() == keyName {
				return ec.Call.Value, true
			}
			return nil, false
		}
		// the []uint64 argument(s) of calls in the method
		var lists []ssa.Value
		var at []ssa.Instruction
		allInstrs(fn, func(i ssa.Instruction) {
			call, ok := i.(*ssa.Call)
			if !ok {
				return
			}
			if b, isB := call.Call.Value.(*ssa.Builtin); isB && (b.Name() == "append" || b.Name() == "len" || b.Name() == "cap") {
				return
			}
			for _, a := range call.Call.Args {
				if sl, ok := a.Type().Underlying().(*types.Slice); ok {
					if bt, ok := sl.Elem().Underlying().(*types.Basic); ok && bt.Kind() == types.Uint64 && !emptyBytes(a) {
						lists = append(lists, a)
						at = append(at, i)
					}
				}
			}
		})
		if len(lists) == 0 {
			c.r.ok(rule, name, "the method does not pass a list of operand keys to a hashing step (shape not covered by this rule; C03.keyhash still applies)", c.w.pos(fn.Pos()))
			continue
		}
		for k, l := range lists {
			ok, why := elementLoopKeys(c, fn, l, isSrc, keyCall)
			key := name
			if len(lists) > 1 {
				key = fmt.Sprintf("%s#%d", name, k+1)
			}
			c.r.check(ok, rule, key, "one key per operand, in operand order", "the list of keys that is hashed is not exactly one cacheKey() per operand in order ("+why+"): expressions with different meaning can share a key", c.w.ipos(at[k]))
		}
	}
}

// elementLoopKeys is elementLoop for calls with a single result (cacheKey returns the key itself, not a tuple).
func elementLoopKeys(c *Ctx, fn *ssa.Function, v ssa.Value, isSrc func(ssa.Value) bool, elemCall func(*ssa.Call) (ssa.Value, bool)) (bool, string) {
	return elementLoopX(c, fn, v, isSrc, elemCall, 0, true)
}
