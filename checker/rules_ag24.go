package main

// Helpers of C15.validate / C06.openvalidate and C15.release / C06.release for an open function that has been split
// into steps: `loadMeta(db)` (data bucket, schema, row counter), the option loop, and a later step (`attach`,
// `preloadValues`) that reads the bitmaps and runs after all options.
//
//   bucketValidation — "this unguarded Bucket() use runs only after the validating step has succeeded", decided on the
//                      call graph below the open function: every call path from the open function to the using function
//                      passes, on the caller's CFG, the success edge of a call whose success implies that the same
//                      bucket was looked up and found non-nil (the helper is judged by its own returns).
//   setsIndexDB      — "this instruction puts the database handle into the index", the precondition under which a
//                      release through the index (Index.Close, idx.db.Close) releases anything at all.

import (
	"go/types"

	"golang.org/x/tools/go/ssa"
)

const boltTxBucket = "(*go.etcd.io/bbolt.Tx).Bucket"

// bucketValidation decides, for one Bucket() lookup `use` whose result is dereferenced without a nil check, whether the
// function it stands in can only run once the open function has established that this bucket exists.
type bucketValidation struct {
	c         *Ctx
	of        *ssa.Function          // the open function
	openScope map[*ssa.Function]bool // the functions the bucket clause examines
	use       *ssa.Call              // the unguarded lookup
	busy      map[*ssa.Function]bool // helpers being judged (recursion guard)
	why       string                 // the validating call that was found, for the discharge message
}

// sameBucket: b looks up the bucket `use` looks up: a top-level bucket of the transaction whose name is the same string
// constant, or a load of the same package-level variable. A name the rule cannot resolve validates nothing.
func (bv *bucketValidation) sameBucket(b *ssa.Call) bool {
	if calleeName(&b.Call) != boltTxBucket || calleeName(&bv.use.Call) != boltTxBucket || len(b.Call.Args) < 2 || len(bv.use.Call.Args) < 2 {
		return false
	}
	x, y := peelConv(peel(b.Call.Args[1])), peelConv(peel(bv.use.Call.Args[1]))
	if s, ok := constString(x); ok {
		t, ok2 := constString(y)
		return ok2 && s == t
	}
	lx, ok1 := x.(*ssa.UnOp)
	ly, ok2 := y.(*ssa.UnOp)
	if ok1 && ok2 {
		g, isG := lx.X.(*ssa.Global)
		return isG && isGlobalLoad(ly, g)
	}
	return false
}

// validatedAt: whenever control reaches `at` in fn (for a Return: whenever it returns a nil error from there), the
// bucket has been looked up and found non-nil: a dominating nil test of a lookup in fn itself, or a call S that
// establishes the bucket (see establishes) such that every path to `at` passes S and, after S, the edge on which S's
// error is nil — or `at` returns S's error itself.
func (bv *bucketValidation) validatedAt(fn *ssa.Function, at ssa.Instruction, depth int) bool {
	if fn == nil || fn.Blocks == nil || depth < 0 {
		return false
	}
	isAt := func(x ssa.Instruction) bool { return x == at }
	found := false
	allInstrs(fn, func(j ssa.Instruction) {
		call, ok := j.(*ssa.Call)
		if found || !ok || j == at {
			return
		}
		if bv.sameBucket(call) {
			if bv.c.fc.nonNilAt(call, at) {
				found = true
				bv.why = "the nil test of the lookup at " + bv.c.w.ipos(call)
			}
			return
		}
		if !bv.establishes(call, depth-1) {
			return
		}
		ev := resultValue(call, call.Call.Signature().Results().Len()-1)
		if ev == nil {
			return
		}
		// the helper's own `return db.View(…)` / `err := db.View(…); return err`: its success is S's success
		if ret, isRet := at.(*ssa.Return); isRet && len(ret.Results) > 0 {
			if rv := retVals(ret); rv[len(rv)-1] == ev {
				found = true
				return
			}
		}
		isS := func(x ssa.Instruction) bool { return x == j }
		if bv.c.fc.pathAvoiding(fn, nil, isAt, isS) != nil {
			return // a path to `at` that does not run S
		}
		if bv.c.fc.pathFrom(fn, j, isAt, nil, errNilEdge(ev)) != nil {
			return // `at` is reached without S's error having been found nil
		}
		found = true
		bv.why = "the successful " + shortName(calleeName(&call.Call)) + " at " + bv.c.w.ipos(call)
	})
	return found
}

// establishes: a nil error result of call S implies that the bucket was looked up and found non-nil. S calls a module
// function, or runs a function literal / named function in a bbolt transaction (DB.View, DB.Update, DB.Batch return the
// callback's error); the callee is judged by its own returns: each of them returns an error that is non-nil by
// construction or known to be non-nil there, or is validated itself (validatedAt). A callee that can return nil without
// having tested the bucket establishes nothing, so the missing nil test is found inside the helper as well.
func (bv *bucketValidation) establishes(call *ssa.Call, depth int) bool {
	if depth < 0 {
		return false
	}
	cc := &call.Call
	res := cc.Signature().Results()
	if res.Len() == 0 || !isErrorType(res.At(res.Len()-1).Type()) {
		return false
	}
	var h *ssa.Function
	switch calleeName(cc) {
	case "(*go.etcd.io/bbolt.DB).View", "(*go.etcd.io/bbolt.DB).Update", "(*go.etcd.io/bbolt.DB).Batch":
		if len(cc.Args) < 2 {
			return false
		}
		switch v := cc.Args[1].(type) {
		case *ssa.MakeClosure:
			h, _ = v.Fn.(*ssa.Function)
		case *ssa.Function:
			h = v
		}
	default:
		h = calleeFunc(cc)
	}
	if h == nil || h.Blocks == nil || !bv.c.w.inModule(h) || h.Synthetic != "" || h == bv.of || bv.busy[h] {
		return false
	}
	bv.busy[h] = true
	defer delete(bv.busy, h)
	n, all := 0, true
	allInstrs(h, func(i ssa.Instruction) {
		ret, ok := i.(*ssa.Return)
		if !ok || !all || isRecoverBlockReturn(ret) || len(ret.Results) == 0 {
			return
		}
		n++
		rv := retVals(ret)
		ev := rv[len(rv)-1]
		if !isNilConst(ev) && (errByConstruction(ev) || errKnownNonNil(ev, ret)) {
			return // a failure
		}
		if !bv.validatedAt(h, ret, depth) {
			all = false
		}
	})
	return n > 0 && all
}

// errByConstruction: the error value is freshly made (errors.New, fmt.Errorf, a concrete error boxed here).
func errByConstruction(v ssa.Value) bool {
	switch x := v.(type) {
	case *ssa.Call:
		switch calleeName(&x.Call) {
		case "errors.New", "fmt.Errorf":
			return true
		}
	case *ssa.MakeInterface:
		return true
	}
	return false
}

// runsOnlyValidated: every static reference to g from a function the bucket clause examines — a call, or g handed as
// callback to a call — stands where the bucket is validated (validatedAt on the referencing function's CFG), or in a
// function that itself runs only validated. References from outside the examined scope are the options' closures (the
// "option call after validation" obligation covers them) and later transactions. A function value that is stored,
// deferred or started as a goroutine is not followed.
func (bv *bucketValidation) runsOnlyValidated(g *ssa.Function, depth int) bool {
	if g == nil || g == bv.of || depth < 0 {
		return false
	}
	type site struct {
		p  *ssa.Function
		at ssa.Instruction
	}
	var sites []site
	followed := true
	for _, p := range bv.c.w.ModFuncs {
		allInstrs(p, func(i ssa.Instruction) {
			if cc := callCommon(i); cc != nil && calleeFunc(cc) == g {
				if _, isCall := i.(*ssa.Call); !isCall {
					followed = false
				}
				sites = append(sites, site{p, i})
				return
			}
			var fv ssa.Value
			if mc, ok := i.(*ssa.MakeClosure); ok && mc.Fn == ssa.Value(g) {
				fv = mc
			}
			for _, op := range i.Operands(nil) {
				if op != nil && *op == ssa.Value(g) {
					if _, isMC := i.(*ssa.MakeClosure); !isMC {
						// g itself as an argument of i
						if call, isCall := i.(*ssa.Call); isCall && call.Call.Value != ssa.Value(g) {
							sites = append(sites, site{p, i})
						} else {
							followed = false
						}
					}
				}
			}
			if fv == nil {
				return
			}
			for _, u := range referrers(fv) {
				call, isCall := u.(*ssa.Call)
				if !isCall {
					followed = false
					continue
				}
				sites = append(sites, site{p, call})
			}
		})
	}
	if !followed || len(sites) == 0 {
		return false
	}
	for _, s := range sites {
		if !bv.openScope[s.p] {
			continue
		}
		if bv.validatedAt(s.p, s.at, 3) {
			continue
		}
		if s.p != bv.of && bv.runsOnlyValidated(s.p, depth-1) {
			continue
		}
		return false
	}
	return true
}

// bucketEstablishedBefore: see bucketValidation. Returns the validating site for the message.
func bucketEstablishedBefore(c *Ctx, of *ssa.Function, openScope map[*ssa.Function]bool, use *ssa.Call) (bool, string) {
	bv := &bucketValidation{c: c, of: of, openScope: openScope, use: use, busy: map[*ssa.Function]bool{}}
	if bv.runsOnlyValidated(use.Parent(), 4) {
		return true, bv.why
	}
	return false, ""
}

// indexDBField: the field of the index type that holds the bbolt database.
func indexDBField(c *Ctx) *types.Var {
	st, ok := c.a.IndexT.Underlying().(*types.Struct)
	if !ok {
		return nil
	}
	for k := 0; k < st.NumFields(); k++ {
		if isBoltDB(st.Field(k).Type()) {
			return st.Field(k)
		}
	}
	return nil
}

// setsIndexDB: instruction i stores the database handle (a value satisfying isHandle) into the database field of an
// index — `idx.db = db`, the `db: db` of a composite literal — or calls a module helper that does so on every one of
// its paths, the helper's parameters being bound to the handle arguments of the call. `attach(db)` that assigns idx.db
// only after a successful preload does not set it on its failing paths: after its failure the index holds no database.
func setsIndexDB(c *Ctx, i ssa.Instruction, isHandle func(ssa.Value) bool, depth int) bool {
	dbF := indexDBField(c)
	if dbF == nil {
		return false
	}
	switch x := i.(type) {
	case *ssa.Store:
		fa, ok := x.Addr.(*ssa.FieldAddr)
		return ok && fieldOf(fa.X.Type(), fa.Field) == dbF && isHandle(x.Val)
	case *ssa.Call:
		f := calleeFunc(&x.Call)
		if depth <= 0 || f == nil || !c.w.inModule(f) || f.Blocks == nil {
			return false
		}
		bound := map[ssa.Value]bool{}
		for k, a := range x.Call.Args {
			if k < len(f.Params) && isHandle(a) {
				bound[f.Params[k]] = true
			}
		}
		lit := f.Parent() != nil && f.Parent() == i.Parent()
		if len(bound) == 0 && !lit {
			return false
		}
		inner := func(v ssa.Value) bool { return bound[peel(v)] || (lit && isHandle(v)) }
		return c.fc.mustPass(f, func(j ssa.Instruction) bool { return setsIndexDB(c, j, inner, depth-1) }, 0)
	}
	return false
}
