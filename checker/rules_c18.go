package main

import (
	"fmt"
	"go/token"
	"go/types"

	"golang.org/x/tools/go/ssa"
)

func init() {
	register(&propDef{
		id:  "C18",
		run: runC18,
		explanation: "Decided (structural, for every interleaving of AddRow calls, both writers): " +
			"C18.locked — in everything reachable from AddRow, every access to the writer's fields (row counter, schema, bitmap map, temp transaction) and to the schema's and columns' maps happens with the writer's mutex held exclusively on every path (lock-state dataflow; callee context = meet over call sites; deferred unlock and deferred increment closure replayed in LIFO order, so swapping the two defers or narrowing the critical section is reported). A writer with several mutexes: each field's guard is the one mutex held at its accesses; a mutex handed to a helper as a parameter is the field its call sites pass; a field no function assigns after construction may be read without a lock; a map of plain values or of pointers to guarded structs that only grows (every update anywhere is an insert under a key that a lookup in the same lock-free function has just reported absent; no delete/clear/reassignment) may be READ under the guard held shared — the lookup-under-RLock / register-under-Lock split — whereas an insert that does not look again makes those shared reads violations (a column added concurrently would be replaced); " +
			"C18.rowid — the id a call adds to every bitmap / encodes into every temp key (directly or in a helper it calls, whose parameter is bound to the call's argument) and the id it returns are the same SSA value, the load of the row counter taken under the lock; the only stores to the counter anywhere are `counter + 1`, and every successful return of AddRow has passed exactly one such increment (the counter and the schema may live in a struct the writer holds by value — an embedded header shared with the Index: 'the writer's counter' is then that field selected from an object of the writer's type; an increment inside a method of the nested struct counts at the Call/Defer in AddRow that runs it on the writer's own struct, a call of it on the writer anywhere else is a modification outside AddRow, and its accesses are checked by C18.locked with the lock state at that call resp. at rundefers). " +
			"C18.lockbalance — every mutex field a function reachable from AddRow/Flush acquires is released (directly or by a deferred unlock registered on that path) on every path to every return: a call that leaves the writer mutex locked blocks all other callers for ever. " +
			"Hence calls are mutually exclusive, each gets one id, ids are consecutive from 0 and each row's values carry one id. " +
			"NOT decided: equality of the flushed index with the sequential one (follows from mutual exclusion and commutativity of bitmap Add; not checked as such); Flush concurrent with AddRow (outside the property).",
		assumptions: []string{"sync.Mutex semantics", "bbolt write transaction used by one goroutine at a time is safe", "roaring Add is deterministic"},
	})
}

func runC18(c *Ctx) {
	if !c.need("C18.locked", c.a.MemAddRow, c.a.BigAddRow, c.a.MemWriterT, c.a.BigWriterT, c.a.SchemaT, c.a.ColumnT) {
		return
	}
	for _, wr := range []struct {
		name   string
		addRow *ssa.Function
		typ    *types.Named
	}{{"IndexWriter", c.a.MemAddRow, c.a.MemWriterT}, {"BigIndexWriter", c.a.BigAddRow, c.a.BigWriterT}} {
		lockedRule(c, "C18.locked", wr.name, wr.addRow, wr.typ)
		rowidRule(c, "C18.rowid", wr.name, wr.addRow, wr.typ)
	}
	lockBalanceRule(c, "C18.lockbalance", c.a.MemAddRow, c.a.BigAddRow, c.a.MemFlush, c.a.BigFlush) // an AddRow/Flush that returns with the writer mutex held blocks all other callers
	c.r.expect("C18.locked", 12)
	c.r.expect("C18.rowid", 6)
}

func structFields(n *types.Named, except *types.Var) map[*types.Var]bool {
	out := map[*types.Var]bool{}
	st, ok := n.Underlying().(*types.Struct)
	if !ok {
		return out
	}
	for i := 0; i < st.NumFields(); i++ {
		if st.Field(i) != except {
			out[st.Field(i)] = true
		}
	}
	return out
}

// mutexFieldsOf: the mutexes a struct holds by value, in declaration order.
func mutexFieldsOf(n *types.Named) []*types.Var {
	st, ok := n.Underlying().(*types.Struct)
	if !ok {
		return nil
	}
	var out []*types.Var
	for i := 0; i < st.NumFields(); i++ {
		f := st.Field(i)
		if _, isPtr := f.Type().(*types.Pointer); isPtr {
			continue
		}
		if typeIs(f.Type(), "sync", "Mutex") || typeIs(f.Type(), "sync", "RWMutex") {
			out = append(out, f)
		}
	}
	return out
}

// lockedRule: the lock discipline of everything AddRow reaches. A writer may split its state over several mutexes
// (`schemaMtx` for the schema, `mtx` for the bitmaps and the counter): each guarded field then has ONE guard, the mutex of
// the writer that is held at its accesses — exclusively at every write, and exclusively at every read as well, with one
// exception that is argued rather than assumed: a map that only ever grows (growOnlyMap: every update of it anywhere in
// the module enters a key that a lookup in the same lock-free function — hence the same critical section — has just
// reported absent; never a delete, a clear or an assignment of the field) may be READ under the guard held shared: an
// entry seen there stays what it is for ever, and an entry missed there is looked up again by the insert. That is the
// `lookup under RLock, register under Lock` split; the variant whose insert does not look again (so that a column a
// concurrent call has just added is replaced) makes the map not grow-only, and its shared reads are reported with that
// reason. The counter is not a map: reading it under a shared lock stays a violation (two calls would take the same id).
// A field that is never assigned after construction (no write access to it anywhere in the module except on an object
// the writing function has just created) needs no lock to be read (`idx.schema`, the pointer; what it points to is
// guarded field by field). A mutex the helper receives as a parameter is the field the call sites pass (lock.go
// boundMutex). With a single mutex this is the rule as it always was: everything under that mutex, exclusively.
func lockedRule(c *Ctx, rule, wname string, addRow *ssa.Function, typ *types.Named) {
	mtxs := mutexFieldsOf(typ)
	if len(mtxs) == 0 {
		c.r.bad(rule, wname+": mutex", "writer type has no mutex field", []string{c.w.pos(addRow.Pos())})
		return
	}
	isMtx := map[*types.Var]bool{}
	for _, m := range mtxs {
		isMtx[m] = true
	}
	re := c.w.reach(addRow)
	la := newLockAn(c, []*ssa.Function{addRow}, re.Funcs)
	for _, p := range la.Problems {
		c.r.undecided(rule, wname+": defer in "+safeFname(p.ins.Parent()), p.msg, c.w.ipos(p.ins))
	}
	// the writer's own state: its fields and the fields of the structs it holds by value (an embedded
	// `header{schema; nextRowID}` is part of the writer's memory; a method of the nested struct that AddRow calls or defers —
	// `defer idx.rowAdded()` — touches it through its own receiver, with the lock state AddRow has at the call / at rundefers)
	guarded := map[*types.Var]bool{}
	for _, f := range heldFields(typ) {
		if !isMtx[f] {
			guarded[f] = true
		}
	}
	for f := range structFields(c.a.SchemaT, nil) {
		guarded[f] = true
	}
	for f := range structFields(c.a.ColumnT, nil) {
		guarded[f] = true
	}
	fr := newFresh(c)
	type lockedAcc struct {
		fn *ssa.Function
		a  access
		st lockState
	}
	var order []*types.Var
	byField := map[*types.Var][]lockedAcc{}
	n := 0
	for _, fn := range re.sorted() {
		accs := fieldAccesses(fn, guarded)
		// `idx.header.nextRowID` is an access of the counter, reported as such; the same instruction is not reported a
		// second time as an access of the nested struct it goes through (a copy of the whole struct still is)
		leaf := map[ssa.Instruction]bool{}
		for _, a := range accs {
			if nestedStruct(a.Field) == nil {
				leaf[a.Ins] = true
			}
		}
		for _, a := range accs {
			if baseFresh(fr, a.Ins) || (nestedStruct(a.Field) != nil && leaf[a.Ins]) {
				continue
			}
			n++
			if _, seen := byField[a.Field]; !seen {
				order = append(order, a.Field)
			}
			byField[a.Field] = append(byField[a.Field], lockedAcc{fn, a, la.stateAt(a.Ins)})
		}
	}
	// satisfied: the access is covered by mutex m held as its kind demands (reads under a shared hold count here; whether
	// a shared hold is enough for them is decided per access below)
	satisfied := func(x lockedAcc, m *types.Var) bool {
		if x.a.Write {
			return x.st[m] == lkW
		}
		return x.st[m] != lkU
	}
	for _, f := range order {
		accs := byField[f]
		owner := ""
		if o := c.w.ownerOf(f); o != nil {
			owner = o.Obj().Name() + "."
		}
		written := false
		for _, x := range accs {
			written = written || x.a.Write
		}
		constant := !written && neverAssignedAfterConstruction(c, fr, f)
		// the field's guard: the mutex that covers most of its accesses (all of them, if the discipline holds); the first
		// in declaration order among equals
		guard, best := mtxs[0], -1
		for _, m := range mtxs {
			k := 0
			for _, x := range accs {
				if satisfied(x, m) {
					k++
				}
			}
			if k > best {
				guard, best = m, k
			}
		}
		for _, x := range accs {
			kind := "read"
			if x.a.Write {
				kind = "write"
			}
			key := fmt.Sprintf("%s: %s: %s %s%s", wname, safeFname(x.fn), kind, owner, f.Name())
			held := x.st[guard]
			switch {
			case held == lkW:
				c.r.ok(rule, key, "under exclusive "+typ.Obj().Name()+"."+guard.Name(), c.w.ipos(x.a.Ins))
			case constant:
				c.r.ok(rule, key, owner+f.Name()+" is never assigned after the writer was constructed: reading it needs no lock", c.w.ipos(x.a.Ins))
			case held == lkR:
				if !x.a.Write {
					grows, why := growOnlyMap(c, fr, f, guarded)
					if grows {
						c.r.ok(rule, key, "under shared "+typ.Obj().Name()+"."+guard.Name()+"; the map only grows and every insert looks the key up again under the exclusive lock", c.w.ipos(x.a.Ins))
						continue
					}
					if why != "" {
						c.r.bad(rule, key, fmt.Sprintf("%s of %s%s while the writer's mutex is held only shared, and %s: what a concurrent AddRow has entered between this read and the insert is replaced or lost", x.a.What, owner, f.Name(), why), []string{c.w.ipos(x.a.Ins)}, re.chain(x.fn)...)
						continue
					}
				}
				c.r.bad(rule, key, fmt.Sprintf("%s of %s%s while the writer's mutex is held only shared: concurrent AddRow calls are not mutually exclusive", x.a.What, owner, f.Name()), []string{c.w.ipos(x.a.Ins)}, re.chain(x.fn)...)
			default:
				c.r.bad(rule, key, fmt.Sprintf("%s of %s%s while the writer's mutex is not held on every path", x.a.What, owner, f.Name()), []string{c.w.ipos(x.a.Ins)}, re.chain(x.fn)...)
			}
		}
	}
	c.r.Stats["guarded_accesses_"+wname] = n
}

// neverAssignedAfterConstruction: no function of the module writes field f (assigns it, updates or clears the map /
// stores into the slice held in it, hands its address to a mutating call) except on an object it has just created.
func neverAssignedAfterConstruction(c *Ctx, fr *Fresh, f *types.Var) bool {
	only := map[*types.Var]bool{f: true}
	for _, fn := range c.w.ModFuncs {
		for _, a := range fieldAccesses(fn, only) {
			if a.Write && !baseFresh(fr, a.Ins) {
				return false
			}
		}
	}
	return true
}

// growOnlyMap: f holds a map that only ever grows. Every write access to it in the module (outside objects the writing
// function has just created) is a map update that enters a key which a comma-ok lookup of the SAME map field of the same
// object, under the SAME key, has reported absent on every path to the update — in a function that contains no lock
// operation, so that lookup and update lie in one critical section of whatever lock its callers hold. A delete, a clear,
// an assignment of the field, an update that is not preceded by such a lookup (`sch.Columns[k] = col` in a helper that
// trusts a lookup its caller made under an earlier, shared hold of the lock) make the answer no; why says which.
func growOnlyMap(c *Ctx, fr *Fresh, f *types.Var, guarded map[*types.Var]bool) (bool, string) {
	m, isMap := f.Type().Underlying().(*types.Map)
	if !isMap {
		return false, ""
	}
	// what the map holds must itself be covered by this rule: plain values, or pointers to structs all of whose fields are
	// guarded fields (a *column: its Values are checked access by access). A *roaring.Bitmap found under a shared lock
	// could be mutated without any guarded field being touched, so such a map gets no shared reads.
	switch e := m.Elem().Underlying().(type) {
	case *types.Basic:
	case *types.Pointer:
		st, isStruct := e.Elem().Underlying().(*types.Struct)
		if !isStruct || st.NumFields() == 0 {
			return false, ""
		}
		for i := 0; i < st.NumFields(); i++ {
			if !guarded[st.Field(i)] {
				return false, ""
			}
		}
	default:
		return false, ""
	}
	only := map[*types.Var]bool{f: true}
	for _, fn := range c.w.ModFuncs {
		for _, a := range fieldAccesses(fn, only) {
			if !a.Write || baseFresh(fr, a.Ins) {
				continue
			}
			mu, isUpd := a.Ins.(*ssa.MapUpdate)
			if !isUpd {
				return false, fmt.Sprintf("the map does not only grow (%s in %s, %s)", a.What, safeFname(fn), c.w.ipos(a.Ins))
			}
			if !insertsIfAbsent(c, fn, mu) {
				return false, fmt.Sprintf("%s assigns an entry of it without having looked that key up in the same critical section (%s)", safeFname(fn), c.w.ipos(mu))
			}
		}
	}
	return true, ""
}

// insertsIfAbsent: every path from fn's entry to the map update mu takes the "absent" edge of a comma-ok lookup of the
// same map (the map field of the same object) under the same key, and fn contains no lock operation.
func insertsIfAbsent(c *Ctx, fn *ssa.Function, mu *ssa.MapUpdate) bool {
	locks := false
	allInstrs(fn, func(i ssa.Instruction) {
		if cc := callCommon(i); cc != nil {
			if _, _, _, isLockOp := lockOp(cc); isLockOp {
				locks = true
			}
		}
	})
	if locks {
		return false
	}
	mapAddr := func(v ssa.Value) ssa.Value {
		if ld, ok := v.(*ssa.UnOp); ok && ld.Op == token.MUL {
			return ld.X
		}
		return nil
	}
	ma := mapAddr(mu.Map)
	if ma == nil {
		return false
	}
	var absent []ssa.Value
	allInstrs(fn, func(i ssa.Instruction) {
		lk, ok := i.(*ssa.Lookup)
		if !ok || !lk.CommaOk || peel(lk.Index) != peel(mu.Key) {
			return
		}
		if la := mapAddr(lk.X); la == nil || !sameFieldBase(la, ma) {
			return
		}
		if e := extractOf(lk, 1); e != nil {
			absent = append(absent, e)
		}
	})
	if len(absent) == 0 {
		return false
	}
	isOK := func(v ssa.Value) bool {
		for _, o := range absent {
			if o == v {
				return true
			}
		}
		return false
	}
	w := c.fc.pathAvoidingEdges(fn,
		func(i ssa.Instruction) bool { return i == ssa.Instruction(mu) },
		nil,
		func(pred, succ *ssa.BasicBlock) bool {
			iff, ok := pred.Instrs[len(pred.Instrs)-1].(*ssa.If)
			if !ok || len(pred.Succs) != 2 {
				return false
			}
			cond, pol := iff.Cond, pred.Succs[0] == succ
			for {
				if u, ok := cond.(*ssa.UnOp); ok && u.Op == token.NOT {
					cond, pol = u.X, !pol
					continue
				}
				break
			}
			return isOK(cond) && !pol
		})
	return w == nil
}

// rowidRule: one id per call; the id used for all values is the id returned; counter only ever incremented by one, once per successful call.
func rowidRule(c *Ctx, rule, wname string, addRow *ssa.Function, typ *types.Named) {
	// the counter: by shape (today's name first, then the only integer field, then the one AddRow increments; rules_ag10.go)
	ctr := c.a.rowsFieldOf(typ)
	if ctr == nil {
		c.r.undecided(rule, wname+": counter", "row counter field not found"+c.a.SH.whyText())
		return
	}
	site := c.w.pos(addRow.Pos())
	// the counter may live in a struct the writer holds by value (`header`, embedded in both writers and in the Index): the
	// same field then is the counter of several types, and "this writer's counter" is the field selected from an object of
	// the writer's type (nested struct looked through: &idx.header.nextRowID with idx *IndexWriter)
	isCtrField := func(v ssa.Value) bool {
		fa, ok := v.(*ssa.FieldAddr)
		return ok && fieldOf(fa.X.Type(), fa.Field) == ctr
	}
	isCtrAddr := func(v ssa.Value) bool { return isCtrField(v) && holderType(v) == typ }
	// (1) loads of the counter in AddRow itself: exactly one, its value is "the id"
	var loads []*ssa.UnOp
	allInstrs(addRow, func(i ssa.Instruction) {
		if u, ok := i.(*ssa.UnOp); ok && u.Op == token.MUL && isCtrAddr(u.X) {
			// a load whose only use is `load + 1` stored back into the counter is part of an increment, not a read of the id
			incOnly := true
			for _, r := range referrers(u) {
				b, isBin := r.(*ssa.BinOp)
				if !isBin || b.Op != token.ADD {
					incOnly = false
					break
				}
				for _, rr := range referrers(b) {
					if st, isSt := rr.(*ssa.Store); !isSt || !isCtrAddr(st.Addr) {
						incOnly = false
					}
				}
			}
			if incOnly && len(referrers(u)) > 0 {
				return
			}
			loads = append(loads, u)
		}
	})
	if len(loads) == 0 {
		// one level of indirection: AddRow delegates to a helper that does the work and returns the id
		var frames []*ssa.Call
		allInstrs(addRow, func(i ssa.Instruction) {
			call, ok := i.(*ssa.Call)
			if !ok {
				return
			}
			g := calleeFunc(&call.Call)
			if g == nil || !c.w.inModule(g) || g.Blocks == nil || g.Signature.Results().Len() != 2 {
				return
			}
			n := 0
			allInstrs(g, func(j ssa.Instruction) {
				if u, ok := j.(*ssa.UnOp); ok && u.Op == token.MUL && isCtrAddr(u.X) {
					n++
				}
			})
			if n == 1 {
				frames = append(frames, call)
			}
		})
		if len(frames) == 1 {
			call := frames[0]
			okDeleg := true
			allInstrs(addRow, func(i ssa.Instruction) {
				ret, ok := i.(*ssa.Return)
				if !ok || len(ret.Results) != 2 || isRecoverBlockReturn(ret) {
					return
				}
				rv := retVals(ret)
				if isNilConst(rv[1]) || peel(rv[1]) == ssa.Value(extractOf(call, 1)) {
					if e, ok := peel(rv[0]).(*ssa.Extract); !ok || e.Tuple != ssa.Value(call) || e.Index != 0 {
						if !isNilConst(rv[1]) {
							return
						}
						okDeleg = false
					}
				}
			})
			c.r.check(okDeleg, rule, wname+": delegate", "AddRow returns the id its helper "+safeFname(calleeFunc(&call.Call))+" returns",
				"AddRow returns something other than the id returned by the helper that adds the row", c.w.ipos(call))
			rowidRule(c, rule, wname, calleeFunc(&call.Call), typ)
			return
		}
	}
	if len(loads) != 1 {
		c.r.undecided(rule, wname+": id", fmt.Sprintf("%s loads the row counter %d times; the rule expects the id to be read once", safeFname(addRow), len(loads)), site)
		return
	}
	id := ssa.Value(loads[0])
	// (the id may travel through a named result `rowID`, which error returns overwrite with 0: the store that reaches the use decides)
	isID := func(v ssa.Value) bool {
		return peelConv(v) == id || v == id || c.fc.reachingValue(v) == id
	}
	// (2) successful returns return the id
	nRet := 0
	allInstrs(addRow, func(i ssa.Instruction) {
		ret, ok := i.(*ssa.Return)
		if !ok || len(ret.Results) != 2 || isRecoverBlockReturn(ret) {
			return
		}
		rv := retVals(ret)
		if !isNilConst(rv[1]) {
			return
		}
		nRet++
		c.r.check(isID(rv[0]), rule, fmt.Sprintf("%s: return#%d", wname, nRet), "returns the id read under the lock",
			"a successful AddRow returns something other than the id it used for the row's values", c.w.ipos(ret))
	})
	if nRet == 0 {
		c.r.bad(rule, wname+": return", "AddRow has no successful return", []string{site})
	}
	// (3) every use of a row id in the row's data is the id: bitmap Add / temp-key encoding of a uint32. The recording may
	// sit in a helper AddRow calls (tempKey(valueIdx, rowID), addTo(bitmaps, valueIdx, rowID)): a helper's parameter is
	// bound to the argument of the call in AddRow's frame, so the question stays "is it the id read from the counter";
	// anything else the helper records (id+1, a constant, its own read of the counter) is not that value and is reported.
	nUse := 0
	for _, u := range rowIDUses(c, addRow, 0) {
		nUse++
		via := ""
		if u.via != "" {
			via = " via " + u.via
		}
		if u.unfollowed {
			c.r.undecided(rule, fmt.Sprintf("%s: use#%d", wname, nUse), "row id added through "+shortName(u.name)+via+", a form the rule does not follow", c.w.ipos(u.at))
			continue
		}
		sites := []string{c.w.ipos(u.at)}
		if u.site != u.at {
			sites = append(sites, c.w.ipos(u.site))
		}
		c.r.check(isID(u.val), rule, fmt.Sprintf("%s: use#%d %s", wname, nUse, shortName(u.name)), "uses the id read under the lock"+via,
			"a value of the row is recorded under an id that is not the one read from the counter (and returned)"+via, sites...)
	}
	if nUse == 0 {
		c.r.bad(rule, wname+": use", "AddRow never records the row id with the row's values", []string{site})
	}
	// (4) stores to the counter anywhere in the module: only counter+1 of its own load
	var incs []ssa.Instruction // in AddRow's frame: the store itself, or the Defer/Call that runs the closure / the method containing it
	incUnknown := false        // an increment in a method of the nested struct whose call on this writer could not be located
	// runBy: the instructions of AddRow that call or defer its closure g
	runBy := func(g *ssa.Function, key string) []ssa.Instruction {
		var out []ssa.Instruction
		allInstrs(addRow, func(j ssa.Instruction) {
			if cc := callCommon(j); cc != nil && calleeFunc(cc) == g {
				if _, isGo := j.(*ssa.Go); isGo {
					c.r.bad(rule, key, "the counter is incremented in a new goroutine", []string{c.w.ipos(j)})
					return
				}
				out = append(out, j)
			}
		})
		return out
	}
	for _, fn := range c.w.ModFuncs {
		allInstrs(fn, func(i ssa.Instruction) {
			st, ok := i.(*ssa.Store)
			if !ok || !isCtrField(st.Addr) {
				return
			}
			// whose counter: this writer's; the counter of a nested struct the function receives as a parameter (a method of
			// `header`: the call sites say which object it is part of); or that of another type that holds the same struct
			// (the Index, the other writer: theirs is checked where they are) / of a struct value not yet part of any object
			var helperParam *ssa.Parameter
			if !isCtrAddr(st.Addr) {
				helperParam = nestedParam(st.Addr, typ)
				if helperParam == nil {
					hT := holderType(st.Addr)
					if hT != typ && c.a.isRowsHolder(hT) {
						return // the Index's / the other writer's counter
					}
					if k, isK := constInt(st.Val); isK && k == 0 {
						return // explicit zero initialisation of a struct value
					}
					c.r.undecided(rule, fmt.Sprintf("%s: store in %s", wname, safeFname(fn)), "the row counter of a "+typeString(fieldHolder(st.Addr).Type())+" that is not identified as part of a writer or of the Index is assigned: if it becomes the writer's, ids do not start at 0 / are not consecutive", c.w.ipos(i))
					return
				}
			}
			key := fmt.Sprintf("%s: store in %s", wname, safeFname(fn))
			okInc := false
			if b, ok := st.Val.(*ssa.BinOp); ok && b.Op == token.ADD {
				if k, isK := constInt(b.Y); isK && k == 1 {
					if ld, ok := b.X.(*ssa.UnOp); ok && ld.Op == token.MUL && isCtrField(ld.X) && sameFieldBase(ld.X, st.Addr) {
						okInc = true
					}
				}
			}
			if !okInc {
				c.r.bad(rule, key, "the row counter is assigned something other than counter+1: ids would not be consecutive", []string{c.w.ipos(i)})
				return
			}
			// locate the increment in AddRow's frame
			switch {
			case helperParam != nil:
				// the increment is a method of the nested struct (`func (h *header) rowAdded() { h.nextRowID++ }`): every call of
				// it on THIS writer's struct is "the increment" — the Call/Defer in AddRow's frame (`defer idx.rowAdded()`), on
				// which the obligations below (exactly once per successful return, after the id was read) and C18.locked (the
				// method's accesses, with the lock state at the call / at rundefers) are decided. A call on this writer's struct
				// anywhere else modifies the counter outside AddRow.
				if c.usedAsValue(fn) {
					incUnknown = true
					c.r.undecided(rule, key, safeFname(fn)+" increments the counter and is used as a function value: where it runs is not followed", c.w.ipos(i))
					return
				}
				found, clean := false, true
				for _, s := range c.bindingSites(fn, helperParam) {
					switch {
					case s.T == nil:
						clean, incUnknown = false, true
						c.r.undecided(rule, key, safeFname(fn)+" increments the counter of the "+typeString(helperParam.Type())+" it is called on; at this call that is not the struct held by a writer or the Index (handed on from a parameter, or a local): whose counter advances is not followed", c.w.ipos(s.at))
					case s.T != typ:
						// the other writer's / the Index's struct
					case s.in == addRow:
						if _, isGo := s.at.(*ssa.Go); isGo {
							clean = false
							c.r.bad(rule, key, "the counter is incremented in a new goroutine", []string{c.w.ipos(s.at)})
							continue
						}
						incs = append(incs, s.at)
						found = true
					case s.in.Parent() == addRow:
						// called from a closure of AddRow (`defer func() { idx.rowAdded() }()`): the instruction of AddRow that runs the closure
						for _, j := range runBy(s.in, key) {
							incs = append(incs, j)
							found = true
						}
					default:
						clean = false
						c.r.bad(rule, key, "the row counter is modified outside AddRow ("+safeFname(s.in)+" calls "+safeFname(fn)+" on the writer)", []string{c.w.ipos(s.at)})
					}
				}
				if found && clean {
					c.r.ok(rule, key, "counter+1 in a method of the struct that holds the counter, run by AddRow on the writer's own", c.w.ipos(i))
				}
			case fn == addRow:
				incs = append(incs, st)
				c.r.ok(rule, key, "counter+1", c.w.ipos(i))
			case fn.Parent() == addRow:
				js := runBy(fn, key)
				incs = append(incs, js...)
				if found := len(js) > 0; found {
					c.r.ok(rule, key, "counter+1 in a closure run by AddRow", c.w.ipos(i))
				} else {
					c.r.undecided(rule, key, "closure incrementing the counter is not called/deferred directly by AddRow", c.w.ipos(i))
				}
			default:
				c.r.bad(rule, key, "the row counter is modified outside AddRow", []string{c.w.ipos(i)})
			}
		})
	}
	if len(incs) == 0 {
		if incUnknown {
			return // reported above as undecided: an increment exists, where it runs was not followed
		}
		c.r.bad(rule, wname+": increment", "AddRow never increments the row counter: every row would get the same id", []string{site})
		return
	}
	isInc := func(i ssa.Instruction) bool {
		for _, x := range incs {
			if x == i {
				return true
			}
		}
		return false
	}
	// a return that can be successful: its error is the nil constant, or a value not known to be non-nil there (the
	// result of a helper handed on directly: `return rowID, idx.rotate()` succeeds whenever the helper does)
	isOKReturn := func(i ssa.Instruction) bool {
		ret, ok := i.(*ssa.Return)
		if !ok || len(ret.Results) != 2 || isRecoverBlockReturn(ret) {
			return false
		}
		ev := retVals(ret)[1]
		if isNilConst(ev) {
			return true
		}
		if knownNonNil(ev, ret) {
			return false
		}
		if call, isCall := ev.(*ssa.Call); isCall {
			switch calleeName(&call.Call) {
			case "fmt.Errorf", "errors.New":
				return false
			}
		}
		if _, isMI := ev.(*ssa.MakeInterface); isMI {
			return false // a concrete error value
		}
		return true
	}
	if wpath := c.fc.pathAvoiding(addRow, nil, isOKReturn, isInc); wpath != nil {
		c.r.bad(rule, wname+": once", "a successful return of AddRow is reachable without incrementing the row counter: the next row reuses the id", []string{c.w.ipos(wpath[len(wpath)-1])}, c.fc.witnessStrings(wpath)...)
	} else {
		double := false
		for _, x := range incs {
			if p := c.fc.pathAvoiding(addRow, x, isInc, nil); p != nil {
				double = true
				c.r.bad(rule, wname+": once", "the row counter can be incremented twice in one AddRow call: ids would have gaps", []string{c.w.ipos(x)}, c.fc.witnessStrings(p)...)
			}
		}
		if !double {
			c.r.ok(rule, wname+": once", "every successful return has passed exactly one increment", site)
		}
	}
	// the id must be read before the increment can run: if the increment is a plain store/call (not deferred), the load must precede it
	for _, x := range incs {
		if _, isDefer := x.(*ssa.Defer); isDefer {
			continue
		}
		if c.fc.reachableFrom(addRow, x, loads[0]) {
			c.r.bad(rule, wname+": order", "the row counter is incremented before the id is read", []string{c.w.ipos(x)})
		}
	}
}

// rowIDUse: a place where fn records a row id together with a row's data. val is the recorded id as a value of fn's
// frame; at is the instruction of fn through which it happens (the recording call itself, or the call of the helper
// that contains it), site the recording call.
type rowIDUse struct {
	at, site   ssa.Instruction
	name, via  string
	val        ssa.Value
	unfollowed bool // AddInt/AddMany/AddRange: forms whose id operand the rule does not interpret
}

// rowIDUses lists the row-id recordings of fn: roaring Add/CheckedAdd (the added value), binary PutUint32 / AppendUint32
// (the encoded value: the row-id field of a temp key), and the recordings of module helpers fn calls (two levels), with
// a helper's parameter replaced by the call's argument. A recorded value that is not a parameter of the helper stays a
// value of the helper's frame, which can never be the id loaded in AddRow.
func rowIDUses(c *Ctx, fn *ssa.Function, depth int) []rowIDUse {
	var out []rowIDUse
	allInstrs(fn, func(i ssa.Instruction) {
		cc := callCommon(i)
		if cc == nil {
			return
		}
		name := calleeName(cc)
		switch name {
		case "(*github.com/RoaringBitmap/roaring.Bitmap).Add", "(*github.com/RoaringBitmap/roaring.Bitmap).CheckedAdd":
			out = append(out, rowIDUse{at: i, site: i, name: name, val: cc.Args[1]})
			return
		case "(encoding/binary.bigEndian).PutUint32", "(encoding/binary.littleEndian).PutUint32",
			"(encoding/binary.bigEndian).AppendUint32", "(encoding/binary.littleEndian).AppendUint32":
			out = append(out, rowIDUse{at: i, site: i, name: name, val: cc.Args[len(cc.Args)-1]})
			return
		case "(*github.com/RoaringBitmap/roaring.Bitmap).AddInt", "(*github.com/RoaringBitmap/roaring.Bitmap).AddMany", "(*github.com/RoaringBitmap/roaring.Bitmap).AddRange":
			out = append(out, rowIDUse{at: i, site: i, name: name, unfollowed: true})
			return
		}
		h := calleeFunc(cc)
		if h == nil || h == fn || depth >= 2 || !c.w.inModule(h) || h.Blocks == nil {
			return
		}
		for _, u := range rowIDUses(c, h, depth+1) {
			u.at = i
			if u.via == "" {
				u.via = safeFname(h)
			} else {
				u.via = safeFname(h) + " -> " + u.via
			}
			if !u.unfollowed {
				for k, p := range h.Params {
					if ssa.Value(p) == peelConv(u.val) && k < len(cc.Args) {
						u.val = cc.Args[k]
					}
				}
			}
			out = append(out, u)
		}
	})
	return out
}

// sameFieldBase: two field addresses select the field of the same object (same root after peeling).
func sameFieldBase(a, b ssa.Value) bool {
	fa, ok1 := a.(*ssa.FieldAddr)
	fb, ok2 := b.(*ssa.FieldAddr)
	if !ok1 || !ok2 {
		return false
	}
	if fa == fb {
		return true
	}
	ra, rb := path(fa.X), path(fb.X)
	if len(ra.Steps) != len(rb.Steps) {
		return false
	}
	for i := range ra.Steps {
		if ra.Steps[i] != rb.Steps[i] {
			return false
		}
	}
	return rootSame(ra.Root, rb.Root)
}

func rootSame(a, b ssa.Value) bool {
	if a == b {
		return true
	}
	// loads of the same single-store cell / same free variable cell
	la, ok1 := a.(*ssa.UnOp)
	lb, ok2 := b.(*ssa.UnOp)
	if ok1 && ok2 && la.Op == token.MUL && lb.Op == token.MUL {
		return peelCell(la.X) == peelCell(lb.X)
	}
	return false
}
