package main

// LOCK: must-hold lock-state dataflow over SSA, with exact modelling of deferred unlocks and deferred closures,
// and propagation of "locks held at entry" into callees (meet over call sites in the analysed set).
// A lock is identified by the mutex *field* (types.Var) of the struct it lives in.

import (
	"go/types"
	"sort"
	"strings"

	"golang.org/x/tools/go/ssa"
)

const (
	lkU = 0
	lkR = 1
	lkW = 2
)

type lockState map[*types.Var]int

func (s lockState) clone() lockState {
	o := lockState{}
	for k, v := range s {
		if v != lkU {
			o[k] = v
		}
	}
	return o
}

func meetLock(a, b lockState) lockState {
	o := lockState{}
	for k, v := range a {
		if w := b[k]; w < v {
			v = w
		}
		if v != lkU {
			o[k] = v
		}
	}
	return o
}

func eqLock(a, b lockState) bool {
	for k, v := range a {
		if v != lkU && b[k] != v {
			return false
		}
	}
	for k, v := range b {
		if v != lkU && a[k] != v {
			return false
		}
	}
	return true
}

type lockProblem struct {
	ins ssa.Instruction
	msg string
}

type LockAn struct {
	c        *Ctx
	scope    map[*ssa.Function]bool
	entry    map[*ssa.Function]lockState // absent = not yet reached (top)
	in       map[*ssa.BasicBlock]lockState
	hasIn    map[*ssa.BasicBlock]bool
	Problems []lockProblem
	probSeen map[string]bool
	// bound: mutex parameters resolved to the mutex field every call site in the analysed set passes (see boundMutex)
	bound map[*ssa.Parameter]*types.Var
}

// lockOp classifies a call as an operation on a mutex field: returns the field and +W/+R/-W/-R.
func lockOp(cc *ssa.CallCommon) (fld *types.Var, acquire bool, mode int, ok bool) {
	if fld, acquire, mode, ok = syncLockOp(cc); ok {
		return
	}
	return wrapperLockOp(calleeFunc(cc))
}

// wrapperLockOp: f is a wrapper of the module (`func (d *T) lock() { d.mu.Lock() }`): a straight-line function whose
// only call is one lock operation on a mutex field reached from one of its parameters counts as that operation. Such a
// function is *meant* to return with the lock held (resp. to release a lock it did not take).
func wrapperLockOp(f *ssa.Function) (fld *types.Var, acquire bool, mode int, ok bool) {
	if f == nil || f.Blocks == nil || len(f.Blocks) != 1 || f.Pkg == nil || !strings.HasPrefix(f.Pkg.Pkg.Path(), modPath) {
		return nil, false, 0, false
	}
	n := 0
	for _, ins := range f.Blocks[0].Instrs {
		switch x := ins.(type) {
		case *ssa.Call:
			n++
			wf, wa, wm, wok := syncLockOp(&x.Call)
			if !wok || wf == nil {
				return nil, false, 0, false
			}
			if _, isPar := path(x.Call.Args[0]).Root.(*ssa.Parameter); !isPar {
				return nil, false, 0, false
			}
			fld, acquire, mode = wf, wa, wm
		case *ssa.Defer, *ssa.Go, *ssa.Store, *ssa.MapUpdate, *ssa.Send, *ssa.Panic:
			return nil, false, 0, false
		}
	}
	if n != 1 {
		return nil, false, 0, false
	}
	return fld, acquire, mode, true
}

// syncLockOp recognises the methods of sync.Mutex / sync.RWMutex themselves.
func syncLockOp(cc *ssa.CallCommon) (fld *types.Var, acquire bool, mode int, ok bool) {
	name := calleeName(cc)
	switch name {
	case "(*sync.Mutex).Lock", "(*sync.RWMutex).Lock":
		acquire, mode = true, lkW
	case "(*sync.RWMutex).RLock":
		acquire, mode = true, lkR
	case "(*sync.Mutex).Unlock", "(*sync.RWMutex).Unlock":
		acquire, mode = false, lkW
	case "(*sync.RWMutex).RUnlock":
		acquire, mode = false, lkR
	case "(*sync.Mutex).TryLock", "(*sync.RWMutex).TryLock", "(*sync.RWMutex).TryRLock":
		return nil, false, 0, false
	default:
		return nil, false, 0, false
	}
	if len(cc.Args) == 0 {
		return nil, false, 0, false
	}
	p := path(cc.Args[0])
	f := p.lastField()
	if f == nil {
		return nil, acquire, mode, true // a mutex that is not a struct field (local/global): tracked as nil = ignored
	}
	return f, acquire, mode, true
}

func newLockAn(c *Ctx, entries []*ssa.Function, scope map[*ssa.Function]bool) *LockAn {
	la := &LockAn{c: c, scope: scope, entry: map[*ssa.Function]lockState{}, in: map[*ssa.BasicBlock]lockState{}, hasIn: map[*ssa.BasicBlock]bool{}, probSeen: map[string]bool{}}
	work := []*ssa.Function{}
	lower := func(f *ssa.Function, s lockState) {
		if f == nil || !scope[f] || f.Blocks == nil {
			return
		}
		cur, ok := la.entry[f]
		if !ok {
			la.entry[f] = s.clone()
			work = append(work, f)
			return
		}
		m := meetLock(cur, s)
		if !eqLock(m, cur) {
			la.entry[f] = m
			work = append(work, f)
		}
	}
	for _, e := range entries {
		lower(e, lockState{})
	}
	// functions in scope that nobody in scope calls directly (address-taken, library callbacks) start unlocked —
	// but only after the call-site propagation had its chance; do it lazily below.
	for rounds := 0; rounds < 10000; rounds++ {
		if len(work) == 0 {
			// seed unreached functions of the scope
			var rest []*ssa.Function
			for f := range scope {
				if _, ok := la.entry[f]; !ok && f.Blocks != nil {
					rest = append(rest, f)
				}
			}
			if len(rest) == 0 {
				break
			}
			sort.Slice(rest, func(i, j int) bool { return rest[i].Pos() < rest[j].Pos() })
			// closures used as callbacks by libraries (db.View(func…)) run synchronously inside the call that receives
			// them: give them the state at the instruction that passes them.
			progressed := false
			for _, f := range rest {
				if s, ok := la.closureContext(f); ok {
					lower(f, s)
					progressed = true
				}
			}
			if !progressed {
				lower(rest[0], lockState{})
			}
			continue
		}
		f := work[0]
		work = work[1:]
		la.analyseFunc(f, lower)
	}
	return la
}

// closureContext: for an anonymous function passed as an argument to a (library) call in an analysed parent,
// the state at that call. Only synchronous callback receivers are accepted (reviewed list).
var syncCallbackReceivers = map[string]bool{
	"(*go.etcd.io/bbolt.DB).View": true, "(*go.etcd.io/bbolt.DB).Update": true, "sort.Slice": true, "sort.SliceStable": true,
	"strings.Map":                          true,
	modPath + "/internal/queryparser.Walk": true,
}

func (la *LockAn) closureContext(f *ssa.Function) (lockState, bool) {
	parent := f.Parent()
	if parent == nil {
		return la.boundContext(f)
	}
	if _, ok := la.entry[parent]; !ok {
		return nil, false
	}
	var res lockState
	found := false
	allInstrs(parent, func(i ssa.Instruction) {
		cc := callCommon(i)
		if cc == nil {
			return
		}
		if _, isGo := i.(*ssa.Go); isGo {
			return
		}
		if _, isDefer := i.(*ssa.Defer); isDefer {
			return
		}
		for k, a := range cc.Args {
			mc, ok := a.(*ssa.MakeClosure)
			if !ok || mc.Fn != f {
				continue
			}
			if syncCallbackReceivers[calleeName(cc)] {
				s := la.stateAt(i)
				if !found {
					res, found = s, true
				} else {
					res = meetLock(res, s)
				}
				continue
			}
			// a helper of the module that runs the function it is given while it holds a lock
			// (`func (d *drv) withConns(fn func() error) error { d.mu.Lock(); defer d.mu.Unlock(); return fn() }`)
			if s, ok := la.paramCallContext(cc, k); ok {
				if !found {
					res, found = s, true
				} else {
					res = meetLock(res, s)
				}
			}
		}
	})
	return res, found
}

// paramCallContext: cc calls a module function h (statically) and passes a function value as argument k; h does nothing
// with that parameter but call it (synchronously: not in a go or defer statement). The function value then runs with the
// lock state h has at those calls — the meet over them. ok is false if h is not analysed yet or uses the parameter
// in any other way (stores it, hands it on).
func (la *LockAn) paramCallContext(cc *ssa.CallCommon, k int) (lockState, bool) {
	h := cc.StaticCallee()
	if h == nil || h.Blocks == nil || !la.c.w.inModule(h) || k >= len(h.Params) {
		return nil, false
	}
	if _, analysed := la.entry[h]; !analysed {
		return nil, false
	}
	var res lockState
	found := false
	for _, r := range referrers(h.Params[k]) {
		switch x := r.(type) {
		case *ssa.DebugRef:
		case *ssa.Call:
			if x.Call.Value != ssa.Value(h.Params[k]) {
				return nil, false
			}
			s := la.stateAt(x)
			if !found {
				res, found = s, true
			} else {
				res = meetLock(res, s)
			}
		default:
			return nil, false
		}
	}
	return res, found
}

// boundContext: a method value `x.m` handed to a synchronous callback receiver (`db.View(r.read)`, `sort.Slice(s, k.less)`)
// is the closure `func(a…) { return x.m(a…) }` in disguise. go/ssa represents it by a synthetic parentless "$bound"
// wrapper with the receiver as its only free variable; the wrapper (and through its static call the method) runs with
// the locks held at the calls that receive it. Every place in the analysed set that forms the method value must hand it
// directly to such a receiver from an already analysed function; a method value that is stored, returned, deferred or
// started as a goroutine runs at an unknown time and gets no context (it is then seeded with "nothing held").
func (la *LockAn) boundContext(f *ssa.Function) (lockState, bool) {
	if f.Synthetic == "" || len(f.FreeVars) != 1 {
		return nil, false
	}
	var res lockState
	found, okAll := false, true
	for g := range la.scope {
		allInstrs(g, func(i ssa.Instruction) {
			mc, ok := i.(*ssa.MakeClosure)
			if !ok || mc.Fn != ssa.Value(f) {
				return
			}
			if _, analysed := la.entry[g]; !analysed {
				okAll = false
				return
			}
			for _, r := range referrers(mc) {
				if _, isDbg := r.(*ssa.DebugRef); isDbg {
					continue
				}
				call, isCall := r.(*ssa.Call)
				if isCall && call.Call.Value != ssa.Value(mc) && !syncCallbackReceivers[calleeName(&call.Call)] {
					// handed to a helper of the module that only calls it, under whatever lock the helper holds there
					handled := false
					for k, a := range call.Call.Args {
						if a == ssa.Value(mc) {
							if s, ok := la.paramCallContext(&call.Call, k); ok {
								handled = true
								if !found {
									res, found = s, true
								} else {
									res = meetLock(res, s)
								}
							}
						}
					}
					if !handled {
						okAll = false
					}
					continue
				}
				if !isCall {
					okAll = false
					continue
				}
				s := la.stateAt(call)
				if !found {
					res, found = s, true
				} else {
					res = meetLock(res, s)
				}
			}
		})
	}
	return res, found && okAll
}

func (la *LockAn) problem(ins ssa.Instruction, msg string) {
	k := la.c.w.ipos(ins) + msg
	if la.probSeen[k] {
		return
	}
	la.probSeen[k] = true
	la.Problems = append(la.Problems, lockProblem{ins, msg})
}

// transfer applies one instruction. lower is called for callees with the state at the call.
func (la *LockAn) transfer(fn *ssa.Function, s lockState, ins ssa.Instruction, lower func(*ssa.Function, lockState)) lockState {
	switch x := ins.(type) {
	case *ssa.Call:
		cc := &x.Call
		if fld, acq, mode, ok := lockOp(cc); ok {
			if fld == nil {
				fld = la.boundMutex(cc) // a mutex the function received as a parameter: the field its callers pass
			}
			if fld == nil {
				return s
			}
			s = s.clone()
			if acq {
				s[fld] = mode
			} else {
				delete(s, fld)
			}
			return s
		}
		if lower != nil {
			if f := calleeFunc(cc); f != nil {
				lower(f, s)
			} else if cc.IsInvoke() {
				// interface call: every implementation in scope may run with this state
				if n := la.c.w.CG.Nodes[fn]; n != nil {
					for _, e := range n.Out {
						if e.Site == ins {
							lower(e.Callee.Func, s)
						}
					}
				}
			} else {
				if n := la.c.w.CG.Nodes[fn]; n != nil {
					for _, e := range n.Out {
						if e.Site == ins {
							lower(e.Callee.Func, s)
						}
					}
				}
			}
		}
	case *ssa.Go:
		if lower != nil {
			if f := calleeFunc(&x.Call); f != nil {
				lower(f, lockState{}) // a new goroutine holds nothing
			}
		}
	case *ssa.RunDefers:
		return la.runDefers(fn, s, x, lower)
	}
	return s
}

// runDefers replays the function's deferred calls in LIFO order on state s.
func (la *LockAn) runDefers(fn *ssa.Function, s lockState, rd *ssa.RunDefers, lower func(*ssa.Function, lockState)) lockState {
	var defers []*ssa.Defer
	allInstrs(fn, func(i ssa.Instruction) {
		if d, ok := i.(*ssa.Defer); ok {
			defers = append(defers, d)
		}
	})
	// registration order: dominator-tree preorder of the block, then index in block
	pre := domPreorder(fn)
	sort.SliceStable(defers, func(i, j int) bool {
		bi, bj := defers[i].Block(), defers[j].Block()
		if bi != bj {
			return pre[bi] < pre[bj]
		}
		return pointOf(defers[i]).i < pointOf(defers[j]).i
	})
	s = s.clone()
	for k := len(defers) - 1; k >= 0; k-- {
		d := defers[k]
		cc := &d.Call
		// a defer that cannot have been registered on any path to this exit does not run here
		if !instrReaches(d, rd) {
			continue
		}
		if fld, acq, _, ok := lockOp(cc); ok {
			if fld == nil {
				fld = la.boundMutex(cc)
			}
			if fld == nil {
				continue
			}
			if !d.Block().Dominates(rd.Block()) {
				la.problem(d, "deferred lock operation is registered conditionally: lock state at function exit is path dependent")
			}
			if acq {
				la.problem(d, "deferred lock acquisition")
				continue
			}
			delete(s, fld)
			continue
		}
		if lower != nil {
			if f := calleeFunc(cc); f != nil {
				lower(f, s)
			}
		}
	}
	return s
}

// boundMutex: the lock operation cc works on a mutex that the function received as a parameter
// (`func resolveRow(mtx *sync.RWMutex, sch *schema, …)`, called as `resolveRow(&idx.schemaMtx, idx.schema, …)`). If every
// static call of the function in the analysed set passes the address of one and the same mutex field, the operation is
// an operation on that field; the lock state then flows through the helper as if the field had been named in it. A
// parameter that is bound to different fields, to something that is not a struct field, or whose function is also used
// as a value / started as a goroutine stays untracked (nil), as before.
func (la *LockAn) boundMutex(cc *ssa.CallCommon) *types.Var {
	if len(cc.Args) == 0 {
		return nil
	}
	par, ok := peel(cc.Args[0]).(*ssa.Parameter)
	if !ok || par.Parent() == nil {
		return nil
	}
	if f, done := la.bound[par]; done {
		return f
	}
	if la.bound == nil {
		la.bound = map[*ssa.Parameter]*types.Var{}
	}
	la.bound[par] = nil // (also stops a recursion through a helper that hands its own parameter on)
	fn := par.Parent()
	idx := -1
	for k, p := range fn.Params {
		if p == par {
			idx = k
		}
	}
	if idx < 0 || la.c.usedAsValue(fn) {
		return nil
	}
	var fld *types.Var
	n, good := 0, true
	for g := range la.scope {
		allInstrs(g, func(i ssa.Instruction) {
			gc := callCommon(i)
			if gc == nil || calleeFunc(gc) != fn {
				return
			}
			n++
			if _, isGo := i.(*ssa.Go); isGo || idx >= len(gc.Args) {
				good = false
				return
			}
			f := path(gc.Args[idx]).lastField()
			if f == nil {
				// handed on from the caller's own mutex parameter
				if _, isPar := peel(gc.Args[idx]).(*ssa.Parameter); isPar {
					f = la.boundMutex(&ssa.CallCommon{Args: []ssa.Value{gc.Args[idx]}})
				}
			}
			if f == nil || (fld != nil && f != fld) {
				good = false
				return
			}
			fld = f
		})
	}
	if n == 0 || !good {
		return nil
	}
	la.bound[par] = fld
	return fld
}

func domPreorder(fn *ssa.Function) map[*ssa.BasicBlock]int {
	pre := map[*ssa.BasicBlock]int{}
	n := 0
	var walk func(b *ssa.BasicBlock)
	walk = func(b *ssa.BasicBlock) {
		pre[b] = n
		n++
		for _, d := range b.Dominees() {
			walk(d)
		}
	}
	if len(fn.Blocks) > 0 {
		walk(fn.Blocks[0])
	}
	if fn.Recover != nil {
		if _, ok := pre[fn.Recover]; !ok {
			walk(fn.Recover)
		}
	}
	return pre
}

func (la *LockAn) analyseFunc(fn *ssa.Function, lower func(*ssa.Function, lockState)) {
	entry := la.entry[fn]
	for _, b := range fn.Blocks {
		delete(la.in, b)
		delete(la.hasIn, b)
	}
	la.in[fn.Blocks[0]] = entry.clone()
	la.hasIn[fn.Blocks[0]] = true
	work := []*ssa.BasicBlock{fn.Blocks[0]}
	for len(work) > 0 {
		b := work[0]
		work = work[1:]
		s := la.in[b].clone()
		for _, ins := range b.Instrs {
			s = la.transfer(fn, s, ins, lower)
		}
		for _, succ := range b.Succs {
			if !la.hasIn[succ] {
				la.in[succ] = s.clone()
				la.hasIn[succ] = true
				work = append(work, succ)
				continue
			}
			m := meetLock(la.in[succ], s)
			if !eqLock(m, la.in[succ]) {
				la.in[succ] = m
				work = append(work, succ)
			}
		}
	}
}

// stateAt returns the locks that are held on every path just before ins executes.
func (la *LockAn) stateAt(ins ssa.Instruction) lockState {
	b := ins.Block()
	if !la.hasIn[b] {
		return lockState{}
	}
	s := la.in[b].clone()
	for _, j := range b.Instrs {
		if j == ins {
			break
		}
		s = la.transfer(b.Parent(), s, j, nil)
	}
	return s
}

func (la *LockAn) analysed(fn *ssa.Function) bool {
	_, ok := la.entry[fn]
	return ok
}

// ---------- accesses to guarded state ----------

type access struct {
	Fn    *ssa.Function
	Ins   ssa.Instruction
	Field *types.Var
	Write bool
	What  string
}

// fieldAccesses lists reads and writes of the given struct fields in fn. A write is a store to the field, an update/delete
// of the map held in it, a store into the slice/array held in it, or a mutating container call on the value held in it.
func fieldAccesses(fn *ssa.Function, fields map[*types.Var]bool) []access {
	var out []access
	allInstrs(fn, func(i ssa.Instruction) {
		var fld *types.Var
		var val ssa.Value
		switch x := i.(type) {
		case *ssa.FieldAddr:
			fld, val = fieldOf(x.X.Type(), x.Field), x
		case *ssa.Field:
			fld, val = fieldOf(x.X.Type(), x.Field), x
		}
		if fld == nil || !fields[fld] {
			return
		}
		_, isAddr := val.(*ssa.FieldAddr)
		classify(fn, val, fld, isAddr, &out, 0)
	})
	return out
}

// classify follows the uses of a field address (isAddr) or of the value loaded from the field.
func classify(fn *ssa.Function, v ssa.Value, fld *types.Var, isAddr bool, out *[]access, depth int) {
	if depth > 4 {
		return
	}
	for _, r := range usesOf(v) {
		switch u := r.(type) {
		case *ssa.Store:
			if isAddr && u.Addr == v {
				*out = append(*out, access{fn, u, fld, true, "assignment"})
			} else {
				*out = append(*out, access{fn, u, fld, false, "read"})
			}
		case *ssa.UnOp:
			if isAddr {
				*out = append(*out, access{fn, u, fld, false, "read"})
				classify(fn, u, fld, false, out, depth+1)
			}
		case *ssa.MapUpdate:
			if !isAddr && u.Map == v {
				*out = append(*out, access{fn, u, fld, true, "map update"})
			}
		case *ssa.Lookup, *ssa.Range, *ssa.Index:
			*out = append(*out, access{fn, r, fld, false, "read of contents"})
		case *ssa.IndexAddr:
			// element address: stores through it write the contents
			for _, rr := range referrers(u) {
				if st, ok := rr.(*ssa.Store); ok && st.Addr == ssa.Value(u) {
					*out = append(*out, access{fn, st, fld, true, "element store"})
				}
			}
		case *ssa.FieldAddr:
			// address of a sub-field of a struct-typed field: recurse as address
			if isAddr {
				classify(fn, u, fld, true, out, depth+1)
			} else {
				classify(fn, u, fld, true, out, depth+1) // field of the object the loaded pointer refers to
			}
		case *ssa.Call:
			cc := &u.Call
			name := calleeName(cc)
			if b, ok := cc.Value.(*ssa.Builtin); ok {
				switch b.Name() {
				case "delete", "clear":
					if len(cc.Args) > 0 && cc.Args[0] == v {
						*out = append(*out, access{fn, u, fld, true, b.Name()})
					}
				case "len", "cap":
					*out = append(*out, access{fn, u, fld, false, "len"})
				case "append":
					*out = append(*out, access{fn, u, fld, false, "append (reads, may write spare capacity)"})
				}
				continue
			}
			if k, ok := mutatingExtern[name]; ok && k < len(cc.Args) && cc.Args[k] == v {
				*out = append(*out, access{fn, u, fld, true, shortName(name)})
				continue
			}
			if !isAddr {
				*out = append(*out, access{fn, u, fld, false, "passed to " + shortName(name)})
			} else {
				*out = append(*out, access{fn, u, fld, true, "address passed to " + shortName(name)})
			}
		}
	}
}

// instrReaches: b can execute after a (plain CFG reachability, no pruning).
func instrReaches(a, b ssa.Instruction) bool {
	if a.Block() == b.Block() && pointOf(a).i < pointOf(b).i {
		return true
	}
	seen := map[*ssa.BasicBlock]bool{}
	var visit func(x *ssa.BasicBlock) bool
	visit = func(x *ssa.BasicBlock) bool {
		for _, s := range x.Succs {
			if s == b.Block() {
				return true
			}
			if !seen[s] {
				seen[s] = true
				if visit(s) {
					return true
				}
			}
		}
		return false
	}
	return visit(a.Block())
}
