package main

// Group-by refinement split over helpers (C02.fields) and objects that are completed before they are shared
// (C04.guarded / C02.levellist): see groupFieldOK and unpublishedAt.

import (
	"go/token"
	"go/types"

	"golang.org/x/tools/go/ssa"
)

// ---------------- C02.fields: following the refinement through helpers ----------------

// groupFieldOK decides, for a function fn that builds a ResultField{Column: colSrc, Value: valSrc}, that the field names
// the column of the level being refined and the value whose bitmap refines the group. Three shapes are followed:
//
//	(a) everything in fn: v is the range variable over <level>.Values, the bitmap is fetched with GetCol(v.Idx) in fn and
//	    the column is <level>.Column of the same level object;
//	(b) fn is a helper that receives the level (or its column, or its value list) as parameters: the parameters are bound
//	    to the arguments at every static call site and the level objects are compared in the caller;
//	(c) the list fn iterates is a list of *candidates* computed by another helper (`candidates := gbf.restrictTo(…)`),
//	    whose elements are copies of elements of <level>.Values that carry the bitmap fetched for them
//	    (`v.rows = roaring.And(result, GetCol(v.Idx))`), and fn refines with that carried bitmap (candidateList).
//
// In every shape the defects the rule is there for stay visible: a column taken from another level, a value taken from
// another element than the one whose bitmap is used, a candidate whose Value/Idx is rewritten on the way.
func groupFieldOK(c *Ctx, fn *ssa.Function, colSrc, valSrc ssa.Value) (bool, string) {
	a := c.a
	if colSrc == nil {
		return false, "the field's column is not the group-by level's column"
	}
	if valSrc == nil {
		return false, "the field's value is not the group-by value being refined"
	}
	if fv := srcField(valSrc); fv == nil || fv != a.ValValueF {
		return false, "the field's value is not the group-by value being refined"
	}
	vroot := path(valSrc).Root
	list := elemListOf(vroot)
	colParam, _ := peel(colSrc).(*ssa.Parameter)
	if colParam != nil && colParam.Parent() != fn {
		colParam = nil
	}
	if colParam == nil {
		if f := srcField(colSrc); f == nil || f != a.LevelColF {
			return false, "the field's column is not the group-by level's column"
		}
	}
	var listParam *ssa.Parameter
	if list != nil {
		if p, ok := stripSlices(list).(*ssa.Parameter); ok && p.Parent() == fn {
			listParam = p
		}
	}
	if colParam == nil && listParam == nil {
		colLvl := levelObj(colSrc, a.LevelColF)
		valLvl, why := valueLevelIn(c, fn, vroot, list)
		if valLvl == nil {
			return false, why
		}
		if colLvl == nil || spilledParam(colLvl) != spilledParam(valLvl) {
			return false, "the field's column is taken from a different group-by level than the value"
		}
		return true, ""
	}
	// the column and/or the list of values are parameters of fn: bind them at every call
	sites := ag29CallSites(c, fn)
	if len(sites) == 0 {
		return false, "the column or the value list is a parameter of " + safeFname(fn) + " and its call sites could not be determined"
	}
	for _, site := range sites {
		var colLvl, valLvl ssa.Value
		if colParam != nil {
			arg := argFor(site, fn, colParam)
			if f := srcField(arg); f == nil || f != a.LevelColF {
				return false, "the column passed to " + safeFname(fn) + " is not the group-by level's column"
			}
			colLvl = levelObj(arg, a.LevelColF)
		} else {
			colLvl = liftLevel(levelObj(colSrc, a.LevelColF), fn, site)
		}
		if listParam != nil {
			arg := argFor(site, fn, listParam)
			if partOfList(list) {
				return false, "only a part of the level's value list is iterated"
			}
			var why string
			if valLvl, why = candidateLevel(c, site.Parent(), arg, fn, vroot); valLvl == nil {
				return false, why
			}
		} else {
			lvl, why := valueLevelIn(c, fn, vroot, list)
			if lvl == nil {
				return false, why
			}
			valLvl = liftLevel(lvl, fn, site)
		}
		if colLvl == nil || valLvl == nil || spilledParam(colLvl) != spilledParam(valLvl) {
			return false, "the field's column is taken from a different group-by level than the value"
		}
	}
	return true, ""
}

// elemListOf: vroot is the local copy of an element of a list (the variable v of `for _, v := range list`); the list.
func elemListOf(vroot ssa.Value) ssa.Value {
	al, ok := vroot.(*ssa.Alloc)
	if !ok {
		return nil
	}
	stores, esc := cellStores(al)
	if esc || len(stores) != 1 {
		return nil
	}
	ld, ok := stores[0].Val.(*ssa.UnOp)
	if !ok || ld.Op != token.MUL {
		return nil
	}
	ia, ok := ld.X.(*ssa.IndexAddr)
	if !ok {
		return nil
	}
	return ia.X
}

// stripSlices looks through re-slicings (whether they keep the whole list is partOfList's question).
func stripSlices(v ssa.Value) ssa.Value {
	for n := 0; n < 16; n++ {
		sl, ok := peel(v).(*ssa.Slice)
		if !ok {
			break
		}
		v = sl.X
	}
	return peel(v)
}

// levelObj: v is a read of field f (`x.f`); the object x (a struct variable, a pointer, a loaded struct value).
func levelObj(v ssa.Value, f *types.Var) ssa.Value {
	switch x := peelConv(v).(type) {
	case *ssa.UnOp:
		if fa, ok := x.X.(*ssa.FieldAddr); ok && x.Op == token.MUL && fieldOf(fa.X.Type(), fa.Field) == f {
			return peel(fa.X)
		}
	case *ssa.Field:
		if fieldOf(x.X.Type(), x.Field) == f {
			return peel(x.X)
		}
	}
	return nil
}

// liftLevel maps a level object of helper fn that is one of fn's parameters (or the local a struct parameter was copied
// into) to the object the call passes for it.
func liftLevel(lvl ssa.Value, fn *ssa.Function, site *ssa.Call) ssa.Value {
	if lvl == nil {
		return nil
	}
	p, ok := spilledParam(lvl).(*ssa.Parameter)
	if !ok || p.Parent() != fn {
		return nil
	}
	arg := argFor(site, fn, p)
	if arg == nil {
		return nil
	}
	return peel(arg)
}

// ag29CallSites: the calls of fn, if all of them are static calls (nil otherwise).
func ag29CallSites(c *Ctx, fn *ssa.Function) []*ssa.Call {
	node := c.w.CG.Nodes[fn]
	if node == nil {
		return nil
	}
	var out []*ssa.Call
	seen := map[*ssa.Call]bool{}
	for _, e := range node.In {
		call, ok := e.Site.(*ssa.Call)
		if !ok || calleeFunc(&call.Call) != fn {
			return nil
		}
		if !seen[call] {
			seen[call] = true
			out = append(out, call)
		}
	}
	return out
}

// getColOf: fn fetches the bitmap of the value held in vroot (GetCol(vroot.Idx)); the fetching calls.
func getColOf(c *Ctx, fn *ssa.Function, vroot ssa.Value) []*ssa.Call {
	var out []*ssa.Call
	allInstrs(fn, func(i ssa.Instruction) {
		call, ok := i.(*ssa.Call)
		if !ok || !call.Call.IsInvoke() || call.Call.Method.Name() != getColName || len(call.Call.Args) != 1 {
			return
		}
		if fi := srcField(call.Call.Args[0]); fi != nil && fi == c.a.ValIdxF && path(call.Call.Args[0]).Root == vroot {
			out = append(out, call)
		}
	})
	return out
}

// valueLevelIn, shape (a): vroot is the copy of an element of <level>.Values (the whole list) and fn fetches its bitmap.
func valueLevelIn(c *Ctx, fn *ssa.Function, vroot, list ssa.Value) (ssa.Value, string) {
	if len(getColOf(c, fn, vroot)) == 0 {
		return nil, "the value named in the field is not the one whose bitmap refined the group"
	}
	if list == nil {
		return nil, "the field's column is taken from a different group-by level than the value"
	}
	lvl := levelObj(stripSlices(list), c.a.LevelValsF)
	if lvl == nil {
		return nil, "the field's column is taken from a different group-by level than the value"
	}
	if partOfList(list) {
		return nil, "only a part of the level's value list is iterated"
	}
	return lvl, ""
}

// candidateLevel: the helper fn iterates the list it is given as `arg` (a value of the caller); v (vroot) is its element.
// Either arg is <level>.Values itself and fn fetches the bitmap (shape b), or arg is a candidate list built by another
// helper (shape c). Returns the level object in the caller.
func candidateLevel(c *Ctx, caller *ssa.Function, arg ssa.Value, fn *ssa.Function, vroot ssa.Value) (ssa.Value, string) {
	if arg == nil {
		return nil, "the list of values iterated by " + safeFname(fn) + " could not be bound to an argument"
	}
	if lvl := levelObj(stripSlices(arg), c.a.LevelValsF); lvl != nil {
		if partOfList(arg) {
			return nil, "only a part of the level's value list is passed to " + safeFname(fn)
		}
		if len(getColOf(c, fn, vroot)) == 0 {
			return nil, "the value named in the field is not the one whose bitmap refined the group"
		}
		return lvl, ""
	}
	// which bitmap carried by the candidate refines the group in fn?
	var rowsF *types.Var
	allInstrs(fn, func(i ssa.Instruction) {
		call, ok := i.(*ssa.Call)
		if !ok || !isIntersection(&call.Call) {
			return
		}
		for _, x := range call.Call.Args {
			if f := srcField(x); f != nil && isBitmapPtr(f.Type()) && c.w.ownerOf(f) == c.a.GroupValT && path(x).Root == vroot {
				rowsF = f
			}
		}
	})
	if rowsF == nil {
		return nil, "the value named in the field is not the one whose bitmap refined the group"
	}
	call, h, vals, ok := resultOrigins(c.w, peel(arg))
	if !ok {
		return nil, "the list of values iterated by " + safeFname(fn) + " is neither the level's value list nor the result of a helper that derives it from that list"
	}
	var lvl ssa.Value
	n := 0
	for _, rv := range vals {
		if isNilConst(rv) {
			continue
		}
		l, why := candidateList(c, h, rv, rowsF)
		if l == nil {
			return nil, why
		}
		if n > 0 && spilledParam(l) != spilledParam(lvl) {
			return nil, safeFname(h) + " returns candidates of different levels"
		}
		lvl = l
		n++
	}
	if n == 0 {
		return nil, safeFname(h) + " never returns a list of candidates"
	}
	up := liftLevel(lvl, h, call)
	if up == nil {
		return nil, "the level whose values " + safeFname(h) + " filters is not the one passed by " + safeFname(caller)
	}
	return up, ""
}

func isIntersection(cc *ssa.CallCommon) bool {
	switch calleeName(cc) {
	case roaringPkg + ".And", roaringPkg + ".FastAnd", roaringPkg + ".ParAnd":
		return true
	}
	return false
}

// candidateList, shape (c): slice rv of helper h is built by appending, to a new list, copies of elements of
// <level>.Values (the whole list) whose bitmap field rowsF is set to the bitmap fetched for that very element
// (GetCol(v.Idx), possibly intersected) and whose Value and Idx are left alone. Returns the level object (in h).
//
// The list must be a new one. Compacting the candidates into the level's own list (`kept := gb.Values[:0]`) rewrites
// the resolved list while it is in use: it is reported when resolved lists can be shared between levels (a column named
// twice in the group-by list, levelListsShared), because the second occurrence then enumerates a value twice.
func candidateList(c *Ctx, h *ssa.Function, rv ssa.Value, rowsF *types.Var) (ssa.Value, string) {
	var appends []*ssa.Call
	var bases []ssa.Value
	seen := map[ssa.Value]bool{}
	var walk func(v ssa.Value)
	walk = func(v ssa.Value) {
		if seen[v] {
			return
		}
		seen[v] = true
		switch x := v.(type) {
		case *ssa.Phi:
			for _, e := range x.Edges {
				walk(e)
			}
			return
		case *ssa.Call:
			if b, ok := x.Call.Value.(*ssa.Builtin); ok && b.Name() == "append" {
				appends = append(appends, x)
				walk(x.Call.Args[0])
				return
			}
		}
		bases = append(bases, v)
	}
	walk(rv)
	if len(appends) == 0 {
		return nil, "the candidate values returned by " + safeFname(h) + " are not collected by appending copies of the level's values"
	}
	var lvl ssa.Value
	for _, ap := range appends {
		el := variadicElem(ap.Call.Args[1])
		ld, ok := el.(*ssa.UnOp)
		if el == nil || !ok || ld.Op != token.MUL {
			return nil, "a candidate appended in " + safeFname(h) + " is not a copy of one of the level's values"
		}
		v, ok := ld.X.(*ssa.Alloc)
		if !ok {
			return nil, "a candidate appended in " + safeFname(h) + " is not a copy of one of the level's values"
		}
		list := elemListOf(v)
		if list == nil {
			return nil, "a candidate appended in " + safeFname(h) + " is not a copy of one of the level's values"
		}
		l := levelObj(stripSlices(list), c.a.LevelValsF)
		if l == nil || partOfList(list) {
			return nil, "the candidates are not taken from the whole value list of the level"
		}
		if lvl != nil && spilledParam(l) != spilledParam(lvl) {
			return nil, safeFname(h) + " mixes candidates of different levels"
		}
		lvl = l
		nRows := 0
		for _, r := range referrers(v) {
			fa, ok := r.(*ssa.FieldAddr)
			if !ok {
				continue
			}
			f := fieldOf(fa.X.Type(), fa.Field)
			for _, rr := range referrers(fa) {
				st, ok := rr.(*ssa.Store)
				if !ok || st.Addr != ssa.Value(fa) {
					continue
				}
				switch f {
				case c.a.ValValueF, c.a.ValIdxF:
					return nil, "the candidate's value or bitmap index is overwritten in " + safeFname(h) + ": the value named in the field is not the one whose bitmap refined the group"
				case rowsF:
					nRows++
					if !fetchedFor(c, st.Val, v) {
						return nil, "the bitmap a candidate carries is not the one fetched for that candidate's own value (GetCol of its index): the value named in the field is not the one whose bitmap refined the group"
					}
				}
			}
		}
		if nRows == 0 {
			return nil, "the candidates appended in " + safeFname(h) + " do not carry the bitmap of their value"
		}
	}
	for _, b := range bases {
		switch x := b.(type) {
		case *ssa.MakeSlice:
			continue
		case *ssa.Const:
			if x.IsNil() {
				continue
			}
		}
		if l := levelObj(stripSlices(b), c.a.LevelValsF); l != nil {
			if shared, where := levelListsShared(c); shared {
				return nil, "the candidates are compacted into the level's own value list in " + safeFname(h) + " (the list is re-sliced and appended to), but resolved value lists are shared between levels (" + where + "): for a column named twice in the group-by list the second occurrence enumerates a value twice"
			}
			continue // an unshared, per-execution list may be filtered in place: the write position never passes the read position
		}
		return nil, "the candidates are appended to a list that is neither new nor the level's own"
	}
	return lvl, ""
}

// fetchedFor: bitmap bm is what GetCol returned for the index of the value held in v, or an intersection with it.
func fetchedFor(c *Ctx, bm ssa.Value, v ssa.Value) bool {
	isFetch := func(x ssa.Value) bool {
		ex, ok := peel(x).(*ssa.Extract)
		if !ok || ex.Index != 0 {
			return false
		}
		call, ok := ex.Tuple.(*ssa.Call)
		if !ok || !call.Call.IsInvoke() || call.Call.Method.Name() != getColName || len(call.Call.Args) != 1 {
			return false
		}
		fi := srcField(call.Call.Args[0])
		return fi != nil && fi == c.a.ValIdxF && path(call.Call.Args[0]).Root == v
	}
	if isFetch(bm) {
		return true
	}
	call, ok := peel(bm).(*ssa.Call)
	if !ok || !isIntersection(&call.Call) {
		return false
	}
	for _, x := range call.Call.Args {
		if isFetch(x) {
			return true
		}
	}
	return false
}

// levelListsShared: some function of the execution path appends, to a list of group-by levels, a level that was not
// built for that position (it comes out of a map, a field, a cache …): two positions of the resolved group-by list, or
// two executions, may then hold the same value list.
func levelListsShared(c *Ctx) (bool, string) {
	fr := newFresh(c)
	shared, where := false, ""
	for _, fn := range c.w.reach(c.a.Execute).sorted() {
		if c.w.pkgPathOf(fn) != pkgRoot {
			continue
		}
		allInstrs(fn, func(i ssa.Instruction) {
			call, ok := i.(*ssa.Call)
			if !ok || shared {
				return
			}
			b, ok := call.Call.Value.(*ssa.Builtin)
			if !ok || b.Name() != "append" || len(call.Call.Args) < 2 {
				return
			}
			sl, ok := call.Type().Underlying().(*types.Slice)
			if !ok {
				return
			}
			et := sl.Elem()
			if p, ok := et.Underlying().(*types.Pointer); ok {
				et = p.Elem()
			}
			if c.a.GroupLevelT == nil || types.Unalias(et) != types.Type(c.a.GroupLevelT) {
				return
			}
			if fr.elemLevel(call.Call.Args[1]) < deep {
				shared, where = true, "appended at "+c.w.ipos(call)
			}
		})
	}
	return shared, where
}

// ---------------- objects completed before they are shared ----------------

// publicationBefore (an unpublished write): the write event e goes into the backing array of a slice field of an object that was created in
// e.Fn and that nothing outside this call can see yet at e.Ins — the build-then-publish idiom
//
//	gb := &groupBy{Column: name, Values: make(…)}
//	for … { gb.Values = append(gb.Values, …) }
//	sort.Slice(gb.Values, …)                        // e: not "fresh" for FRESH, because gb escapes further down
//	actual, loaded := m.LoadOrStore(name, gb)       // publication
//
// FRESH is flow-insensitive: once the pointer is handed to anything, loads from the object's fields count as shared for
// the whole function. Here the order is taken into account: every use that hands the object (or the address of one of
// its fields) to something else — a call, an interface conversion, a store, a return, a closure other than the comparison
// function of a sort — is a publication point, and e is accepted only if no publication point can execute before it.
// The array written must be the object's own: everything stored into the field is a new slice (make, nil) or an append
// to the field's previous value. The publish-first variant (store the empty object in the map, fill it afterwards) has
// a publication point that reaches the writes and stays reported.
//
// publicationBefore returns whether e is such a write; if it is not and the only obstacle is a publication point that
// can execute before it, that point is returned too (for the message).
func publicationBefore(e writeEv) (bool, ssa.Instruction) {
	obj, ok := e.Target.Root.(*ssa.Alloc)
	if !ok || obj.Parent() != e.Fn {
		return false, nil
	}
	if _, isStruct := obj.Type().Underlying().(*types.Pointer).Elem().Underlying().(*types.Struct); !isStruct {
		return false, nil
	}
	// the written location: <obj>.f (the field itself) or the array of the slice held in <obj>.f
	steps := e.Target.Steps
	if len(steps) == 0 || steps[0].Field == nil {
		return false, nil
	}
	fld := steps[0].Field
	for _, s := range steps[1:] {
		if s.Field != nil {
			return false, nil // memory further away than the field's own array
		}
	}
	derefs := 0
	for _, s := range steps[1:] {
		if s.Deref {
			derefs++
		}
	}
	if derefs > 1 {
		return false, nil
	}
	// aliases of the object's address in e.Fn and its function literals, and the publication points
	var pubs []ssa.Instruction
	fns := append([]*ssa.Function{e.Fn}, e.Fn.AnonFuncs...)
	isAlias := func(v ssa.Value) bool { return v == ssa.Value(obj) || peel(v) == ssa.Value(obj) }
	readOnlyAddr := func(fa ssa.Value, allowStore bool) bool {
		for _, r := range referrers(fa) {
			switch x := r.(type) {
			case *ssa.UnOp, *ssa.DebugRef:
			case *ssa.Store:
				if x.Addr != fa || !allowStore {
					return false
				}
			default:
				return false
			}
		}
		return true
	}
	okArray := true
	for _, f := range fns {
		inLit := f != e.Fn
		allInstrs(f, func(i ssa.Instruction) {
			for _, op := range i.Operands(nil) {
				if op == nil || *op == nil || !isAlias(*op) {
					continue
				}
				v := *op
				pub := true
				switch x := i.(type) {
				case *ssa.DebugRef:
					pub = false
				case *ssa.UnOp:
					pub = false // a load of the struct value copies it
				case *ssa.FieldAddr:
					if x.X == v && readOnlyAddr(x, !inLit) {
						pub = false
						if !inLit && fieldOf(x.X.Type(), x.Field) == fld {
							for _, r := range referrers(x) {
								if st, ok := r.(*ssa.Store); ok && !ownArray(st.Val, obj, x.Field) {
									okArray = false
								}
							}
						}
					}
				case *ssa.Store:
					// kept in a local pointer variable that is only loaded, stored and captured
					if cell, isCell := x.Addr.(*ssa.Alloc); isCell && x.Val == v && !inLit {
						if _, esc := cellStores(cell); !esc {
							pub = false
						}
					}
				}
				if pub {
					if inLit {
						okArray = false // a function literal does more than read the object: not followed
					}
					pubs = append(pubs, i)
				}
			}
			// a function literal that captures the object (or the variable holding it) runs whenever its holder likes,
			// unless it is the comparison function handed to a sort call
			if mc, ok := i.(*ssa.MakeClosure); ok && !inLit {
				captures := false
				for _, b := range mc.Bindings {
					if isAlias(b) {
						captures = true
					}
					if cell, isCell := b.(*ssa.Alloc); isCell {
						if vals, ok := cellValues(cell); ok {
							for _, cv := range vals {
								captures = captures || isAlias(cv)
							}
						}
					}
				}
				if captures {
					for _, u := range usesOf(mc) {
						call, isCall := u.(*ssa.Call)
						if !isCall || !sortCalls[calleeName(&call.Call)] {
							pubs = append(pubs, i)
						}
					}
				}
			}
		})
	}
	if !okArray {
		return false, nil
	}
	for _, p := range pubs {
		if p == e.Ins || instrReaches(p, e.Ins) {
			return false, p
		}
	}
	return true, nil
}

// ownArray: the slice v stored into field idx of obj is a new one (make, nil, a literal) or the field's previous value
// with elements appended.
func ownArray(v ssa.Value, obj *ssa.Alloc, idx int) bool {
	for _, o := range appendOrigins(v) {
		switch x := o.(type) {
		case *ssa.MakeSlice:
			continue
		case *ssa.Const:
			if x.IsNil() {
				continue
			}
		case *ssa.Slice:
			if al, ok := x.X.(*ssa.Alloc); ok && x.Low == nil && x.High == nil {
				if _, isArr := al.Type().Underlying().(*types.Pointer).Elem().Underlying().(*types.Array); isArr {
					continue // slice literal
				}
			}
		case *ssa.UnOp:
			if fa, ok := x.X.(*ssa.FieldAddr); ok && x.Op == token.MUL && fa.Field == idx && peel(fa.X) == ssa.Value(obj) {
				continue
			}
		}
		return false
	}
	return true
}

// ---------------- FRESH: fields that own what they point to ----------------

// ownedField: the freshness of what is loaded from field fld, decided for the field as a whole rather than for the
// struct at hand. It applies to the bitmap of a group under construction (the role groupby.partial.bitmap): group-by
// refinement hands groups from helper to helper in slices and struct parameters, where FRESH loses track of the single
// object, but the question "may this bitmap be a stored, preloaded or cached one?" has a field-wide answer. The bitmap is
// private to the execution (deep) iff
//
//   - every store into the field, anywhere in the module, stores a bitmap that is itself deep-fresh (a Clone, the result
//     of roaring.And …) — `{rows: result}` with the expression's result, or a bitmap obtained from a getter, breaks it;
//   - the field's address is never handed on, so there are no other stores;
//   - groups cannot outlive or leave the execution: no struct field, package variable or interface value of the module
//     can hold a group (or a slice, map, pointer … of groups).
//
// Loads of the field met while the stores are being examined are assumed deep (the invariant is inductive: a sub-group's
// bitmap may be computed from its parent's).
func (f *Fresh) ownedField(fld *types.Var) int {
	if fld == nil || f.c.a == nil || f.c.a.ResGroupBMF == nil || fld != f.c.a.ResGroupBMF || f.c.a.ResGroupT == nil {
		return notFresh
	}
	if l, ok := f.owned[fld]; ok {
		return l
	}
	if f.owned == nil {
		f.owned = map[*types.Var]int{}
	}
	f.owned[fld] = deep
	holder := f.c.a.ResGroupT
	w := f.c.w
	ok := true
	// no long-lived home for groups
	if p := w.Pkgs[pkgRoot]; p != nil {
		sc := p.Types.Scope()
		for _, name := range sc.Names() {
			if v, isVar := sc.Lookup(name).(*types.Var); isVar && typeMentions(v.Type(), holder, nil) {
				ok = false
			}
		}
	}
	for _, n := range pkgNamedTypes(w, pkgRoot) {
		if n == holder {
			continue
		}
		if st, isStruct := n.Underlying().(*types.Struct); isStruct {
			for i := 0; i < st.NumFields(); i++ {
				if typeMentions(st.Field(i).Type(), holder, nil) {
					ok = false
				}
			}
		}
	}
	for _, fn := range w.ModFuncs {
		if !ok {
			break
		}
		allInstrs(fn, func(i ssa.Instruction) {
			switch x := i.(type) {
			case *ssa.MakeInterface:
				if typeMentions(x.X.Type(), holder, nil) {
					ok = false
				}
			case *ssa.FieldAddr:
				if fieldOf(x.X.Type(), x.Field) != fld {
					return
				}
				for _, r := range referrers(x) {
					switch y := r.(type) {
					case *ssa.UnOp, *ssa.DebugRef:
					case *ssa.Store:
						if y.Addr != ssa.Value(x) || f.level(y.Val) != deep {
							ok = false
						}
					default:
						ok = false
					}
				}
			}
		})
	}
	if !ok {
		// levels computed under the assumption are void
		f.memo = map[ssa.Value]int{}
		f.fnM = map[*ssa.Function][]int{}
		f.owned[fld] = notFresh
		return notFresh
	}
	return deep
}

// typeMentions: a value of type t can hold (directly, or through pointers, slices, arrays, maps, channels, struct
// fields) a value of the named type target.
func typeMentions(t types.Type, target *types.Named, seen map[types.Type]bool) bool {
	if seen == nil {
		seen = map[types.Type]bool{}
	}
	t = types.Unalias(t)
	if seen[t] {
		return false
	}
	seen[t] = true
	if n, ok := t.(*types.Named); ok {
		if n == target || n.Origin() == target {
			return true
		}
		return typeMentions(n.Underlying(), target, seen)
	}
	switch x := t.(type) {
	case *types.Pointer:
		return typeMentions(x.Elem(), target, seen)
	case *types.Slice:
		return typeMentions(x.Elem(), target, seen)
	case *types.Array:
		return typeMentions(x.Elem(), target, seen)
	case *types.Chan:
		return typeMentions(x.Elem(), target, seen)
	case *types.Map:
		return typeMentions(x.Key(), target, seen) || typeMentions(x.Elem(), target, seen)
	case *types.Struct:
		for i := 0; i < x.NumFields(); i++ {
			if typeMentions(x.Field(i).Type(), target, seen) {
				return true
			}
		}
	}
	return false
}
