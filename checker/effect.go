package main

// FRESH (local ownership) and EFFECT (write census over a reachable set).

import (
	"go/token"
	"go/types"

	"golang.org/x/tools/go/ssa"
)

const (
	notFresh = 0
	shallow  = 1 // the object itself was created here (or by a fresh-returning callee); things it points to may be shared
	deep     = 2 // everything reachable from it was created for this value (deep copies, parser output)
)

// reviewed tables (DESIGN.md Appendix A.1): functions whose result is a new object that shares nothing mutable with operands
var freshReturning = map[string]int{
	"github.com/RoaringBitmap/roaring.New":             deep,
	"github.com/RoaringBitmap/roaring.NewBitmap":       deep,
	"github.com/RoaringBitmap/roaring.BitmapOf":        deep,
	"github.com/RoaringBitmap/roaring.And":             deep,
	"github.com/RoaringBitmap/roaring.Or":              deep,
	"github.com/RoaringBitmap/roaring.Xor":             deep,
	"github.com/RoaringBitmap/roaring.AndNot":          deep,
	"github.com/RoaringBitmap/roaring.Flip":            deep,
	"github.com/RoaringBitmap/roaring.FlipInt":         deep,
	"github.com/RoaringBitmap/roaring.FastAnd":         deep,
	"github.com/RoaringBitmap/roaring.FastOr":          deep,
	"github.com/RoaringBitmap/roaring.HeapOr":          deep,
	"github.com/RoaringBitmap/roaring.HeapXor":         deep,
	"github.com/RoaringBitmap/roaring.ParAnd":          deep,
	"github.com/RoaringBitmap/roaring.ParOr":           deep,
	"github.com/RoaringBitmap/roaring.ParHeapOr":       deep,
	"github.com/RoaringBitmap/roaring.AddOffset":       deep,
	"(*github.com/RoaringBitmap/roaring.Bitmap).Clone": deep,
	"google.golang.org/protobuf/proto.Clone":           deep,
	"container/list.New":                               deep,
	"strings.ToLower":                                  deep,
	"strings.Map":                                      deep,
	"fmt.Sprintf":                                      deep,
	"fmt.Sprint":                                       deep,
	"fmt.Errorf":                                       deep,
	"errors.New":                                       deep,
	"bytes.NewReader":                                  shallow,
	"encoding/gob.NewDecoder":                          shallow,
	"encoding/gob.NewEncoder":                          shallow,
	"encoding/csv.NewReader":                           shallow,
	"log.New":                                          shallow,
	// an object taken from a pool belongs to the taker until it is put back (that nothing of it outlives the Put is
	// C04/C18.poolescape's obligation)
	"(*sync.Pool).Get": deep,
	// the slice is newly allocated (grown from nil); its elements are copies of what the sequence yields
	"slices.Collect":          shallow,
	"slices.Sorted":           shallow,
	"slices.SortedFunc":       shallow,
	"slices.SortedStableFunc": shallow,
}

// roaring.Bitmap methods that modify the receiver (Appendix A.1)
var roaringMutators = map[string]bool{}
var roaringReadOnly = map[string]bool{}

func init() {
	for _, m := range []string{"Add", "AddInt", "AddMany", "AddRange", "CheckedAdd", "Remove", "RemoveRange", "CheckedRemove", "Clear",
		"And", "Or", "Xor", "AndNot", "AndAny", "Flip", "FlipInt", "RunOptimize", "RemoveRunCompression", "SetCopyOnWrite", "CloneCopyOnWriteContainers",
		"FromBuffer", "FromUnsafeBytes", "FromBase64", "FromDense", "FrozenView", "MustFrozenView", "ReadFrom", "UnmarshalBinary", "DenseSize"} {
		if m != "DenseSize" {
			roaringMutators[m] = true
		}
	}
	for _, m := range []string{"GetCardinality", "IsEmpty", "Contains", "ContainsInt", "Clone", "ToBytes", "ToArray", "ToBase64", "ToDense", "ToBitSet",
		"GetSizeInBytes", "GetSerializedSizeInBytes", "GetFrozenSizeInBytes", "Iterator", "ReverseIterator", "ManyIterator", "Iterate", "String",
		"Equals", "Intersects", "IntersectsWithInterval", "Rank", "Select", "Minimum", "Maximum", "AndCardinality", "OrCardinality", "Stats",
		"WriteTo", "WriteDenseTo", "WriteFrozenTo", "MarshalBinary", "HasRunCompression", "GetCopyOnWrite", "Freeze", "Checksum", "DenseSize", "Validate"} {
		roaringReadOnly[m] = true
	}
}

const roaringPkg = "github.com/RoaringBitmap/roaring"

// external calls that write through their (first) argument
var mutatingExtern = map[string]int{ // name -> index of the mutated argument
	"sort.Slice": 0, "sort.SliceStable": 0, "sort.Strings": 0, "sort.Ints": 0, "sort.Float64s": 0, "sort.Sort": 0, "sort.Stable": 0,
	"slices.Sort": 0, "slices.SortFunc": 0, "slices.SortStableFunc": 0, "slices.Reverse": 0,
	"(*container/list.List).MoveToFront": 0, "(*container/list.List).MoveToBack": 0, "(*container/list.List).PushFront": 0,
	"(*container/list.List).PushBack": 0, "(*container/list.List).Remove": 0, "(*container/list.List).Init": 0,
	"(*container/list.List).InsertBefore": 0, "(*container/list.List).InsertAfter": 0, "(*container/list.List).MoveBefore": 0,
	"(*container/list.List).MoveAfter": 0, "(*container/list.List).PushBackList": 0, "(*container/list.List).PushFrontList": 0,
	"google.golang.org/protobuf/proto.Merge": 0, "google.golang.org/protobuf/proto.Reset": 0, "google.golang.org/protobuf/proto.Unmarshal": 1,
	"(*encoding/gob.Decoder).Decode": 1,
	// binary.ByteOrder.PutUintNN(b, v) writes into b (receiver is argument 0 of the method value)
	"(encoding/binary.bigEndian).PutUint16": 1, "(encoding/binary.bigEndian).PutUint32": 1, "(encoding/binary.bigEndian).PutUint64": 1,
	"(encoding/binary.littleEndian).PutUint16": 1, "(encoding/binary.littleEndian).PutUint32": 1, "(encoding/binary.littleEndian).PutUint64": 1,
	"encoding/binary.PutUvarint": 0, "encoding/binary.PutVarint": 0,
	"(*bytes.Buffer).Write": 0, "(*bytes.Buffer).WriteString": 0, "(*bytes.Buffer).WriteByte": 0, "(*bytes.Buffer).Reset": 0,
	"(*strings.Builder).WriteString": 0, "(*strings.Builder).WriteByte": 0, "(*strings.Builder).Reset": 0,
}

type Fresh struct {
	c    *Ctx
	memo map[ssa.Value]int
	busy map[ssa.Value]bool
	fnM  map[*ssa.Function][]int
	fnB  map[*ssa.Function]bool
	// storeM: memo of storeReachable (may a store to a field be reached from a function)
	storeM map[fnField]bool
	// privM/privB: memo and in-progress set of usesPrivate
	privM map[privKey]bool
	privB map[privKey]bool
	// objM/objB: memo and in-progress set of private
	objM  map[privKey]bool
	objB  map[privKey]bool
	owned map[*types.Var]int // fields whose content is private to the computation wherever it is stored (ownedField, rules_ag29.go)
}

func newFresh(c *Ctx) *Fresh {
	return &Fresh{c: c, memo: map[ssa.Value]int{}, busy: map[ssa.Value]bool{}, fnM: map[*ssa.Function][]int{}, fnB: map[*ssa.Function]bool{}}
}

func minInt(a, b int) int {
	if a < b {
		return a
	}
	return b
}

// level computes the freshness of the object a value denotes (for pointers/slices/maps/interfaces: the object referred to).
func (f *Fresh) level(v ssa.Value) int {
	if v == nil {
		return notFresh
	}
	if l, ok := f.memo[v]; ok {
		return l
	}
	if f.busy[v] {
		return deep // coinductive assumption on cycles (loop-carried append chains)
	}
	f.busy[v] = true
	l := f.level1(v)
	delete(f.busy, v)
	f.memo[v] = l
	return l
}

func (f *Fresh) level1(v ssa.Value) int {
	switch x := v.(type) {
	case *ssa.Const:
		return deep // nil, constants: nothing shared can be written through them
	case *ssa.Alloc:
		return shallow
	case *ssa.MakeSlice, *ssa.MakeMap, *ssa.MakeChan:
		return shallow
	case *ssa.ChangeType:
		return f.level(x.X)
	case *ssa.ChangeInterface:
		return f.level(x.X)
	case *ssa.MakeInterface:
		return f.level(x.X)
	case *ssa.TypeAssert:
		return f.level(x.X)
	case *ssa.Convert:
		// string <-> []byte conversions copy
		if _, ok := x.Type().Underlying().(*types.Slice); ok {
			return deep
		}
		if b, ok := x.Type().Underlying().(*types.Basic); ok && b.Info()&types.IsString != 0 {
			return deep
		}
		return f.level(x.X)
	case *ssa.Slice:
		return f.level(x.X)
	case *ssa.FieldAddr:
		return f.level(x.X) // address inside the object x.X points to
	case *ssa.IndexAddr:
		return f.level(x.X)
	case *ssa.Field, *ssa.Index:
		// a value selected out of a struct/array value: pointers inside are as fresh as a load from the aggregate
		var agg ssa.Value
		if fx, ok := x.(*ssa.Field); ok {
			agg = fx.X
		} else {
			agg = x.(*ssa.Index).X
		}
		if f.level(agg) == deep {
			return deep
		}
		if fx, ok := x.(*ssa.Field); ok {
			return f.ownedField(fieldOf(fx.X.Type(), fx.Field))
		}
		return notFresh
	case *ssa.Lookup:
		if f.level(x.X) == deep {
			return deep
		}
		return notFresh
	case *ssa.Phi:
		l := deep
		for _, e := range x.Edges {
			l = minInt(l, f.level(e))
		}
		return l
	case *ssa.Extract:
		switch t := x.Tuple.(type) {
		case *ssa.Call:
			return f.callResult(t, x.Index)
		case *ssa.TypeAssert:
			if x.Index == 0 {
				return f.level(t.X)
			}
			return deep
		case *ssa.Lookup:
			if x.Index == 0 {
				if f.level(t.X) == deep {
					return deep
				}
				return notFresh
			}
			return deep
		}
		return notFresh
	case *ssa.Call:
		return f.callResult(x, 0)
	case *ssa.UnOp:
		if x.Op == token.MUL {
			// load: from a local cell -> min over stored values; from inside a deep-fresh object -> deep
			cell := peelCell(x.X)
			if _, ok := cell.(*ssa.Alloc); ok {
				if vals, ok := cellValues(cell); ok {
					if len(vals) == 0 {
						return deep // zero value
					}
					l := deep
					for _, sv := range vals {
						l = minInt(l, f.level(sv))
					}
					return l
				}
				// struct-typed alloc or escaping cell: loading a pointer out of it
				if f.level(cell) == deep {
					return deep
				}
				return notFresh
			}
			// load of a field of a local struct variable: min over everything stored into that field
			if fa, ok := x.X.(*ssa.FieldAddr); ok {
				if vals, ok := fieldCellValues(fa.X, fa.Field); ok {
					l := deep
					for _, sv := range vals {
						l = minInt(l, f.level(sv))
					}
					return l
				}
				// load of a field of an object this computation owns (a fresh receiver or parameter), filled in by
				// this very function on every path to the load
				if l, ok := f.ownedFieldLoad(x, fa); ok {
					return l
				}
			}
			if f.level(x.X) == deep {
				return deep
			}
			// a field that only ever receives objects created for the computation that owns the struct
			if fa, ok := x.X.(*ssa.FieldAddr); ok {
				return f.ownedField(fieldOf(fa.X.Type(), fa.Field))
			}
			return notFresh
		}
		return deep // arithmetic results are values
	case *ssa.BinOp:
		return deep
	case *ssa.FreeVar:
		if b := freeVarBinding(x); b != nil {
			return f.level(b)
		}
		return notFresh
	case *ssa.Parameter:
		return f.paramLevel(x)
	case *ssa.Global:
		return notFresh
	case *ssa.MakeClosure, *ssa.Function, *ssa.Builtin:
		return deep
	}
	return notFresh
}

func (f *Fresh) callResult(call *ssa.Call, idx int) int {
	cc := &call.Call
	name := calleeName(cc)
	if b, ok := cc.Value.(*ssa.Builtin); ok {
		switch b.Name() {
		case "append":
			// result shares the first operand's array or is a new one
			l := f.level(cc.Args[0])
			if l == deep && len(cc.Args) > 1 {
				// appended elements may carry shared pointers: only as deep as what is appended
				l = minInt(l, maxInt(shallow, f.elemLevel(cc.Args[1])))
			}
			return l
		case "len", "cap", "copy", "min", "max":
			return deep
		case "new", "make":
			return shallow
		}
		return notFresh
	}
	if l, ok := freshReturning[name]; ok {
		return l
	}
	if fn := calleeFunc(cc); fn != nil && f.c.w.inModule(fn) && fn.Blocks != nil {
		res := f.funcResults(fn)
		if idx < len(res) {
			if res[idx] == notFresh && f.extendsFreshArg(call, fn, idx) {
				return shallow
			}
			return res[idx]
		}
	}
	// results of basic type carry no references
	sig := cc.Signature()
	if idx < sig.Results().Len() {
		if isValueType(sig.Results().At(idx).Type()) {
			return deep
		}
	}
	return notFresh
}

// extendsFreshArg: result idx of the module function fn is, at every return, an append chain (append(append(p, …), …),
// joined by phis: a loop) that starts from slice parameters of fn and from slices that are fresh in fn, and at this call
// every such parameter is bound to a fresh (or nil) slice — `AppendMapped(dst, src, f)` called with dst a literal, nil or
// the caller's own fresh list. Like the builtin append, the helper then returns its argument's array or a new one, so
// the result is (shallowly) as fresh as that argument: the summary of fn alone cannot say so (funcResults: a parameter of
// an exported or generic helper is not fresh), the binding of the parameter at this call can. A parameter whose address
// is taken lives in a cell and is not recognised (its loads are judged as before); what is appended is not looked at,
// hence never more than shallow. The defect stays visible: bound to a long-lived buffer (a field of the connection, a
// parameter of the caller), the argument is not fresh and neither is the result.
func (f *Fresh) extendsFreshArg(call *ssa.Call, fn *ssa.Function, idx int) bool {
	if _, isSlice := fn.Signature.Results().At(idx).Type().Underlying().(*types.Slice); !isSlice {
		return false
	}
	nParam, ok := 0, true
	allInstrs(fn, func(i ssa.Instruction) {
		ret, isRet := i.(*ssa.Return)
		if !isRet || !ok || isRecoverBlockReturn(ret) || idx >= len(ret.Results) {
			return
		}
		for _, root := range appendOrigins(retVals(ret)[idx]) {
			if p, isParam := root.(*ssa.Parameter); isParam {
				arg := argFor(call, fn, p)
				if arg == nil || f.level(arg) < shallow {
					ok = false
				}
				nParam++
				continue
			}
			if f.level(root) < shallow {
				ok = false
			}
		}
	})
	return ok && nParam > 0
}

func maxInt(a, b int) int {
	if a > b {
		return a
	}
	return b
}

// elemLevel: freshness of the elements being appended (variadic slice operand).
func (f *Fresh) elemLevel(v ssa.Value) int {
	// the variadic operand is a slice built by the compiler from the elements: new [n]T, stores, slice
	if sl, ok := v.(*ssa.Slice); ok {
		if al, ok := sl.X.(*ssa.Alloc); ok {
			l := deep
			for _, r := range referrers(al) {
				if ia, ok := r.(*ssa.IndexAddr); ok {
					for _, rr := range referrers(ia) {
						if st, ok := rr.(*ssa.Store); ok && st.Addr == ia {
							if isValueType(st.Val.Type()) {
								continue
							}
							l = minInt(l, f.level(st.Val))
						}
					}
				}
			}
			return l
		}
	}
	if isValueType(elemType(v.Type())) {
		return deep
	}
	return f.level(v)
}

func elemType(t types.Type) types.Type {
	switch x := t.Underlying().(type) {
	case *types.Slice:
		return x.Elem()
	case *types.Array:
		return x.Elem()
	case *types.Pointer:
		return x.Elem()
	}
	return t
}

// isValueType: values of this type contain no references to mutable shared memory (numbers, bools, strings,
// and structs/arrays of such).
func isValueType(t types.Type) bool {
	switch x := t.Underlying().(type) {
	case *types.Basic:
		return x.Kind() != types.UnsafePointer
	case *types.Struct:
		for i := 0; i < x.NumFields(); i++ {
			if !isValueType(x.Field(i).Type()) {
				return false
			}
		}
		return true
	case *types.Array:
		return isValueType(x.Elem())
	}
	return false
}

// funcResults summarises a module function: freshness of each result = min over its return statements.
func (f *Fresh) funcResults(fn *ssa.Function) []int {
	if r, ok := f.fnM[fn]; ok {
		return r
	}
	n := fn.Signature.Results().Len()
	res := make([]int, n)
	if f.fnB[fn] {
		for i := range res {
			res[i] = deep
		}
		return res
	}
	f.fnB[fn] = true
	for i := range res {
		res[i] = deep
	}
	allInstrs(fn, func(i ssa.Instruction) {
		if ret, ok := i.(*ssa.Return); ok {
			for k, rv := range retVals(ret) {
				if k < n {
					res[k] = minInt(res[k], f.level(rv))
				}
			}
		}
	})
	delete(f.fnB, fn)
	f.fnM[fn] = res
	return res
}

// callbackOrigin: repo-specific summary (DESIGN §3 FRESH): the module functions named here invoke their function
// argument on nodes reachable from their first argument, so the callback's first parameter is as fresh as that argument.
var callbackDrivers = map[string]bool{
	modPath + "/internal/queryparser.Walk": true,
}

// isCallbackDriver: the exported Walk (by name) or its unexported recursive worker (by shape: anchors.go walkInner).
func (f *Fresh) isCallbackDriver(cc *ssa.CallCommon) bool {
	if callbackDrivers[calleeName(cc)] {
		return true
	}
	g := calleeFunc(cc)
	return g != nil && f.c.a != nil && f.c.a.WalkInner != nil && g == f.c.a.WalkInner
}

func (f *Fresh) paramLevel(p *ssa.Parameter) int {
	fn := p.Parent()
	idx := -1
	for i, q := range fn.Params {
		if q == p {
			idx = i
		}
	}
	// closure passed to Walk: first parameter derives from Walk's first argument
	if fn.Parent() != nil && idx == 0 {
		l := -1
		allInstrs(fn.Parent(), func(i ssa.Instruction) {
			cc := callCommon(i)
			if cc == nil || !f.isCallbackDriver(cc) {
				return
			}
			for _, a := range cc.Args {
				if mc, ok := a.(*ssa.MakeClosure); ok && mc.Fn == fn {
					al := f.level(cc.Args[0])
					if al != deep {
						al = notFresh // nodes reached through loads: only a deep-fresh root makes them fresh
					}
					if l < 0 || al < l {
						l = al
					}
				}
			}
		})
		if l >= 0 {
			return l
		}
	}
	// unexported, non-address-taken module function: min over static call sites in the module
	if fn.Parent() == nil && fn.Object() != nil && !fn.Object().Exported() && f.c.w.inModule(fn) && !f.addressTaken(fn) {
		node := f.c.w.CG.Nodes[fn]
		if node != nil && len(node.In) > 0 {
			l := deep
			for _, e := range node.In {
				if e.Site == nil {
					return notFresh
				}
				cc := e.Site.Common()
				if calleeFunc(cc) != fn {
					return notFresh
				}
				args := cc.Args
				if idx >= len(args) {
					return notFresh
				}
				// the call sits in the synthetic wrapper of a method value `x.m`: the receiver is what was bound at the
				// places where the method value is formed (a closure `func(tx) error { return x.m(tx) }` in disguise)
				if w := boundWrapperOf(e.Site); w != nil {
					l = minInt(l, f.boundRecvLevel(w, idx))
					continue
				}
				l = minInt(l, f.level(args[idx]))
			}
			return l
		}
	}
	return notFresh
}

// boundWrapperOf: site is the forwarding call inside go/ssa's synthetic "$bound" wrapper of a method value x.m (a
// parentless synthetic function with one free variable, the bound receiver, which it passes as the receiver of the
// method). Returns the wrapper, or nil if site lies in ordinary code.
func boundWrapperOf(site ssa.CallInstruction) *ssa.Function {
	w := site.Parent()
	if w == nil || w.Synthetic == "" || w.Parent() != nil || len(w.FreeVars) != 1 {
		return nil
	}
	cc := site.Common()
	if cc.IsInvoke() || len(cc.Args) == 0 || cc.Args[0] != ssa.Value(w.FreeVars[0]) {
		return nil
	}
	return w
}

// boundRecvLevel: freshness of parameter idx of a method as seen from its method-value wrapper w. Only the receiver
// (idx 0) is known: it is the meet of the values bound wherever module code forms the method value, provided every such
// method value is used on the spot — handed directly to a synchronous callback receiver (lock.go syncCallbackReceivers:
// db.View(x.m) runs x.m before it returns) or called. A method value that is stored, returned, deferred or started as a
// goroutine may run when the bound object has long been published: not fresh. The remaining parameters are supplied by
// whoever invokes the function value (the library): not fresh.
func (f *Fresh) boundRecvLevel(w *ssa.Function, idx int) int {
	if idx != 0 {
		return notFresh
	}
	l, n := deep, 0
	for _, g := range f.c.w.ModFuncs {
		allInstrs(g, func(i ssa.Instruction) {
			mc, ok := i.(*ssa.MakeClosure)
			if !ok || mc.Fn != ssa.Value(w) || len(mc.Bindings) != 1 {
				return
			}
			n++
			for _, r := range referrers(mc) {
				switch u := r.(type) {
				case *ssa.DebugRef:
				case *ssa.Call:
					if u.Call.Value == ssa.Value(mc) {
						continue // called on the spot
					}
					if !syncCallbackReceivers[calleeName(&u.Call)] {
						l = notFresh
					}
				default:
					l = notFresh
				}
			}
			l = minInt(l, f.level(mc.Bindings[0]))
		})
	}
	if n == 0 {
		return notFresh
	}
	return l
}

func (f *Fresh) addressTaken(fn *ssa.Function) bool {
	taken := false
	for _, g := range f.c.w.ModFuncs {
		allInstrs(g, func(i ssa.Instruction) {
			for k, op := range i.Operands(nil) {
				if op == nil || *op != fn {
					continue
				}
				if cc := callCommon(i); cc != nil && k == 0 && cc.Value == fn {
					continue // called directly
				}
				taken = true
			}
		})
	}
	return taken
}

// ---------- write census ----------

type writeEv struct {
	Fn     *ssa.Function
	Ins    ssa.Instruction
	Kind   string // store | mapupdate | delete | copy | call:<name> | append-reslice
	Target accPath
	Fresh  bool // the written location lies in an object created for this computation
	What   string
}

// fieldsWritten lists the struct fields on the path to the written location (innermost last).
func (e writeEv) fields() []*types.Var {
	var out []*types.Var
	for _, s := range e.Target.Steps {
		if s.Field != nil {
			out = append(out, s.Field)
		}
	}
	return out
}

// freshBased: a write through address/ref `a` stays inside memory created for this computation.
func (f *Fresh) freshBased(p accPath) bool {
	root := p.Root
	if root == nil {
		return false
	}
	l := f.level(root)
	if l == deep {
		return true
	}
	if l == shallow {
		for _, s := range p.Steps {
			if s.Deref {
				return false
			}
		}
		return true
	}
	return false
}

// isLocalVarStore: a store that only assigns a local variable (captured or address-taken scalar cell).
func isLocalVarStore(p accPath, addr ssa.Value) bool {
	if len(p.Steps) != 0 {
		return false
	}
	_, ok := peelCell(addr).(*ssa.Alloc)
	return ok
}

func (f *Fresh) writes(fn *ssa.Function) []writeEv {
	var out []writeEv
	add := func(ins ssa.Instruction, kind string, ref ssa.Value, what string) {
		p := path(ref)
		out = append(out, writeEv{Fn: fn, Ins: ins, Kind: kind, Target: p, Fresh: f.level(ref) >= shallow, What: what})
	}
	allInstrs(fn, func(i ssa.Instruction) {
		switch x := i.(type) {
		case *ssa.Store:
			p := path(x.Addr)
			if isLocalVarStore(p, x.Addr) {
				return
			}
			out = append(out, writeEv{Fn: fn, Ins: i, Kind: "store", Target: p, Fresh: f.level(x.Addr) >= shallow})
		case *ssa.MapUpdate:
			p := path(x.Map)
			p.Steps = append(p.Steps, step{Deref: true}, step{Elem: true})
			out = append(out, writeEv{Fn: fn, Ins: i, Kind: "mapupdate", Target: p, Fresh: f.level(x.Map) >= shallow && f.freshBasedRef(x.Map)})
		default:
			cc := callCommon(i)
			if cc == nil {
				return
			}
			name := calleeName(cc)
			if b, ok := cc.Value.(*ssa.Builtin); ok {
				switch b.Name() {
				case "delete", "clear":
					p := path(cc.Args[0])
					p.Steps = append(p.Steps, step{Deref: true}, step{Elem: true})
					out = append(out, writeEv{Fn: fn, Ins: i, Kind: b.Name(), Target: p, Fresh: f.freshBasedRef(cc.Args[0])})
				case "copy":
					p := path(cc.Args[0])
					p.Steps = append(p.Steps, step{Deref: true}, step{Elem: true})
					out = append(out, writeEv{Fn: fn, Ins: i, Kind: "copy", Target: p, Fresh: f.freshBasedRef(cc.Args[0])})
				case "append":
					// append(x[:n], …) — directly or through a loop-carried variable initialised with x[:n] — writes
					// into x's backing array below x's length. (x[:n:n] forces a copy and is fine.)
					if len(cc.Args) > 1 {
						for _, o := range appendOrigins(cc.Args[0]) {
							if sl, ok := o.(*ssa.Slice); ok && sl.High != nil && sl.Max == nil {
								p := path(sl.X)
								p.Steps = append(p.Steps, step{Deref: true}, step{Elem: true})
								out = append(out, writeEv{Fn: fn, Ins: i, Kind: "append-reslice", Target: p, Fresh: f.freshBasedRef(sl.X)})
							} else if ok && sl.Low != nil && sl.Max == nil {
								// append(x[a:], …): the tail still ends where x ends, so the append writes into x's spare
								// capacity — memory behind the end of somebody else's slice (an operand list carved out of a
								// larger array sees its neighbour overwritten)
								for _, root := range sliceRoots(sl.X) {
									p := path(root)
									p.Steps = append(p.Steps, step{Deref: true}, step{Elem: true})
									out = append(out, writeEv{Fn: fn, Ins: i, Kind: "append-reslice", Target: p, Fresh: f.freshBasedRef(root)})
								}
							}
						}
					}
				}
				return
			}
			if k, ok := mutatingExtern[name]; ok {
				args := cc.Args
				if k < len(args) {
					add(i, "call:"+shortName(name), derefTarget(args[k]), shortName(name))
					out[len(out)-1].Fresh = f.freshBasedRef(args[k])
				}
				return
			}
			// roaring.Bitmap methods
			if fnc := calleeFunc(cc); fnc != nil && fnc.Signature.Recv() != nil && typeIs(fnc.Signature.Recv().Type(), roaringPkg, "Bitmap") && len(cc.Args) > 0 {
				m := fnc.Name()
				switch {
				case roaringMutators[m]:
					add(i, "call:roaring.Bitmap."+m, cc.Args[0], "mutating")
					out[len(out)-1].Fresh = f.freshBasedRef(cc.Args[0])
				case roaringReadOnly[m]:
				default:
					add(i, "call:roaring.Bitmap."+m, cc.Args[0], "unclassified")
					out[len(out)-1].Fresh = false
				}
			}
		}
	})
	return out
}

// derefTarget: the thing written is what `ref` refers to.
func derefTarget(ref ssa.Value) ssa.Value { return ref }

// freshBasedRef: writing through reference value ref (map, slice, pointer) stays in fresh memory.
func (f *Fresh) freshBasedRef(ref ssa.Value) bool {
	return f.level(ref) >= shallow
}

// fieldCellValues: all values stored into field idx of a local struct variable (an Alloc, possibly captured by
// closures), or false if the variable's address escapes to code we do not follow.
func fieldCellValues(base ssa.Value, idx int) ([]ssa.Value, bool) {
	root := peelCell(base)
	al, ok := root.(*ssa.Alloc)
	if !ok {
		return nil, false
	}
	if _, isStruct := al.Type().Underlying().(*types.Pointer).Elem().Underlying().(*types.Struct); !isStruct {
		return nil, false
	}
	var vals []ssa.Value
	okAll := true
	seen := map[ssa.Value]bool{}
	var visit func(v ssa.Value)
	visit = func(v ssa.Value) {
		if seen[v] {
			return
		}
		seen[v] = true
		for _, r := range referrers(v) {
			switch x := r.(type) {
			case *ssa.FieldAddr:
				if x.Field != idx {
					continue
				}
				for _, rr := range referrers(x) {
					switch y := rr.(type) {
					case *ssa.Store:
						if y.Addr == ssa.Value(x) {
							vals = append(vals, y.Val)
						} else {
							okAll = false
						}
					case *ssa.UnOp, *ssa.DebugRef:
					default:
						okAll = false // address of the field passed on
					}
				}
			case *ssa.Store:
				if x.Addr == v {
					// whole-struct assignment: the stored struct's field
					vals = append(vals, x.Val)
					if _, isConst := x.Val.(*ssa.Const); !isConst {
						okAll = false
					}
				} else {
					okAll = false
				}
			case *ssa.UnOp, *ssa.DebugRef:
			case *ssa.Return:
				// handing the object to the caller ends this function: loads inside it saw only the stores above
			case *ssa.MakeClosure:
				fn, _ := x.Fn.(*ssa.Function)
				for bi, b := range x.Bindings {
					if b == v && fn != nil && bi < len(fn.FreeVars) {
						visit(fn.FreeVars[bi])
					}
				}
			default:
				okAll = false
			}
		}
	}
	visit(al)
	if !okAll {
		return nil, false
	}
	return vals, true
}

// appendOrigins: the values an append base may stem from, looking through phis and earlier appends.
// sliceRoots: the slice values a (loop-carried) slice variable was derived from by re-slicing and appending: what the
// worklist `for p := xs; len(p) > 0; { p = p[1:]; p = append(p, more...) }` started from.
func sliceRoots(v ssa.Value) []ssa.Value {
	var out []ssa.Value
	seen := map[ssa.Value]bool{}
	var visit func(v ssa.Value)
	visit = func(v ssa.Value) {
		if seen[v] {
			return
		}
		seen[v] = true
		switch x := v.(type) {
		case *ssa.Phi:
			for _, e := range x.Edges {
				visit(e)
			}
		case *ssa.Slice:
			visit(x.X)
		case *ssa.Call:
			if b, ok := x.Call.Value.(*ssa.Builtin); ok && b.Name() == "append" {
				visit(x.Call.Args[0])
				return
			}
			out = append(out, v)
		default:
			out = append(out, v)
		}
	}
	visit(v)
	return out
}

func appendOrigins(v ssa.Value) []ssa.Value {
	var out []ssa.Value
	seen := map[ssa.Value]bool{}
	var visit func(v ssa.Value)
	visit = func(v ssa.Value) {
		if seen[v] {
			return
		}
		seen[v] = true
		switch x := v.(type) {
		case *ssa.Phi:
			for _, e := range x.Edges {
				visit(e)
			}
		case *ssa.Call:
			if b, ok := x.Call.Value.(*ssa.Builtin); ok && b.Name() == "append" {
				visit(x.Call.Args[0])
				return
			}
			out = append(out, v)
		default:
			out = append(out, v)
		}
	}
	visit(v)
	return out
}

// ---------- fields of an owned object, filled in by the loading function itself ----------

// ownedFieldLoad decides a load `*(&b.F)` where b is not a local struct variable but refers to an object this
// computation owns (level shallow; typically the receiver of an unexported method all of whose callers pass a struct
// they have just created — a closure's captured variables turned into the fields of a small struct). What such a field
// holds at function entry was put there by somebody else and is not known here, so the load is decided only if on every
// path from the entry to the load the last thing that can have changed b.F is a store of a fresh value to b.F by this
// function (`r.bm = roaring.New(); r.bm.FromBuffer(item)`). Between that store and the load there must be nothing that
// may write the field: no store of a non-fresh value to field F of any object (it might be b), no assignment of a whole
// struct containing F, no call into module code that (transitively) contains a store to F, no call that hands b to a
// library, no goroutine or deferred call that may do so; and the field's address is not passed on in this function.
// "Owns" means more than created here: the object must still be private (see private) — reachable only through this
// computation's own locals, parameters and on-the-spot callbacks — so that no other goroutine writes the field in between.
// The same method storing a long-lived object's bitmap into the field, mutating a bitmap it loads from a field it did not
// fill (`r.g.cache[k]`), or running on a receiver that is itself kept in a long-lived object, is not covered by this
// and stays not fresh.
func (f *Fresh) ownedFieldLoad(ld *ssa.UnOp, fa *ssa.FieldAddr) (int, bool) {
	fld := fieldOf(fa.X.Type(), fa.Field)
	fn := ld.Parent()
	if fld == nil || fn == nil || f.level(fa.X) != shallow {
		return notFresh, false // not owned; or deep, where every load is fresh anyway (level1)
	}
	base := peel(fa.X)
	// "created here" is not enough: an object that was handed to a map, a library or another goroutine before its
	// fields are filled in (`gb := &groupBy{}; m.LoadOrStore(k, gb); gb.Values = …; sort.Slice(gb.Values, …)`) is
	// written while others already read it
	if !f.private(base) {
		return notFresh, false
	}
	ok := true
	allInstrs(fn, func(i ssa.Instruction) {
		switch x := i.(type) {
		case *ssa.FieldAddr:
			if fieldOf(x.X.Type(), x.Field) == fld && fieldAddrPassedOn(x) {
				ok = false
			}
		case *ssa.Go:
			if f.mayStoreField(x, fld, base) {
				ok = false
			}
		}
	})
	if !ok {
		return notFresh, false
	}
	res := deep
	seen := map[*ssa.BasicBlock]bool{}
	var back func(b *ssa.BasicBlock, from int) bool
	back = func(b *ssa.BasicBlock, from int) bool {
		for k := from - 1; k >= 0; k-- {
			switch x := b.Instrs[k].(type) {
			case *ssa.Store:
				if a, isFA := x.Addr.(*ssa.FieldAddr); isFA && fieldOf(a.X.Type(), a.Field) == fld {
					lv := f.level(x.Val)
					if lv < shallow {
						return false
					}
					res = minInt(res, lv)
					if peel(a.X) == base {
						return true // this store decides what the load sees on this path
					}
					continue // field F of an object that may or may not be b: either way the field holds a fresh value
				}
				if typeContainsField(x.Val.Type(), fld, 0) {
					return false
				}
			case *ssa.Call:
				if f.mayStoreField(x, fld, base) {
					return false
				}
			case *ssa.RunDefers:
				bad := false
				allInstrs(fn, func(i ssa.Instruction) {
					if d, isDefer := i.(*ssa.Defer); isDefer && f.mayStoreField(d, fld, base) {
						bad = true
					}
				})
				if bad {
					return false
				}
			}
		}
		if len(b.Preds) == 0 {
			return false // reached the entry: the field still holds what the caller left there
		}
		for _, p := range b.Preds {
			if seen[p] {
				continue
			}
			seen[p] = true
			if !back(p, len(p.Instrs)) {
				return false
			}
		}
		return true
	}
	if !back(ld.Block(), pointOf(ld).i) {
		return notFresh, false
	}
	return res, true
}

// fieldAddrPassedOn: the field's address is used for something other than loading from it or storing to it.
func fieldAddrPassedOn(fa *ssa.FieldAddr) bool {
	for _, r := range referrers(fa) {
		switch x := r.(type) {
		case *ssa.UnOp, *ssa.DebugRef:
		case *ssa.Store:
			if x.Addr != ssa.Value(fa) {
				return true
			}
		default:
			return true
		}
	}
	return false
}

// typeContainsField: a value of type t contains field fld directly (struct, nested struct or array of structs by value).
func typeContainsField(t types.Type, fld *types.Var, depth int) bool {
	if depth > 8 {
		return true
	}
	switch x := t.Underlying().(type) {
	case *types.Struct:
		for i := 0; i < x.NumFields(); i++ {
			if x.Field(i) == fld || typeContainsField(x.Field(i).Type(), fld, depth+1) {
				return true
			}
		}
	case *types.Array:
		return typeContainsField(x.Elem(), fld, depth+1)
	}
	return false
}

// mayStoreField: the call (also deferred or started as a goroutine) may assign field fld of the object base points to.
// Module callees — the static callee or the call graph's targets, plus every function value among the arguments — do so
// if a store to fld (of any object) is reachable from them; a library callee only if it is handed (something inside)
// the object. A function value whose code is not known may do anything.
func (f *Fresh) mayStoreField(site ssa.CallInstruction, fld *types.Var, base ssa.Value) bool {
	cc := site.Common()
	if _, isBuiltin := cc.Value.(*ssa.Builtin); isBuiltin {
		return false
	}
	var targets []*ssa.Function
	if g := calleeFunc(cc); g != nil {
		targets = append(targets, g)
	} else {
		if n := f.c.w.CG.Nodes[site.Parent()]; n != nil {
			for _, e := range n.Out {
				if e.Site == site {
					targets = append(targets, e.Callee.Func)
				}
			}
		}
		if len(targets) == 0 {
			return true
		}
	}
	for _, a := range cc.Args {
		if _, isFunc := a.Type().Underlying().(*types.Signature); !isFunc {
			continue
		}
		switch g := a.(type) {
		case *ssa.Function:
			targets = append(targets, g)
		case *ssa.MakeClosure:
			targets = append(targets, g.Fn.(*ssa.Function))
		default:
			return true
		}
	}
	for _, g := range targets {
		if f.c.w.inModule(g) && g.Blocks != nil {
			if f.storeReachable(g, fld) {
				return true
			}
			continue
		}
		for _, a := range callArgs(cc) {
			if peel(path(a).Root) == base {
				return true
			}
		}
	}
	return false
}

type fnField struct {
	fn  *ssa.Function
	fld *types.Var
}

// storeReachable: some module function reachable from g (g included) stores to field fld of some object, assigns a whole
// struct containing it, or passes the field's address on.
func (f *Fresh) storeReachable(g *ssa.Function, fld *types.Var) bool {
	k := fnField{g, fld}
	if r, ok := f.storeM[k]; ok {
		return r
	}
	if f.storeM == nil {
		f.storeM = map[fnField]bool{}
	}
	res := false
	for h := range f.c.w.reach(g).Funcs {
		allInstrs(h, func(i ssa.Instruction) {
			switch x := i.(type) {
			case *ssa.FieldAddr:
				if fieldOf(x.X.Type(), x.Field) != fld {
					return
				}
				for _, r := range referrers(x) {
					switch r.(type) {
					case *ssa.UnOp, *ssa.DebugRef:
					default:
						res = true
					}
				}
			case *ssa.Store:
				if typeContainsField(x.Val.Type(), fld, 0) {
					res = true
				}
			}
		})
		if res {
			break
		}
	}
	f.storeM[k] = res
	return res
}

// ---------- privacy: an object nobody else can reach yet ----------

type privKey struct {
	v     ssa.Value
	retOK bool
}

// private: the object v points to is reachable only from the computation that created it, in every function that gets
// to see it: it is a local allocation (or the result of a module constructor returning one) whose pointer is only used
// to access its fields, passed to module functions that do the same with their parameter, captured by function values
// that are run on the spot (called, deferred, or handed to a synchronous callback receiver), and returned by its
// creator; or a parameter of an unexported, non-address-taken function that is used like that and receives such an
// object at every call site (for the receiver of a method value: at every place the method value is formed).
// Storing the pointer anywhere, converting it to an interface, passing it to a library or a goroutine publishes it.
// Flow-insensitive: an object that is published at all — even after the access in question — is not private.
func (f *Fresh) private(v ssa.Value) bool {
	v = peel(v)
	k := privKey{v, true}
	if r, ok := f.objM[k]; ok {
		return r
	}
	if f.objM == nil {
		f.objM, f.objB = map[privKey]bool{}, map[privKey]bool{}
	}
	if f.objB[k] {
		return true // recursive functions: "never published" is decided by the outer visit
	}
	f.objB[k] = true
	res := f.private1(v)
	delete(f.objB, k)
	f.objM[k] = res
	return res
}

func (f *Fresh) private1(v ssa.Value) bool {
	switch x := v.(type) {
	case *ssa.Alloc:
		return f.usesPrivate(x, true)
	case *ssa.Call:
		_, callee, vals, ok := resultOrigins(f.c.w, x)
		if !ok || callee == x.Parent() {
			return false
		}
		for _, rv := range vals {
			if !f.private(rv) {
				return false
			}
		}
		return f.usesPrivate(x, true)
	case *ssa.Parameter:
		fn := x.Parent()
		idx := -1
		for i, q := range fn.Params {
			if q == x {
				idx = i
			}
		}
		if idx < 0 || fn.Parent() != nil || fn.Object() == nil || fn.Object().Exported() || !f.c.w.inModule(fn) || f.addressTaken(fn) {
			return false
		}
		node := f.c.w.CG.Nodes[fn]
		if node == nil || len(node.In) == 0 || !f.usesPrivate(x, false) {
			return false
		}
		for _, e := range node.In {
			if e.Site == nil || calleeFunc(e.Site.Common()) != fn || idx >= len(e.Site.Common().Args) {
				return false
			}
			if _, isCall := e.Site.(*ssa.Call); !isCall {
				return false
			}
			w := boundWrapperOf(e.Site)
			if w == nil {
				if !f.private(e.Site.Common().Args[idx]) {
					return false
				}
				continue
			}
			// receiver of a method value: the objects bound where it is formed (run on the spot: boundRecvLevel, usesPrivate)
			if idx != 0 {
				return false
			}
			n, ok := 0, true
			for _, g := range f.c.w.ModFuncs {
				allInstrs(g, func(i ssa.Instruction) {
					if mc, isMC := i.(*ssa.MakeClosure); isMC && mc.Fn == ssa.Value(w) && len(mc.Bindings) == 1 {
						n++
						if !f.private(mc.Bindings[0]) {
							ok = false
						}
					}
				})
			}
			if n == 0 || !ok {
				return false
			}
		}
		return true
	}
	return false
}

// usesPrivate: no use of pointer p (in its function and, through calls and on-the-spot function values, in the module
// functions it is passed to) makes the object reachable from anywhere else. retOK: returning p is fine (p's creator
// hands its object to the caller when it is done with it); a callee returning its parameter is not followed.
func (f *Fresh) usesPrivate(p ssa.Value, retOK bool) bool {
	k := privKey{p, retOK}
	if r, ok := f.privM[k]; ok {
		return r
	}
	if f.privM == nil {
		f.privM, f.privB = map[privKey]bool{}, map[privKey]bool{}
	}
	if f.privB[k] {
		return true // recursion: decided by the outer visit
	}
	f.privB[k] = true
	res := f.usesPrivate1(p, retOK)
	delete(f.privB, k)
	f.privM[k] = res
	return res
}

func (f *Fresh) usesPrivate1(p ssa.Value, retOK bool) bool {
	for _, r := range referrers(p) {
		switch x := r.(type) {
		case *ssa.DebugRef, *ssa.BinOp, *ssa.UnOp:
			// comparison with nil; copy of the struct's value
		case *ssa.FieldAddr, *ssa.IndexAddr:
			if !interiorPrivate(x.(ssa.Value), 0) {
				return false
			}
		case *ssa.Store:
			if x.Val == p {
				return false // the pointer is stored somewhere
			}
		case *ssa.Return:
			if !retOK {
				return false
			}
		case *ssa.MakeClosure:
			g, _ := x.Fn.(*ssa.Function)
			if g == nil || !runOnTheSpot(x) {
				return false
			}
			for bi, b := range x.Bindings {
				if b == p && (bi >= len(g.FreeVars) || !f.usesPrivate(g.FreeVars[bi], false)) {
					return false
				}
			}
		case *ssa.Call:
			cc := &x.Call
			if _, isBuiltin := cc.Value.(*ssa.Builtin); isBuiltin {
				continue // len, cap, …: nothing is kept
			}
			g := calleeFunc(cc)
			if g == nil || cc.Value == p || !f.c.w.inModule(g) || g.Blocks == nil {
				return false
			}
			for ai, a := range cc.Args {
				if a == p && (ai >= len(g.Params) || !f.usesPrivate(g.Params[ai], false)) {
					return false
				}
			}
		default:
			return false // interface conversion, phi, send, map update, go, defer, …
		}
	}
	return true
}

// interiorPrivate: an address inside the object (field, element, nested) is only loaded from and stored to.
func interiorPrivate(q ssa.Value, depth int) bool {
	if depth > 6 {
		return false
	}
	for _, r := range referrers(q) {
		switch x := r.(type) {
		case *ssa.DebugRef, *ssa.UnOp:
		case *ssa.Store:
			if x.Addr != q {
				return false
			}
		case *ssa.FieldAddr, *ssa.IndexAddr:
			if !interiorPrivate(x.(ssa.Value), depth+1) {
				return false
			}
		default:
			return false
		}
	}
	return true
}

// runOnTheSpot: the function value is only called, deferred, or handed directly to a synchronous callback receiver
// (lock.go syncCallbackReceivers): it does not outlive the call that forms it and runs on the forming goroutine.
func runOnTheSpot(mc *ssa.MakeClosure) bool {
	for _, r := range referrers(mc) {
		switch x := r.(type) {
		case *ssa.DebugRef:
		case *ssa.Call:
			if x.Call.Value != ssa.Value(mc) && !syncCallbackReceivers[calleeName(&x.Call)] {
				return false
			}
		case *ssa.Defer:
			if x.Call.Value != ssa.Value(mc) {
				return false
			}
		default:
			return false
		}
	}
	return true
}
