package main

import (
	"fmt"
	"go/token"
	"go/types"
	"sort"
	"strings"

	"golang.org/x/tools/go/ssa"
)

// The tree model of the formatter (C10.exhaustive / C10.parens, formatter side) for formatters that are NOT organised as
// one function per operator: a single recursive writeExpr(b, expr, parent), a classifier (kindOf/operator) followed by a
// switch over an internal kind, ONE requiresParens(parent, operand), operator texts kept in a table, … In such a formatter
// "the formatter of And" does not exist, and the parenthesis decision is a function of (parent kind, operand kind,
// whatever else the code looks at) that travels through parameters of the recursion. Instead of recognising each such
// arrangement, the formatter is symbolically executed — from QueryToString, never natively — on every query tree of a
// small family (fmModelTrees: trees of depth <= 4 whose AND/OR nodes have 1 or 2 operands, 3 or 4 operands at the root): the oneof
// tests, getters, field loads, operand slices and loop counters are concrete for a given model tree, package-level constant
// tables are read from the package initialiser, leaf payloads (column, value, placeholder) are opaque, and the only
// branches taken both ways are those on leaf payloads. The text written is kept as the sequence of its structural
// characters ( ) ^ & | and one atom per comparison. It is then parsed by the operand grammar that the parser side of
// C10.parens re-checks on the parser on every run (operands of '&', '|', '^' are simple expressions: a comparison, '^'
// simple, or a parenthesised group; a chain uses one operator) and compared with the model tree modulo the equivalences
// of the property (flattening of directly nested nodes of one operator, unwrapping of single-operand AND/OR).
// A construct the interpreter does not model makes the rule undecided (never silent).

type fmNode struct {
	kind string // "Equal", "Not", "And", "Or"
	kids []*fmNode
	id   int // leaves: position in left-to-right order, from 1
}

func (n *fmNode) String() string {
	switch n.kind {
	case "Equal":
		return fmt.Sprintf("a%d", n.id)
	case "Not":
		return "Not(" + n.kids[0].String() + ")"
	}
	var parts []string
	for _, k := range n.kids {
		parts = append(parts, k.String())
	}
	return n.kind + "[" + strings.Join(parts, ", ") + "]"
}

// shape: the tree without leaf numbers (identifies a subtree as a member of the family).
func (n *fmNode) shape() string {
	switch n.kind {
	case "Equal":
		return "a"
	case "Not":
		return "N(" + n.kids[0].shape() + ")"
	}
	var parts []string
	for _, k := range n.kids {
		parts = append(parts, k.shape())
	}
	return n.kind[:1] + "[" + strings.Join(parts, ",") + "]"
}

func (n *fmNode) depth() int {
	d := 0
	for _, k := range n.kids {
		if kd := k.depth(); kd > d {
			d = kd
		}
	}
	return d + 1
}

func (n *fmNode) size() int {
	s := 1
	for _, k := range n.kids {
		s += k.size()
	}
	return s
}

func (n *fmNode) clone() *fmNode {
	c := &fmNode{kind: n.kind}
	for _, k := range n.kids {
		c.kids = append(c.kids, k.clone())
	}
	return c
}

func (n *fmNode) number(next *int) {
	if n.kind == "Equal" {
		*next++
		n.id = *next
	}
	for _, k := range n.kids {
		k.number(next)
	}
}

// fmNormal: the meaning of a tree as the property defines it: directly nested nodes of one operator flattened,
// single-operand AND/OR replaced by the operand.
func fmNormal(n *fmNode) *fmNode {
	switch n.kind {
	case "Equal":
		return n
	case "Not":
		return &fmNode{kind: "Not", kids: []*fmNode{fmNormal(n.kids[0])}}
	}
	out := &fmNode{kind: n.kind}
	for _, k := range n.kids {
		nk := fmNormal(k)
		if nk.kind == n.kind {
			out.kids = append(out.kids, nk.kids...)
		} else {
			out.kids = append(out.kids, nk)
		}
	}
	if len(out.kids) == 1 {
		return out.kids[0]
	}
	return out
}

// fmModelTrees: all trees of depth <= 3 with AND/OR of 1 or 2 operands; the trees of depth 4 in which one of two operands
// of the root has depth <= 2 (what decides about parentheses is the chain grandparent - parent - operand, not how deep the
// sibling is); plus AND/OR of 3 operands of depth <= 2 each, and of 4 operands that are comparisons or two-operand chains,
// at the root (a decision taken from the operand's index shows there). Ordered by depth, then size; every subtree of a
// member is a member. What the model cannot see: a decision that depends on an operand index >= 4, on more than three
// levels of nesting above a comparison, or on a comparison's payload in a way the two-way exploration of such branches
// does not cover.
func fmModelTrees() []*fmNode {
	leaf := &fmNode{kind: "Equal"}
	upTo := []*fmNode{leaf} // all trees of depth <= d
	var depth2 []*fmNode
	for d := 2; d <= 4; d++ {
		next := []*fmNode{leaf}
		for _, s := range upTo {
			next = append(next, &fmNode{kind: "Not", kids: []*fmNode{s}})
		}
		for _, op := range []string{"And", "Or"} {
			for _, s := range upTo {
				next = append(next, &fmNode{kind: op, kids: []*fmNode{s}})
				for _, t := range upTo {
					if d == 4 && s.depth() > 2 && t.depth() > 2 {
						continue
					}
					next = append(next, &fmNode{kind: op, kids: []*fmNode{s, t}})
				}
			}
		}
		upTo = next
		if d == 2 {
			depth2 = next
		}
	}
	for _, op := range []string{"And", "Or"} {
		for _, s := range depth2 {
			for _, t := range depth2 {
				for _, u := range depth2 {
					upTo = append(upTo, &fmNode{kind: op, kids: []*fmNode{s, t, u}})
				}
			}
		}
	}
	// four operands at the root, each a comparison or a two-operand chain
	small := []*fmNode{leaf, {kind: "And", kids: []*fmNode{leaf, leaf}}, {kind: "Or", kids: []*fmNode{leaf, leaf}}}
	for _, op := range []string{"And", "Or"} {
		for _, s := range small {
			for _, t := range small {
				for _, u := range small {
					for _, v := range small {
						upTo = append(upTo, &fmNode{kind: op, kids: []*fmNode{s, t, u, v}})
					}
				}
			}
		}
	}
	out := make([]*fmNode, 0, len(upTo))
	for _, s := range upTo {
		t := s.clone()
		n := 0
		t.number(&n)
		out = append(out, t)
	}
	sort.SliceStable(out, func(i, j int) bool {
		if di, dj := out[i].depth(), out[j].depth(); di != dj {
			return di < dj
		}
		return out[i].size() < out[j].size()
	})
	return out
}

// fmParse parses a token sequence by the operand grammar; the error names the offending token.
func fmParse(toks []string) (*fmNode, string) {
	pos := 0
	peek := func() string {
		if pos < len(toks) {
			return toks[pos]
		}
		return "<end>"
	}
	var parseExpr, parseSimple func() (*fmNode, string)
	parseSimple = func() (*fmNode, string) {
		t := peek()
		switch {
		case strings.HasPrefix(t, "a"):
			pos++
			id := 0
			fmt.Sscanf(t[1:], "%d", &id)
			return &fmNode{kind: "Equal", id: id}, ""
		case t == "^":
			pos++
			x, err := parseSimple()
			if err != "" {
				return nil, err
			}
			return &fmNode{kind: "Not", kids: []*fmNode{x}}, ""
		case t == "(":
			pos++
			x, err := parseExpr()
			if err != "" {
				return nil, err
			}
			if peek() != ")" {
				return nil, fmt.Sprintf("unexpected %q where ')' is required", peek())
			}
			pos++
			return x, ""
		}
		return nil, fmt.Sprintf("unexpected %q where an operand is required", t)
	}
	parseExpr = func() (*fmNode, string) {
		first, err := parseSimple()
		if err != "" {
			return nil, err
		}
		op := peek()
		if op != "&" && op != "|" {
			return first, ""
		}
		kind := map[string]string{"&": "And", "|": "Or"}[op]
		n := &fmNode{kind: kind, kids: []*fmNode{first}}
		for peek() == op {
			pos++
			x, err := parseSimple()
			if err != "" {
				return nil, err
			}
			n.kids = append(n.kids, x)
		}
		return n, ""
	}
	x, err := parseExpr()
	if err != "" {
		return nil, err
	}
	if pos != len(toks) {
		return nil, fmt.Sprintf("unexpected %q after the end of the expression", peek())
	}
	return x, ""
}

// ---- values of the interpreter

type fmVal interface{}

type (
	fmNodeV   struct{ n *fmNode }    // *Query_Expression (n == nil: nil pointer)
	fmIfaceV  struct{ n *fmNode }    // the oneof value of n
	fmWrapV   struct{ n *fmNode }    // *Query_Expression_<K>_ of n
	fmMemberV struct{ n *fmNode }    // *Query_Expression_<K> of n
	fmQueryV  struct{ root *fmNode } // *Query
	fmNilV    struct{}
	fmIntV    int64
	fmBoolV   bool
	fmUnkV    struct{ leaf *fmNode } // not known; leaf: derived from that comparison's payload
	fmTupleV  []fmVal
	fmGlobalV struct{ g *ssa.Global }
	fmStrV    struct {
		toks    []string
		raw     string
		isConst bool
	}
	fmSliceV   struct{ elems []fmVal }
	fmArrV     struct{ elems []fmVal }
	fmStructV  struct{ fields []fmVal }
	fmBuilderV struct{ toks []string }
	fmMapV     struct{ m map[string]fmVal }
	fmAddrV    struct {
		get func() fmVal
		set func(fmVal)
	}
	fmFuncV struct {
		fn   *ssa.Function
		free []fmVal
	}
)

type fmAbort struct{ why string }     // a construct outside the model: the rule is undecided
type fmPanicked struct{ what string } // the interpreted code panics on this path

func fmStop(format string, a ...interface{}) { panic(fmAbort{fmt.Sprintf(format, a...)}) }

func fmTokens(s string) []string {
	var out []string
	for _, r := range s {
		if strings.ContainsRune("()^&|", r) {
			out = append(out, string(r))
		}
	}
	return out
}

func fmConstStr(s string) *fmStrV { return &fmStrV{toks: fmTokens(s), raw: s, isConst: true} }

type fmInterp struct {
	c          *Ctx
	wrapKind   map[*types.Named]string // oneof wrapper -> kind
	memberKind map[*types.Named]string // member message -> kind
	globals    map[*ssa.Global]fmVal
	steps      int
	choices    []int
	pos        int
	eqFmt      *ssa.Function // the function that is handed a comparison (found while executing)
}

func (it *fmInterp) choose() int {
	if it.pos < len(it.choices) {
		it.pos++
		return it.choices[it.pos-1]
	}
	it.choices = append(it.choices, 0)
	it.pos++
	return 0
}

func fmIsExprPtr(t types.Type) bool {
	_, isPtr := t.Underlying().(*types.Pointer)
	return isPtr && typeIs(t, pkgProto, "Query_Expression")
}

func fmIsExprSlice(t types.Type) bool {
	sl, ok := t.Underlying().(*types.Slice)
	return ok && fmIsExprPtr(sl.Elem())
}

func (it *fmInterp) zeroOf(t types.Type) fmVal {
	switch u := t.Underlying().(type) {
	case *types.Basic:
		switch {
		case u.Info()&types.IsBoolean != 0:
			return fmBoolV(false)
		case u.Info()&types.IsInteger != 0:
			return fmIntV(0)
		case u.Info()&types.IsString != 0:
			return fmConstStr("")
		}
		return fmUnkV{}
	case *types.Pointer, *types.Interface, *types.Map, *types.Signature, *types.Chan:
		return fmNilV{}
	case *types.Slice:
		return &fmSliceV{}
	case *types.Array:
		a := &fmArrV{}
		for k := int64(0); k < u.Len() && k < 64; k++ {
			a.elems = append(a.elems, it.zeroOf(u.Elem()))
		}
		return a
	case *types.Struct:
		if ts := typeString(t); ts == "strings.Builder" || ts == "bytes.Buffer" {
			return &fmBuilderV{}
		}
		s := &fmStructV{}
		for k := 0; k < u.NumFields(); k++ {
			s.fields = append(s.fields, it.zeroOf(u.Field(k).Type()))
		}
		return s
	}
	return fmUnkV{}
}

func fmLeafOf(vals ...fmVal) *fmNode {
	for _, v := range vals {
		switch x := v.(type) {
		case fmUnkV:
			if x.leaf != nil {
				return x.leaf
			}
		case fmMemberV:
			if x.n != nil && x.n.kind == "Equal" {
				return x.n
			}
		case *fmSliceV:
			if l := fmLeafOf(x.elems...); l != nil {
				return l
			}
		}
	}
	return nil
}

// toStr: the text of a value written to the output or concatenated.
func fmToStr(v fmVal) *fmStrV {
	switch x := v.(type) {
	case *fmStrV:
		return x
	case fmUnkV:
		if x.leaf != nil {
			return &fmStrV{toks: []string{fmt.Sprintf("a%d", x.leaf.id)}}
		}
	case fmIntV, fmBoolV:
		return &fmStrV{} // digits / true / false: no structural character
	}
	return &fmStrV{toks: []string{"?"}}
}

func fmConcat(a, b *fmStrV) *fmStrV {
	return &fmStrV{toks: append(append([]string{}, a.toks...), b.toks...), raw: a.raw + b.raw, isConst: a.isConst && b.isConst}
}

// fmFormat renders a fmt-style format with its arguments.
func fmFormat(format string, args []fmVal) []string {
	var out []string
	ai := 0
	for i := 0; i < len(format); i++ {
		ch := format[i]
		if ch != '%' {
			out = append(out, fmTokens(string(ch))...)
			continue
		}
		i++
		if i >= len(format) {
			break
		}
		if format[i] == '%' {
			continue
		}
		for i < len(format) && strings.ContainsRune("+-# 0123456789.", rune(format[i])) {
			i++
		}
		if ai < len(args) {
			out = append(out, fmToStr(args[ai]).toks...)
		} else {
			out = append(out, "?")
		}
		ai++
	}
	return out
}

func (it *fmInterp) constVal(x *ssa.Const) fmVal {
	if x.IsNil() {
		if _, isSlice := x.Type().Underlying().(*types.Slice); isSlice {
			return &fmSliceV{}
		}
		return fmNilV{}
	}
	if s, ok := constString(x); ok {
		return fmConstStr(s)
	}
	if b, ok := constBool(x); ok {
		return fmBoolV(b)
	}
	if k, ok := constInt(x); ok {
		return fmIntV(k)
	}
	if x.Value == nil {
		return it.zeroOf(x.Type())
	}
	return fmUnkV{}
}

func (it *fmInterp) val(env map[ssa.Value]fmVal, v ssa.Value) fmVal {
	switch x := v.(type) {
	case *ssa.Const:
		return it.constVal(x)
	case *ssa.Function:
		return &fmFuncV{fn: x}
	case *ssa.Global:
		return fmGlobalV{x}
	case *ssa.Builtin:
		fmStop("builtin %s used as a value", x.Name())
	}
	r, ok := env[v]
	if !ok {
		fmStop("value %s of %s is used before it is computed", v.Name(), safeFname(v.Parent()))
	}
	return r
}

// nilness: (known, isNil)
func fmNilness(v fmVal) (bool, bool) {
	switch x := v.(type) {
	case fmNilV:
		return true, true
	case fmNodeV:
		return true, x.n == nil
	case fmIfaceV, fmWrapV, fmMemberV, fmQueryV, *fmBuilderV, *fmMapV, *fmAddrV, *fmFuncV, fmGlobalV:
		return true, false
	case *fmSliceV:
		return true, len(x.elems) == 0
	}
	return false, false
}

func fmIdentity(v fmVal) interface{} {
	switch x := v.(type) {
	case fmNodeV:
		return x.n
	case fmIfaceV:
		return x.n
	case fmWrapV:
		return x.n
	case fmMemberV:
		return x.n
	}
	return nil
}

func (it *fmInterp) binop(op token.Token, a, b fmVal) fmVal {
	if ai, ok := a.(fmIntV); ok {
		if bi, ok := b.(fmIntV); ok {
			switch op {
			case token.ADD:
				return ai + bi
			case token.SUB:
				return ai - bi
			case token.MUL:
				return ai * bi
			case token.QUO:
				if bi != 0 {
					return ai / bi
				}
			case token.REM:
				if bi != 0 {
					return ai % bi
				}
			case token.AND:
				return ai & bi
			case token.OR:
				return ai | bi
			case token.XOR:
				return ai ^ bi
			case token.SHL:
				if bi >= 0 && bi < 63 {
					return ai << uint(bi)
				}
			case token.SHR:
				if bi >= 0 && bi < 63 {
					return ai >> uint(bi)
				}
			case token.LSS:
				return fmBoolV(ai < bi)
			case token.LEQ:
				return fmBoolV(ai <= bi)
			case token.GTR:
				return fmBoolV(ai > bi)
			case token.GEQ:
				return fmBoolV(ai >= bi)
			case token.EQL:
				return fmBoolV(ai == bi)
			case token.NEQ:
				return fmBoolV(ai != bi)
			}
			return fmUnkV{}
		}
	}
	if ab, ok := a.(fmBoolV); ok {
		if bb, ok := b.(fmBoolV); ok {
			switch op {
			case token.EQL:
				return fmBoolV(ab == bb)
			case token.NEQ:
				return fmBoolV(ab != bb)
			}
		}
	}
	_, aStr := a.(*fmStrV)
	_, bStr := b.(*fmStrV)
	if aStr || bStr {
		sa, sb := fmToStr(a), fmToStr(b)
		switch op {
		case token.ADD:
			return fmConcat(sa, sb)
		case token.EQL, token.NEQ:
			if sa.isConst && sb.isConst {
				return fmBoolV((sa.raw == sb.raw) == (op == token.EQL))
			}
		}
		return fmUnkV{leaf: fmLeafOf(a, b)}
	}
	if op == token.EQL || op == token.NEQ {
		ka, na := fmNilness(a)
		kb, nb := fmNilness(b)
		if ka && kb {
			eq := false
			switch {
			case na && nb:
				eq = true
			case na != nb:
				eq = false
			default:
				ia, ib := fmIdentity(a), fmIdentity(b)
				if ia == nil || ib == nil {
					return fmUnkV{}
				}
				eq = ia == ib && fmt.Sprintf("%T", a) == fmt.Sprintf("%T", b)
			}
			return fmBoolV(eq == (op == token.EQL))
		}
	}
	return fmUnkV{leaf: fmLeafOf(a, b)}
}

// memberField: the field (or getter result) of type t of the member message of n.
func (it *fmInterp) memberField(n *fmNode, t types.Type) fmVal {
	switch {
	case n.kind == "Equal":
		return fmUnkV{leaf: n}
	case fmIsExprPtr(t):
		if len(n.kids) > 0 {
			return fmNodeV{n.kids[0]}
		}
	case fmIsExprSlice(t):
		s := &fmSliceV{}
		for _, k := range n.kids {
			s.elems = append(s.elems, fmNodeV{k})
		}
		return s
	}
	return fmUnkV{}
}

func (it *fmInterp) queryField(q fmQueryV, t types.Type) fmVal {
	if fmIsExprPtr(t) {
		return fmNodeV{q.root}
	}
	if _, ok := t.Underlying().(*types.Slice); ok {
		return &fmSliceV{} // the model queries have no group-by list
	}
	return fmUnkV{}
}

func fmReadOnly(get func() fmVal) *fmAddrV {
	return &fmAddrV{get: get, set: func(fmVal) { fmStop("the formatter stores into the query tree") }}
}

func (it *fmInterp) fieldAddr(xv fmVal, x *ssa.FieldAddr) fmVal {
	ft := fieldOf(x.X.Type(), x.Field).Type()
	switch a := xv.(type) {
	case fmNodeV:
		if a.n == nil {
			panic(fmPanicked{"nil expression dereferenced"})
		}
		if _, isIface := ft.Underlying().(*types.Interface); isIface {
			return fmReadOnly(func() fmVal { return fmIfaceV{a.n} })
		}
		return fmReadOnly(func() fmVal { return fmUnkV{} })
	case fmWrapV:
		if k, ok := it.memberKind[namedOf(ft)]; ok && k == a.n.kind {
			return fmReadOnly(func() fmVal { return fmMemberV{a.n} })
		}
		fmStop("unexpected field of an expression wrapper")
	case fmMemberV:
		return fmReadOnly(func() fmVal { return it.memberField(a.n, ft) })
	case fmQueryV:
		return fmReadOnly(func() fmVal { return it.queryField(a, ft) })
	case fmNilV:
		panic(fmPanicked{"nil pointer dereferenced"})
	case *fmAddrV:
		if s, ok := a.get().(*fmStructV); ok {
			return it.fieldAddr(s, x)
		}
	case *fmStructV:
		k := x.Field
		if k < len(a.fields) {
			switch f := a.fields[k].(type) {
			case *fmBuilderV, *fmStructV:
				return f // the address of an embedded builder / struct is the object itself (as for an Alloc)
			}
			return &fmAddrV{get: func() fmVal { return a.fields[k] }, set: func(v fmVal) { a.fields[k] = v }}
		}
	case fmUnkV:
		return fmReadOnly(func() fmVal { return fmUnkV{leaf: a.leaf} })
	}
	fmStop("field access %s.%s is not modelled", typeString(x.X.Type()), fieldOf(x.X.Type(), x.Field).Name())
	return nil
}

func (it *fmInterp) elems(xv fmVal) ([]fmVal, bool) {
	switch a := xv.(type) {
	case *fmSliceV:
		return a.elems, true
	case *fmArrV:
		return a.elems, true
	case *fmAddrV:
		if arr, ok := a.get().(*fmArrV); ok {
			return arr.elems, true
		}
	case fmGlobalV:
		if arr, ok := it.globalValue(a.g).(*fmArrV); ok {
			return arr.elems, true
		}
	}
	return nil, false
}

func (it *fmInterp) eval(env map[ssa.Value]fmVal, v ssa.Value, depth int) fmVal {
	switch x := v.(type) {
	case *ssa.Alloc:
		z := it.zeroOf(x.Type().(*types.Pointer).Elem())
		if b, ok := z.(*fmBuilderV); ok {
			return b // the pointer to a builder is the builder object
		}
		if s, ok := z.(*fmStructV); ok {
			return s
		}
		cell := z
		return &fmAddrV{get: func() fmVal { return cell }, set: func(nv fmVal) { cell = nv }}
	case *ssa.BinOp:
		return it.binop(x.Op, it.val(env, x.X), it.val(env, x.Y))
	case *ssa.UnOp:
		xv := it.val(env, x.X)
		switch x.Op {
		case token.NOT:
			if b, ok := xv.(fmBoolV); ok {
				return !b
			}
			return fmUnkV{leaf: fmLeafOf(xv)}
		case token.SUB:
			if k, ok := xv.(fmIntV); ok {
				return -k
			}
			return fmUnkV{leaf: fmLeafOf(xv)}
		case token.MUL:
			switch a := xv.(type) {
			case *fmAddrV:
				return a.get()
			case fmGlobalV:
				return it.globalValue(a.g)
			case *fmStructV, *fmBuilderV:
				return a
			case fmNilV:
				panic(fmPanicked{"nil pointer dereferenced"})
			case fmUnkV:
				return a
			}
			fmStop("load through %s is not modelled", typeString(x.X.Type()))
		}
		return fmUnkV{leaf: fmLeafOf(xv)}
	case *ssa.FieldAddr:
		return it.fieldAddr(it.val(env, x.X), x)
	case *ssa.Field:
		if s, ok := it.val(env, x.X).(*fmStructV); ok && x.Field < len(s.fields) {
			return s.fields[x.Field]
		}
		fmStop("field of a struct value is not modelled")
	case *ssa.IndexAddr:
		es, ok := it.elems(it.val(env, x.X))
		idx, okI := it.val(env, x.Index).(fmIntV)
		if !ok || !okI {
			fmStop("indexing %s is not modelled", typeString(x.X.Type()))
		}
		if idx < 0 || int(idx) >= len(es) {
			panic(fmPanicked{fmt.Sprintf("index %d out of range (length %d)", idx, len(es))})
		}
		return &fmAddrV{get: func() fmVal { return es[idx] }, set: func(nv fmVal) { es[idx] = nv }}
	case *ssa.Index:
		es, ok := it.elems(it.val(env, x.X))
		idx, okI := it.val(env, x.Index).(fmIntV)
		if ok && okI {
			if idx < 0 || int(idx) >= len(es) {
				panic(fmPanicked{fmt.Sprintf("index %d out of range (length %d)", idx, len(es))})
			}
			return es[idx]
		}
		return fmUnkV{leaf: fmLeafOf(it.val(env, x.X))}
	case *ssa.Slice:
		xv := it.val(env, x.X)
		es, ok := it.elems(xv)
		if !ok {
			if _, isStr := xv.(*fmStrV); isStr {
				return &fmStrV{toks: []string{"?"}}
			}
			return fmUnkV{leaf: fmLeafOf(xv)}
		}
		lo, hi := 0, len(es)
		if x.Low != nil {
			k, ok := it.val(env, x.Low).(fmIntV)
			if !ok {
				fmStop("slice bound is not known")
			}
			lo = int(k)
		}
		if x.High != nil {
			k, ok := it.val(env, x.High).(fmIntV)
			if !ok {
				fmStop("slice bound is not known")
			}
			hi = int(k)
		}
		if lo < 0 || hi > len(es) || lo > hi {
			panic(fmPanicked{fmt.Sprintf("slice bounds [%d:%d] out of range (length %d)", lo, hi, len(es))})
		}
		return &fmSliceV{elems: es[lo:hi]}
	case *ssa.MakeInterface:
		return it.val(env, x.X)
	case *ssa.ChangeInterface:
		return it.val(env, x.X)
	case *ssa.ChangeType:
		return it.val(env, x.X)
	case *ssa.Convert:
		xv := it.val(env, x.X)
		if bt, ok := x.Type().Underlying().(*types.Basic); ok && bt.Info()&types.IsString != 0 {
			if k, ok := xv.(fmIntV); ok {
				return fmConstStr(string(rune(k)))
			}
		}
		return xv
	case *ssa.Extract:
		switch t := it.val(env, x.Tuple).(type) {
		case fmTupleV:
			if x.Index < len(t) {
				return t[x.Index]
			}
		case fmUnkV:
			return t
		}
		fmStop("result %d of a call is not modelled", x.Index)
	case *ssa.Phi:
		fmStop("phi outside the head of a block")
	case *ssa.TypeAssert:
		xv := it.val(env, x.X)
		var res fmVal
		ok := false
		switch a := xv.(type) {
		case fmIfaceV:
			if k, isW := it.wrapKind[namedOf(x.AssertedType)]; isW {
				if _, isPtr := x.AssertedType.(*types.Pointer); isPtr && k == a.n.kind {
					res, ok = fmWrapV{a.n}, true
				}
			} else if _, isIface := x.AssertedType.Underlying().(*types.Interface); isIface {
				res, ok = a, true // the wrappers implement the oneof interface only; other interfaces are not expected
				if !types.Identical(x.AssertedType, x.X.Type()) {
					fmStop("type assertion of the oneof value to %s is not modelled", typeString(x.AssertedType))
				}
			}
		case fmNilV:
		case *fmBuilderV:
			if ts := typeString(x.AssertedType); ts == "*strings.Builder" || ts == "*bytes.Buffer" || isTextSink(x.AssertedType) {
				res, ok = a, true
			} else {
				fmStop("type assertion of the output builder to %s is not modelled", ts)
			}
		default:
			fmStop("type assertion on %s is not modelled", typeString(x.X.Type()))
		}
		if !x.CommaOk {
			if !ok {
				panic(fmPanicked{"failed type assertion"})
			}
			return res
		}
		if !ok {
			res = it.zeroOf(x.AssertedType)
		}
		return fmTupleV{res, fmBoolV(ok)}
	case *ssa.MakeClosure:
		f := &fmFuncV{fn: x.Fn.(*ssa.Function)}
		for _, b := range x.Bindings {
			f.free = append(f.free, it.val(env, b))
		}
		return f
	case *ssa.MakeMap:
		return &fmMapV{m: map[string]fmVal{}}
	case *ssa.MakeSlice:
		n, ok := it.val(env, x.Len).(fmIntV)
		if !ok || n < 0 || n > 64 {
			fmStop("make of a slice of unknown length")
		}
		s := &fmSliceV{}
		for k := 0; k < int(n); k++ {
			s.elems = append(s.elems, it.zeroOf(x.Type().Underlying().(*types.Slice).Elem()))
		}
		return s
	case *ssa.Lookup:
		xv := it.val(env, x.X)
		kv := it.val(env, x.Index)
		m, ok := xv.(*fmMapV)
		if !ok {
			if _, isNil := xv.(fmNilV); isNil {
				m, ok = &fmMapV{}, true
			}
		}
		if !ok {
			if _, isStr := xv.(*fmStrV); isStr {
				return fmUnkV{}
			}
			r := fmUnkV{leaf: fmLeafOf(xv)}
			if x.CommaOk {
				return fmTupleV{r, fmUnkV{}}
			}
			return r
		}
		key, okK := fmKey(kv)
		if !okK {
			fmStop("map lookup with a key that is not known for the model tree")
		}
		r, found := m.m[key]
		if !found {
			mt := x.X.Type().Underlying().(*types.Map)
			r = it.zeroOf(mt.Elem())
		}
		if x.CommaOk {
			return fmTupleV{r, fmBoolV(found)}
		}
		return r
	case *ssa.Call:
		return it.call(env, &x.Call, depth)
	}
	fmStop("instruction %T in %s is not modelled", v, safeFname(v.(ssa.Instruction).Parent()))
	return nil
}

func fmKey(v fmVal) (string, bool) {
	switch k := v.(type) {
	case fmIntV:
		return fmt.Sprintf("i%d", int64(k)), true
	case fmBoolV:
		return fmt.Sprintf("b%v", bool(k)), true
	case *fmStrV:
		if k.isConst {
			return "s" + k.raw, true
		}
	}
	return "", false
}

func fmUnknownResult(sig *types.Signature, leaf *fmNode) fmVal {
	switch n := sig.Results().Len(); n {
	case 0:
		return nil
	case 1:
		return fmUnkV{leaf: leaf}
	default:
		t := fmTupleV{}
		for k := 0; k < n; k++ {
			t = append(t, fmUnkV{leaf: leaf})
		}
		return t
	}
}

// sinkMethod: the text-writing methods of a builder.
func (it *fmInterp) sinkMethod(b *fmBuilderV, method string, args []fmVal) (fmVal, bool) {
	switch method {
	case "WriteString", "Write":
		if len(args) == 1 {
			b.toks = append(b.toks, fmToStr(args[0]).toks...)
			return fmTupleV{fmUnkV{}, fmNilV{}}, true
		}
	case "WriteByte", "WriteRune":
		if len(args) == 1 {
			if k, ok := args[0].(fmIntV); ok {
				b.toks = append(b.toks, fmTokens(string(rune(k)))...)
			} else {
				b.toks = append(b.toks, fmToStr(args[0]).toks...)
			}
			if method == "WriteByte" {
				return fmNilV{}, true
			}
			return fmTupleV{fmUnkV{}, fmNilV{}}, true
		}
	case "String":
		return &fmStrV{toks: append([]string{}, b.toks...)}, true
	case "Len", "Cap":
		return fmUnkV{}, true
	case "Grow":
		return nil, true
	case "Reset":
		b.toks = nil
		return nil, true
	}
	return nil, false
}

func (it *fmInterp) call(env map[ssa.Value]fmVal, cc *ssa.CallCommon, depth int) fmVal {
	var args []fmVal
	for _, a := range cc.Args {
		args = append(args, it.val(env, a))
	}
	if cc.IsInvoke() {
		recv := it.val(env, cc.Value)
		if b, ok := recv.(*fmBuilderV); ok {
			if r, ok := it.sinkMethod(b, cc.Method.Name(), args); ok {
				return r
			}
		}
		fmStop("call of interface method %s is not modelled", cc.Method.FullName())
	}
	if bi, ok := cc.Value.(*ssa.Builtin); ok {
		switch bi.Name() {
		case "len", "cap":
			switch a := args[0].(type) {
			case *fmSliceV:
				return fmIntV(len(a.elems))
			case *fmMapV:
				return fmIntV(len(a.m))
			case *fmStrV:
				if a.isConst {
					return fmIntV(len(a.raw))
				}
			}
			return fmUnkV{leaf: fmLeafOf(args[0])}
		case "append":
			a, ok1 := args[0].(*fmSliceV)
			b, ok2 := args[1].(*fmSliceV)
			if ok1 && ok2 {
				return &fmSliceV{elems: append(append([]fmVal{}, a.elems...), b.elems...)}
			}
		}
		fmStop("builtin %s is not modelled here", bi.Name())
	}
	var fn *ssa.Function
	var free []fmVal
	switch cv := cc.Value.(type) {
	case *ssa.Function:
		fn = cv
	default:
		f, ok := it.val(env, cc.Value).(*fmFuncV)
		if !ok {
			fmStop("call of a function value that is not known")
		}
		fn, free = f.fn, f.free
	}
	name := funcFullName(fn)
	hasBuilder := false
	for _, a := range args {
		if _, ok := a.(*fmBuilderV); ok {
			hasBuilder = true
		}
	}
	// text sinks and text builders of the standard library
	if len(args) > 0 {
		if b, ok := args[0].(*fmBuilderV); ok && fn.Signature.Recv() != nil {
			if ts := typeString(fn.Signature.Recv().Type()); ts == "*strings.Builder" || ts == "*bytes.Buffer" {
				if r, ok := it.sinkMethod(b, fn.Name(), args[1:]); ok {
					return r
				}
				fmStop("%s on the output builder is not modelled", name)
			}
		}
	}
	variadic := func(k int) []fmVal {
		if k < len(args) {
			if s, ok := args[k].(*fmSliceV); ok {
				return s.elems
			}
		}
		return nil
	}
	sink := func() *fmBuilderV {
		b, ok := args[0].(*fmBuilderV)
		if !ok {
			fmStop("%s writes to something that is not a text builder of the formatter", name)
		}
		return b
	}
	switch name {
	case "fmt.Fprintf", "fmt.Sprintf":
		k := 0
		if name == "fmt.Fprintf" {
			k = 1
		}
		var toks []string
		if f, ok := args[k].(*fmStrV); ok && f.isConst {
			toks = fmFormat(f.raw, variadic(k+1))
		} else {
			toks = []string{"?"}
		}
		if name == "fmt.Sprintf" {
			return &fmStrV{toks: toks}
		}
		b := sink()
		b.toks = append(b.toks, toks...)
		return fmTupleV{fmUnkV{}, fmNilV{}}
	case "fmt.Fprint", "fmt.Fprintln", "fmt.Sprint", "fmt.Sprintln":
		k := 0
		if strings.HasPrefix(name, "fmt.F") {
			k = 1
		}
		var toks []string
		for _, a := range variadic(k) {
			toks = append(toks, fmToStr(a).toks...)
		}
		if k == 0 {
			return &fmStrV{toks: toks}
		}
		b := sink()
		b.toks = append(b.toks, toks...)
		return fmTupleV{fmUnkV{}, fmNilV{}}
	case "io.WriteString":
		b := sink()
		b.toks = append(b.toks, fmToStr(args[1]).toks...)
		return fmTupleV{fmUnkV{}, fmNilV{}}
	case "strings.Join":
		if s, ok := args[0].(*fmSliceV); ok {
			out := &fmStrV{isConst: true}
			for k, e := range s.elems {
				if k > 0 {
					out = fmConcat(out, fmToStr(args[1]))
				}
				out = fmConcat(out, fmToStr(e))
			}
			return out
		}
	case "strings.Repeat":
		if s, ok := args[0].(*fmStrV); ok {
			if n, ok := args[1].(fmIntV); ok && n >= 0 && n < 16 {
				out := &fmStrV{isConst: true}
				for k := 0; k < int(n); k++ {
					out = fmConcat(out, s)
				}
				return out
			}
		}
	}
	switch pkg := it.c.w.pkgPathOf(fn); {
	case pkg == pkgProto:
		return it.protoCall(fn, args)
	case it.c.w.inModule(fn) && fn.Blocks != nil:
		// the function that is handed a comparison writes (or returns) one atom: what it writes is C10.quote's concern
		for _, a := range args {
			if m, ok := a.(fmMemberV); ok && m.n.kind == "Equal" {
				if it.eqFmt == nil {
					it.eqFmt = fn
				}
				atom := fmt.Sprintf("a%d", m.n.id)
				for _, b := range args {
					if bb, ok := b.(*fmBuilderV); ok {
						bb.toks = append(bb.toks, atom)
					}
				}
				if res := fn.Signature.Results(); res.Len() == 1 {
					if bt, ok := res.At(0).Type().Underlying().(*types.Basic); ok && bt.Info()&types.IsString != 0 {
						return &fmStrV{toks: []string{atom}}
					}
				}
				return fmUnknownResult(fn.Signature, nil)
			}
		}
		return it.exec(fn, args, free, depth+1)
	}
	if hasBuilder {
		fmStop("the output builder is handed to %s, which is not modelled", shortName(name))
	}
	return fmUnknownResult(fn.Signature, fmLeafOf(args...))
}

// protoCall: the generated getters return the oneof member or nil (assumption of the property's rules); other
// functions of the generated package are opaque.
func (it *fmInterp) protoCall(g *ssa.Function, args []fmVal) fmVal {
	res := g.Signature.Results()
	if strings.HasPrefix(g.Name(), "Get") && len(args) == 1 && res.Len() == 1 {
		rt := res.At(0).Type()
		switch a := args[0].(type) {
		case fmNilV:
			return it.zeroOf(rt)
		case fmNodeV:
			if a.n == nil {
				return it.zeroOf(rt)
			}
			if _, isIface := rt.Underlying().(*types.Interface); isIface {
				return fmIfaceV{a.n}
			}
			if k, ok := it.memberKind[namedOf(rt)]; ok {
				if k == a.n.kind {
					return fmMemberV{a.n}
				}
				return fmNilV{}
			}
		case fmMemberV:
			return it.memberField(a.n, rt)
		case fmQueryV:
			return it.queryField(a, rt)
		}
	}
	for _, a := range args {
		if _, ok := a.(*fmBuilderV); ok {
			fmStop("the output builder is handed to %s, which is not modelled", safeFname(g))
		}
	}
	return fmUnknownResult(g.Signature, fmLeafOf(args...))
}

func (it *fmInterp) exec(fn *ssa.Function, args []fmVal, free []fmVal, depth int) fmVal {
	if fn.Blocks == nil {
		fmStop("%s has no body", safeFname(fn))
	}
	if depth > 48 {
		fmStop("the formatter recurses deeper than the model tree is high")
	}
	env := map[ssa.Value]fmVal{}
	for k, p := range fn.Params {
		if k < len(args) {
			env[p] = args[k]
		}
	}
	for k, fv := range fn.FreeVars {
		if k < len(free) {
			env[fv] = free[k]
		}
	}
	var prev *ssa.BasicBlock
	var deferred []func()
	b := fn.Blocks[0]
	for {
		nphi := 0
		var phiVals []fmVal
		for _, ins := range b.Instrs {
			phi, ok := ins.(*ssa.Phi)
			if !ok {
				break
			}
			nphi++
			var pv fmVal = fmUnkV{}
			for k, p := range b.Preds {
				if p == prev {
					pv = it.val(env, phi.Edges[k])
					break
				}
			}
			phiVals = append(phiVals, pv)
		}
		for k := 0; k < nphi; k++ {
			env[b.Instrs[k].(*ssa.Phi)] = phiVals[k]
		}
		var next *ssa.BasicBlock
		for _, ins := range b.Instrs[nphi:] {
			it.steps++
			if it.steps > 200000 {
				fmStop("the formatter does not finish on a model tree within the step limit")
			}
			switch x := ins.(type) {
			case *ssa.If:
				way := 0
				switch cv := it.val(env, x.Cond).(type) {
				case fmBoolV:
					if !cv {
						way = 1
					}
				case fmUnkV:
					// only what depends on a leaf's payload (placeholder or value?) is legitimately unknown
					way = it.choose()
				default:
					fmStop("branch condition in %s is not a boolean of the model", safeFname(fn))
				}
				next = b.Succs[way]
			case *ssa.Jump:
				next = b.Succs[0]
			case *ssa.Return:
				switch len(x.Results) {
				case 0:
					return nil
				case 1:
					return it.val(env, x.Results[0])
				}
				t := fmTupleV{}
				for _, r := range x.Results {
					t = append(t, it.val(env, r))
				}
				return t
			case *ssa.Panic:
				panic(fmPanicked{"explicit panic in " + safeFname(fn)})
			case *ssa.Store:
				switch a := it.val(env, x.Addr).(type) {
				case *fmAddrV:
					a.set(it.val(env, x.Val))
				default:
					fmStop("store through %s is not modelled", typeString(x.Addr.Type()))
				}
			case *ssa.MapUpdate:
				m, ok := it.val(env, x.Map).(*fmMapV)
				key, okK := fmKey(it.val(env, x.Key))
				if !ok || !okK {
					fmStop("map update is not modelled")
				}
				m.m[key] = it.val(env, x.Value)
			case *ssa.DebugRef:
			case *ssa.Defer:
				// the callee and its arguments are evaluated now, the call runs when the function returns (a panic
				// unwinding through the deferred calls is not modelled: the path ends at the panic)
				denv := map[ssa.Value]fmVal{}
				denv[x.Call.Value] = nil
				if _, static := x.Call.Value.(*ssa.Function); !static {
					if _, bi := x.Call.Value.(*ssa.Builtin); !bi {
						denv[x.Call.Value] = it.val(env, x.Call.Value)
					}
				}
				for _, a := range x.Call.Args {
					if _, isConst := a.(*ssa.Const); !isConst {
						if _, isFn := a.(*ssa.Function); !isFn {
							if _, isG := a.(*ssa.Global); !isG {
								denv[a] = it.val(env, a)
							}
						}
					}
				}
				cc := &x.Call
				deferred = append(deferred, func() { it.call(denv, cc, depth) })
			case *ssa.RunDefers:
				for k := len(deferred) - 1; k >= 0; k-- {
					deferred[k]()
				}
				deferred = nil
			case ssa.Value:
				env[x] = it.eval(env, x, depth)
			default:
				fmStop("instruction %T in %s is not modelled", ins, safeFname(fn))
			}
			if next != nil {
				break
			}
		}
		if next == nil {
			fmStop("block of %s ends without a transfer of control", safeFname(fn))
		}
		prev, b = b, next
	}
}

// globalValue: the value of a package-level table (map / slice / array / scalar with constant contents) as the package
// initialiser builds it. A table that any function of the module may modify is not constant: undecided.
func (it *fmInterp) globalValue(g *ssa.Global) fmVal {
	if v, ok := it.globals[g]; ok {
		return v
	}
	if g.Pkg == nil || it.c.w.SSA[g.Pkg.Pkg.Path()] != g.Pkg {
		fmStop("package-level variable %s outside the module", g.Name())
	}
	init := g.Pkg.Func("init")
	if init == nil {
		fmStop("no package initialiser for %s", g.Name())
	}
	it.requireConstantTable(g, init)
	constOf := func(v ssa.Value) fmVal {
		c, ok := v.(*ssa.Const)
		if !ok {
			fmStop("the initialiser of %s is not made of constants", g.Name())
		}
		return it.constVal(c)
	}
	val := it.zeroOf(g.Type().(*types.Pointer).Elem())
	allInstrs(init, func(i ssa.Instruction) {
		st, ok := i.(*ssa.Store)
		if !ok {
			return
		}
		if ia, ok := st.Addr.(*ssa.IndexAddr); ok && ia.X == ssa.Value(g) {
			arr, okA := val.(*fmArrV)
			k, okK := constInt(ia.Index)
			if !okA || !okK || k < 0 || int(k) >= len(arr.elems) {
				fmStop("the initialiser of %s is not followed", g.Name())
			}
			arr.elems[k] = constOf(st.Val)
			return
		}
		if st.Addr != ssa.Value(g) {
			return
		}
		switch v := st.Val.(type) {
		case *ssa.Const:
			val = it.constVal(v)
		case *ssa.Function:
			val = &fmFuncV{fn: v}
		case *ssa.MakeMap:
			m := &fmMapV{m: map[string]fmVal{}}
			for _, r := range referrers(v) {
				switch u := r.(type) {
				case *ssa.MapUpdate:
					key, ok := fmKey(constOf(u.Key))
					if !ok {
						fmStop("the initialiser of %s has a key that is not a constant", g.Name())
					}
					m.m[key] = constOf(u.Value)
				case *ssa.Store, *ssa.DebugRef:
				default:
					fmStop("the initialiser of %s is not followed", g.Name())
				}
			}
			val = m
		case *ssa.Slice:
			al, ok := v.X.(*ssa.Alloc)
			at, okT := v.X.Type().(*types.Pointer)
			if !ok || !okT || v.Low != nil || v.High != nil {
				fmStop("the initialiser of %s is not followed", g.Name())
			}
			arr, okA := it.zeroOf(at.Elem()).(*fmArrV)
			if !okA {
				fmStop("the initialiser of %s is not followed", g.Name())
			}
			for _, r := range referrers(al) {
				ia, ok := r.(*ssa.IndexAddr)
				if !ok {
					continue
				}
				k, okK := constInt(ia.Index)
				for _, rr := range referrers(ia) {
					if s2, ok := rr.(*ssa.Store); ok && okK && k >= 0 && int(k) < len(arr.elems) {
						arr.elems[k] = constOf(s2.Val)
					}
				}
			}
			val = &fmSliceV{elems: arr.elems}
		default:
			fmStop("the initialiser of %s is not followed", g.Name())
		}
	})
	it.globals[g] = val
	return val
}

// requireConstantTable: outside the package initialiser g is only read (loaded and looked up / indexed / ranged / measured).
func (it *fmInterp) requireConstantTable(g *ssa.Global, init *ssa.Function) {
	readOnlyUse := func(load ssa.Value) bool {
		for _, r := range referrers(load) {
			switch u := r.(type) {
			case *ssa.Lookup:
				if u.X != load {
					return false
				}
			case *ssa.Index, *ssa.Range, *ssa.DebugRef:
			case *ssa.IndexAddr:
				for _, rr := range referrers(u) {
					if ld, ok := rr.(*ssa.UnOp); !ok || ld.Op != token.MUL {
						if _, dbg := rr.(*ssa.DebugRef); !dbg {
							return false
						}
					}
				}
			case *ssa.Call:
				if bi, ok := u.Call.Value.(*ssa.Builtin); !ok || (bi.Name() != "len" && bi.Name() != "cap") {
					return false
				}
			default:
				return false
			}
		}
		return true
	}
	for _, fn := range it.c.w.ModFuncs {
		if fn == init {
			continue
		}
		allInstrs(fn, func(i ssa.Instruction) {
			uses := false
			for _, op := range i.Operands(nil) {
				if *op == ssa.Value(g) {
					uses = true
				}
			}
			if !uses {
				return
			}
			ok := false
			switch u := i.(type) {
			case *ssa.UnOp:
				ok = u.Op == token.MUL && readOnlyUse(u)
			case *ssa.IndexAddr:
				ok = true
				for _, rr := range referrers(u) {
					if ld, isLd := rr.(*ssa.UnOp); !isLd || ld.Op != token.MUL {
						if _, dbg := rr.(*ssa.DebugRef); !dbg {
							ok = false
						}
					}
				}
			case *ssa.DebugRef:
				ok = true
			}
			if !ok {
				fmStop("the package-level table %s may be modified in %s: its contents are not constant", g.Name(), safeFname(fn))
			}
		})
	}
}

// fmOutcome: what the formatter does on one path for one model tree.
type fmOutcome struct {
	toks     []string
	panicked string
	forked   bool
}

// runTree executes QueryToString on the model tree, once per combination of the branches on leaf payloads.
func (it *fmInterp) runTree(root *fmNode) (outs []fmOutcome, why string) {
	it.choices = nil
	for n := 0; ; n++ {
		if n >= 64 {
			return nil, "too many paths for one model tree"
		}
		it.pos = 0
		it.steps = 0
		var out fmOutcome
		func() {
			defer func() {
				if r := recover(); r != nil {
					switch e := r.(type) {
					case fmAbort:
						why = e.why
					case fmPanicked:
						out.panicked = e.what
					default:
						panic(r)
					}
				}
			}()
			res := it.exec(it.c.a.QueryToString, []fmVal{fmQueryV{root}}, nil, 0)
			out.toks = fmToStr(res).toks
		}()
		if why != "" {
			return nil, why
		}
		out.forked = len(it.choices) > 0
		// one atom per comparison, however many writes it takes
		var merged []string
		for _, t := range out.toks {
			if len(merged) > 0 && merged[len(merged)-1] == t && strings.HasPrefix(t, "a") {
				continue
			}
			merged = append(merged, t)
		}
		out.toks = merged
		for _, t := range merged {
			if t == "?" && out.panicked == "" {
				return nil, "text is written that is neither a constant of the formatter nor taken from a comparison"
			}
		}
		outs = append(outs, out)
		for len(it.choices) > 0 && it.choices[len(it.choices)-1] == 1 {
			it.choices = it.choices[:len(it.choices)-1]
		}
		if len(it.choices) == 0 {
			return outs, ""
		}
		it.choices[len(it.choices)-1] = 1
	}
}

// c10Model decides C10.exhaustive and the formatter side of C10.parens on the tree model. It returns the function the
// formatter hands comparisons to (the comparison formatter C10.quote looks at).
func c10Model(c *Ctx, exprFmt *ssa.Function, wrappers []*types.Named) *ssa.Function {
	fname := safeFname(exprFmt)
	site := c.w.pos(exprFmt.Pos())
	it := &fmInterp{c: c, wrapKind: map[*types.Named]string{}, memberKind: map[*types.Named]string{}, globals: map[*ssa.Global]fmVal{}}
	kinds := map[string]*types.Named{}
	for _, w := range wrappers {
		st, ok := w.Underlying().(*types.Struct)
		if !ok || st.NumFields() != 1 || namedOf(st.Field(0).Type()) == nil {
			c.r.undecided("C10.exhaustive", fname+": case "+w.Obj().Name(), "oneof wrapper of an unexpected form", site)
			return nil
		}
		member := namedOf(st.Field(0).Type())
		k := strings.TrimPrefix(member.Obj().Name(), "Query_Expression_")
		it.wrapKind[w], it.memberKind[member], kinds[k] = k, k, w
	}
	for k := range kinds {
		if k != "Equal" && k != "Not" && k != "And" && k != "Or" {
			c.r.undecided("C10.exhaustive", fname+": case "+kinds[k].Obj().Name(), "an expression kind the tree model of the formatter does not know: the parenthesisation table has to be extended for it", site)
			return nil
		}
	}
	if len(kinds) != 4 {
		c.r.undecided("C10.exhaustive", fname, "the expression oneof does not have the four members Equal, Not, And, Or", site)
		return nil
	}
	type verdict struct {
		ok   bool
		text string // what was written (first failing path, or the only path)
		what string // why it fails
	}
	verdicts := map[string]*verdict{}
	type pairStat struct {
		n       int
		failing bool
		example string
	}
	pairs := map[string]*pairStat{}
	pairKey := func(p, k string) string { return fmt.Sprintf("%s: operand %s of %s", fname, k, p) }
	var order []string
	for _, p := range []string{"Not", "And", "Or"} {
		for _, k := range []string{"Equal", "Not", "And", "Or"} {
			pairs[pairKey(p, k)] = &pairStat{}
			order = append(order, pairKey(p, k))
		}
	}
	var edges func(n *fmNode, f func(p, k *fmNode))
	edges = func(n *fmNode, f func(p, k *fmNode)) {
		for _, k := range n.kids {
			f(n, k)
			edges(k, f)
		}
	}
	firstFail := ""
	minimal := map[string]*verdict{} // smallest tree of each root kind (C10.exhaustive)
	trees := fmModelTrees()
	for _, t := range trees {
		outs, why := it.runTree(t)
		if why != "" {
			c.r.undecided("C10.parens", fname+": tree model", "the formatter has no function per operator and its symbolic execution on the model query trees stops at a construct it does not model: "+why+" (model tree "+t.String()+")", site)
			return it.eqFmt
		}
		v := &verdict{ok: true}
		want := fmNormal(t).String()
		for _, o := range outs {
			text := strings.Join(o.toks, " ")
			what := ""
			switch {
			case o.panicked != "" && !o.forked:
				what = "the formatter panics (" + o.panicked + ")"
			case o.panicked != "":
				continue // under an assumption about a leaf's payload that may be infeasible: not judged
			default:
				back, perr := fmParse(o.toks)
				if perr != "" {
					what = "is written as `" + text + "`, which the parser rejects (" + perr + ")"
				} else if got := fmNormal(back).String(); got != want {
					what = "is written as `" + text + "`, which parses back as " + back.String()
				}
			}
			if v.text == "" {
				v.text = text
			}
			if what != "" && v.ok {
				v.ok, v.text, v.what = false, text, what
			}
		}
		verdicts[t.shape()] = v
		if !v.ok && firstFail == "" {
			firstFail = fmt.Sprintf("the query tree %s %s instead of %s", t.String(), v.what, fmNormal(t).String())
		}
		if _, seen := minimal[t.kind]; !seen && (t.kind == "Equal" || t.kind == "Not" || len(t.kids) == 2) {
			minimal[t.kind] = v
		}
		edges(t, func(p, k *fmNode) { pairs[pairKey(p.kind, k.kind)].n++ })
		if v.ok {
			continue
		}
		edges(t, func(p, k *fmNode) { pairs[pairKey(p.kind, k.kind)].failing = true })
		// a smallest failing tree: every operand, formatted on its own, is fine — so the defect is in how the root
		// writes its operands; it is reported for the kinds of the operands that are operators themselves (for all,
		// if none is).
		smallest := true
		for _, k := range t.kids {
			if kv := verdicts[k.shape()]; kv == nil || !kv.ok {
				smallest = false
			}
		}
		if !smallest || t.kind == "Equal" {
			continue
		}
		var ops []int
		for i, k := range t.kids {
			if k.kind != "Equal" {
				ops = append(ops, i)
			}
		}
		if len(ops) > 1 {
			// with several operator operands: if the tree still fails with all but one of them replaced by a comparison,
			// that smaller tree has been reported and names the operand kind that matters
			covered := false
			for _, keep := range ops {
				v := &fmNode{kind: t.kind}
				for i, k := range t.kids {
					if i == keep {
						v.kids = append(v.kids, k)
					} else {
						v.kids = append(v.kids, &fmNode{kind: "Equal"})
					}
				}
				if vv := verdicts[v.shape()]; vv != nil && !vv.ok {
					covered = true
				}
			}
			if covered {
				continue
			}
		}
		for _, k := range t.kids {
			if len(ops) > 0 && k.kind == "Equal" {
				continue
			}
			if ps := pairs[pairKey(t.kind, k.kind)]; ps.example == "" {
				ps.example = fmt.Sprintf("the query tree %s %s instead of %s", t.String(), v.what, fmNormal(t).String())
			}
		}
	}
	// ---- exhaustive: the smallest tree of each kind is written with all its comparisons, in order
	for _, k := range []string{"Equal", "Not", "And", "Or"} {
		w := kinds[k]
		key := fname + ": case " + w.Obj().Name()
		v := minimal[k]
		wantAtoms := map[string]string{"Equal": "a1", "Not": "a1", "And": "a1 a2", "Or": "a1 a2"}[k]
		var atoms []string
		if v != nil {
			for _, tk := range strings.Fields(v.text) {
				if strings.HasPrefix(tk, "a") {
					atoms = append(atoms, tk)
				}
			}
		}
		if v == nil || strings.Join(atoms, " ") != wantAtoms {
			got := ""
			if v != nil {
				got = v.text
			}
			c.r.bad("C10.exhaustive", key, fmt.Sprintf("an expression of this kind is not written with its own operands (the smallest such tree is written as `%s`): expressions of this kind are dropped from the text", got), []string{site})
			continue
		}
		c.r.ok("C10.exhaustive", key, "written with its operands on the model trees", site)
	}
	c.r.min["C10.exhaustive"] = len(wrappers)
	// ---- parens
	reported := false
	for _, key := range order {
		if pairs[key].example != "" {
			reported = true
		}
	}
	if firstFail != "" && !reported {
		// (a defect that shows on a comparison alone: no operand edge to attribute it to)
		c.r.bad("C10.parens", fname+": tree model", firstFail+": the text re-parses with different structure or not at all (symbolic execution of the formatter on the model query trees)", []string{site})
	}
	for _, key := range order {
		ps := pairs[key]
		switch {
		case ps.example != "":
			c.r.bad("C10.parens", key, ps.example+": the text re-parses with different structure or not at all (symbolic execution of the formatter on the model query trees)", []string{site})
		case !ps.failing:
			c.r.ok("C10.parens", key, fmt.Sprintf("all %d model trees with such an operand are written so that they parse back to the same meaning", ps.n), site)
		}
	}
	return it.eqFmt
}
