package main

// Ownership of an output file, shared by C16.noclobber and C19.notouch.
//
// Both rules ask of a path-destroying call (os.Remove of the output path …): may the file it hits be one that existed
// before this operation started? The form they knew is "the call is dominated by this call's own successful exclusive
// create". A maintainer who adds "remove the incomplete output when writing it fails" usually cannot write that form:
// the create happens inside bbolt's OpenFile hook or inside a writer's Flush, the removal in a cleanup closure or a
// helper method. What he writes instead is an ownership flag (`created`), set where the exclusive create succeeded and
// tested where the file is removed, or a cleanup closure that is only made once the file exists. The prover below
// establishes, for one instruction and one path, the fact
//
//	own(site, p): whenever control reaches site, the file named p has been created by a successful O_EXCL open
//	              during the current operation (the current call of an API entry point / run of the command)
//
// by a backward search with these steps (each of them keeps the defect visible, see the comments at the steps):
//
//	direct    an exclusive-create event of the same path in the same function dominates site on its success side
//	guard     a branch condition known true at site implies ownership: an ownership flag (a field of a per-call
//	          object, flagGuard, or a local variable, cellFlagGuard), a bool parameter whose every actual implies it,
//	          the bool result of a function (value) all of whose returns imply it
//	lift      site's function is not an API entry point and every call site of it owns the path; for a function value
//	          whose flow is completely known (no store into the heap): it was made at a place that owns the path
//	          (ownership is monotone: a file created by this operation stays created by this operation)
//
// The fact is NOT established (the alarm stays, with the reason attached) when the flag's object outlives the
// operation (a field of the receiver of an exported method: what an earlier Flush stored still counts — seeded y1/C16),
// when the flag is set anywhere but after a successful exclusive create of the same object's path, when its address
// or the struct holding it is copied, when a cleanup that removes the path is made or returned before the file was
// created (seeded y2/C19, y7/C19), or when a function value's flow cannot be followed.
//
// Path identity is by field class, as in noClobberRule (output fields): two string fields are in one class when one is
// initialised from the other (`&plainIndexWriter{outputFile: cfg.outputFile}`); a path that is a field of the flag's
// own struct must in addition be selected from the same object as the flag.

import (
	"go/token"
	"go/types"
	"sort"
	"strings"

	"golang.org/x/tools/go/ssa"
)

// createEvent: a call that creates a file exclusively when it succeeds (its error result is nil).
type createEvent struct {
	call *ssa.Call
	path ssa.Value // the path created (for a call inside an OpenFile hook that opens the name bbolt passes: the path given to bbolt.Open)
	errv ssa.Value
}

type ownMemoKey struct {
	site ssa.Instruction
	key  any
}

type ownCall struct {
	cs   ssa.CallInstruction
	recv ssa.Value // receiver bound by a method value (`x.m`), nil otherwise
}

// fnUse: where a module function is called and where it is made into a value.
type fnUse struct {
	calls     []ownCall
	creations []ssa.Instruction
	complete  bool // every call is listed: not an API entry point, the value is never stored where we cannot follow it
}

type flagInfo struct {
	ok     bool
	why    string
	owner  *types.Struct
	events []*createEvent
}

type ownProver struct {
	c          *Ctx
	evIn       map[*ssa.Function][]*createEvent
	nEvents    int
	ufParent   map[*types.Var]*types.Var
	fieldAddrs map[*types.Var][]*ssa.FieldAddr
	structSt   []*ssa.Store                        // stores of struct values
	operandUse map[*ssa.Function][]ssa.Instruction // instructions that have the function as an operand
	uses       map[*ssa.Function]*fnUse
	flags      map[*types.Var]*flagInfo
	memo       map[ownMemoKey]bool
	busy       map[ownMemoKey]bool
	freshBusy  map[ssa.Value]bool
	notes      []string
	chain      []string
}

func newOwnProver(c *Ctx) *ownProver {
	o := &ownProver{c: c, evIn: map[*ssa.Function][]*createEvent{}, ufParent: map[*types.Var]*types.Var{},
		fieldAddrs: map[*types.Var][]*ssa.FieldAddr{}, operandUse: map[*ssa.Function][]ssa.Instruction{},
		uses: map[*ssa.Function]*fnUse{}, flags: map[*types.Var]*flagInfo{}, memo: map[ownMemoKey]bool{},
		busy: map[ownMemoKey]bool{}, freshBusy: map[ssa.Value]bool{}}
	// the bodies to look at: module functions and the bound-method wrappers made in them
	fns := append([]*ssa.Function{}, c.w.ModFuncs...)
	seenW := map[*ssa.Function]bool{}
	for _, fn := range c.w.ModFuncs {
		allInstrs(fn, func(i ssa.Instruction) {
			if mc, ok := i.(*ssa.MakeClosure); ok {
				if w, ok := mc.Fn.(*ssa.Function); ok && w.Synthetic != "" && w.Blocks != nil && !seenW[w] {
					seenW[w] = true
					fns = append(fns, w)
				}
			}
		})
	}
	hookPaths := map[*ssa.Function][]ssa.Value{} // function used as bbolt's OpenFile hook -> paths of those bbolt.Open calls
	for _, fn := range fns {
		allInstrs(fn, func(i ssa.Instruction) {
			for _, op := range i.Operands(nil) {
				if op == nil || *op == nil {
					continue
				}
				if g, ok := (*op).(*ssa.Function); ok {
					o.operandUse[g] = append(o.operandUse[g], i)
				}
			}
			switch x := i.(type) {
			case *ssa.FieldAddr:
				if f := fieldOf(x.X.Type(), x.Field); f != nil {
					o.fieldAddrs[f] = append(o.fieldAddrs[f], x)
				}
			case *ssa.Store:
				if _, isStruct := x.Val.Type().Underlying().(*types.Struct); isStruct {
					o.structSt = append(o.structSt, x)
				}
				// a string field initialised from another string field names the same path
				if fa, ok := x.Addr.(*ssa.FieldAddr); ok {
					if f := fieldOf(fa.X.Type(), fa.Field); f != nil && isStringType(f.Type()) {
						if g := strField(x.Val); g != nil {
							o.union(f, g)
						}
					}
				}
			case *ssa.Call:
				if calleeName(&x.Call) == "go.etcd.io/bbolt.Open" && len(x.Call.Args) == 3 {
					if h := o.hookFuncOf(x.Call.Args[2]); h != nil {
						hookPaths[h] = append(hookPaths[h], x.Call.Args[0])
					}
				}
			}
		})
	}
	decide, _ := hookDecider(c)
	if decide == nil || c.a.OpenFileFn == nil {
		return o // no event is recognised: nothing is owned
	}
	add := func(ev *createEvent) {
		if ev.errv == nil {
			return
		}
		o.evIn[ev.call.Parent()] = append(o.evIn[ev.call.Parent()], ev)
		o.nEvents++
	}
	// bbolt.Open(p, mode, &bbolt.Options{OpenFile: openfile.OpenFile(Options{FailIfFileExists: true})})
	for _, s := range boltOpenSites(c) {
		if s.hook && s.exists != nil && s.notExists != nil && decide(*s.exists, *s.notExists).kind == "excl" && !fromCreateTemp(s.call.Call.Args[0]) {
			add(&createEvent{call: s.call, path: s.call.Call.Args[0], errv: resultValue(s.call, 1)})
		}
	}
	// h(p, flags, mode) with h = openfile.OpenFile(Options{FailIfFileExists: true}): what a wrapper around the hook does itself
	for _, fn := range fns {
		if c.w.pkgPathOf(fn) == pkgOpen {
			continue
		}
		allInstrs(fn, func(i ssa.Instruction) {
			call, ok := i.(*ssa.Call)
			if !ok || call.Call.IsInvoke() || len(call.Call.Args) != 3 {
				return
			}
			hc, ok := peel(call.Call.Value).(*ssa.Call)
			if !ok || calleeFunc(&hc.Call) != c.a.OpenFileFn || len(hc.Call.Args) != 1 {
				return
			}
			ex, nex := openfileOptions(hc.Call.Args[0])
			if ex == nil || nex == nil || decide(*ex, *nex).kind != "excl" {
				return
			}
			p := call.Call.Args[0]
			if len(fn.Params) > 0 && p == ssa.Value(fn.Params[0]) {
				// the hook opens the name it is given: bbolt passes the path of its Open call (trusted, as in C16.opensites)
				if hp := hookPaths[fn]; len(hp) == 1 {
					p = hp[0]
				}
			}
			add(&createEvent{call: call, path: p, errv: resultValue(call, 1)})
		})
	}
	return o
}

// hookFuncOf: the module function that runs as the OpenFile hook of the bbolt.Options value opts (a function literal,
// or the method behind a method value), nil if there is none or it is not a function of the module.
func (o *ownProver) hookFuncOf(opts ssa.Value) *ssa.Function {
	al, ok := peel(opts).(*ssa.Alloc)
	if !ok {
		return nil
	}
	var out *ssa.Function
	for _, r := range referrers(al) {
		fa, ok := r.(*ssa.FieldAddr)
		if !ok {
			continue
		}
		if f := fieldOf(fa.X.Type(), fa.Field); f == nil || f.Name() != "OpenFile" {
			continue
		}
		for _, rr := range referrers(fa) {
			st, ok := rr.(*ssa.Store)
			if !ok || st.Addr != ssa.Value(fa) {
				continue
			}
			switch v := peel(st.Val).(type) {
			case *ssa.MakeClosure:
				if g, ok := v.Fn.(*ssa.Function); ok {
					if t := boundTarget(g); t != nil {
						g = t
					}
					out = g
				}
			case *ssa.Function:
				out = v
			}
		}
	}
	if out != nil && !o.c.w.inModule(out) {
		return nil
	}
	return out
}

// boundTarget: the method a synthetic bound-method wrapper (`x.m` as a value) calls.
func boundTarget(w *ssa.Function) *ssa.Function {
	if w == nil || !strings.HasPrefix(w.Synthetic, "bound method wrapper") || len(w.FreeVars) != 1 {
		return nil
	}
	var out *ssa.Function
	allInstrs(w, func(i ssa.Instruction) {
		if cc := callCommon(i); cc != nil {
			if g := calleeFunc(cc); g != nil {
				out = g
			}
		}
	})
	return out
}

// ---------- path classes ----------

func (o *ownProver) find(f *types.Var) *types.Var {
	for {
		p, ok := o.ufParent[f]
		if !ok || p == f {
			return f
		}
		f = p
	}
}

func (o *ownProver) union(a, b *types.Var) {
	ra, rb := o.find(a), o.find(b)
	if ra != rb {
		o.ufParent[ra] = rb
	}
}

// strField: v is the string loaded from a struct field (not an element of something stored in a field).
func strField(v ssa.Value) *types.Var {
	p := path(v)
	for k := len(p.Steps) - 1; k >= 0; k-- {
		s := p.Steps[k]
		if s.Field != nil {
			if isStringType(s.Field.Type()) {
				return s.Field
			}
			return nil
		}
		if s.Elem {
			return nil
		}
	}
	return nil
}

// pathKey: the class of a path value — the class of the field it is loaded from, a constant, else the value itself.
func (o *ownProver) pathKey(v ssa.Value) any {
	if f := strField(v); f != nil {
		return o.find(f)
	}
	if s, ok := constString(v); ok {
		return "const:" + s
	}
	return peel(v)
}

func sameRootObj(a, b ssa.Value) bool {
	ra, rb := spilledParam(path(a).Root), spilledParam(path(b).Root)
	return ra == rb
}

// ---------- events ----------

// holdsErr: x is the error result errv of an event, directly or re-loaded from the variable it was just assigned to
// (a named result that a deferred closure captures lives in a cell: `*err = errv; t = *err; if t != nil`).
func holdsErr(x, errv ssa.Value) bool {
	if x == errv {
		return true
	}
	ld, ok := x.(*ssa.UnOp)
	if !ok || ld.Op != token.MUL {
		return false
	}
	cell, ok := ld.X.(*ssa.Alloc)
	if !ok {
		return false
	}
	b := ld.Block()
	at := -1
	for k, ins := range b.Instrs {
		if ins == ssa.Instruction(ld) {
			at = k
		}
	}
	for k := at - 1; k >= 0; k-- {
		switch s := b.Instrs[k].(type) {
		case *ssa.Store:
			if s.Addr == ssa.Value(cell) {
				return s.Val == errv
			}
		case *ssa.Call, *ssa.RunDefers:
			return false // a closure that captured the cell may have assigned it
		}
	}
	return false
}

// samePathAt: the event created the path p: same class, and — when both are the same field read in the same function —
// the same object (`cfgA.outputFile` created, `cfgB.outputFile` removed is not ownership). A path that reached the
// event's function by lifting (a closure's captured variable, a caller's value) is compared by class only. Stores to
// the field between the create and the use are not looked for.
func (o *ownProver) samePathAt(ev *createEvent, p ssa.Value) bool {
	if o.pathKey(ev.path) != o.pathKey(p) {
		return false
	}
	if f := strField(p); f != nil && f == strField(ev.path) {
		if rp := spilledParam(path(p).Root); rp != nil && rp.Parent() == ev.call.Parent() {
			return sameRootObj(ev.path, p)
		}
	}
	return true
}

// succeededAt: the events of site's function that dominate site with their error known to be nil there.
func (o *ownProver) succeededAt(site ssa.Instruction) []*createEvent {
	var out []*createEvent
	evs := o.evIn[site.Parent()]
	if len(evs) == 0 {
		return nil
	}
	cms := cmpsAt(site)
	for _, ev := range evs {
		if !ev.call.Block().Dominates(site.Block()) {
			continue
		}
		for _, cm := range cms {
			if cm.Op == token.EQL && cm.Y != nil && isNilConst(cm.Y) && holdsErr(cm.X, ev.errv) {
				out = append(out, ev)
				break
			}
		}
	}
	return out
}

// ---------- who calls a function, where is it made into a value ----------

// isEntry: anybody may call it, with any receiver and arguments, any number of times: exported functions and methods of
// the library packages; in the command, main and init.
func (o *ownProver) isEntry(fn *ssa.Function) bool {
	if fn.Parent() != nil || fn.Synthetic != "" {
		return false
	}
	if o.c.w.pkgPathOf(fn) == pkgCmd {
		return fn.Name() == "main" || fn.Name() == "init"
	}
	return token.IsExported(fn.Name())
}

func (o *ownProver) fnUses(g *ssa.Function) *fnUse {
	if u, ok := o.uses[g]; ok {
		return u
	}
	u := &fnUse{complete: !o.isEntry(g)}
	o.uses[g] = u
	seen := map[ssa.Value]bool{}
	var track func(v, recv ssa.Value)
	var use func(v, recv ssa.Value, r ssa.Instruction)
	var loads func(cell ssa.Value, recv ssa.Value)
	loads = func(cell ssa.Value, recv ssa.Value) {
		for _, r := range referrers(cell) {
			switch x := r.(type) {
			case *ssa.UnOp:
				if x.Op == token.MUL {
					track(x, recv)
				}
			case *ssa.MakeClosure:
				cl, _ := x.Fn.(*ssa.Function)
				for bi, b := range x.Bindings {
					if b == cell && cl != nil && bi < len(cl.FreeVars) {
						loads(cl.FreeVars[bi], recv)
					}
				}
			}
		}
	}
	track = func(v, recv ssa.Value) {
		if seen[v] {
			return
		}
		seen[v] = true
		for _, r := range referrers(v) {
			use(v, recv, r)
		}
	}
	use = func(v, recv ssa.Value, r ssa.Instruction) {
		switch x := r.(type) {
		case ssa.CallInstruction:
			cc := x.Common()
			if cc.Value == v && !cc.IsInvoke() {
				u.calls = append(u.calls, ownCall{x, recv})
			}
			for k, a := range cc.Args {
				if a != v {
					continue
				}
				callee := calleeFunc(cc)
				if callee == nil || !o.c.w.inModule(callee) || callee.Blocks == nil || k >= len(callee.Params) {
					u.complete = false // handed to a library / an unknown function
					continue
				}
				track(callee.Params[k], recv)
			}
		case *ssa.Store:
			if x.Val != v {
				return
			}
			cell, ok := peelCell(x.Addr).(*ssa.Alloc)
			if !ok {
				u.complete = false // stored into a field, a global, an element
				return
			}
			if _, esc := cellStores(cell); esc {
				u.complete = false
				return
			}
			loads(cell, recv)
		case *ssa.Return:
			fn := x.Parent()
			cu := o.fnUses(fn)
			if !cu.complete {
				u.complete = false
			}
			for k, rv := range x.Results {
				if rv != v {
					continue
				}
				for _, oc := range cu.calls {
					call, ok := oc.cs.(*ssa.Call)
					if !ok {
						continue // deferred / go: the result is dropped
					}
					if res := resultValue(call, k); res != nil {
						track(res, recv)
					}
				}
			}
		case *ssa.Phi:
			track(x, recv)
		case *ssa.ChangeType:
			track(x, recv)
		case *ssa.MakeClosure:
			if x.Fn != v {
				u.complete = false // captured by value (only receivers of method values are)
			}
		case *ssa.DebugRef, *ssa.If, *ssa.BinOp:
		default:
			u.complete = false
		}
	}
	// g used as a plain function value, called statically, or wrapped into a closure
	for _, i := range o.operandUse[g] {
		if boundTarget(i.Parent()) == g {
			continue // the call inside g's method-value wrapper: represented by the calls of the method value, below
		}
		switch x := i.(type) {
		case *ssa.MakeClosure:
			if x.Fn == ssa.Value(g) {
				u.creations = append(u.creations, x)
				track(x, nil)
				continue
			}
			u.complete = false
		case ssa.CallInstruction:
			cc := x.Common()
			isArg := false
			for _, a := range cc.Args {
				if a == ssa.Value(g) {
					isArg = true
				}
			}
			if isArg {
				u.creations = append(u.creations, i)
			}
			use(g, nil, i)
		default:
			u.creations = append(u.creations, i)
			use(g, nil, i)
		}
	}
	// method values x.g: the wrapper calls g with the bound receiver
	if g.Signature.Recv() != nil {
		for w, is := range o.operandUse {
			if boundTarget(w) != g {
				continue
			}
			for _, i := range is {
				mc, ok := i.(*ssa.MakeClosure)
				if !ok || mc.Fn != ssa.Value(w) || len(mc.Bindings) != 1 {
					u.complete = false
					continue
				}
				u.creations = append(u.creations, mc)
				track(mc, mc.Bindings[0])
			}
		}
		// calls through an interface (over-approximated by the call graph)
		if n := o.c.w.CG.Nodes[g]; n != nil {
			for _, e := range n.In {
				if e.Site == nil || !e.Site.Common().IsInvoke() {
					continue
				}
				if !o.c.w.inModule(e.Caller.Func) {
					u.complete = false // a library calls it through one of its interfaces
					continue
				}
				u.calls = append(u.calls, ownCall{e.Site, nil})
			}
		}
	}
	sort.SliceStable(u.creations, func(a, b int) bool { return u.creations[a].Pos() < u.creations[b].Pos() })
	sort.SliceStable(u.calls, func(a, b int) bool { return u.calls[a].cs.Pos() < u.calls[b].cs.Pos() })
	return u
}

// actual: the value bound to parameter k (receiver first) of g at one of its call sites.
func actual(oc ownCall, k int) ssa.Value {
	cc := oc.cs.Common()
	if cc.IsInvoke() {
		if k == 0 {
			return cc.Value
		}
		k--
	} else if oc.recv != nil {
		if k == 0 {
			return oc.recv
		}
		k--
	}
	if k < len(cc.Args) {
		return cc.Args[k]
	}
	return nil
}

func paramIndex(p *ssa.Parameter) int {
	for k, q := range p.Parent().Params {
		if q == p {
			return k
		}
	}
	return -1
}

// funcOrigins: the module functions a function value can be (nil values are dropped: calling them does not return).
func (o *ownProver) funcOrigins(v ssa.Value, depth int) ([]*ssa.Function, bool) {
	if depth > 6 {
		return nil, false
	}
	v = peel(v)
	switch x := v.(type) {
	case *ssa.Function:
		return []*ssa.Function{x}, x.Blocks != nil && o.inMod(x)
	case *ssa.MakeClosure:
		g, ok := x.Fn.(*ssa.Function)
		return []*ssa.Function{g}, ok && g.Blocks != nil
	case *ssa.Const:
		return nil, x.Value == nil
	case *ssa.Phi:
		var out []*ssa.Function
		for _, e := range x.Edges {
			fs, ok := o.funcOrigins(e, depth+1)
			if !ok {
				return nil, false
			}
			out = append(out, fs...)
		}
		return out, true
	case *ssa.UnOp:
		if x.Op != token.MUL {
			return nil, false
		}
		vals, ok := cellValues(x.X)
		if !ok {
			return nil, false
		}
		var out []*ssa.Function
		for _, e := range vals {
			fs, ok := o.funcOrigins(e, depth+1)
			if !ok {
				return nil, false
			}
			out = append(out, fs...)
		}
		return out, true
	case *ssa.Call, *ssa.Extract:
		_, _, vals, ok := resultOrigins(o.c.w, v)
		if !ok {
			return nil, false
		}
		var out []*ssa.Function
		for _, e := range vals {
			fs, ok := o.funcOrigins(e, depth+1)
			if !ok {
				return nil, false
			}
			out = append(out, fs...)
		}
		return out, true
	case *ssa.Parameter:
		u := o.fnUses(x.Parent())
		k := paramIndex(x)
		if !u.complete || len(u.calls) == 0 || k < 0 {
			return nil, false
		}
		var out []*ssa.Function
		for _, oc := range u.calls {
			a := actual(oc, k)
			if a == nil {
				return nil, false
			}
			fs, ok := o.funcOrigins(a, depth+1)
			if !ok {
				return nil, false
			}
			out = append(out, fs...)
		}
		return out, true
	}
	return nil, false
}

func (o *ownProver) inMod(f *ssa.Function) bool {
	if f.Synthetic != "" {
		return boundTarget(f) != nil && o.c.w.inModule(boundTarget(f))
	}
	return o.c.w.inModule(f)
}

// ---------- the proof search ----------

// note records why a step failed. Notes about the ownership evidence itself (a flag, a condition) are kept all; notes
// about the call chain ("not established at the call of …") are many on a deep search and only the ones nearest to the
// reported call are shown.
func (o *ownProver) note(s string) {
	for _, n := range o.notes {
		if n == s {
			return
		}
	}
	o.notes = append(o.notes, s)
}

func (o *ownProver) chainNote(s string) {
	for _, n := range o.chain {
		if n == s {
			return
		}
	}
	o.chain = append(o.chain, s)
}

// owned is the rules' entry: own(site, p), with the reasons of a failure collected in o.notes.
func (o *ownProver) owned(site ssa.Instruction, p ssa.Value) bool {
	o.notes, o.chain = nil, nil
	if o.own(site, p, 0) {
		return true
	}
	if len(o.notes) == 0 {
		o.note("the call is not dominated by a successful exclusive create of that path, and no condition it depends on implies one")
	}
	return false
}

func (o *ownProver) why() string {
	notes := append([]string{}, o.notes...)
	// the chain notes are recorded innermost caller last … first: show the two nearest to the reported call
	for k := len(o.chain) - 1; k >= 0 && k >= len(o.chain)-2; k-- {
		notes = append(notes, o.chain[k])
	}
	if len(notes) == 0 {
		return ""
	}
	return " (ownership of the file is not established: " + strings.Join(notes, "; ") + ")"
}

func (o *ownProver) own(site ssa.Instruction, p ssa.Value, depth int) bool {
	if depth > 10 || site == nil || p == nil {
		return false
	}
	key := ownMemoKey{site, o.pathKey(p)}
	if r, ok := o.memo[key]; ok {
		return r
	}
	if o.busy[key] {
		return false // a cycle proves nothing
	}
	o.busy[key] = true
	res := o.own1(site, p, depth)
	delete(o.busy, key)
	o.memo[key] = res
	return res
}

func (o *ownProver) own1(site ssa.Instruction, p ssa.Value, depth int) bool {
	// direct: created here, on the success side
	for _, ev := range o.succeededAt(site) {
		if o.samePathAt(ev, p) {
			return true
		}
	}
	// guard: a condition known true here implies ownership
	for _, f := range factsAt(site) {
		v, val := f.Cond, f.Val
		for {
			u, ok := v.(*ssa.UnOp)
			if !ok || u.Op != token.NOT {
				break
			}
			v, val = u.X, !val
		}
		if val && o.implies(v, site, p, depth+1) {
			return true
		}
	}
	// lift: every activation of this function starts at a place that owns the path
	fn := site.Parent()
	if fn.Synthetic != "" {
		return false
	}
	u := o.fnUses(fn)
	if !u.complete {
		if o.isEntry(fn) {
			o.chainNote("nothing in " + safeFname(fn) + ", which anybody may call, shows that the file was created by this call")
		} else {
			o.chainNote("the callers of " + safeFname(fn) + " cannot be enumerated (the function value is stored or handed to a library)")
		}
		return false
	}
	if fn.Parent() != nil || len(u.creations) > 0 {
		// a function value that never leaves the operation's locals: made after the create means called after the create
		all := len(u.creations) > 0
		for _, cr := range u.creations {
			if !o.own(cr, p, depth+1) {
				all = false
				break
			}
		}
		if all {
			return true
		}
	}
	if len(u.calls) == 0 {
		return false
	}
	for _, oc := range u.calls {
		q := p
		if par, ok := peel(p).(*ssa.Parameter); ok && par.Parent() == fn {
			q = actual(oc, paramIndex(par))
		}
		if !o.own(oc.cs, q, depth+1) {
			o.chainNote("not established at the call of " + safeFname(fn) + " at " + o.c.w.ipos(oc.cs))
			return false
		}
	}
	return true
}

func isConstTrue(v ssa.Value) bool {
	b, ok := constBool(v)
	return ok && b
}

// implies: "v is true at site" implies own(site, p). v is a bool value that is live at site.
func (o *ownProver) implies(v ssa.Value, site ssa.Instruction, p ssa.Value, depth int) bool {
	if depth > 10 {
		return false
	}
	switch x := v.(type) {
	case *ssa.Const:
		b, ok := constBool(x)
		return ok && !b // false implies everything; a constant true is decided where it is passed (own of that place)
	case *ssa.Phi:
		// `a && flag` is phi[false, flag]: every incoming value must imply it
		for _, e := range x.Edges {
			if !o.implies(e, site, p, depth+1) {
				return false
			}
		}
		return len(x.Edges) > 0
	case *ssa.UnOp:
		if x.Op != token.MUL {
			return false
		}
		if fa, ok := x.X.(*ssa.FieldAddr); ok {
			return o.flagGuard(fa, site, p, depth)
		}
		if cell, ok := peelCell(x.X).(*ssa.Alloc); ok {
			return o.cellFlagGuard(cell, p)
		}
		return false
	case *ssa.Parameter:
		fn := x.Parent()
		k := paramIndex(x)
		u := o.fnUses(fn)
		if !u.complete || k < 0 {
			return false
		}
		if len(u.creations) > 0 {
			all := true
			for _, cr := range u.creations {
				if !o.own(cr, p, depth+1) {
					all = false
					break
				}
			}
			if all {
				return true
			}
		}
		if len(u.calls) == 0 {
			return false
		}
		for _, oc := range u.calls {
			a := actual(oc, k)
			if a == nil {
				return false
			}
			q := p
			if par, ok := peel(p).(*ssa.Parameter); ok && par.Parent() == fn {
				q = actual(oc, paramIndex(par))
			}
			if isConstTrue(a) {
				if !o.own(oc.cs, q, depth+1) {
					o.note("the removal is requested unconditionally at " + o.c.w.ipos(oc.cs) + ", where the file need not have been created by this operation")
					return false
				}
				continue
			}
			if !o.implies(a, oc.cs, q, depth+1) && !o.own(oc.cs, q, depth+1) {
				o.note("the condition passed at " + o.c.w.ipos(oc.cs) + " does not say that this operation created the file")
				return false
			}
		}
		return true
	case *ssa.Call, *ssa.Extract:
		idx := 0
		var call *ssa.Call
		if e, ok := x.(*ssa.Extract); ok {
			c, isCall := e.Tuple.(*ssa.Call)
			if !isCall {
				return false
			}
			call, idx = c, e.Index
		} else {
			call = x.(*ssa.Call)
		}
		if call.Call.IsInvoke() {
			return false
		}
		var fns []*ssa.Function
		if g := calleeFunc(&call.Call); g != nil {
			fns = []*ssa.Function{g}
		} else {
			var ok bool
			if fns, ok = o.funcOrigins(call.Call.Value, 0); !ok {
				o.note("the function value called at " + o.c.w.ipos(call) + " cannot be resolved")
				return false
			}
		}
		n := 0
		for _, g := range fns {
			if g == nil || g.Blocks == nil || !o.inMod(g) {
				return false
			}
			okAll := true
			allInstrs(g, func(i ssa.Instruction) {
				ret, isRet := i.(*ssa.Return)
				if !isRet || isRecoverBlockReturn(ret) || idx >= len(ret.Results) || !okAll {
					return
				}
				n++
				rv := retVals(ret)[idx]
				if isConstTrue(rv) {
					okAll = o.own(ret, p, depth+1)
					return
				}
				okAll = o.implies(rv, ret, p, depth+1)
			})
			if !okAll {
				o.note(safeFname(g) + " can report true without this operation having created the file")
				return false
			}
		}
		return n > 0
	}
	return false
}

// flagGuard: the condition is the ownership flag loaded through fa. Sound when (flag) the flag is only ever set after a
// successful exclusive create of a path of the right class and of the same object, (fresh) the object holding it was
// allocated during this operation, so that it was false when the operation began, and (same object) a path that lives
// next to the flag is taken from the object the flag is taken from.
func (o *ownProver) flagGuard(fa *ssa.FieldAddr, site ssa.Instruction, p ssa.Value, depth int) bool {
	F := fieldOf(fa.X.Type(), fa.Field)
	if F == nil {
		return false
	}
	if b, ok := F.Type().Underlying().(*types.Basic); !ok || b.Kind() != types.Bool {
		return false
	}
	fi := o.flag(F)
	if !fi.ok {
		o.note("`" + F.Name() + "` is not an ownership flag: " + fi.why)
		return false
	}
	pk := o.pathKey(p)
	for _, ev := range fi.events {
		if o.pathKey(ev.path) != pk {
			o.note("`" + F.Name() + "` records the creation of another path (" + o.c.w.ipos(ev.call) + ")")
			return false
		}
	}
	if pf := strField(p); pf != nil && structHas(fi.owner, pf) && !sameRootObj(p, fa.X) {
		o.note("`" + F.Name() + "` and the path are taken from different objects")
		return false
	}
	if ok, why := o.fresh(fa.X, 0); !ok {
		o.note("the flag `" + F.Name() + "` tested at " + o.c.w.ipos(site) + " does not belong to this call: " + why + "; what an earlier call stored in it still counts as ownership")
		return false
	}
	return true
}

// cellFlagGuard: the condition is a local bool variable (possibly captured by the hook literal and the cleanup
// closure). A local variable is new and false in every activation of its function, so only its assignments matter:
// each must be `false`, or `true` at a place where an exclusive create of the path is known to have succeeded.
func (o *ownProver) cellFlagGuard(cell *ssa.Alloc, p ssa.Value) bool {
	if b, ok := cell.Type().Underlying().(*types.Pointer).Elem().Underlying().(*types.Basic); !ok || b.Kind() != types.Bool {
		return false
	}
	name := cell.Comment
	stores, esc := cellStores(cell)
	if esc {
		o.note("the address of the flag variable `" + name + "` escapes")
		return false
	}
	nTrue := 0
	for _, st := range stores {
		b, isConst := constBool(st.Val)
		if isConst && !b {
			continue
		}
		if !isConst {
			o.note("the flag variable `" + name + "` is assigned a computed value at " + o.c.w.ipos(st))
			return false
		}
		found := false
		for _, ev := range o.succeededAt(st) {
			if o.samePathAt(ev, p) {
				found = true
			}
		}
		if !found {
			o.note("the flag variable `" + name + "` is set at " + o.c.w.ipos(st) + " where no exclusive create of the path is known to have succeeded")
			return false
		}
		nTrue++
	}
	return nTrue > 0
}

func structHas(st *types.Struct, f *types.Var) bool {
	if st == nil {
		return false
	}
	for k := 0; k < st.NumFields(); k++ {
		if st.Field(k) == f {
			return true
		}
	}
	return false
}

func typeContains(t types.Type, st *types.Struct, depth int) bool {
	if depth > 4 {
		return false
	}
	switch u := t.Underlying().(type) {
	case *types.Struct:
		if u == st {
			return true
		}
		for k := 0; k < u.NumFields(); k++ {
			if typeContains(u.Field(k).Type(), st, depth+1) {
				return true
			}
		}
	case *types.Array:
		return typeContains(u.Elem(), st, depth+1)
	}
	return false
}

// flag summarises every write to the bool field F in the module.
func (o *ownProver) flag(F *types.Var) *flagInfo {
	if fi, ok := o.flags[F]; ok {
		return fi
	}
	fi := &flagInfo{ok: true}
	o.flags[F] = fi
	bad := func(s string) {
		if fi.ok {
			fi.ok, fi.why = false, s
		}
	}
	pathFields := map[*types.Var]bool{}
	nTrue := 0
	for _, fa := range o.fieldAddrs[F] {
		if fi.owner == nil {
			t := fa.X.Type()
			if pt, ok := t.Underlying().(*types.Pointer); ok {
				t = pt.Elem()
			}
			fi.owner, _ = t.Underlying().(*types.Struct)
		}
		for _, r := range referrers(fa) {
			switch x := r.(type) {
			case *ssa.UnOp, *ssa.DebugRef:
			case *ssa.Store:
				if x.Addr != ssa.Value(fa) {
					bad("its address is stored at " + o.c.w.ipos(x))
					continue
				}
				b, isConst := constBool(x.Val)
				if isConst && !b {
					continue
				}
				if !isConst {
					bad("it is assigned a computed value at " + o.c.w.ipos(x))
					continue
				}
				evs := o.succeededAt(x)
				if len(evs) == 0 {
					bad("it is set at " + o.c.w.ipos(x) + " where no exclusive create of this function is known to have succeeded")
					continue
				}
				nTrue++
				for _, ev := range evs {
					if pf := strField(ev.path); pf != nil && structHas(fi.owner, pf) {
						if !sameRootObj(ev.path, fa.X) {
							bad("it is set at " + o.c.w.ipos(x) + " in another object than the one whose path was created")
						}
						pathFields[pf] = true
					}
					fi.events = append(fi.events, ev)
				}
			default:
				bad("its address escapes at " + o.c.w.ipos(r))
			}
		}
	}
	if fi.owner == nil || nTrue == 0 {
		bad("it is never set after an exclusive create")
		return fi
	}
	// a copy of the struct carries a set flag into another object
	for _, st := range o.structSt {
		if typeContains(st.Val.Type(), fi.owner, 0) {
			if k, ok := st.Val.(*ssa.Const); ok && k.Value == nil {
				continue
			}
			bad("the struct holding it is copied at " + o.c.w.ipos(st))
		}
	}
	// the path next to the flag is written only while its object is being built
	for pf := range pathFields {
		for _, fa := range o.fieldAddrs[pf] {
			for _, r := range referrers(fa) {
				st, ok := r.(*ssa.Store)
				if !ok {
					if _, isLoad := r.(*ssa.UnOp); !isLoad {
						if _, isDbg := r.(*ssa.DebugRef); !isDbg {
							bad("the address of the path field `" + pf.Name() + "` escapes at " + o.c.w.ipos(r))
						}
					}
					continue
				}
				root, isAlloc := peel(path(fa.X).Root).(*ssa.Alloc)
				if st.Addr != ssa.Value(fa) || !isAlloc || root.Parent() != st.Parent() {
					bad("the path field `" + pf.Name() + "` is reassigned at " + o.c.w.ipos(st))
				}
			}
		}
	}
	return fi
}

// fresh: the object v points to was allocated during the current operation (below an API entry point's activation),
// on every way v can get its value.
func (o *ownProver) fresh(v ssa.Value, depth int) (bool, string) {
	if depth > 8 {
		return false, "its origin is too far away to follow"
	}
	v = peel(v)
	if o.freshBusy[v] {
		return true, "" // a cycle adds no new origin
	}
	o.freshBusy[v] = true
	defer delete(o.freshBusy, v)
	all := func(vals []ssa.Value) (bool, string) {
		if len(vals) == 0 {
			return false, "no origin found"
		}
		for _, e := range vals {
			if ok, why := o.fresh(e, depth+1); !ok {
				return false, why
			}
		}
		return true, ""
	}
	switch x := v.(type) {
	case *ssa.Alloc:
		if _, isStruct := x.Type().Underlying().(*types.Pointer).Elem().Underlying().(*types.Struct); isStruct {
			return true, ""
		}
		return false, "it is not an object allocated here"
	case *ssa.MakeInterface:
		return o.fresh(x.X, depth+1)
	case *ssa.ChangeInterface:
		return o.fresh(x.X, depth+1)
	case *ssa.FieldAddr:
		// a struct embedded by value is part of its fresh parent
		return o.fresh(x.X, depth+1)
	case *ssa.Phi:
		return all(x.Edges)
	case *ssa.UnOp:
		if x.Op == token.MUL {
			if vals, ok := cellValues(x.X); ok {
				return all(vals)
			}
		}
		return false, "it is loaded from memory that outlives the call (" + o.c.w.ipos(x) + ")"
	case *ssa.Call, *ssa.Extract:
		if _, _, vals, ok := resultOrigins(o.c.w, v); ok {
			return all(vals)
		}
		return false, "it is the result of a call that cannot be followed"
	case *ssa.Parameter:
		fn := x.Parent()
		if o.isEntry(fn) {
			return false, "it is reached from parameter `" + x.Name() + "` of " + safeFname(fn) + ", an object that exists across calls"
		}
		u := o.fnUses(fn)
		k := paramIndex(x)
		if !u.complete || len(u.calls) == 0 || k < 0 {
			return false, "the callers of " + safeFname(fn) + " cannot be enumerated"
		}
		var vals []ssa.Value
		for _, oc := range u.calls {
			a := actual(oc, k)
			if a == nil {
				return false, "the callers of " + safeFname(fn) + " cannot be enumerated"
			}
			vals = append(vals, a)
		}
		return all(vals)
	case *ssa.Global:
		return false, "it is a package-level variable"
	}
	return false, "its origin cannot be followed"
}

// ---------- OpenFile hooks that wrap the openfile hook ----------

// hookWrapper recognises an OpenFile hook that is not the result of openfile.OpenFile itself but a function of the
// module around it — a function literal or a method value (`out.open`) that calls h := openfile.OpenFile(Options{…})
// with constant options and records something about the outcome (the ownership flag of rules_ag21.go). For the census
// (C16.opensites) and for noclobber such a hook opens the file exactly like h when
//   - the only calls in it are openfile.OpenFile and one call of its result,
//   - that call passes the hook's own flags and mode on, and opens the name the hook is given or the very path that
//     the bbolt.Open call at hand is given (same field of the same object: `out.path` with the hook `out.open`),
//   - the file it returns is, on every return, h's file or nil.
//
// It returns the constant options of the inner openfile.OpenFile; anything else is not a wrapper (the site is then
// reported as having no recognisable hook, as before).
func hookWrapper(c *Ctx, v ssa.Value, openPath ssa.Value) (exists, notExists *bool, ok bool) {
	var w *ssa.Function
	var recv ssa.Value
	switch x := peel(v).(type) {
	case *ssa.MakeClosure:
		w, _ = x.Fn.(*ssa.Function)
		if t := boundTarget(w); t != nil && len(x.Bindings) == 1 {
			w, recv = t, x.Bindings[0]
		}
	case *ssa.Function:
		w = x
	}
	if w == nil || w.Blocks == nil || w.Synthetic != "" || !c.w.inModule(w) || c.a.OpenFileFn == nil {
		return nil, nil, false
	}
	off := 0
	if recv != nil {
		off = 1
	}
	if len(w.Params) != off+3 {
		return nil, nil, false
	}
	var hcall *ssa.Call
	good := true
	allInstrs(w, func(i ssa.Instruction) {
		cc := callCommon(i)
		if cc == nil {
			return
		}
		call, isCall := i.(*ssa.Call)
		if !isCall {
			good = false // defer / go
			return
		}
		if calleeFunc(cc) == c.a.OpenFileFn {
			return
		}
		if hc, isHook := peel(cc.Value).(*ssa.Call); isHook && !cc.IsInvoke() && calleeFunc(&hc.Call) == c.a.OpenFileFn && hcall == nil && len(cc.Args) == 3 {
			hcall = call
			exists, notExists = openfileOptions(hc.Call.Args[0])
			return
		}
		good = false // anything else the hook does is not followed
	})
	if !good || hcall == nil || exists == nil || notExists == nil {
		return nil, nil, false
	}
	if hcall.Call.Args[1] != ssa.Value(w.Params[off+1]) || hcall.Call.Args[2] != ssa.Value(w.Params[off+2]) {
		return nil, nil, false
	}
	if p := hcall.Call.Args[0]; p != ssa.Value(w.Params[off]) {
		pf := strField(p)
		if pf == nil || pf != strField(openPath) {
			return nil, nil, false
		}
		if recv != nil {
			// the method opens a field of its receiver; the receiver bound here is the object whose field bbolt.Open is given
			if spilledParam(path(p).Root) != ssa.Value(w.Params[0]) || !sameRootObj(recv, openPath) {
				return nil, nil, false
			}
		} else if !sameRootObj(p, openPath) {
			return nil, nil, false
		}
	}
	file := resultValue(hcall, 0)
	allInstrs(w, func(i ssa.Instruction) {
		ret, isRet := i.(*ssa.Return)
		if !isRet || isRecoverBlockReturn(ret) {
			return
		}
		rv := retVals(ret)
		if len(rv) != 2 || (!isNilConst(rv[0]) && rv[0] != file) {
			good = false
		}
	})
	if !good {
		return nil, nil, false
	}
	return exists, notExists, true
}
