package main

import (
	"fmt"
	"go/token"
	"go/types"
	"sort"
	"strings"

	"golang.org/x/tools/go/ssa"
)

func init() {
	register(&propDef{
		id:  "C06",
		run: runC06,
		explanation: "Decided (structural, for every crash point at transaction-commit granularity): " +
			"C06.headerlast — in every function that writes the data bucket (in-memory writer and big writer alike), no path leads from a put of the schema or of the row counter through a Commit to a put of a bitmap, no Commit lies between the two header puts, and every successful return has passed both header puts and a Commit after them; so every committed prefix of a creation lacks the schema key. A header put made only under a condition of the flush function (the last chunk's DB.Update callback, a trailer appended to the last batch) is followed on the executions on which the condition held, and counts as 'passed' only where the condition is known to have held. Entries that are first encoded into a list of (key, value) structs and stored by a helper with Put(e.key, e.value) are followed through the list (append order, literals, re-slices, chunks `l[:n]` / `l = l[n:]`, a sort over entries of one kind only); a list whose order cannot be established — notably one that is sorted after the schema / row counter entries were added — is reported; " +
			"C06.openvalidate — the open function guards the data bucket against nil before using it (a later step of a split open function needs no check of its own if every call path from the open function to it passes the success of the step that found the bucket non-nil), guards the length of the row-counter item (and of every byte slice it decodes with encoding/binary) before decoding, indexes or re-slices (constant bound) a byte slice that comes from the file — Bucket.Get result, cursor key/value, also as a helper's parameter or result — only under a dominating length test, and propagates the schema decode error; hence a file without schema (every committed prefix) is rejected with an error, never a panic; " +
			"C06.release — the rejection neither hangs the next open nor panics: every failing return of the open function has closed the database handle (a close through the index counts only where the handle has been stored into the index on every path to it; or every caller in the module closes the handle it passed), and no caller calls a receiver-dereferencing method on the nil *Index result of a failed open (= C15.release). " +
			"NOT decided: bbolt's per-transaction atomicity and meta-page validation (trusted); SIGKILL below transaction granularity (bbolt's business); equality of answers of a completely written index (C05).",
		assumptions: []string{"bbolt transactions are atomic and durable at Commit", "gob decoding of an absent/empty schema item fails", "go/ssa CFG"},
	})
	register(&propDef{
		id:  "C15",
		run: runC15,
		explanation: "Decided (structural, for every damaged file and open/close sequence): " +
			"C15.nocreate — OpenIndex opens the file through an openfile hook that clears O_CREATE (constant option evaluated through OpenFile's branches; flag arithmetic of the returned hook); " +
			"C15.validate — nil data bucket (tested where it is used, or — for a step of a split open function such as attach/preloadValues after loadMeta — established before: every call path from the open function to the using function passes, on the caller's CFG, the nil-error edge of a call whose callee, judged by its own returns, succeeds only after it has found the same bucket non-nil), row-counter length, bitmap-key length, the length of every file item before it is indexed or re-sliced, and schema/bitmap decode errors are guarded resp. propagated in everything reachable from the open functions and options (= C06.openvalidate); " +
			"C15.release — every return of the open function with a non-nil error has passed a Close of the database handle on every path (directly, through the index under construction — which counts only if the handle has been stored into the index's database field on every path to that close, directly or in a helper that stores it on all of its paths: Index.Close on an index that does not hold the database yet releases nothing —, in a helper whose parameter is bound to the handle and that closes on all of its paths, or in a deferred close-on-error literal) — or else every caller in the module closes the handle it passed on every path on which the open function failed; no caller calls a receiver-dereferencing method on the *Index result while the error is known to be non-nil (the result is nil then: the release panics and the file stays locked); and OpenIndex hands the handle to the open function or closes it on every path after a successful bbolt.Open; " +
			"C15.closeidem — Index.Close calls DB.Close only on a handle known to be non-nil and stores nil into the handle field on that path, so a second Close is a no-op; C15.txend — every transaction begun explicitly (DB.Begin) in code reachable from the open functions and options is rolled back or committed on every path after the successful Begin (a leaked transaction makes the db.Close() of a failing open wait forever); " +
			"C15.lockbalance — in every function reachable from the open functions, the options and Index.Close, a mutex field the function acquires is released (directly, or by a deferred unlock registered on that path) on every path to every return, so a repeated Close or a failed open never leaves the index mutex locked for the next call. " +
			"NOT decided: which byte patterns make gob/roaring decoding fail, and that roaring's FromBuffer never panics on arbitrary bytes (trusted); panics inside bbolt itself on structurally invalid files.",
		assumptions: []string{"bbolt.DB.Close releases the flock", "roaring FromBuffer / gob Decode return errors rather than panic on malformed input", "go/ssa CFG, dominance"},
	})
}

func isGlobalLoad(v ssa.Value, g *ssa.Global) bool {
	if g == nil {
		return false
	}
	u, ok := v.(*ssa.UnOp)
	return ok && u.Op == token.MUL && u.X == ssa.Value(g)
}

// keyKind classifies the key argument of a bucket Put/Get/Seek: "schema", "rows", "value", or "".
func keyKind(c *Ctx, key ssa.Value) string {
	key = peel(key)
	switch {
	case isGlobalLoad(key, c.a.KeySchema):
		return "schema"
	case isGlobalLoad(key, c.a.KeyRows):
		return "rows"
	case isGlobalLoad(key, c.a.KeyValue):
		return "value-prefix"
	}
	if call, ok := key.(*ssa.Call); ok {
		if b, ok := call.Call.Value.(*ssa.Builtin); ok && b.Name() == "append" && isGlobalLoad(peel(call.Call.Args[0]), c.a.KeyValue) {
			return "value"
		}
		// binary.BigEndian.AppendUint64(append(empty, prefix...), idx), or with the prefix global itself as the base:
		// binary.BigEndian.AppendUint64(prefix, idx) (the same bytes as append(prefix, buf[:]...) above)
		if strings.HasSuffix(calleeName(&call.Call), ".AppendUint64") {
			if base := call.Call.Args[len(call.Call.Args)-2]; prefixedEmpty(c, base) || isGlobalLoad(peel(base), c.a.KeyValue) {
				return "value"
			}
		}
		// a helper that builds the key: every return is a bitmap key
		if _, _, vals, ok := resultOrigins(c.w, key); ok {
			all := true
			for _, rv := range vals {
				if keyKindDepth(c, rv, 1) != "value" {
					all = false
				}
			}
			if all {
				return "value"
			}
		}
	}
	// a phi of bitmap keys
	if phi, ok := key.(*ssa.Phi); ok {
		all := len(phi.Edges) > 0
		for _, e := range phi.Edges {
			if keyKind(c, e) != "value" {
				all = false
			}
		}
		if all {
			return "value"
		}
	}
	return ""
}

func keyKindDepth(c *Ctx, v ssa.Value, depth int) string {
	if depth > 2 {
		return ""
	}
	return keyKind(c, v)
}

// prefixedEmpty: v is append(x, keyPrefixValue...) where x is an empty slice (make with length 0 / nil).
func prefixedEmpty(c *Ctx, v ssa.Value) bool {
	call, ok := v.(*ssa.Call)
	if !ok {
		return false
	}
	b, ok := call.Call.Value.(*ssa.Builtin)
	if !ok || b.Name() != "append" || len(call.Call.Args) != 2 {
		return false
	}
	if !isGlobalLoad(peel(call.Call.Args[1]), c.a.KeyValue) {
		return false
	}
	switch x := call.Call.Args[0].(type) {
	case *ssa.Const:
		return x.IsNil()
	case *ssa.MakeSlice:
		k, ok := constInt(x.Len)
		return ok && k == 0
	case *ssa.Slice:
		// make([]byte, 0, constCap) is lowered to new [cap]byte; slice [:0]
		if _, isAlloc := x.X.(*ssa.Alloc); isAlloc && x.High != nil {
			k, ok := constInt(x.High)
			return ok && k == 0 && x.Low == nil
		}
	}
	return false
}

func runC06(c *Ctx) {
	if !c.need("C06.headerlast", c.a.MemWrite, c.a.BigFlush, c.a.KeySchema, c.a.KeyRows, c.a.KeyValue, c.a.OpenFromDB, c.a.OpenIndex, c.a.IndexClose, c.a.IndexT) {
		return
	}
	for _, fn := range []*ssa.Function{c.a.MemWrite, c.a.BigFlush} {
		headerLastRule(c, "C06.headerlast", fn)
	}
	txEndRule(c, "C06.txend", openReach(c))
	// who-may-write-the-header: the schema / row counter keys are written only by the flush functions (and helpers
	// reachable from them). A header written anywhere else (a constructor, an "initialise the file" step) is committed
	// before the bitmaps exist.
	flushReach := c.w.reach(c.a.MemWrite, c.a.BigFlush)
	flushMemo = map[*ssa.Function]map[string]bool{}
	nOut := 0
	for _, fn := range c.w.ModFuncs {
		if flushReach.Funcs[fn] {
			continue
		}
		allInstrs(fn, func(i ssa.Instruction) {
			cc := callCommon(i)
			if cc == nil || calleeName(cc) != boltPut {
				return
			}
			if k := keyKind(c, cc.Args[1]); k == "schema" || k == "rows" {
				nOut++
				c.r.bad("C06.headerwriters", safeFname(fn)+": "+k+" put", "the "+k+" key is written outside the flush functions: it reaches the file in a transaction that is committed before (or independently of) the bitmaps, so a crash leaves an openable index that misses data", []string{c.w.ipos(i)})
			}
		})
		// helpers shared with a flush function but also called from here
		allInstrs(fn, func(i ssa.Instruction) {
			cc := callCommon(i)
			if cc == nil {
				return
			}
			if f := calleeFunc(cc); f != nil && c.w.inModule(f) && flushReach.Funcs[f] && f != c.a.MemWrite && f != c.a.BigFlush {
				ev := funcFlushEvents(c, f, 3)
				if ev["schema"] || ev["rows"] {
					nOut++
					c.r.bad("C06.headerwriters", safeFname(fn)+": call "+safeFname(f), "a helper that writes the schema / row counter is called outside the flush functions", []string{c.w.ipos(i)})
				}
			}
		})
	}
	if nOut == 0 {
		c.r.ok("C06.headerwriters", "module", fmt.Sprintf("schema and row counter keys are written only in functions reachable from the %d flush functions", 2))
	}
	openValidateRule(c, "C06.openvalidate")
	// "opening never panics or hangs": a failing open that keeps the file locked makes the next open hang, a release
	// attempted through the nil result panics
	releaseRule(c, "C06.release")
	c.r.expect("C06.headerlast", 6)
	c.r.expect("C06.openvalidate", 5)
}

const boltPut = "(*go.etcd.io/bbolt.Bucket).Put"
const boltCommit = "(*go.etcd.io/bbolt.Tx).Commit"

// flushEvents classifies an instruction of a flush function: which of the events schema put / rows put / value put /
// commit it performs, directly or through a module function it calls (depth-limited summary).
func flushEvents(c *Ctx, i ssa.Instruction, depth int, undec *[]ssa.Instruction) map[string]bool {
	out := map[string]bool{}
	cc := callCommon(i)
	if cc == nil {
		return out
	}
	if _, isGo := i.(*ssa.Go); isGo {
		return out
	}
	switch calleeName(cc) {
	case boltPut:
		switch k := keyKind(c, cc.Args[1]); k {
		case "schema", "rows", "value":
			out[k] = true
		default:
			// Put(e.key, e.value) over an encoded entry list (rules_ag23.go): the kinds of the entries the list holds
			if kinds, isList := listPutKinds(c, i); isList {
				for k := range kinds {
					out[k] = true
				}
				if !kinds[""] {
					return out
				}
				delete(out, "")
			}
			if undec != nil {
				*undec = append(*undec, i)
			}
		}
		return out
	case boltCommit:
		out["commit"] = true
		return out
	case "(*go.etcd.io/bbolt.DB).Update", "(*go.etcd.io/bbolt.DB).Batch":
		// runs the callback in a transaction and commits it
		out["commit"] = true
		if len(cc.Args) > 1 && depth > 0 {
			var cb *ssa.Function
			switch v := cc.Args[1].(type) {
			case *ssa.MakeClosure:
				cb, _ = v.Fn.(*ssa.Function)
			case *ssa.Function:
				cb = v
			}
			if cb != nil {
				for k := range funcFlushEvents(c, cb, depth-1) {
					out[k] = true
				}
			}
		}
		return out
	}
	if f := calleeFunc(cc); f != nil && c.w.inModule(f) && f.Blocks != nil && depth > 0 {
		for k := range funcFlushEvents(c, f, depth-1) {
			out[k] = true
		}
	}
	return out
}

var flushMemo = map[*ssa.Function]map[string]bool{}

func funcFlushEvents(c *Ctx, f *ssa.Function, depth int) map[string]bool {
	if m, ok := flushMemo[f]; ok {
		return m
	}
	flushMemo[f] = map[string]bool{} // recursion guard
	out := map[string]bool{}
	allInstrs(f, func(i ssa.Instruction) {
		for k := range flushEvents(c, i, depth, nil) {
			out[k] = true
		}
	})
	flushMemo[f] = out
	return out
}

func headerLastRule(c *Ctx, rule string, fn *ssa.Function) {
	flushMemo = map[*ssa.Function]map[string]bool{}
	listTops = map[*ssa.Call]*entList{}
	headerLastRule1(c, rule, fn, map[*ssa.Function]bool{})
}

func headerLastRule1(c *Ctx, rule string, fn *ssa.Function, done map[*ssa.Function]bool) {
	if done[fn] {
		return
	}
	done[fn] = true
	name := safeFname(fn)
	var hdr = map[string][]ssa.Instruction{}
	var vals, commits, undec []ssa.Instruction
	var helpers []*ssa.Function
	allInstrs(fn, func(i ssa.Instruction) {
		ev := flushEvents(c, i, 3, &undec)
		if len(ev) == 0 {
			return
		}
		for _, k := range []string{"schema", "rows"} {
			if ev[k] {
				hdr[k] = append(hdr[k], i)
			}
		}
		if ev["value"] {
			vals = append(vals, i)
		}
		if ev["commit"] {
			commits = append(commits, i)
		}
		// a helper that itself performs several kinds of events is checked on its own as well
		if cc := callCommon(i); cc != nil {
			if f := calleeFunc(cc); f != nil && c.w.inModule(f) && len(ev) >= 2 {
				helpers = append(helpers, f)
			}
		}
	})
	// an encoded entry list that cannot be followed (rules_ag23.go): say why; what the list holds is unknown, so the
	// consequences ("never writes the schema key") are not reported on top of it
	if len(listTops) > 0 && len(done) == 1 {
		var calls []*ssa.Call
		for call := range listTops {
			calls = append(calls, call)
		}
		sort.Slice(calls, func(i, j int) bool { return calls[i].Pos() < calls[j].Pos() })
		for _, call := range calls {
			l := listTops[call]
			sites := []string{c.w.ipos(call)}
			if l.at != nil {
				sites = []string{c.w.ipos(l.at), c.w.ipos(call)}
			}
			who := "the entries that " + safeFname(call.Parent()) + " stores with Put(e.key, e.value) "
			if l.defect {
				c.r.bad(rule, name+": entry list", who+"do not reach the file with the schema and the row counter last, so a crash after an early commit leaves a file that opens as an index and silently misses bitmaps: "+l.why, sites)
			} else {
				c.r.undecided(rule, name+": entry list", who+"come from a list whose order the rule cannot establish, so it is not shown that the schema and the row counter are written last: "+l.why, sites...)
			}
		}
		return
	}
	for _, u := range undec {
		if call, ok := u.(*ssa.Call); ok && listTops[call] != nil {
			continue
		}
		c.r.undecided(rule, name+": put", "a Put into the data bucket whose key the rule cannot classify as schema, row counter or bitmap", c.w.ipos(u))
	}
	defer func() {
		for _, h := range helpers {
			ev := funcFlushEvents(c, h, 3)
			if ev["value"] && (ev["schema"] || ev["rows"]) {
				headerLastRule1(c, rule, h, done)
			}
		}
	}()
	site := c.w.pos(fn.Pos())
	for _, k := range []string{"schema", "rows"} {
		if len(hdr[k]) == 0 {
			c.r.bad(rule, name+": "+k+" put", "the function never writes the "+k+" key", []string{site})
		}
	}
	if len(vals) == 0 {
		c.r.undecided(rule, name+": value put", "no bitmap Put found", site)
		return
	}
	inList := func(l []ssa.Instruction) func(ssa.Instruction) bool {
		return func(i ssa.Instruction) bool {
			for _, x := range l {
				if x == i {
					return true
				}
			}
			return false
		}
	}
	var allHdr []ssa.Instruction
	allHdr = append(allHdr, hdr["schema"]...)
	allHdr = append(allHdr, hdr["rows"]...)
	// (1) header put -> Commit -> value put
	// Two refinements (rules_ag23.go). A carrier that puts the header only under a condition g of this function and
	// commits it itself (the callback of DB.Update writes it `if isLast`; the batch gets the trailer `if last`): the
	// search follows only executions in which g held at the carrier. A consumer that is handed consecutive chunks of
	// one list in which no bitmap follows a header entry: a later chunk holds only entries that come later in the list,
	// so the consumer's own next call is no bitmap put after the header.
	kindsOf := func(h ssa.Instruction) []string {
		var ks []string
		for _, k := range []string{"schema", "rows"} {
			if inList(hdr[k])(h) {
				ks = append(ks, k)
			}
		}
		return ks
	}
	chunks := map[ssa.Instruction]*chunkInfo{}
	for _, h := range allHdr {
		if _, seen := chunks[h]; !seen {
			chunks[h] = c.chunkOf(fn, h)
		}
	}
	ok1 := true
	for _, h := range allHdr {
		targets := vals
		if ch := chunks[h]; ch != nil && c.headerLast(ch.init, ch.fk) {
			targets = nil
			for _, v := range vals {
				if v != h {
					targets = append(targets, v)
				}
			}
		}
		for _, cm := range commits {
			if h != cm && !c.fc.reachableFrom(fn, h, cm) {
				continue
			}
			var p []ssa.Instruction
			guarded := false
			if h == cm {
				var g ssa.Value
				pol := false
				guarded = true
				for _, k := range kindsOf(h) {
					cr := c.hdrCarryOf(fn, h, k, 3)
					if !cr.onlyIf || cr.g == nil || (g != nil && (g != cr.g || pol != cr.pol)) {
						guarded = false
						break
					}
					g, pol = cr.g, cr.pol
				}
				if guarded {
					p = c.guardedPath(fn, cm, inList(targets), g, pol)
				}
			}
			if !guarded {
				p = c.fc.pathAvoiding(fn, cm, inList(targets), nil)
			}
			if p != nil {
				ok1 = false
				c.r.bad(rule, name+": header before bitmaps", "a transaction containing the schema/row counter can be committed before all bitmaps are written: a crash after that commit leaves a file that opens as an index and silently misses bitmaps",
					[]string{c.w.ipos(h)}, append([]string{c.w.ipos(h), c.w.ipos(cm)}, c.fc.witnessStrings(p)...)...)
				break
			}
		}
		if !ok1 {
			break
		}
	}
	if ok1 {
		c.r.ok(rule, name+": header before bitmaps", fmt.Sprintf("no path header put -> Commit -> bitmap put (%d header puts, %d commits, %d bitmap puts)", len(allHdr), len(commits), len(vals)), site)
	}
	// (2) no commit between the two header puts
	ok2 := true
	for _, a := range allHdr {
		for _, b := range allHdr {
			if a == b {
				continue
			}
			for _, cm := range commits {
				if cm != a && cm != b && c.fc.reachableFrom(fn, a, cm) && c.fc.reachableFrom(fn, cm, b) {
					ok2 = false
					c.r.bad(rule, name+": header split", "a Commit lies between the put of the schema and the put of the row counter: a crash in between leaves a file with half a header", []string{c.w.ipos(cm)})
				}
			}
		}
	}
	// a consumer that is handed a list in chunks, each in a transaction of its own: the cut must not fall between the two
	for h, ch := range chunks {
		if ch == nil || !inList(hdr["schema"])(h) || !inList(hdr["rows"])(h) {
			continue
		}
		if t, fixed := c.trailerLen(ch.init, ch.fk); !fixed || !c.chunkKeepsTrailer(ch, t) {
			ok2 = false
			c.r.undecided(rule, name+": header split", "the entry list is written in chunks, a transaction each, and it is not shown that the schema and the row counter always fall into the same chunk: a crash between the two commits leaves a file with half a header", c.w.ipos(h))
		}
	}
	if ok2 {
		c.r.ok(rule, name+": header split", "schema and row counter are written in the same transaction", site)
	}
	// (3) every successful return has passed both header puts, and a Commit after them
	// (a carrier counts as a put of the key only if it puts it whenever it completes, see hdrCarry in rules_ag23.go; a
	// helper that merely stores the list it is handed is judged where it is called, with the list of that call)
	ok3 := true
	for _, k := range []string{"schema", "rows"} {
		byParam := len(done) > 1 && len(hdr[k]) > 0
		for _, h := range hdr[k] {
			if !c.hdrCarryOf(fn, h, k, 3).listParam {
				byParam = false
			}
		}
		if byParam {
			continue
		}
		if p := c.headerMissingPath(fn, k, 3, isSuccessReturn); p != nil {
			ok3 = false
			c.r.bad(rule, name+": complete", "a successful return is reachable without writing the "+k+" key", []string{c.w.ipos(p[len(p)-1])}, c.fc.witnessStrings(p)...)
		}
	}
	for _, h := range allHdr {
		if c.selfCommits(h, 3) {
			continue
		}
		if p := c.fc.pathAvoiding(fn, h, isSuccessReturn, inList(commits)); p != nil {
			ok3 = false
			c.r.bad(rule, name+": complete", "a successful return is reachable after the header put without a Commit", []string{c.w.ipos(h)}, c.fc.witnessStrings(p)...)
		}
	}
	if ok3 {
		c.r.ok(rule, name+": complete", "every successful return has passed both header puts and a later Commit", site)
	}
}

// openEntries: the open functions and all index options.
func openReach(c *Ctx) *Reach {
	return c.w.reach(c.a.OpenIndex, c.a.OpenFromDB, c.a.WithCache, c.a.WithPreloaded, c.a.WithMetrics)
}

func openValidateRule(c *Ctx, rule string) {
	re := openReach(c)
	// the open function, its closures and the helpers it calls directly (a header-reading helper, say)
	openScope := map[*ssa.Function]bool{}
	for _, f := range c.scope(c.a.OpenFromDB, 2) {
		openScope[f] = true
	}
	nBucket, nDecode := 0, 0
	for _, fn := range re.sorted() {
		name := safeFname(fn)
		allInstrs(fn, func(i ssa.Instruction) {
			call, ok := i.(*ssa.Call)
			if !ok {
				return
			}
			cname := calleeName(&call.Call)
			switch {
			case cname == "(*go.etcd.io/bbolt.Tx).Bucket" || cname == "(*go.etcd.io/bbolt.Bucket).Bucket":
				// every use of the bucket as receiver must be nil-guarded — in the function that first opens the file.
				// Once the open function has validated the bucket, later transactions on the same (exclusively locked) file find it.
				if !openScope[fn] {
					return
				}
				nBucket++
				uses := 0
				for _, u := range usesOf(call) {
					uc, ok := u.(*ssa.Call)
					if !ok || len(uc.Call.Args) == 0 || uc.Call.Args[0] != ssa.Value(call) {
						continue
					}
					uses++
					okmsg, badmsg := "bucket is known to be non-nil", "a method is called on the result of Bucket() without a nil check: a bbolt file without the data bucket (e.g. an output file whose creation died before the first commit) makes opening panic"
					guarded := c.fc.nonNilAt(call, uc)
					if !guarded && fn != c.a.OpenFromDB {
						// a later step of a split open function (`attach`, `preloadValues` after `loadMeta`): no check of its own is
						// needed if every call path from the open function to it passes the success of the step that found this
						// bucket non-nil. The step is judged by its own returns, the order on the caller's CFG.
						if est, why := bucketEstablishedBefore(c, c.a.OpenFromDB, openScope, call); est {
							guarded, okmsg = true, "no nil check here, but every call path from the open function to this function passes "+why+", which fails unless this bucket exists"
						} else {
							badmsg += " (nor does every call path from the open function to this function pass the success of a step that has found this bucket non-nil)"
						}
					}
					c.r.check(guarded, rule, fmt.Sprintf("%s: bucket use %s", name, shortName(calleeName(&uc.Call))), okmsg, badmsg, c.w.ipos(uc))
				}
				if uses == 0 {
					c.r.ok(rule, name+": bucket", "bucket not dereferenced here", c.w.ipos(i))
				}
			case strings.HasPrefix(cname, "(encoding/binary.bigEndian).Uint") || strings.HasPrefix(cname, "(encoding/binary.littleEndian).Uint"):
				nDecode++
				need := int64(0)
				switch {
				case strings.HasSuffix(cname, "Uint16"):
					need = 2
				case strings.HasSuffix(cname, "Uint32"):
					need = 4
				case strings.HasSuffix(cname, "Uint64"):
					need = 8
				}
				arg := call.Call.Args[len(call.Call.Args)-1]
				c.r.check(lenAtLeast(arg, need, call), rule, fmt.Sprintf("%s: decode %s", name, shortName(cname)), fmt.Sprintf("length >= %d is guaranteed by a dominating test", need),
					fmt.Sprintf("%d bytes are decoded from a slice read from the file without a dominating length test: a missing or short item makes opening panic with index out of range", need), c.w.ipos(call))
			case cname == "(*encoding/gob.Decoder).Decode" || cname == "(*github.com/RoaringBitmap/roaring.Bitmap).FromBuffer" || cname == "(*github.com/RoaringBitmap/roaring.Bitmap).UnmarshalBinary" || cname == "(*github.com/RoaringBitmap/roaring.Bitmap).ReadFrom" || cname == "(*github.com/RoaringBitmap/roaring.Bitmap).FromUnsafeBytes":
				nDecode++
				sig := call.Call.Signature().Results()
				ev := resultValue(call, sig.Len()-1)
				out := c.fc.errPropagated(fn, call, ev)
				if out.ok {
					c.r.ok(rule, fmt.Sprintf("%s: %s error", name, shortName(cname)), out.msg, c.w.ipos(call))
				} else {
					c.r.bad(rule, fmt.Sprintf("%s: %s error", name, shortName(cname)), "decode error not propagated while opening: "+out.msg, []string{c.w.ipos(out.site)}, c.fc.witnessStrings(out.witness)...)
				}
			case cname == "(*go.etcd.io/bbolt.DB).View":
				// the View callback's error must reach the caller
				sig := call.Call.Signature().Results()
				ev := resultValue(call, sig.Len()-1)
				out := c.fc.errPropagated(fn, call, ev)
				if out.ok {
					c.r.ok(rule, fmt.Sprintf("%s: View error", name), out.msg, c.w.ipos(call))
				} else {
					c.r.bad(rule, fmt.Sprintf("%s: View error", name), "validation error from the View callback is dropped: "+out.msg, []string{c.w.ipos(out.site)}, c.fc.witnessStrings(out.witness)...)
				}
			}
		})
	}
	if nBucket == 0 {
		c.r.undecided(rule, "bucket lookup", "the open function does not look up the data bucket", c.w.pos(c.a.OpenFromDB.Pos()))
	}
	c.r.Stats["open_decodes_checked"] = nDecode
	// direct indexing / re-slicing of items read from the file (a format byte in front of the schema, a key prefix)
	fileBytesBoundsRule(c, rule, re)
	// order: options run only after the file has been validated. The options' own transactions (preloading) rely on the
	// data bucket being there — that is why their Bucket() results need no nil check of their own (see above).
	optT := c.w.namedType(pkgRoot, "IndexOption")
	of := c.a.OpenFromDB
	isBucket := func(j ssa.Instruction) bool {
		call, ok := j.(*ssa.Call)
		return ok && calleeName(&call.Call) == "(*go.etcd.io/bbolt.Tx).Bucket"
	}
	isValidation := func(i ssa.Instruction) bool {
		call, ok := i.(*ssa.Call)
		if !ok {
			return false
		}
		if h := calleeFunc(&call.Call); h != nil && c.w.inModule(h) && h != of {
			hit := false
			instrsOf(c.scope(h, 2), func(j ssa.Instruction) {
				if isBucket(j) {
					hit = true
				}
			})
			if hit {
				return true
			}
		}
		for _, a := range call.Call.Args {
			var g *ssa.Function
			switch v := a.(type) {
			case *ssa.MakeClosure:
				g, _ = v.Fn.(*ssa.Function)
			case *ssa.Function:
				g = v
			}
			if g == nil {
				continue
			}
			for _, f := range c.scope(g, 1) {
				if c.fc.mayContain(f, isBucket, 1) {
					return true
				}
			}
			// a bound method value: look through the synthetic wrapper
			if g.Synthetic != "" {
				hit := false
				allInstrs(g, func(j ssa.Instruction) {
					if cc := callCommon(j); cc != nil {
						if h := calleeFunc(cc); h != nil && c.fc.mayContain(h, isBucket, 2) {
							hit = true
						}
					}
				})
				if hit {
					return true
				}
			}
		}
		return false
	}
	nOpt := 0
	if optT != nil {
		allInstrs(of, func(i ssa.Instruction) {
			call, ok := i.(*ssa.Call)
			if !ok || call.Call.IsInvoke() || calleeFunc(&call.Call) != nil || !types.Identical(call.Call.Value.Type(), optT) {
				return
			}
			nOpt++
			key := fmt.Sprintf("%s: option call#%d after validation", safeFname(of), nOpt)
			if p := c.fc.pathAvoiding(of, nil, func(x ssa.Instruction) bool { return x == i }, isValidation); p != nil {
				c.r.bad(rule, key, "an index option can run before the file has been validated: options that read the file (preloading) dereference the data bucket without a check of their own, so a bbolt file without that bucket makes opening panic instead of failing", []string{c.w.ipos(i)}, c.fc.witnessStrings(p)...)
			} else {
				c.r.ok(rule, key, "options run after the validating transaction", c.w.ipos(i))
			}
		})
	}
}

func runC15(c *Ctx) {
	if !c.need("C15.release", c.a.OpenIndex, c.a.OpenFromDB, c.a.IndexClose, c.a.OpenFileFn, c.a.IndexT) {
		return
	}
	// nocreate: the input site of OpenIndex
	decide, why := hookDecider(c)
	found := false
	for _, s := range boltOpenSites(c) {
		// OpenIndex's site, in OpenIndex itself or in a helper only it calls (classified by the census, boltOpenSites)
		if s.anchor != c.a.OpenIndex {
			continue
		}
		found = true
		pos := c.w.ipos(s.call)
		if decide == nil {
			c.r.undecided("C15.nocreate", "OpenIndex", why, pos)
			continue
		}
		if !s.hook || s.exists == nil {
			c.r.bad("C15.nocreate", "OpenIndex", "bbolt.Open without an openfile hook with constant options: bbolt's default creates a missing file", []string{pos})
			continue
		}
		d := decide(*s.exists, *s.notExists)
		c.r.check(d.kind == "nocreate", "C15.nocreate", "OpenIndex", "the file is opened without O_CREATE", "OpenIndex opens with a hook that does not clear O_CREATE ("+d.kind+"): opening a missing path creates it", pos)
	}
	if !found {
		c.r.undecided("C15.nocreate", "OpenIndex", "no bbolt.Open call in OpenIndex", c.w.pos(c.a.OpenIndex.Pos()))
	}
	openValidateRule(c, "C15.validate")
	releaseRule(c, "C15.release")
	closeIdemRule(c, "C15.closeidem")
	txEndRule(c, "C15.txend", openReach(c))
	// "Close may be called more than once" and everything after a failed open: nothing on the open/close path may return
	// with the index mutex (or any other mutex field it took) still locked
	lockBalanceRule(c, "C15.lockbalance", c.a.OpenIndex, c.a.OpenFromDB, c.a.WithCache, c.a.WithPreloaded, c.a.WithMetrics, c.a.IndexClose)
	c.r.expect("C15.validate", 5)
	c.r.expect("C15.release", 2)
}

// closesHandle: instruction i closes the database: DB.Close on a value satisfying isH, Index.Close on an index
// satisfying isH, or a call of a module helper (or function literal) that does one of these on every one of its paths,
// the helper's parameters being bound to the handle arguments of the call — `failOpen(db, err)` that closes db and
// returns `nil, err`. A helper that closes on some of its paths only is not a close (mustPass), so the defect "this
// failure path keeps the file locked" is found inside helpers as well. Deferred and `go` calls are not events here.
func closesHandle(c *Ctx, i ssa.Instruction, isH func(ssa.Value) bool, depth int) bool {
	call, ok := i.(*ssa.Call)
	if !ok {
		return false
	}
	cc := &call.Call
	if calleeName(cc) == boltDBClose {
		return isH(cc.Args[0])
	}
	f := calleeFunc(cc)
	if f == nil {
		return false
	}
	if f == c.a.IndexClose {
		return len(cc.Args) > 0 && isH(cc.Args[0])
	}
	if depth <= 0 || !c.w.inModule(f) || f.Blocks == nil {
		return false
	}
	bound := map[ssa.Value]bool{}
	for k, a := range cc.Args {
		if k < len(f.Params) && isH(a) {
			bound[f.Params[k]] = true
		}
	}
	// a function literal of the calling function sees the handle through its free variables (peel resolves them)
	lit := f.Parent() != nil && f.Parent() == i.Parent()
	if len(bound) == 0 && !lit {
		return false
	}
	inner := func(v ssa.Value) bool {
		if bound[peel(v)] {
			return true
		}
		// p.db of an index parameter bound to the index under construction
		if pt := path(v); len(pt.Steps) > 0 && bound[pt.Root] && isBoltDB(v.Type()) {
			if fld := pt.lastField(); fld != nil && c.w.ownerOf(fld) == c.a.IndexT {
				return true
			}
		}
		return lit && isH(v)
	}
	return c.fc.mustPass(f, func(j ssa.Instruction) bool { return closesHandle(c, j, inner, depth-1) }, 0)
}

const boltDBClose = "(*go.etcd.io/bbolt.DB).Close"

func isBoltDB(t types.Type) bool { return typeIs(t, "go.etcd.io/bbolt", "DB") }

// errNilEdge: the CFG edge pred→succ is taken only when the error value errv is nil (the success branch of
// `if err != nil`); errv may have gone through a result cell.
func errNilEdge(errv ssa.Value) func(pred, succ *ssa.BasicBlock) bool {
	return func(pred, succ *ssa.BasicBlock) bool {
		iff, ok := pred.Instrs[len(pred.Instrs)-1].(*ssa.If)
		if !ok || errv == nil || len(pred.Succs) != 2 {
			return false
		}
		for _, cm := range trueCmps(fact{iff.Cond, pred.Succs[0] == succ}) {
			if cm.Op == token.EQL && cm.Y != nil && ((lastStoredIs(cm.X, errv) && isNilConst(cm.Y)) || (lastStoredIs(cm.Y, errv) && isNilConst(cm.X))) {
				return true
			}
		}
		return false
	}
}

// errKnownNonNil: errv != nil follows from the branch facts that dominate `at`.
func errKnownNonNil(errv ssa.Value, at ssa.Instruction) bool {
	if errv == nil {
		return false
	}
	for _, cm := range cmpsAt(at) {
		if cm.Op == token.NEQ && cm.Y != nil && ((lastStoredIs(cm.X, errv) && isNilConst(cm.Y)) || (lastStoredIs(cm.Y, errv) && isNilConst(cm.X))) {
			return true
		}
	}
	return false
}

// derefsReceiverUnguarded: method m reads or writes through its pointer receiver at a point where the receiver is not
// known to be non-nil — calling it on a nil pointer panics (`if idx.db == nil` is such a read, not a guard).
func derefsReceiverUnguarded(m *ssa.Function) ssa.Instruction {
	if m == nil || m.Blocks == nil || m.Signature.Recv() == nil || len(m.Params) == 0 {
		return nil
	}
	recv := ssa.Value(m.Params[0])
	if _, isPtr := recv.Type().Underlying().(*types.Pointer); !isPtr {
		return nil
	}
	var hit ssa.Instruction
	allInstrs(m, func(i ssa.Instruction) {
		if hit != nil {
			return
		}
		switch x := i.(type) {
		case *ssa.FieldAddr:
			// the address computation itself does not fault; its use does
			if peel(x.X) != recv || knownNonNil(recv, i) {
				return
			}
			for _, u := range referrers(x) {
				switch u.(type) {
				case *ssa.UnOp, *ssa.Store:
					if !knownNonNil(recv, u) {
						hit = u
					}
				}
			}
		case *ssa.UnOp:
			if x.Op == token.MUL && x.X == recv && !knownNonNil(recv, i) {
				hit = i
			}
		}
	})
	return hit
}

// openFailResultNil: some error return of the open function returns the nil constant as its first result (directly or as
// the result of a helper such as failOpen whose returns do).
func openFailResultNil(c *Ctx, fn *ssa.Function) bool {
	found := false
	allInstrs(fn, func(i ssa.Instruction) {
		if !isErrorReturn(i) {
			return
		}
		v := retVals(i.(*ssa.Return))[0]
		if isNilConst(v) {
			found = true
			return
		}
		if _, _, vals, ok := resultOrigins(c.w, v); ok {
			for _, rv := range vals {
				if isNilConst(rv) {
					found = true
				}
			}
		}
	})
	return found
}

// releaseRule: (a) every return of the open function with a non-nil error has passed a Close of the database handle on
// every path (directly, through the index under construction — only where the handle has been stored into the index on
// every path to that close, setsIndexDB —, in a helper bound to the handle, or in a deferred close-on-error literal) — or, in the "who opened it closes it" design, every module caller of the open function closes
// the handle it passed on every path on which the open function's error is non-nil; (b) OpenIndex hands the handle to the
// open function or closes it on every path after a successful bbolt.Open; (c) a caller of the open function never
// calls, with the error known to be non-nil, a receiver-dereferencing method on the *Index result: that result is nil
// then, so the "release" panics and the file stays locked.
func releaseRule(c *Ctx, rule string) {
	// (a) the open function: every error return has passed a Close of the handle
	fn := c.a.OpenFromDB
	db := ssa.Value(fn.Params[0])
	idxT := c.a.IndexT
	isH := func(v ssa.Value) bool {
		if peel(v) == db {
			return true
		}
		// idx.db where idx is the index built here
		if isBoltDB(v.Type()) {
			f := path(v).lastField()
			return f != nil && c.w.ownerOf(f) == idxT
		}
		// the index built here (its db field is set from the handle)
		_, isPtr := v.Type().Underlying().(*types.Pointer)
		return isPtr && namedOf(v.Type()) == idxT
	}
	// A close through the index (Index.Close, idx.db.Close(), a helper that is given the index) releases the database
	// only if the index holds it: the handle has been stored into the index's database field on every path to the close
	// (in the composite literal, by `idx.db = db`, or in a helper that does so on all of its paths). `idx.Close()` after
	// a failed `attach(db)` that assigns idx.db last closes nothing — Index.Close is a no-op on an index without database.
	isDB := func(v ssa.Value) bool { return peel(v) == db }
	isSet := func(i ssa.Instruction) bool { return setsIndexDB(c, i, isDB, 2) }
	closeMemo := map[ssa.Instruction]bool{}
	var emptyCloses []ssa.Instruction
	isClose := func(i ssa.Instruction) bool {
		if d, isDefer := i.(*ssa.Defer); isDefer {
			return closesOnError(c, fn, d, db)
		}
		if _, isCall := i.(*ssa.Call); !isCall {
			return false
		}
		if v, done := closeMemo[i]; done {
			return v
		}
		v := closesHandle(c, i, isDB, 2)
		if !v && closesHandle(c, i, isH, 2) {
			if c.fc.pathAvoiding(fn, nil, func(x ssa.Instruction) bool { return x == i }, isSet) == nil {
				v = true
			} else {
				emptyCloses = append(emptyCloses, i)
			}
		}
		closeMemo[i] = v
		return v
	}
	// the callers of the open function inside the module
	type site struct {
		g    *ssa.Function
		call *ssa.Call
	}
	var sites []site
	for _, g := range c.w.ModFuncs {
		allInstrs(g, func(i ssa.Instruction) {
			if call, ok := i.(*ssa.Call); ok && calleeFunc(&call.Call) == fn && g != fn {
				sites = append(sites, site{g, call})
			}
		})
	}
	isRet := func(x ssa.Instruction) bool { _, r := x.(*ssa.Return); return r }
	callersClose := len(sites) > 0
	for _, s := range sites {
		arg := s.call.Call.Args[0]
		errv := resultValue(s.call, 1)
		isArg := func(v ssa.Value) bool { return sameValue(v, arg) }
		closeEv := func(i ssa.Instruction) bool { return closesHandle(c, i, isArg, 2) }
		if errv == nil || c.fc.pathFrom(s.g, s.call, isRet, closeEv, errNilEdge(errv)) != nil {
			callersClose = false
		}
	}
	n := 0
	allInstrs(fn, func(i ssa.Instruction) {
		if !isErrorReturn(i) {
			return
		}
		n++
		key := fmt.Sprintf("%s: error return#%d", safeFname(fn), n)
		if p := c.fc.pathAvoiding(fn, nil, func(x ssa.Instruction) bool { return x == i }, isClose); p != nil {
			if callersClose {
				c.r.ok(rule, key, fmt.Sprintf("not closed here, but each of the %d callers in the module closes the handle it passed on every path on which this function failed", len(sites)), c.w.ipos(i))
				return
			}
			msg := "the open function returns an error without closing the database on this path (and not every caller closes the handle itself when the open function fails): the file stays locked and the next open blocks"
			for _, e := range emptyCloses {
				if e.Block() == i.Block() || c.fc.reachableFrom(fn, e, i) {
					msg += "; the close through the index at " + c.w.ipos(e) + " does not count: on some path to it the database handle has not been stored into the index (the step that assigns it has failed or has not run), so there is no database in the index to close"
					break
				}
			}
			c.r.bad(rule, key, msg, []string{c.w.ipos(i)}, c.fc.witnessStrings(p)...)
		} else {
			c.r.ok(rule, key, "database closed on every path to this error return", c.w.ipos(i))
		}
	})
	if n == 0 {
		c.r.undecided(rule, safeFname(fn), "the open function has no error return", c.w.pos(fn.Pos()))
	}
	// (c) the failed open's *Index result is nil: no method that dereferences its receiver may be called on it
	if openFailResultNil(c, fn) {
		for k, s := range sites {
			res, errv := resultValue(s.call, 0), resultValue(s.call, 1)
			key := fmt.Sprintf("%s: use of the failed open's result#%d", safeFname(s.g), k+1)
			var badUse, deref ssa.Instruction
			if res != nil && errv != nil {
				allInstrs(s.g, func(i ssa.Instruction) {
					cc := callCommon(i)
					if cc == nil || badUse != nil || len(cc.Args) == 0 || !sameValue(cc.Args[0], res) || !errKnownNonNil(errv, i) || knownNonNil(res, i) {
						return
					}
					if m := calleeFunc(cc); m != nil && c.w.inModule(m) {
						if d := derefsReceiverUnguarded(m); d != nil {
							badUse, deref = i, d
						}
					}
				})
			}
			if badUse != nil {
				c.r.bad(rule, key, "with the open function's error known to be non-nil, "+safeFname(calleeFunc(callCommon(badUse)))+" is called on its *Index result, which is nil then, and the method dereferences its receiver: opening a rejected file panics with a nil pointer dereference instead of returning the error, and the database handle (the lock on the file) is never released — close the handle itself", []string{c.w.ipos(badUse)}, c.w.ipos(s.call), c.w.ipos(deref))
			} else {
				c.r.ok(rule, key, "no receiver-dereferencing method is called on the nil result of a failed open", c.w.ipos(s.call))
			}
		}
	}
	// (b) OpenIndex: after a successful bbolt.Open the handle goes to the open function or is closed
	oi := c.a.OpenIndex
	var openCall *ssa.Call
	allInstrs(oi, func(i ssa.Instruction) {
		if call, ok := i.(*ssa.Call); ok && calleeName(&call.Call) == "go.etcd.io/bbolt.Open" {
			openCall = call
		}
	})
	if openCall == nil {
		c.r.undecided(rule, safeFname(oi), "no bbolt.Open call", c.w.pos(oi.Pos()))
		return
	}
	openErr := resultValue(openCall, 1)
	opened := resultValue(openCall, 0)
	isOpened := func(v ssa.Value) bool { return opened != nil && sameValue(v, opened) }
	handOver := func(i ssa.Instruction) bool {
		cc := callCommon(i)
		if cc == nil {
			return false
		}
		if f := calleeFunc(cc); f == c.a.OpenFromDB {
			return true
		}
		return calleeName(cc) == boltDBClose || closesHandle(c, i, isOpened, 2)
	}
	target := func(i ssa.Instruction) bool {
		ret, ok := i.(*ssa.Return)
		if !ok {
			return false
		}
		// returns on the branch where bbolt.Open failed hold no handle
		for _, cm := range cmpsAt(ret) {
			if cm.Op == token.NEQ && cm.Y != nil && sameValue(cm.X, openErr) && isNilConst(cm.Y) {
				return false
			}
		}
		return true
	}
	if p := c.fc.pathAvoiding(oi, openCall, target, handOver); p != nil {
		c.r.bad(rule, safeFname(oi), "after a successful bbolt.Open, OpenIndex can return without handing the database to the open function or closing it", []string{c.w.ipos(p[len(p)-1])}, c.fc.witnessStrings(p)...)
	} else {
		c.r.ok(rule, safeFname(oi), "the handle is handed to the open function (which closes it on failure, or whose failure makes the caller close it) on every path", c.w.ipos(openCall))
	}
}

func closeIdemRule(c *Ctx, rule string) {
	fn := c.a.IndexClose
	name := safeFname(fn)
	var closes []*ssa.Call
	allInstrs(fn, func(i ssa.Instruction) {
		if call, ok := i.(*ssa.Call); ok && calleeName(&call.Call) == "(*go.etcd.io/bbolt.DB).Close" {
			closes = append(closes, call)
		}
	})
	if len(closes) == 0 {
		c.r.bad(rule, name, "Index.Close never closes the database: the file stays locked after Close", []string{c.w.pos(fn.Pos())})
		return
	}
	for k, cl := range closes {
		key := fmt.Sprintf("%s: DB.Close#%d", name, k+1)
		h := cl.Call.Args[0]
		fld := path(h).lastField()
		if !c.fc.nonNilAt(h, cl) {
			c.r.bad(rule, key, "DB.Close is called on a handle that is not known to be non-nil: a second Close of the index dereferences nil", []string{c.w.ipos(cl)})
			continue
		}
		// the handle field is set to nil on every path from the Close call to a return
		isNilStore := func(i ssa.Instruction) bool {
			st, ok := i.(*ssa.Store)
			if !ok || !isNilConst(st.Val) {
				return false
			}
			fa, ok := st.Addr.(*ssa.FieldAddr)
			return ok && fieldOf(fa.X.Type(), fa.Field) == fld
		}
		// also fine: the nil store happens before the Close (handle saved in a local first)
		storedBefore := false
		allInstrs(fn, func(i ssa.Instruction) {
			if isNilStore(i) && c.fc.reachableFrom(fn, i, cl) && i.Block().Dominates(cl.Block()) {
				storedBefore = true
			}
		})
		if !storedBefore {
			if p := c.fc.pathAvoiding(fn, cl, func(i ssa.Instruction) bool { _, ok := i.(*ssa.Return); return ok }, isNilStore); p != nil {
				c.r.bad(rule, key, "after closing the database the handle field is not reset on this path: a second Close closes a closed database / a later guard sees a stale handle", []string{c.w.ipos(cl)}, c.fc.witnessStrings(p)...)
				continue
			}
		}
		c.r.ok(rule, key, "guarded by a nil test of the handle; handle reset to nil", c.w.ipos(cl))
	}
}

// txEndRule: every transaction that code reachable from the given entry points begins explicitly (DB.Begin) is ended
// (Rollback or Commit, directly, deferred, or in a deferred closure on all of the closure's paths) on every path from the
// successful Begin to a return. bbolt's DB.Close waits for open transactions: a leaked read transaction makes the
// db.Close() of a failing open block forever, so the open neither returns nor releases the file. Managed transactions
// (DB.View / DB.Update) end themselves and are not instances.
func txEndRule(c *Ctx, rule string, re *Reach) {
	n := 0
	for _, fn := range re.sorted() {
		var begins []*ssa.Call
		allInstrs(fn, func(i ssa.Instruction) {
			if call, ok := i.(*ssa.Call); ok && calleeName(&call.Call) == "(*go.etcd.io/bbolt.DB).Begin" {
				begins = append(begins, call)
			}
		})
		for k, call := range begins {
			n++
			key := fmt.Sprintf("%s: Begin#%d", safeFname(fn), k+1)
			tx, errv := resultValue(call, 0), resultValue(call, 1)
			if tx == nil {
				c.r.bad(rule, key, "the transaction returned by DB.Begin is dropped: it can never be ended", []string{c.w.ipos(call)})
				continue
			}
			// handed over to a field: the owner must end it; not decidable here
			handed := false
			for _, r := range referrers(tx) {
				if st, ok := r.(*ssa.Store); ok && st.Val == tx {
					if _, isF := st.Addr.(*ssa.FieldAddr); isF {
						handed = true
					}
				}
			}
			if handed {
				c.r.undecided(rule, key, "the transaction is stored in a struct field on the open path; who ends it is not established", c.w.ipos(call))
				continue
			}
			single := len(begins) == 1
			isEnd := func(i ssa.Instruction) bool {
				cc := callCommon(i)
				if cc == nil {
					return false
				}
				if _, isGo := i.(*ssa.Go); isGo {
					return false
				}
				name := calleeName(cc)
				if name != "(*go.etcd.io/bbolt.Tx).Rollback" && name != "(*go.etcd.io/bbolt.Tx).Commit" {
					return false
				}
				a := peel(cc.Args[0])
				if a == tx || single {
					return true
				}
				if fv, ok := a.(*ssa.FreeVar); ok {
					if b := freeVarBinding(fv); b != nil {
						if vals, ok := cellValues(b); ok {
							for _, v := range vals {
								if v == tx {
									return true
								}
							}
						}
					}
				}
				return false
			}
			beginFailed := func(pred, succ *ssa.BasicBlock) bool {
				iff, ok := pred.Instrs[len(pred.Instrs)-1].(*ssa.If)
				if !ok || errv == nil || len(pred.Succs) != 2 {
					return false
				}
				for _, cm := range trueCmps(fact{iff.Cond, pred.Succs[0] == succ}) {
					if cm.Op == token.NEQ && ((lastStoredIs(cm.X, errv) && isNilConst(cm.Y)) || (lastStoredIs(cm.Y, errv) && isNilConst(cm.X))) {
						return true
					}
				}
				return false
			}
			isRet := func(x ssa.Instruction) bool { _, r := x.(*ssa.Return); return r }
			// DB.Close must not run while the transaction is open (it waits for it: self-deadlock)
			isDBClose := func(i ssa.Instruction) bool {
				cc := callCommon(i)
				return cc != nil && calleeName(cc) == "(*go.etcd.io/bbolt.DB).Close"
			}
			directEnd := func(i ssa.Instruction) bool {
				if _, isDefer := i.(*ssa.Defer); isDefer {
					return false
				}
				return c.fc.ipAvoid(isEnd)(i)
			}
			directClose := func(i ssa.Instruction) bool {
				if _, isDefer := i.(*ssa.Defer); isDefer {
					return false
				}
				if _, isGo := i.(*ssa.Go); isGo {
					return false
				}
				return c.fc.ipTarget(isDBClose)(i)
			}
			if p := c.fc.pathFrom(fn, call, directClose, directEnd, beginFailed); p != nil {
				c.r.bad(rule, key+": close while open", "the database can be closed while the transaction begun here is still open (its Rollback is deferred or comes later): DB.Close waits for open transactions, so the failing open deadlocks instead of returning its error", []string{c.w.ipos(p[len(p)-1])}, c.fc.witnessStrings(p)...)
			} else {
				// deferred handlers run last-in-first-out: a deferred Close registered after the deferred end of the
				// transaction runs before it
				var dEnds, dCloses []*ssa.Defer
				allInstrs(fn, func(i ssa.Instruction) {
					d, ok := i.(*ssa.Defer)
					if !ok {
						return
					}
					if isEnd(d) || func() bool {
						h := calleeFunc(&d.Call)
						return h != nil && c.w.inModule(h) && c.fc.mustPass(h, isEnd, 1)
					}() {
						dEnds = append(dEnds, d)
					}
					if isDBClose(d) || func() bool {
						h := calleeFunc(&d.Call)
						return h != nil && c.w.inModule(h) && c.fc.mayContain(h, isDBClose, 1)
					}() {
						dCloses = append(dCloses, d)
					}
				})
				badOrder := false
				for _, dc := range dCloses {
					// the transaction is still open when dc runs unless it is ended directly on every path to the exit or by
					// a deferred end registered after dc
					endedLater := false
					for _, de := range dEnds {
						if instrReaches(dc, de) && dc != de {
							endedLater = true
						}
					}
					if endedLater {
						continue
					}
					if p := c.fc.pathFrom(fn, call, func(x ssa.Instruction) bool { _, r := x.(*ssa.RunDefers); return r }, directEnd, beginFailed); p != nil && instrReaches(call, dc) {
						badOrder = true
						c.r.bad(rule, key+": deferred close before deferred end", "a deferred handler that closes the database is registered after the deferred end of the transaction begun here, so it runs first (defers run last-in-first-out): DB.Close waits for the open transaction and the failing open deadlocks", []string{c.w.ipos(dc)}, c.fc.witnessStrings(p)...)
					}
				}
				if !badOrder {
					c.r.ok(rule, key+": close while open", "the database is never closed while this transaction is open", c.w.ipos(call))
				}
			}
			if p := c.fc.pathFrom(fn, call, isRet, c.fc.ipAvoid(isEnd), beginFailed); p != nil {
				c.r.bad(rule, key, "a transaction begun while opening an index is not ended on some path to a return: DB.Close waits for open transactions, so the failing open blocks instead of returning its error and never releases the file",
					[]string{c.w.ipos(p[len(p)-1])}, c.fc.witnessStrings(p)...)
			} else {
				c.r.ok(rule, key, "ended (Rollback/Commit) on every path after a successful Begin", c.w.ipos(call))
			}
		}
	}
	if n == 0 {
		c.r.ok(rule, "<none>", "the open path begins no explicit transaction (only managed DB.View)")
	}
	c.r.Stats["explicit_begins_on_open_path"] = n
}

// lastStoredIs: v is target itself, or a load of a local cell (a named result, say) whose most recent store in the
// same block stored target.
func lastStoredIs(v, target ssa.Value) bool {
	if v == target || target == nil {
		return v == target
	}
	ld, ok := v.(*ssa.UnOp)
	if !ok || ld.Op != token.MUL {
		return false
	}
	cell, ok := ld.X.(*ssa.Alloc)
	if !ok {
		return false
	}
	b := ld.Block()
	for j := pointOf(ld).i - 1; j >= 0; j-- {
		if st, ok := b.Instrs[j].(*ssa.Store); ok && st.Addr == ssa.Value(cell) {
			return st.Val == target
		}
	}
	return false
}

// closesOnError: d defers a function literal that closes db on every one of its paths on which fn's (named) error
// result is non-nil: `defer func() { if err != nil { db.Close() } }()`.
func closesOnError(c *Ctx, fn *ssa.Function, d *ssa.Defer, db ssa.Value) bool {
	var h *ssa.Function
	var helperDB, helperErr ssa.Value // for `defer closeOnError(db, &err)`: the helper's parameters bound to db and &err
	if mc, ok := d.Call.Value.(*ssa.MakeClosure); ok {
		h, _ = mc.Fn.(*ssa.Function)
	} else if g := d.Call.StaticCallee(); g != nil && c.w.inModule(g) && g.Blocks != nil {
		h = g
	}
	if h == nil || h.Blocks == nil {
		return false
	}
	// fn's error result cell
	var errCell ssa.Value
	if fn.Recover != nil {
		for _, ins := range fn.Recover.Instrs {
			if ret, ok := ins.(*ssa.Return); ok {
				for _, rv := range ret.Results {
					if ld, ok := rv.(*ssa.UnOp); ok && ld.Op == token.MUL && isErrorType(rv.Type()) {
						errCell = ld.X
					}
				}
			}
		}
	}
	if errCell == nil {
		return false
	}
	if _, isClosure := d.Call.Value.(*ssa.MakeClosure); !isClosure {
		// a named helper: it must be given this database and the address of this function's error result
		for k, a := range d.Call.Args {
			if k >= len(h.Params) {
				break
			}
			if peel(a) == db {
				helperDB = h.Params[k]
			}
			if peelCell(a) == errCell {
				helperErr = h.Params[k]
			}
		}
		if helperDB == nil || helperErr == nil {
			return false
		}
	}
	isErrLoad := func(v ssa.Value) bool {
		ld, ok := v.(*ssa.UnOp)
		if !ok || ld.Op != token.MUL {
			return false
		}
		if helperErr != nil {
			return ld.X == helperErr
		}
		return peelCell(ld.X) == errCell
	}
	isClose := func(i ssa.Instruction) bool {
		cc := callCommon(i)
		if cc == nil || calleeName(cc) != "(*go.etcd.io/bbolt.DB).Close" {
			return false
		}
		if _, isDefer := i.(*ssa.Defer); isDefer {
			return false
		}
		if helperDB != nil {
			return peel(cc.Args[0]) == helperDB
		}
		return peel(cc.Args[0]) == db
	}
	errNil := func(pred, succ *ssa.BasicBlock) bool {
		iff, ok := pred.Instrs[len(pred.Instrs)-1].(*ssa.If)
		if !ok || len(pred.Succs) != 2 {
			return false
		}
		for _, cm := range trueCmps(fact{iff.Cond, pred.Succs[0] == succ}) {
			if cm.Op == token.EQL && cm.Y != nil && ((isErrLoad(cm.X) && isNilConst(cm.Y)) || (isErrLoad(cm.Y) && isNilConst(cm.X))) {
				return true
			}
		}
		return false
	}
	isRet := func(i ssa.Instruction) bool { _, ok := i.(*ssa.Return); return ok }
	return c.fc.pathAvoidingEdges(h, isRet, isClose, errNil) == nil
}
