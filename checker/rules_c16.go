package main

import (
	"fmt"
	"go/constant"
	"go/token"
	"go/types"
	"strings"

	"golang.org/x/tools/go/ssa"
)

func init() {
	register(&propDef{
		id:  "C16",
		run: runC16,
		explanation: "Decided (structural, for every file content and every query sequence): " +
			"C16.opensites — every bbolt.Open call site in non-test module code is enumerated and classified by role; output sites (writer Flush, big-mode output of `updog create`) pass an OpenFile hook built by openfile.OpenFile with the constant option FailIfFileExists:true, input and scratch sites with FailIfFileDoesntExist:true; a site in a helper or in the Flush of a writer type of the command gets the role of the helper's callers (which have to agree), the helper's path parameter bound to the call's argument (scratch only for the name of the command's own os.CreateTemp file); the Options may be assembled step by step, built by a helper or handed to the helper that opens, the hook may be wrapped in a function literal that only forwards its parameters to it and returns its results; an unclassifiable site is undecided; " +
			"C16.openopts — the output and input sites agree on the bbolt options that decide what a commit leaves in the file (NoFreelistSync: a file written without a freelist page is rewritten by the first read-write open with default options; PageSize); FreelistType is not compared, it only selects the in-memory free page tracker; " +
			"C16.flags — in openfile.OpenFile the hook returned for FailIfFileExists calls os.OpenFile with flags|O_EXCL (so an existing file of any content makes the open fail before anything is written), the one for FailIfFileDoesntExist with flags&^O_CREATE, and FailIfFileExists is tested first; " +
			"C16.readonly — from the read entry points (OpenIndex, OpenIndexFromBoltDatabase, all index options, Execute, GetSchema, Close, the sql driver's connection/statement methods, the gRPC handler, `updog schema`) no call resolves to a bbolt write API (Update, Batch, Begin(writable), Commit, Put, Delete, CreateBucket*, DeleteBucket, sequences) or to a file-mutating os call. " +
			"C16.noclobber — no os call that removes, truncates, renames or rewrites a path is applied to an index output path (path of an exclusive-create bbolt.Open, filename of NewIndexWriter) unless the same call of the function created the file (dominated by the successful exclusive open), or ownership is tracked soundly: the call is guarded by an ownership flag that belongs to an object or variable allocated during this very call, is set only after the exclusive create of that object's path succeeded and is never copied (a flag kept in the writer across Flush calls does not count), or sits in a cleanup closure made after the create; scratch files from os.CreateTemp are exempt. " +
			"NOT decided: byte-for-byte equality as such; that bbolt.Open in read-write mode does not modify a well-formed file and that O_EXCL is honoured by the OS (trusted).",
		assumptions: []string{"bbolt.Open(read-write) does not write to a well-formed file", "O_CREATE|O_EXCL semantics of the OS", "call graph over-approximates the calls that can happen"},
	})
}

var boltWriteAPIs = map[string]bool{
	"(*go.etcd.io/bbolt.DB).Update": true, "(*go.etcd.io/bbolt.DB).Batch": true,
	"(*go.etcd.io/bbolt.Tx).CreateBucket": true, "(*go.etcd.io/bbolt.Tx).CreateBucketIfNotExists": true, "(*go.etcd.io/bbolt.Tx).DeleteBucket": true,
	"(*go.etcd.io/bbolt.Tx).Commit": true, "(*go.etcd.io/bbolt.Tx).MoveBucket": true,
	"(*go.etcd.io/bbolt.Bucket).Put": true, "(*go.etcd.io/bbolt.Bucket).Delete": true, "(*go.etcd.io/bbolt.Bucket).CreateBucket": true,
	"(*go.etcd.io/bbolt.Bucket).CreateBucketIfNotExists": true, "(*go.etcd.io/bbolt.Bucket).DeleteBucket": true,
	"(*go.etcd.io/bbolt.Bucket).SetSequence": true, "(*go.etcd.io/bbolt.Bucket).NextSequence": true, "(*go.etcd.io/bbolt.Bucket).MoveBucket": true,
	"(*go.etcd.io/bbolt.Cursor).Delete": true, "go.etcd.io/bbolt.Compact": true,
}

var fileMutators = map[string]bool{
	"os.Create": true, "os.Remove": true, "os.RemoveAll": true, "os.Rename": true, "os.WriteFile": true, "os.Truncate": true,
	"os.Chmod": true, "os.Chown": true, "os.Chtimes": true, "os.Link": true, "os.Symlink": true, "os.Mkdir": true, "os.MkdirAll": true,
	"os.CreateTemp": true, "os.MkdirTemp": true, "io/ioutil.WriteFile": true,
	"(*os.File).Write": true, "(*os.File).WriteAt": true, "(*os.File).WriteString": true, "(*os.File).Truncate": true, "(*os.File).ReadFrom": true,
	"(*os.File).Chmod": true, "(*os.File).Sync": false,
}

// boltReadOnlyRule: no call in the reachable set resolves to a bbolt write API / file mutator.
func boltReadOnlyRule(c *Ctx, rule string, re *Reach) {
	nCalls := 0
	for _, fn := range re.sorted() {
		bad := 0
		allInstrs(fn, func(i ssa.Instruction) {
			cc := callCommon(i)
			if cc == nil {
				return
			}
			name := calleeName(cc)
			if !strings.Contains(name, "bbolt") && !strings.HasPrefix(name, "os.") && !strings.HasPrefix(name, "(*os.File)") && !strings.HasPrefix(name, "io/ioutil.") {
				return
			}
			nCalls++
			switch {
			case boltWriteAPIs[name]:
				bad++
				c.r.bad(rule, safeFname(fn)+": "+shortName(name), "bbolt write API reachable from a read-only entry point", []string{c.w.ipos(i)}, re.chain(fn)...)
			case name == "(*go.etcd.io/bbolt.DB).Begin":
				if b, ok := constBool(cc.Args[1]); !ok || b {
					bad++
					c.r.bad(rule, safeFname(fn)+": DB.Begin", "a transaction that is not provably read-only (argument is not the constant false) is started from a read-only entry point", []string{c.w.ipos(i)}, re.chain(fn)...)
				}
			case fileMutators[name]:
				bad++
				c.r.bad(rule, safeFname(fn)+": "+shortName(name), "file-mutating call reachable from a read-only entry point", []string{c.w.ipos(i)}, re.chain(fn)...)
			case name == "os.OpenFile":
				// only through the openfile package's hooks (checked by C16.flags); elsewhere flags must be read-only
				if c.w.pkgPathOf(fn) != pkgOpen {
					if fl, ok := constInt(cc.Args[1]); !ok || fl != 0 {
						bad++
						c.r.bad(rule, safeFname(fn)+": os.OpenFile", "file opened with flags that are not provably O_RDONLY from a read-only entry point", []string{c.w.ipos(i)}, re.chain(fn)...)
					}
				}
			}
		})
		if bad == 0 {
			c.r.ok(rule, safeFname(fn), "no bbolt write API or file mutation", c.w.pos(fn.Pos()))
		}
	}
	c.r.Stats["bbolt_os_calls_examined_"+rule] = nCalls
}

// readEntries: everything a reader of an index can call.
func readEntries(c *Ctx) []*ssa.Function {
	out := []*ssa.Function{c.a.OpenIndex, c.a.OpenFromDB, c.a.WithCache, c.a.WithPreloaded, c.a.WithMetrics, c.a.Execute, c.a.GetSchema, c.a.IndexClose,
		c.a.ServerQuery, c.a.SchemaCmd, c.a.DrvOpen, c.a.LRUGet, c.a.LRUPut}
	// all methods of the driver's file connection, statement and rows types (invoked by database/sql)
	// (these driver types are found by the database/sql/driver interfaces they implement, rules_ag10.go; a missing one is
	// reported by C16.readonly's need of the driver anchors)
	for _, n := range []*types.Named{c.a.FileConnT, c.a.FileStmtT, c.a.RowsT, c.a.DriverT} {
		if n == nil {
			continue
		}
		for i := 0; i < n.NumMethods(); i++ {
			if f := c.a.methodOf(n, n.Method(i).Name()); f != nil {
				out = append(out, f)
			}
		}
	}
	var res []*ssa.Function
	for _, f := range out {
		if f != nil {
			res = append(res, f)
		}
	}
	return res
}

func runC16(c *Ctx) {
	if !c.need("C16.readonly", c.a.OpenIndex, c.a.OpenFromDB, c.a.Execute, c.a.GetSchema, c.a.IndexClose, c.a.ServerQuery, c.a.SchemaCmd, c.a.DrvOpen, c.a.OpenFileFn,
		c.a.DriverT, c.a.FileConnT, c.a.FileStmtT, c.a.RowsT) {
		return
	}
	re := c.w.reach(readEntries(c)...)
	c.r.Stats["reachable_functions"] = len(re.Funcs)
	boltReadOnlyRule(c, "C16.readonly", re)
	c.r.expect("C16.readonly", 30)
	openSitesRule(c, "C16.opensites")
	openFlagsRule(c, "C16.flags")
	noClobberRule(c, "C16.noclobber")
}

// ---------- bbolt.Open census ----------

type openSite struct {
	fn        *ssa.Function
	call      *ssa.Call
	exists    *bool // constant value of FailIfFileExists passed to openfile.OpenFile, nil if not constant / no hook
	notExists *bool
	hook      bool // Options.OpenFile is the result of openfile.OpenFile (possibly behind a forwarding wrapper, see openHookOf)
	optsNil   bool
	fields    map[string]string // every field of the bbolt.Options literal that is set, with its (constant) value
	// role of the file that is opened: "output" (an index file that is created), "input" (an index file that is read),
	// "scratch" (a temporary file the create command made itself), "" if the census cannot tell (roleWhy says why);
	// anchor is the entry whose work the site belongs to (the writer's Flush, OpenIndex, the create command).
	role    string
	anchor  *ssa.Function
	roleWhy string
}

// boltOpenSites enumerates every bbolt.Open call of non-test module code, evaluates its Options and classifies it by
// role. The call may sit in the anchor itself (Flush, OpenIndex, createCmd), in a function literal of it, or in a helper:
// a helper's site gets the role of the helper's callers (all of them, they have to agree), the helper's path parameter
// being bound to the call's argument where the role depends on the path (scratch file or output of the create command).
func boltOpenSites(c *Ctx) []openSite {
	var out []openSite
	for _, fn := range c.w.ModFuncs {
		allInstrs(fn, func(i ssa.Instruction) {
			call, ok := i.(*ssa.Call)
			if !ok || calleeName(&call.Call) != "go.etcd.io/bbolt.Open" {
				return
			}
			s := openSite{fn: fn, call: call, fields: map[string]string{}}
			s.role, s.anchor, s.roleWhy = openSiteRole(c, fn, call.Call.Args[0], false, 4, map[*ssa.Function]bool{})
			opts := call.Call.Args[2]
			if isNilConst(opts) {
				s.optsNil = true
				out = append(out, s)
				return
			}
			// opts = &bbolt.Options{OpenFile: openfile.OpenFile(openfile.Options{…})}: find the store to field OpenFile of that
			// alloc. Options assembled step by step (literal, then assignments to fields) are the same alloc; so are options
			// that a module helper builds and returns, and options a helper receives from its only caller.
			if aliases := optionsObject(c, opts, 3); aliases != nil {
				type fieldStore struct {
					f  *types.Var
					st *ssa.Store
				}
				var stores []fieldStore
				for _, al := range aliases {
					for _, r := range referrers(al) {
						switch r := r.(type) {
						case *ssa.Store:
							// the whole struct is assigned (o := *someOptions): every field takes an unknown value, except for a
							// copy of bbolt.DefaultOptions, which sets none of the fields the census looks at
							if r.Addr == al && !isBoltDefaultOptions(r.Val) {
								s.fields["*"] = "<non-constant>"
							}
						case *ssa.FieldAddr:
							f := fieldOf(r.X.Type(), r.Field)
							if f == nil {
								continue
							}
							for _, rr := range referrers(r) {
								if st, ok := rr.(*ssa.Store); ok && st.Addr == ssa.Value(r) {
									stores = append(stores, fieldStore{f, st})
								}
							}
						case *ssa.Call:
							// handed to a function other than bbolt.Open (`tune(opts)`): what that does to the fields is not followed
							// (the call that binds it to the helper's parameter, another alias of the list, is followed)
							if f := calleeFunc(&r.Call); r != call && calleeName(&r.Call) != "go.etcd.io/bbolt.Open" {
								for k, a := range r.Call.Args {
									if a == al && !(f != nil && k < len(f.Params) && isAlias(aliases, f.Params[k])) {
										s.fields["*"] = "<non-constant>"
									}
								}
							}
						}
					}
				}
				nHooks := 0
				for _, fs := range stores {
					val := "<non-constant>"
					if k, ok := fs.st.Val.(*ssa.Const); ok && k.Value != nil {
						val = k.Value.ExactString()
					} else if ok && k.Value == nil {
						val = "zero"
					}
					// a field assigned different values at different places (literal, then `opts.X = …` under a condition)
					// has no single constant value
					if old, seen := s.fields[fs.f.Name()]; seen && old != val {
						val = "<non-constant>"
					}
					s.fields[fs.f.Name()] = val
					if fs.f.Name() != "OpenFile" {
						continue
					}
					// every hook that is assigned has to be an openfile hook, and they have to be built from the same options
					hook, ex, nex := openHookOf(c, fs.st.Val, 3)
					if !hook {
						// a function of the module around the openfile hook that also records ownership (method value or
						// function literal that sets a `created` flag), rules_ag21.go
						if ex2, nex2, isW := hookWrapper(c, fs.st.Val, call.Call.Args[0]); isW {
							hook, ex, nex = true, ex2, nex2
						}
					}
					nHooks++
					switch {
					case nHooks == 1:
						s.hook, s.exists, s.notExists = hook, ex, nex
					case !hook || !s.hook:
						s.hook, s.exists, s.notExists = false, nil, nil
					case !sameBoolPtr(s.exists, ex) || !sameBoolPtr(s.notExists, nex):
						s.exists, s.notExists = nil, nil
					}
				}
			}
			out = append(out, s)
		})
	}
	return out
}

func isAlias(aliases []ssa.Value, v ssa.Value) bool {
	for _, a := range aliases {
		if a == v {
			return true
		}
	}
	return false
}

func sameBoolPtr(a, b *bool) bool {
	if a == nil || b == nil {
		return a == b
	}
	return *a == *b
}

// isBoltDefaultOptions: v is a load of the package-level variable bbolt.DefaultOptions.
func isBoltDefaultOptions(v ssa.Value) bool {
	ld, ok := v.(*ssa.UnOp)
	if !ok || ld.Op != token.MUL {
		return false
	}
	if ld2, ok := ld.X.(*ssa.UnOp); ok && ld2.Op == token.MUL {
		g, ok := ld2.X.(*ssa.Global)
		return ok && g.Pkg != nil && g.Pkg.Pkg.Path() == "go.etcd.io/bbolt" && g.Name() == "DefaultOptions"
	}
	return false
}

// optionsObject resolves the *bbolt.Options argument of a bbolt.Open call to the one Options object it points to and
// returns every SSA value that denotes this object on the way (the fields may be assigned through any of them):
// the literal's allocation itself; through a call of a module helper, the single object the helper returns on all of its
// returns (`return &bbolt.Options{…}`, also through a further helper that adjusts and returns it); for a parameter of a
// helper, the argument of the helper's only static call. nil if there is no such single object (the site is then
// reported as having no recognisable hook).
func optionsObject(c *Ctx, v ssa.Value, depth int) []ssa.Value {
	v = peel(v)
	switch x := v.(type) {
	case *ssa.Alloc:
		return []ssa.Value{x}
	case *ssa.Call, *ssa.Extract:
		if depth <= 0 {
			return nil
		}
		_, _, vals, ok := resultOrigins(c.w, v)
		if !ok {
			return nil
		}
		var obj []ssa.Value
		for k, rv := range vals {
			o := optionsObject(c, rv, depth-1)
			if o == nil || (k > 0 && o[len(o)-1] != obj[len(obj)-1]) {
				return nil
			}
			if k == 0 {
				obj = o
			} else {
				obj = append(o[:len(o)-1:len(o)-1], obj...)
			}
		}
		return append([]ssa.Value{v}, obj...)
	case *ssa.Parameter:
		if depth <= 0 {
			return nil
		}
		sites := staticCallSites(c, x.Parent())
		if len(sites) != 1 {
			return nil
		}
		if arg := argFor(sites[0], x.Parent(), x); arg != nil {
			if o := optionsObject(c, arg, depth-1); o != nil {
				return append([]ssa.Value{v}, o...)
			}
		}
	}
	return nil
}

// staticCallSites: the calls of fn in non-test module code, nil if fn is also used as a value (it can then be called
// from places the census does not see) or called in a go / defer statement.
func staticCallSites(c *Ctx, fn *ssa.Function) []*ssa.Call {
	var out []*ssa.Call
	escapes := false
	for _, g := range c.w.ModFuncs {
		allInstrs(g, func(i ssa.Instruction) {
			if cc := callCommon(i); cc != nil && !cc.IsInvoke() && cc.Value == ssa.Value(fn) {
				if call, ok := i.(*ssa.Call); ok {
					out = append(out, call)
				} else {
					escapes = true
				}
				for _, a := range cc.Args {
					if a == ssa.Value(fn) {
						escapes = true
					}
				}
				return
			}
			for _, op := range i.Operands(nil) {
				if op != nil && *op == ssa.Value(fn) {
					escapes = true
				}
			}
		})
	}
	if escapes {
		return nil
	}
	return out
}

// openHookOf evaluates the value assigned to bbolt.Options.OpenFile: hook is true if the file is opened by a hook that
// openfile.OpenFile built, exists/notExists are the constant options it was built from (nil if not constant). Accepted:
//   - the call openfile.OpenFile(openfile.Options{…}) itself (also through a local variable assigned once);
//   - a module helper that returns such a hook on every return (all returns have to agree);
//   - a parameter of the helper that opens the file, bound to the argument of the helper's only call;
//   - a function literal that only forwards: its single call is the call of such a hook with the literal's own
//     (name, flag, perm) parameters, unchanged and in this order, and every return returns that call's two results.
//     What the literal does besides (remember that the file was created, count) does not change how the file is
//     opened; a literal with any other call, with changed arguments or with a return that does not come from the hook
//     (a fallback to os.OpenFile when the exclusive create fails) is not accepted, so the site is reported.
func openHookOf(c *Ctx, v ssa.Value, depth int) (hook bool, exists, notExists *bool) {
	v = peel(v)
	if depth <= 0 {
		return false, nil, nil
	}
	switch x := v.(type) {
	case *ssa.Call:
		if calleeFunc(&x.Call) == c.a.OpenFileFn && c.a.OpenFileFn != nil {
			exists, notExists = openfileOptions(x.Call.Args[0])
			return true, exists, notExists
		}
		_, _, vals, ok := resultOrigins(c.w, x)
		if !ok {
			return false, nil, nil
		}
		for k, rv := range vals {
			h, ex, nex := openHookOf(c, rv, depth-1)
			if !h {
				return false, nil, nil
			}
			if k > 0 && (!sameBoolPtr(ex, exists) || !sameBoolPtr(nex, notExists)) {
				return true, nil, nil
			}
			exists, notExists = ex, nex
		}
		return true, exists, notExists
	case *ssa.Parameter:
		// the hook is handed to the helper that opens the file: the argument of the helper's only call
		sites := staticCallSites(c, x.Parent())
		if len(sites) != 1 {
			return false, nil, nil
		}
		if arg := argFor(sites[0], x.Parent(), x); arg != nil {
			return openHookOf(c, arg, depth-1)
		}
	case *ssa.MakeClosure:
		lit, ok := x.Fn.(*ssa.Function)
		if !ok || lit.Blocks == nil || len(lit.Params) != 3 || lit.Signature.Results().Len() != 2 {
			return false, nil, nil
		}
		var inner *ssa.Call
		clean := true
		allInstrs(lit, func(i ssa.Instruction) {
			switch i := i.(type) {
			case *ssa.Call:
				if inner != nil {
					clean = false
				}
				inner = i
			case *ssa.Go, *ssa.Defer, *ssa.Panic, *ssa.MakeClosure:
				clean = false
			}
		})
		if !clean || inner == nil || inner.Call.IsInvoke() || len(inner.Call.Args) != 3 {
			return false, nil, nil
		}
		for k, a := range inner.Call.Args {
			if a != ssa.Value(lit.Params[k]) {
				return false, nil, nil
			}
		}
		allInstrs(lit, func(i ssa.Instruction) {
			ret, ok := i.(*ssa.Return)
			if !ok {
				return
			}
			for k, rv := range retVals(ret) {
				if e, ok := rv.(*ssa.Extract); !ok || e.Tuple != ssa.Value(inner) || e.Index != k {
					clean = false
				}
			}
		})
		if !clean {
			return false, nil, nil
		}
		return openHookOf(c, inner.Call.Value, depth-1)
	}
	return false, nil, nil
}

// openSiteRole classifies a bbolt.Open site in fn with path argument pathv (nil if unknown): the role of the file and
// the anchor it belongs to. temp is true if the path is already known to name a file made by os.CreateTemp.
//   - a site in the in-memory writer's Flush creates an index: output; a site in OpenIndex reads one: input;
//   - a site in the create command's function is scratch if its path is the name of a file the command made with os.CreateTemp, output otherwise
//     (an unknown path is taken to be the output: that is the stricter demand, O_EXCL);
//   - a site in a function literal belongs to the enclosing function (peel resolves captured variables);
//   - a site in any other function gets the role of that function's callers (call graph, so a method called through an
//     interface — the command's own writer type, whose Flush createCmd invokes — has createCmd as its caller); a path
//     that is a parameter is bound to the argument of a static call. Callers with different roles (a helper shared by
//     readers and writers), no caller at all, or a chain deeper than the bound leave the site unclassified: undecided.
func openSiteRole(c *Ctx, fn *ssa.Function, pathv ssa.Value, temp bool, depth int, onPath map[*ssa.Function]bool) (role string, anchor *ssa.Function, why string) {
	if pathv != nil && !temp && fromCreateTemp(pathv) {
		temp = true
	}
	root := fn
	for root.Parent() != nil {
		root = root.Parent()
	}
	if pathv != nil {
		pathv = peel(pathv)
	}
	switch {
	case root == c.a.MemFlush && root != nil:
		return "output", root, ""
	case root == c.a.OpenIndex && root != nil:
		return "input", root, ""
	case root == c.a.CreateCmd && root != nil:
		if temp {
			return "scratch", root, ""
		}
		return "output", root, ""
	}
	if depth <= 0 || onPath[root] {
		return "", nil, "the chain of helpers between the site and a writer's Flush, OpenIndex or the create command is too deep or recursive"
	}
	onPath[root] = true
	defer delete(onPath, root)
	node := c.w.CG.Nodes[root]
	type res struct {
		role   string
		anchor *ssa.Function
	}
	var got []res
	seenCaller := map[ssa.Instruction]bool{}
	if node != nil {
		for _, e := range node.In {
			g := e.Caller.Func
			if g == nil || !c.w.inModule(g) || e.Site == nil || seenCaller[e.Site] {
				continue
			}
			seenCaller[e.Site] = true
			// a synthetic wrapper (promoted method, bound method) is a caller like any other; it forwards its parameters
			var bound ssa.Value
			if p, ok := pathv.(*ssa.Parameter); ok && p.Parent() == root {
				cc := e.Site.Common()
				if !cc.IsInvoke() && cc.Value == ssa.Value(root) {
					if call, ok := e.Site.(*ssa.Call); ok {
						bound = argFor(call, root, p)
					}
				}
			}
			r, a, w := openSiteRole(c, g, bound, temp, depth-1, onPath)
			if r == "" {
				return "", nil, "called from " + safeFname(g) + ": " + w
			}
			got = append(got, res{r, a})
		}
	}
	if len(got) == 0 {
		return "", nil, "the function is not called from a writer's Flush, OpenIndex or the create command"
	}
	for _, r := range got[1:] {
		if r.role != got[0].role {
			return "", nil, "the function is called both for a file in the role " + got[0].role + " and for one in the role " + r.role
		}
	}
	return got[0].role, got[0].anchor, ""
}

// openfileOptions extracts the constant fields of an openfile.Options struct value built by a composite literal.
func openfileOptions(v ssa.Value) (exists, notExists *bool) {
	f, t := false, false
	_ = t
	// a struct literal is: alloc local; stores to its fields; load. Fields never stored are false.
	ld, ok := v.(*ssa.UnOp)
	if !ok || ld.Op != token.MUL {
		if k, ok := v.(*ssa.Const); ok && k.Value == nil {
			return &f, &f // zero value
		}
		return nil, nil
	}
	al, ok := ld.X.(*ssa.Alloc)
	if !ok {
		return nil, nil
	}
	ex, nex := false, false
	okAll := true
	for _, r := range referrers(al) {
		switch x := r.(type) {
		case *ssa.FieldAddr:
			fld := fieldOf(x.X.Type(), x.Field)
			for _, rr := range referrers(x) {
				st, ok := rr.(*ssa.Store)
				if !ok {
					okAll = false
					continue
				}
				b, isConst := constBool(st.Val)
				if !isConst {
					okAll = false
					continue
				}
				switch fld.Name() {
				case "FailIfFileExists":
					ex = b
				case "FailIfFileDoesntExist":
					nex = b
				}
			}
		case *ssa.UnOp:
		case *ssa.DebugRef:
		default:
			okAll = false
		}
	}
	if !okAll {
		return nil, nil
	}
	return &ex, &nex
}

func openSitesRule(c *Ctx, rule string) {
	sites := boltOpenSites(c)
	c.r.Stats["bbolt_open_sites"] = len(sites)
	idx := map[string]int{}
	for _, s := range sites {
		role := s.role
		idx[safeFname(s.fn)]++
		key := fmt.Sprintf("%s#%d", safeFname(s.fn), idx[safeFname(s.fn)])
		pos := c.w.ipos(s.call)
		if role == "" {
			c.r.undecided(rule, key, "bbolt.Open call site that the census cannot classify as input, output or scratch ("+s.roleWhy+")", pos)
			continue
		}
		key += " (" + role + ")"
		if !s.hook || s.exists == nil {
			c.r.bad(rule, key, "bbolt.Open without an OpenFile hook built by openfile.OpenFile from constant options: bbolt's default opens with O_CREATE and would create a missing file / open an existing one", []string{pos})
			continue
		}
		decide, why := hookDecider(c)
		if decide == nil {
			c.r.undecided(rule, key, why, pos)
			continue
		}
		d := decide(*s.exists, *s.notExists)
		switch role {
		case "output":
			c.r.check(d.kind == "excl", rule, key, "opened with O_EXCL", "an output file is opened with a hook that does not add O_EXCL ("+d.kind+"): an existing file would be opened and overwritten in place", pos)
		default:
			c.r.check(d.kind == "nocreate", rule, key, "opened without O_CREATE", "an input file is opened with a hook that does not clear O_CREATE ("+d.kind+"): a missing file would be created", pos)
		}
	}
	c.r.expect(rule, 4)
	// sibling agreement on options that determine the on-disk format: a writer option the reader does not use makes
	// bbolt rewrite parts of the file (freelist, meta page) on the first read-write open.
	// (FreelistType is not among them: it only selects the in-memory structure — array or hashmap — in which an open
	// database tracks its free pages, bbolt's newFreelist; the freelist page that a commit writes is the same sorted list
	// of page ids for both, bbolt.Open does not compare the option with the file, and a read-write open of a file that
	// has a freelist page writes nothing whichever type wrote it. What makes the first read-open write is a file
	// WITHOUT a freelist page, i.e. NoFreelistSync on the writing side only.)
	formatFields := []string{"NoFreelistSync", "PageSize"}
	type sv struct{ site, val string }
	for _, ff := range formatFields {
		var vals []sv
		for _, s := range sites {
			if s.role == "scratch" || s.role == "" {
				continue
			}
			v := s.fields[ff]
			if v == "" && s.fields["*"] != "" {
				v = s.fields["*"] // the Options were copied from somewhere as a whole: the field's value is not known
			}
			if v == "" || v == "zero" || v == "false" || v == "0" || v == `""` {
				v = "default"
			}
			vals = append(vals, sv{safeFname(s.fn) + " at " + c.w.ipos(s.call), v})
		}
		agree := true
		for _, x := range vals {
			if x.val != vals[0].val {
				agree = false
			}
		}
		desc := ""
		for _, x := range vals {
			desc += x.site + "=" + x.val + "; "
		}
		c.r.check(agree, "C16.openopts", "bbolt.Options."+ff, "writers and readers agree ("+desc+")",
			"index writers and readers open the file with different values of bbolt.Options."+ff+" ("+desc+"): bbolt reconciles the difference by writing to the file when it is opened for reading")
	}
}

func fromCreateTemp(v ssa.Value) bool {
	call, ok := peel(v).(*ssa.Call)
	if !ok || calleeName(&call.Call) != "(*os.File).Name" {
		return false
	}
	src := peel(call.Call.Args[0])
	if e, ok := src.(*ssa.Extract); ok {
		if cc, ok := e.Tuple.(*ssa.Call); ok && calleeName(&cc.Call) == "os.CreateTemp" {
			return true
		}
	}
	return false
}

// hookDecider evaluates openfile.OpenFile for constant option values: it walks OpenFile's CFG choosing branches by the
// option fields and classifies the hook that is returned by the flag arithmetic of its os.OpenFile call:
// "excl" (flags|O_EXCL), "nocreate" (flags&^O_CREATE), "plain" (flags unchanged / os.OpenFile itself), or a description.
type hookDecision struct {
	kind string
	pos  string
}

func hookDecider(c *Ctx) (func(exists, notExists bool) hookDecision, string) {
	fn := c.a.OpenFileFn
	var oExcl, oCreate int64 = -1, -1
	if p := c.w.Prog.ImportedPackage("os"); p != nil {
		if k, ok := p.Members["O_EXCL"].(*ssa.NamedConst); ok {
			oExcl, _ = constant.Int64Val(constant.ToInt(k.Value.Value))
		}
		if k, ok := p.Members["O_CREATE"].(*ssa.NamedConst); ok {
			oCreate, _ = constant.Int64Val(constant.ToInt(k.Value.Value))
		}
	}
	if oExcl < 0 || oCreate < 0 {
		return nil, "cannot resolve os.O_EXCL / os.O_CREATE"
	}
	optField := func(v ssa.Value) string {
		p := path(v)
		if f := p.lastField(); f != nil && len(fn.Params) > 0 && spilledParam(p.Root) == ssa.Value(fn.Params[0]) {
			return f.Name()
		}
		return ""
	}
	hookKind := func(cl *ssa.Function) string {
		kind := "no os.OpenFile call"
		n := 0
		allInstrs(cl, func(i ssa.Instruction) {
			call, ok := i.(*ssa.Call)
			if !ok || calleeName(&call.Call) != "os.OpenFile" {
				return
			}
			n++
			if len(cl.Params) < 3 {
				kind = "unexpected signature"
				return
			}
			fl := call.Call.Args[1]
			kind = "unrecognised flag expression"
			if b, ok := fl.(*ssa.BinOp); ok {
				if k, isK := constInt(b.Y); isK && b.X == ssa.Value(cl.Params[1]) {
					switch {
					case b.Op == token.OR && k == oExcl:
						kind = "excl"
					case b.Op == token.AND_NOT && k == oCreate:
						kind = "nocreate"
					case b.Op == token.AND && k == ^oCreate:
						kind = "nocreate"
					default:
						kind = fmt.Sprintf("flags %s %#x", b.Op, k)
					}
				} else if k, isK := constInt(b.X); isK && b.Y == ssa.Value(cl.Params[1]) {
					switch {
					case b.Op == token.OR && k == oExcl:
						kind = "excl"
					case b.Op == token.AND && k == ^oCreate:
						kind = "nocreate"
					default:
						kind = fmt.Sprintf("flags %#x %s", k, b.Op)
					}
				}
			} else if fl == ssa.Value(cl.Params[1]) {
				kind = "plain"
			}
			if call.Call.Args[0] != ssa.Value(cl.Params[0]) {
				kind = "opens a different path"
			}
		})
		if n > 1 {
			return "several os.OpenFile calls"
		}
		return kind
	}
	decide := func(exists, notExists bool) hookDecision {
		b := fn.Blocks[0]
		for steps := 0; steps < 64; steps++ {
			last := b.Instrs[len(b.Instrs)-1]
			switch x := last.(type) {
			case *ssa.If:
				name := optField(x.Cond)
				neg := false
				if u, ok := x.Cond.(*ssa.UnOp); ok && u.Op == token.NOT {
					name, neg = optField(u.X), true
				}
				var v bool
				switch name {
				case "FailIfFileExists":
					v = exists
				case "FailIfFileDoesntExist":
					v = notExists
				default:
					return hookDecision{"branch on something other than an option field", c.w.ipos(last)}
				}
				if neg {
					v = !v
				}
				if v {
					b = b.Succs[0]
				} else {
					b = b.Succs[1]
				}
			case *ssa.Jump:
				b = b.Succs[0]
			case *ssa.Return:
				if len(x.Results) != 1 {
					return hookDecision{"unexpected return", c.w.ipos(last)}
				}
				switch v := x.Results[0].(type) {
				case *ssa.MakeClosure:
					return hookDecision{hookKind(v.Fn.(*ssa.Function)), c.w.ipos(last)}
				case *ssa.Function:
					if funcFullName(v) == "os.OpenFile" {
						return hookDecision{"plain", c.w.ipos(last)}
					}
					return hookDecision{hookKind(v), c.w.ipos(last)}
				}
				return hookDecision{"return value is not a function literal", c.w.ipos(last)}
			default:
				return hookDecision{"unexpected control flow", c.w.ipos(last)}
			}
		}
		return hookDecision{"loop in OpenFile", ""}
	}
	return decide, ""
}

// openFlagsRule: what OpenFile returns for each single option.
func openFlagsRule(c *Ctx, rule string) {
	if c.a.OpenFileFn == nil {
		return
	}
	decide, why := hookDecider(c)
	if decide == nil {
		c.r.undecided(rule, "os flags", why)
		return
	}
	d := decide(true, false)
	c.r.check(d.kind == "excl", rule, "hook for FailIfFileExists", "os.OpenFile(path, flags|O_EXCL, mode)",
		"with FailIfFileExists the returned hook does not add O_EXCL ("+d.kind+"): an existing output file would be opened and clobbered", d.pos)
	d = decide(false, true)
	c.r.check(d.kind == "nocreate", rule, "hook for FailIfFileDoesntExist", "os.OpenFile(path, flags&^O_CREATE, mode)",
		"with FailIfFileDoesntExist the returned hook does not clear O_CREATE ("+d.kind+"): opening a missing file would create it", d.pos)
	d = decide(false, false)
	c.r.check(d.kind == "plain", rule, "default hook", "os.OpenFile unchanged", "without options the hook alters the open ("+d.kind+")", d.pos)
}

// ---------- who may remove / truncate / rename a path ----------

// pathMutators: os-level calls that destroy or replace what a path names; value = indices of the path arguments.
var pathMutators = map[string][]int{
	"os.Remove": {0}, "os.RemoveAll": {0}, "os.Rename": {0, 1}, "os.Truncate": {0}, "os.WriteFile": {0}, "os.Create": {0},
	"io/ioutil.WriteFile": {0}, "os.Link": {1}, "os.Symlink": {1},
}

// noClobberRule: no call in non-test module code removes, truncates, renames or rewrites a path that is an index output
// path (the path of a bbolt.Open with the exclusive-create hook, or the filename argument of NewIndexWriter), unless the
// file was created by this very call of the function (the mutation is dominated by the successful exclusive open of the
// same path: cleanup of one's own partial output), or ownership of the file is established by the prover of rules_ag21.go
// (an ownership flag of a per-call object, a cleanup closure made after the create). Scratch files (os.CreateTemp) and
// unrelated paths are accepted.
func noClobberRule(c *Ctx, rule string) {
	// output paths: fields / values feeding the path of exclusive-create opens and of NewIndexWriter
	outFields := map[*types.Var]bool{}
	outVals := map[ssa.Value]bool{}
	type exclOpen struct {
		call *ssa.Call
		path ssa.Value
	}
	exclIn := map[*ssa.Function][]exclOpen{}
	note := func(v ssa.Value) {
		v = peel(v)
		outVals[v] = true
		if f := path(v).lastField(); f != nil {
			outFields[f] = true
		}
	}
	for _, s := range boltOpenSites(c) {
		if s.hook && s.exists != nil && *s.exists && !fromCreateTemp(s.call.Call.Args[0]) {
			note(s.call.Call.Args[0])
			exclIn[s.fn] = append(exclIn[s.fn], exclOpen{s.call, s.call.Call.Args[0]})
		}
	}
	for _, fn := range c.w.ModFuncs {
		allInstrs(fn, func(i ssa.Instruction) {
			if call, ok := i.(*ssa.Call); ok && calleeFunc(&call.Call) == c.a.NewMem && len(call.Call.Args) > 0 {
				note(call.Call.Args[0])
			}
		})
	}
	// a field that a constructor fills from its filename parameter is an output field as well
	if c.a.NewMem != nil {
		allInstrs(c.a.NewMem, func(i ssa.Instruction) {
			if st, ok := i.(*ssa.Store); ok {
				if _, isPar := st.Val.(*ssa.Parameter); isPar && isStringType(st.Val.Type()) {
					if fa, ok := st.Addr.(*ssa.FieldAddr); ok {
						if f := fieldOf(fa.X.Type(), fa.Field); f != nil {
							outFields[f] = true
						}
					}
				}
			}
		})
	}
	if len(outFields)+len(outVals) == 0 {
		c.r.undecided(rule, "<vacuity>", "no output path found (no exclusive-create bbolt.Open, no NewIndexWriter call)")
		return
	}
	isOutput := func(v ssa.Value) bool {
		v = peel(v)
		if outVals[v] {
			return true
		}
		if f := path(v).lastField(); f != nil && outFields[f] {
			return true
		}
		return false
	}
	n := 0
	idx := map[string]int{}
	var prover *ownProver
	for _, fn := range c.w.ModFuncs {
		allInstrs(fn, func(i ssa.Instruction) {
			cc := callCommon(i)
			if cc == nil {
				return
			}
			name := calleeName(cc)
			argIdx, ok := pathMutators[name]
			if !ok {
				return
			}
			n++
			idx[safeFname(fn)+name]++
			key := fmt.Sprintf("%s: %s#%d", safeFname(fn), shortName(name), idx[safeFname(fn)+name])
			pos := c.w.ipos(i)
			for _, ai := range argIdx {
				arg := cc.Args[ai]
				if fromCreateTemp(arg) {
					continue
				}
				if !isOutput(arg) {
					continue
				}
				// created by this call of the function? the mutation must be dominated by the success edge of an exclusive open of the same path
				own := false
				for _, eo := range exclIn[fn] {
					if !c.fc.sameFieldLoad(eo.path, arg) && peel(eo.path) != peel(arg) {
						continue
					}
					errv := resultValue(eo.call, 1)
					if errv == nil || !eo.call.Block().Dominates(i.Block()) {
						continue
					}
					for _, cm := range cmpsAt(i) {
						if cm.Op == token.EQL && ((cm.X == errv && isNilConst(cm.Y)) || (cm.Y == errv && isNilConst(cm.X))) {
							own = true
						}
					}
				}
				if own {
					continue
				}
				// … or ownership is tracked: a flag set where the exclusive create succeeded, a cleanup made after it (rules_ag21.go)
				if prover == nil {
					prover = newOwnProver(c)
				}
				if prover.owned(i, arg) {
					continue
				}
				c.r.bad(rule, key, shortName(name)+" is applied to an index output path that this call did not create itself: a file that existed before Flush can be removed, truncated or replaced"+prover.why(), []string{pos})
				return
			}
			c.r.ok(rule, key, "path is a scratch file, not an output path, or a file this call created exclusively", pos)
		})
	}
	c.r.Stats["path_mutator_calls"] = n
	if n == 0 {
		c.r.ok(rule, "<none>", "no path-mutating os call in non-test module code")
	}
}

func isStringType(t types.Type) bool {
	b, ok := t.Underlying().(*types.Basic)
	return ok && b.Kind() == types.String
}
