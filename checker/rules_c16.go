package main

import (
	"fmt"
	"go/constant"
	"go/token"
	"go/types"
	"strings"

	"golang.org/x/tools/go/ssa"
)

func init() {
	register(&propDef{
		id:  "C16",
		run: runC16,
		explanation: "Decided (structural, for every file content and every query sequence): " +
			"C16.opensites — every bbolt.Open call site in non-test module code is enumerated and classified by role; output sites (writer Flush, big-mode output of `updog create`) pass an OpenFile hook built by openfile.OpenFile with the constant option FailIfFileExists:true, input and scratch sites with FailIfFileDoesntExist:true; an unclassifiable site is undecided; " +
			"C16.flags — in openfile.OpenFile the hook returned for FailIfFileExists calls os.OpenFile with flags|O_EXCL (so an existing file of any content makes the open fail before anything is written), the one for FailIfFileDoesntExist with flags&^O_CREATE, and FailIfFileExists is tested first; " +
			"C16.readonly — from the read entry points (OpenIndex, OpenIndexFromBoltDatabase, all index options, Execute, GetSchema, Close, the sql driver's connection/statement methods, the gRPC handler, `updog schema`) no call resolves to a bbolt write API (Update, Batch, Begin(writable), Commit, Put, Delete, CreateBucket*, DeleteBucket, sequences) or to a file-mutating os call. " +
			"C16.noclobber — no os call that removes, truncates, renames or rewrites a path is applied to an index output path (path of an exclusive-create bbolt.Open, filename of NewIndexWriter) unless the same call of the function created the file (dominated by the successful exclusive open); scratch files from os.CreateTemp are exempt. " +
			"NOT decided: byte-for-byte equality as such; that bbolt.Open in read-write mode does not modify a well-formed file and that O_EXCL is honoured by the OS (trusted).",
		assumptions: []string{"bbolt.Open(read-write) does not write to a well-formed file", "O_CREATE|O_EXCL semantics of the OS", "call graph over-approximates the calls that can happen"},
	})
}

var boltWriteAPIs = map[string]bool{
	"(*go.etcd.io/bbolt.DB).Update": true, "(*go.etcd.io/bbolt.DB).Batch": true,
	"(*go.etcd.io/bbolt.Tx).CreateBucket": true, "(*go.etcd.io/bbolt.Tx).CreateBucketIfNotExists": true, "(*go.etcd.io/bbolt.Tx).DeleteBucket": true,
	"(*go.etcd.io/bbolt.Tx).Commit": true, "(*go.etcd.io/bbolt.Tx).MoveBucket": true,
	"(*go.etcd.io/bbolt.Bucket).Put": true, "(*go.etcd.io/bbolt.Bucket).Delete": true, "(*go.etcd.io/bbolt.Bucket).CreateBucket": true,
	"(*go.etcd.io/bbolt.Bucket).CreateBucketIfNotExists": true, "(*go.etcd.io/bbolt.Bucket).DeleteBucket": true,
	"(*go.etcd.io/bbolt.Bucket).SetSequence": true, "(*go.etcd.io/bbolt.Bucket).NextSequence": true, "(*go.etcd.io/bbolt.Bucket).MoveBucket": true,
	"(*go.etcd.io/bbolt.Cursor).Delete": true, "go.etcd.io/bbolt.Compact": true,
}

var fileMutators = map[string]bool{
	"os.Create": true, "os.Remove": true, "os.RemoveAll": true, "os.Rename": true, "os.WriteFile": true, "os.Truncate": true,
	"os.Chmod": true, "os.Chown": true, "os.Chtimes": true, "os.Link": true, "os.Symlink": true, "os.Mkdir": true, "os.MkdirAll": true,
	"os.CreateTemp": true, "os.MkdirTemp": true, "io/ioutil.WriteFile": true,
	"(*os.File).Write": true, "(*os.File).WriteAt": true, "(*os.File).WriteString": true, "(*os.File).Truncate": true, "(*os.File).ReadFrom": true,
	"(*os.File).Chmod": true, "(*os.File).Sync": false,
}

// boltReadOnlyRule: no call in the reachable set resolves to a bbolt write API / file mutator.
func boltReadOnlyRule(c *Ctx, rule string, re *Reach) {
	nCalls := 0
	for _, fn := range re.sorted() {
		bad := 0
		allInstrs(fn, func(i ssa.Instruction) {
			cc := callCommon(i)
			if cc == nil {
				return
			}
			name := calleeName(cc)
			if !strings.Contains(name, "bbolt") && !strings.HasPrefix(name, "os.") && !strings.HasPrefix(name, "(*os.File)") && !strings.HasPrefix(name, "io/ioutil.") {
				return
			}
			nCalls++
			switch {
			case boltWriteAPIs[name]:
				bad++
				c.r.bad(rule, safeFname(fn)+": "+shortName(name), "bbolt write API reachable from a read-only entry point", []string{c.w.ipos(i)}, re.chain(fn)...)
			case name == "(*go.etcd.io/bbolt.DB).Begin":
				if b, ok := constBool(cc.Args[1]); !ok || b {
					bad++
					c.r.bad(rule, safeFname(fn)+": DB.Begin", "a transaction that is not provably read-only (argument is not the constant false) is started from a read-only entry point", []string{c.w.ipos(i)}, re.chain(fn)...)
				}
			case fileMutators[name]:
				bad++
				c.r.bad(rule, safeFname(fn)+": "+shortName(name), "file-mutating call reachable from a read-only entry point", []string{c.w.ipos(i)}, re.chain(fn)...)
			case name == "os.OpenFile":
				// only through the openfile package's hooks (checked by C16.flags); elsewhere flags must be read-only
				if c.w.pkgPathOf(fn) != pkgOpen {
					if fl, ok := constInt(cc.Args[1]); !ok || fl != 0 {
						bad++
						c.r.bad(rule, safeFname(fn)+": os.OpenFile", "file opened with flags that are not provably O_RDONLY from a read-only entry point", []string{c.w.ipos(i)}, re.chain(fn)...)
					}
				}
			}
		})
		if bad == 0 {
			c.r.ok(rule, safeFname(fn), "no bbolt write API or file mutation", c.w.pos(fn.Pos()))
		}
	}
	c.r.Stats["bbolt_os_calls_examined_"+rule] = nCalls
}

// readEntries: everything a reader of an index can call.
func readEntries(c *Ctx) []*ssa.Function {
	out := []*ssa.Function{c.a.OpenIndex, c.a.OpenFromDB, c.a.WithCache, c.a.WithPreloaded, c.a.WithMetrics, c.a.Execute, c.a.GetSchema, c.a.IndexClose,
		c.a.ServerQuery, c.a.SchemaCmd, c.a.DrvOpen, c.a.LRUGet, c.a.LRUPut}
	// all methods of the driver's file connection, statement and rows types (invoked by database/sql)
	// (these driver types are found by the database/sql/driver interfaces they implement, rules_ag10.go; a missing one is
	// reported by C16.readonly's need of the driver anchors)
	for _, n := range []*types.Named{c.a.FileConnT, c.a.FileStmtT, c.a.RowsT, c.a.DriverT} {
		if n == nil {
			continue
		}
		for i := 0; i < n.NumMethods(); i++ {
			if f := c.a.methodOf(n, n.Method(i).Name()); f != nil {
				out = append(out, f)
			}
		}
	}
	var res []*ssa.Function
	for _, f := range out {
		if f != nil {
			res = append(res, f)
		}
	}
	return res
}

func runC16(c *Ctx) {
	if !c.need("C16.readonly", c.a.OpenIndex, c.a.OpenFromDB, c.a.Execute, c.a.GetSchema, c.a.IndexClose, c.a.ServerQuery, c.a.SchemaCmd, c.a.DrvOpen, c.a.OpenFileFn,
		c.a.DriverT, c.a.FileConnT, c.a.FileStmtT, c.a.RowsT) {
		return
	}
	re := c.w.reach(readEntries(c)...)
	c.r.Stats["reachable_functions"] = len(re.Funcs)
	boltReadOnlyRule(c, "C16.readonly", re)
	c.r.expect("C16.readonly", 30)
	openSitesRule(c, "C16.opensites")
	openFlagsRule(c, "C16.flags")
	noClobberRule(c, "C16.noclobber")
}

// ---------- bbolt.Open census ----------

type openSite struct {
	fn        *ssa.Function
	call      *ssa.Call
	exists    *bool // constant value of FailIfFileExists passed to openfile.OpenFile, nil if not constant / no hook
	notExists *bool
	hook      bool // Options.OpenFile is the result of openfile.OpenFile
	optsNil   bool
	fields    map[string]string // every field of the bbolt.Options literal that is set, with its (constant) value
}

func boltOpenSites(c *Ctx) []openSite {
	var out []openSite
	for _, fn := range c.w.ModFuncs {
		allInstrs(fn, func(i ssa.Instruction) {
			call, ok := i.(*ssa.Call)
			if !ok || calleeName(&call.Call) != "go.etcd.io/bbolt.Open" {
				return
			}
			s := openSite{fn: fn, call: call, fields: map[string]string{}}
			opts := call.Call.Args[2]
			if isNilConst(opts) {
				s.optsNil = true
				out = append(out, s)
				return
			}
			// opts = &bbolt.Options{OpenFile: openfile.OpenFile(openfile.Options{…})}: find the store to field OpenFile of that alloc
			if al, ok := peel(opts).(*ssa.Alloc); ok {
				for _, r := range referrers(al) {
					fa, ok := r.(*ssa.FieldAddr)
					if !ok {
						continue
					}
					f := fieldOf(fa.X.Type(), fa.Field)
					if f == nil {
						continue
					}
					for _, rr := range referrers(fa) {
						if st, ok := rr.(*ssa.Store); ok && st.Addr == ssa.Value(fa) {
							if k, ok := st.Val.(*ssa.Const); ok && k.Value != nil {
								s.fields[f.Name()] = k.Value.ExactString()
							} else if k, ok := st.Val.(*ssa.Const); ok && k.Value == nil {
								s.fields[f.Name()] = "zero"
							} else {
								s.fields[f.Name()] = "<non-constant>"
							}
						}
					}
					if f.Name() != "OpenFile" {
						continue
					}
					for _, rr := range referrers(fa) {
						st, ok := rr.(*ssa.Store)
						if !ok || st.Addr != ssa.Value(fa) {
							continue
						}
						hc, ok := peel(st.Val).(*ssa.Call)
						if !ok || calleeFunc(&hc.Call) != c.a.OpenFileFn {
							continue
						}
						s.hook = true
						s.exists, s.notExists = openfileOptions(hc.Call.Args[0])
					}
				}
			}
			out = append(out, s)
		})
	}
	return out
}

// openfileOptions extracts the constant fields of an openfile.Options struct value built by a composite literal.
func openfileOptions(v ssa.Value) (exists, notExists *bool) {
	f, t := false, false
	_ = t
	// a struct literal is: alloc local; stores to its fields; load. Fields never stored are false.
	ld, ok := v.(*ssa.UnOp)
	if !ok || ld.Op != token.MUL {
		if k, ok := v.(*ssa.Const); ok && k.Value == nil {
			return &f, &f // zero value
		}
		return nil, nil
	}
	al, ok := ld.X.(*ssa.Alloc)
	if !ok {
		return nil, nil
	}
	ex, nex := false, false
	okAll := true
	for _, r := range referrers(al) {
		switch x := r.(type) {
		case *ssa.FieldAddr:
			fld := fieldOf(x.X.Type(), x.Field)
			for _, rr := range referrers(x) {
				st, ok := rr.(*ssa.Store)
				if !ok {
					okAll = false
					continue
				}
				b, isConst := constBool(st.Val)
				if !isConst {
					okAll = false
					continue
				}
				switch fld.Name() {
				case "FailIfFileExists":
					ex = b
				case "FailIfFileDoesntExist":
					nex = b
				}
			}
		case *ssa.UnOp:
		case *ssa.DebugRef:
		default:
			okAll = false
		}
	}
	if !okAll {
		return nil, nil
	}
	return &ex, &nex
}

func openSitesRule(c *Ctx, rule string) {
	sites := boltOpenSites(c)
	c.r.Stats["bbolt_open_sites"] = len(sites)
	roleOf := func(s openSite) string {
		switch s.fn {
		case c.a.MemFlush:
			return "output"
		case c.a.OpenIndex:
			return "input"
		case c.a.CreateCmd:
			// scratch: the path comes from os.CreateTemp's file; output: anything else
			if fromCreateTemp(s.call.Call.Args[0]) {
				return "scratch"
			}
			return "output"
		}
		return ""
	}
	idx := map[string]int{}
	for _, s := range sites {
		role := roleOf(s)
		idx[safeFname(s.fn)]++
		key := fmt.Sprintf("%s#%d", safeFname(s.fn), idx[safeFname(s.fn)])
		pos := c.w.ipos(s.call)
		if role == "" {
			c.r.undecided(rule, key, "bbolt.Open call site that the census cannot classify as input, output or scratch", pos)
			continue
		}
		key += " (" + role + ")"
		if !s.hook || s.exists == nil {
			c.r.bad(rule, key, "bbolt.Open without an OpenFile hook built by openfile.OpenFile from constant options: bbolt's default opens with O_CREATE and would create a missing file / open an existing one", []string{pos})
			continue
		}
		decide, why := hookDecider(c)
		if decide == nil {
			c.r.undecided(rule, key, why, pos)
			continue
		}
		d := decide(*s.exists, *s.notExists)
		switch role {
		case "output":
			c.r.check(d.kind == "excl", rule, key, "opened with O_EXCL", "an output file is opened with a hook that does not add O_EXCL ("+d.kind+"): an existing file would be opened and overwritten in place", pos)
		default:
			c.r.check(d.kind == "nocreate", rule, key, "opened without O_CREATE", "an input file is opened with a hook that does not clear O_CREATE ("+d.kind+"): a missing file would be created", pos)
		}
	}
	c.r.expect(rule, 4)
	// sibling agreement on options that determine the on-disk format: a writer option the reader does not use makes
	// bbolt rewrite parts of the file (freelist, meta page) on the first read-write open.
	formatFields := []string{"NoFreelistSync", "FreelistType", "PageSize"}
	type sv struct{ site, val string }
	for _, ff := range formatFields {
		var vals []sv
		for _, s := range sites {
			if roleOf(s) == "scratch" || roleOf(s) == "" {
				continue
			}
			v := s.fields[ff]
			if v == "" || v == "zero" || v == "false" || v == "0" || v == `""` {
				v = "default"
			}
			vals = append(vals, sv{safeFname(s.fn) + " at " + c.w.ipos(s.call), v})
		}
		agree := true
		for _, x := range vals {
			if x.val != vals[0].val {
				agree = false
			}
		}
		desc := ""
		for _, x := range vals {
			desc += x.site + "=" + x.val + "; "
		}
		c.r.check(agree, "C16.openopts", "bbolt.Options."+ff, "writers and readers agree ("+desc+")",
			"index writers and readers open the file with different values of bbolt.Options."+ff+" ("+desc+"): bbolt reconciles the difference by writing to the file when it is opened for reading")
	}
}

func fromCreateTemp(v ssa.Value) bool {
	call, ok := peel(v).(*ssa.Call)
	if !ok || calleeName(&call.Call) != "(*os.File).Name" {
		return false
	}
	src := peel(call.Call.Args[0])
	if e, ok := src.(*ssa.Extract); ok {
		if cc, ok := e.Tuple.(*ssa.Call); ok && calleeName(&cc.Call) == "os.CreateTemp" {
			return true
		}
	}
	return false
}

// hookDecider evaluates openfile.OpenFile for constant option values: it walks OpenFile's CFG choosing branches by the
// option fields and classifies the hook that is returned by the flag arithmetic of its os.OpenFile call:
// "excl" (flags|O_EXCL), "nocreate" (flags&^O_CREATE), "plain" (flags unchanged / os.OpenFile itself), or a description.
type hookDecision struct {
	kind string
	pos  string
}

func hookDecider(c *Ctx) (func(exists, notExists bool) hookDecision, string) {
	fn := c.a.OpenFileFn
	var oExcl, oCreate int64 = -1, -1
	if p := c.w.Prog.ImportedPackage("os"); p != nil {
		if k, ok := p.Members["O_EXCL"].(*ssa.NamedConst); ok {
			oExcl, _ = constant.Int64Val(constant.ToInt(k.Value.Value))
		}
		if k, ok := p.Members["O_CREATE"].(*ssa.NamedConst); ok {
			oCreate, _ = constant.Int64Val(constant.ToInt(k.Value.Value))
		}
	}
	if oExcl < 0 || oCreate < 0 {
		return nil, "cannot resolve os.O_EXCL / os.O_CREATE"
	}
	optField := func(v ssa.Value) string {
		p := path(v)
		if f := p.lastField(); f != nil && len(fn.Params) > 0 && spilledParam(p.Root) == ssa.Value(fn.Params[0]) {
			return f.Name()
		}
		return ""
	}
	hookKind := func(cl *ssa.Function) string {
		kind := "no os.OpenFile call"
		n := 0
		allInstrs(cl, func(i ssa.Instruction) {
			call, ok := i.(*ssa.Call)
			if !ok || calleeName(&call.Call) != "os.OpenFile" {
				return
			}
			n++
			if len(cl.Params) < 3 {
				kind = "unexpected signature"
				return
			}
			fl := call.Call.Args[1]
			kind = "unrecognised flag expression"
			if b, ok := fl.(*ssa.BinOp); ok {
				if k, isK := constInt(b.Y); isK && b.X == ssa.Value(cl.Params[1]) {
					switch {
					case b.Op == token.OR && k == oExcl:
						kind = "excl"
					case b.Op == token.AND_NOT && k == oCreate:
						kind = "nocreate"
					case b.Op == token.AND && k == ^oCreate:
						kind = "nocreate"
					default:
						kind = fmt.Sprintf("flags %s %#x", b.Op, k)
					}
				} else if k, isK := constInt(b.X); isK && b.Y == ssa.Value(cl.Params[1]) {
					switch {
					case b.Op == token.OR && k == oExcl:
						kind = "excl"
					case b.Op == token.AND && k == ^oCreate:
						kind = "nocreate"
					default:
						kind = fmt.Sprintf("flags %#x %s", k, b.Op)
					}
				}
			} else if fl == ssa.Value(cl.Params[1]) {
				kind = "plain"
			}
			if call.Call.Args[0] != ssa.Value(cl.Params[0]) {
				kind = "opens a different path"
			}
		})
		if n > 1 {
			return "several os.OpenFile calls"
		}
		return kind
	}
	decide := func(exists, notExists bool) hookDecision {
		b := fn.Blocks[0]
		for steps := 0; steps < 64; steps++ {
			last := b.Instrs[len(b.Instrs)-1]
			switch x := last.(type) {
			case *ssa.If:
				name := optField(x.Cond)
				neg := false
				if u, ok := x.Cond.(*ssa.UnOp); ok && u.Op == token.NOT {
					name, neg = optField(u.X), true
				}
				var v bool
				switch name {
				case "FailIfFileExists":
					v = exists
				case "FailIfFileDoesntExist":
					v = notExists
				default:
					return hookDecision{"branch on something other than an option field", c.w.ipos(last)}
				}
				if neg {
					v = !v
				}
				if v {
					b = b.Succs[0]
				} else {
					b = b.Succs[1]
				}
			case *ssa.Jump:
				b = b.Succs[0]
			case *ssa.Return:
				if len(x.Results) != 1 {
					return hookDecision{"unexpected return", c.w.ipos(last)}
				}
				switch v := x.Results[0].(type) {
				case *ssa.MakeClosure:
					return hookDecision{hookKind(v.Fn.(*ssa.Function)), c.w.ipos(last)}
				case *ssa.Function:
					if funcFullName(v) == "os.OpenFile" {
						return hookDecision{"plain", c.w.ipos(last)}
					}
					return hookDecision{hookKind(v), c.w.ipos(last)}
				}
				return hookDecision{"return value is not a function literal", c.w.ipos(last)}
			default:
				return hookDecision{"unexpected control flow", c.w.ipos(last)}
			}
		}
		return hookDecision{"loop in OpenFile", ""}
	}
	return decide, ""
}

// openFlagsRule: what OpenFile returns for each single option.
func openFlagsRule(c *Ctx, rule string) {
	if c.a.OpenFileFn == nil {
		return
	}
	decide, why := hookDecider(c)
	if decide == nil {
		c.r.undecided(rule, "os flags", why)
		return
	}
	d := decide(true, false)
	c.r.check(d.kind == "excl", rule, "hook for FailIfFileExists", "os.OpenFile(path, flags|O_EXCL, mode)",
		"with FailIfFileExists the returned hook does not add O_EXCL ("+d.kind+"): an existing output file would be opened and clobbered", d.pos)
	d = decide(false, true)
	c.r.check(d.kind == "nocreate", rule, "hook for FailIfFileDoesntExist", "os.OpenFile(path, flags&^O_CREATE, mode)",
		"with FailIfFileDoesntExist the returned hook does not clear O_CREATE ("+d.kind+"): opening a missing file would create it", d.pos)
	d = decide(false, false)
	c.r.check(d.kind == "plain", rule, "default hook", "os.OpenFile unchanged", "without options the hook alters the open ("+d.kind+")", d.pos)
}

// ---------- who may remove / truncate / rename a path ----------

// pathMutators: os-level calls that destroy or replace what a path names; value = indices of the path arguments.
var pathMutators = map[string][]int{
	"os.Remove": {0}, "os.RemoveAll": {0}, "os.Rename": {0, 1}, "os.Truncate": {0}, "os.WriteFile": {0}, "os.Create": {0},
	"io/ioutil.WriteFile": {0}, "os.Link": {1}, "os.Symlink": {1},
}

// noClobberRule: no call in non-test module code removes, truncates, renames or rewrites a path that is an index output
// path (the path of a bbolt.Open with the exclusive-create hook, or the filename argument of NewIndexWriter), unless the
// file was created by this very call of the function (the mutation is dominated by the successful exclusive open of the
// same path: cleanup of one's own partial output). Scratch files (os.CreateTemp) and unrelated paths are accepted.
func noClobberRule(c *Ctx, rule string) {
	// output paths: fields / values feeding the path of exclusive-create opens and of NewIndexWriter
	outFields := map[*types.Var]bool{}
	outVals := map[ssa.Value]bool{}
	type exclOpen struct {
		call *ssa.Call
		path ssa.Value
	}
	exclIn := map[*ssa.Function][]exclOpen{}
	note := func(v ssa.Value) {
		v = peel(v)
		outVals[v] = true
		if f := path(v).lastField(); f != nil {
			outFields[f] = true
		}
	}
	for _, s := range boltOpenSites(c) {
		if s.hook && s.exists != nil && *s.exists && !fromCreateTemp(s.call.Call.Args[0]) {
			note(s.call.Call.Args[0])
			exclIn[s.fn] = append(exclIn[s.fn], exclOpen{s.call, s.call.Call.Args[0]})
		}
	}
	for _, fn := range c.w.ModFuncs {
		allInstrs(fn, func(i ssa.Instruction) {
			if call, ok := i.(*ssa.Call); ok && calleeFunc(&call.Call) == c.a.NewMem && len(call.Call.Args) > 0 {
				note(call.Call.Args[0])
			}
		})
	}
	// a field that a constructor fills from its filename parameter is an output field as well
	if c.a.NewMem != nil {
		allInstrs(c.a.NewMem, func(i ssa.Instruction) {
			if st, ok := i.(*ssa.Store); ok {
				if _, isPar := st.Val.(*ssa.Parameter); isPar && isStringType(st.Val.Type()) {
					if fa, ok := st.Addr.(*ssa.FieldAddr); ok {
						if f := fieldOf(fa.X.Type(), fa.Field); f != nil {
							outFields[f] = true
						}
					}
				}
			}
		})
	}
	if len(outFields)+len(outVals) == 0 {
		c.r.undecided(rule, "<vacuity>", "no output path found (no exclusive-create bbolt.Open, no NewIndexWriter call)")
		return
	}
	isOutput := func(v ssa.Value) bool {
		v = peel(v)
		if outVals[v] {
			return true
		}
		if f := path(v).lastField(); f != nil && outFields[f] {
			return true
		}
		return false
	}
	n := 0
	idx := map[string]int{}
	for _, fn := range c.w.ModFuncs {
		allInstrs(fn, func(i ssa.Instruction) {
			cc := callCommon(i)
			if cc == nil {
				return
			}
			name := calleeName(cc)
			argIdx, ok := pathMutators[name]
			if !ok {
				return
			}
			n++
			idx[safeFname(fn)+name]++
			key := fmt.Sprintf("%s: %s#%d", safeFname(fn), shortName(name), idx[safeFname(fn)+name])
			pos := c.w.ipos(i)
			for _, ai := range argIdx {
				arg := cc.Args[ai]
				if fromCreateTemp(arg) {
					continue
				}
				if !isOutput(arg) {
					continue
				}
				// created by this call of the function? the mutation must be dominated by the success edge of an exclusive open of the same path
				own := false
				for _, eo := range exclIn[fn] {
					if !c.fc.sameFieldLoad(eo.path, arg) && peel(eo.path) != peel(arg) {
						continue
					}
					errv := resultValue(eo.call, 1)
					if errv == nil || !eo.call.Block().Dominates(i.Block()) {
						continue
					}
					for _, cm := range cmpsAt(i) {
						if cm.Op == token.EQL && ((cm.X == errv && isNilConst(cm.Y)) || (cm.Y == errv && isNilConst(cm.X))) {
							own = true
						}
					}
				}
				if own {
					continue
				}
				c.r.bad(rule, key, shortName(name)+" is applied to an index output path that this call did not create itself: a file that existed before Flush can be removed, truncated or replaced", []string{pos})
				return
			}
			c.r.ok(rule, key, "path is a scratch file, not an output path, or a file this call created exclusively", pos)
		})
	}
	c.r.Stats["path_mutator_calls"] = n
	if n == 0 {
		c.r.ok(rule, "<none>", "no path-mutating os call in non-test module code")
	}
}

func isStringType(t types.Type) bool {
	b, ok := t.Underlying().(*types.Basic)
	return ok && b.Kind() == types.String
}
