package main

import (
	"go/constant"
	"go/token"
	"go/types"
	"sort"

	"golang.org/x/tools/go/ssa"
)

// Helpers for evaluation code that was split into function literals and small helpers (round 9, ag28):
// `eval` hands its computation as a literal to a get/compute/put helper (`evalCached(idx, key, func() …)`), the operand
// loop, the combining call or the complement live in a helper (`evalOperands`, `intersection`, `complement`). The rules
// of C01 keep their obligations; they look for the constructs in these bodies and bind the helper's parameters to the
// arguments of the call.

// evalBodies: fn and the function literals written in fn (recursively) that run as part of a call of fn — a literal that
// fn calls itself, or hands to a module function which calls the parameter that receives it (evalCached's `compute()`).
// A literal that is only stored, or handed to something that does not visibly call it, is not a body: what it contains
// does not count as done by fn.
func evalBodies(c *Ctx, fn *ssa.Function) []*ssa.Function {
	out := []*ssa.Function{fn}
	seen := map[*ssa.Function]bool{fn: true}
	for k := 0; k < len(out) && k < 16; k++ {
		b := out[k]
		allInstrs(b, func(i ssa.Instruction) {
			mc, ok := i.(*ssa.MakeClosure)
			if !ok {
				return
			}
			lit, ok := mc.Fn.(*ssa.Function)
			if !ok || lit.Parent() != b || seen[lit] || lit.Blocks == nil {
				return
			}
			if litRuns(c, mc) {
				seen[lit] = true
				out = append(out, lit)
			}
		})
	}
	return out
}

// litRuns: the closure value mc is called where it was made, or is an argument of a static call of a module function
// that calls the receiving parameter.
func litRuns(c *Ctx, mc *ssa.MakeClosure) bool {
	for _, r := range referrers(mc) {
		cc := callCommon(r)
		if cc == nil {
			continue
		}
		if cc.Value == ssa.Value(mc) {
			return true
		}
		h := calleeFunc(cc)
		if h == nil || cc.IsInvoke() || !c.w.inModule(h) || h.Blocks == nil {
			continue
		}
		for k, a := range cc.Args {
			if a != ssa.Value(mc) || k >= len(h.Params) {
				continue
			}
			called := false
			allInstrs(h, func(j ssa.Instruction) {
				if hc := callCommon(j); hc != nil && hc.Value == ssa.Value(h.Params[k]) {
					called = true
				}
			})
			if called {
				return true
			}
		}
	}
	return false
}

// helperCallsIn: the static calls, in the given bodies, of module functions with a body (no interface calls, no calls of
// expression methods: an operand's eval is not a helper of this node's evaluation).
func helperCallsIn(c *Ctx, bodies []*ssa.Function) []*ssa.Call {
	var out []*ssa.Call
	for _, b := range bodies {
		allInstrs(b, func(i ssa.Instruction) {
			call, ok := i.(*ssa.Call)
			if !ok || call.Call.IsInvoke() {
				return
			}
			h := calleeFunc(&call.Call)
			if h == nil || !c.w.inModule(h) || h.Blocks == nil || isExprMethod(c, h) {
				return
			}
			out = append(out, call)
		})
	}
	return out
}

// isExprMethod: h is a method of one of the expression node types.
func isExprMethod(c *Ctx, h *ssa.Function) bool {
	if h.Signature.Recv() == nil {
		return false
	}
	n := namedOf(h.Signature.Recv().Type())
	for _, T := range c.a.ExprImpls {
		if n == T {
			return true
		}
	}
	return false
}

// boundArg: v as the caller sees it — if v (through conversions and single-store cells) is a parameter of the callee of
// `call`, the argument the call passes for it; v itself otherwise.
func boundArg(call *ssa.Call, v ssa.Value) ssa.Value {
	if call == nil {
		return v
	}
	h := calleeFunc(&call.Call)
	if h == nil {
		return v
	}
	if p, ok := peel(v).(*ssa.Parameter); ok && p.Parent() == h {
		if a := argFor(call, h, p); a != nil {
			return a
		}
	}
	return v
}

// ---- operator tables --------------------------------------------------------------------------------------------------
//
// What differs between AND and OR may be kept in a package-level struct variable per operator
// (`opAnd = naryOp{tag: maskAnd, combine: roaring.FastAnd, accumulate: (*roaring.Bitmap).And}`) whose methods do the
// shared work. Such a variable is a *table* if it is written only by the package initialiser, one store per field, and
// everything else only reads it (loads of the whole value or of a field; its address goes nowhere). The value of a field
// of a table is then the value the initialiser stores.

var tableCache = map[*ssa.Global]map[*types.Var]ssa.Value{}

// tableInit: the fields' values of the table g; nil if g is not a table in the sense above.
func tableInit(c *Ctx, g *ssa.Global) map[*types.Var]ssa.Value {
	if m, ok := tableCache[g]; ok {
		return m
	}
	tableCache[g] = nil
	pt, ok := g.Type().Underlying().(*types.Pointer)
	if !ok || g.Pkg == nil {
		return nil
	}
	if _, isStruct := pt.Elem().Underlying().(*types.Struct); !isStruct {
		return nil
	}
	ini := g.Pkg.Func("init")
	if ini == nil {
		return nil
	}
	out := map[*types.Var]ssa.Value{}
	good := true
	uses := func(fn *ssa.Function, isInit bool) {
		allInstrs(fn, func(i ssa.Instruction) {
			var ops []*ssa.Value
			for _, op := range i.Operands(ops) {
				if op == nil || *op != ssa.Value(g) {
					continue
				}
				switch x := i.(type) {
				case *ssa.UnOp:
					if x.Op != token.MUL {
						good = false
					}
				case *ssa.FieldAddr:
					f := fieldOf(x.X.Type(), x.Field)
					for _, r := range referrers(x) {
						switch y := r.(type) {
						case *ssa.UnOp:
							if y.Op != token.MUL {
								good = false
							}
						case *ssa.Store:
							if !isInit || y.Addr != ssa.Value(x) || out[f] != nil {
								good = false
								continue
							}
							out[f] = y.Val
						case *ssa.DebugRef:
						default:
							good = false
						}
					}
				case *ssa.DebugRef:
				default:
					good = false // stored as a whole, address taken, …
				}
			}
		})
	}
	uses(ini, true)
	for _, fn := range c.w.ModFuncs {
		uses(fn, false)
	}
	if !good || len(out) == 0 {
		return nil
	}
	tableCache[g] = out
	return out
}

// tableOf: v is (a copy of) the value of a table variable: a load of the global, possibly through single-store cells.
func tableOf(c *Ctx, v ssa.Value) (*ssa.Global, map[*types.Var]ssa.Value) {
	ld, ok := peel(v).(*ssa.UnOp)
	if !ok || ld.Op != token.MUL {
		return nil, nil
	}
	g, ok := ld.X.(*ssa.Global)
	if !ok {
		return nil, nil
	}
	if m := tableInit(c, g); m != nil {
		return g, m
	}
	return nil, nil
}

// fieldLoad: v is the value of field f of the struct value (or of the struct a pointer points to) s: `s.f` of a value,
// a load of `&s.f`, or the same on the local copy ssa makes of a struct parameter whose address is taken.
func fieldLoad(v ssa.Value) (s ssa.Value, f *types.Var, ok bool) {
	switch x := v.(type) {
	case *ssa.Field:
		return x.X, fieldOf(x.X.Type(), x.Field), true
	case *ssa.UnOp:
		fa, isFA := x.X.(*ssa.FieldAddr)
		if x.Op != token.MUL || !isFA {
			return nil, nil, false
		}
		f = fieldOf(fa.X.Type(), fa.Field)
		if al, isAl := fa.X.(*ssa.Alloc); isAl {
			// the local copy of a struct: its one whole-value store
			var whole []*ssa.Store
			for _, r := range referrers(al) {
				switch y := r.(type) {
				case *ssa.Store:
					if y.Addr == ssa.Value(al) {
						whole = append(whole, y)
					} else {
						return nil, nil, false
					}
				case *ssa.FieldAddr:
					for _, rr := range referrers(y) {
						if st, isSt := rr.(*ssa.Store); isSt && st.Addr == ssa.Value(y) {
							return nil, nil, false // a field of the copy is reassigned
						}
					}
				case *ssa.UnOp, *ssa.DebugRef:
				default:
					return nil, nil, false
				}
			}
			if len(whole) != 1 {
				return nil, nil, false
			}
			return whole[0].Val, f, true
		}
		return fa.X, f, true
	}
	return nil, nil, false
}

// tableTag is an integer constant an operator table holds in one of its fields, with the places where a method of the
// table's type, called on the table in fn, reads that field.
type tableTag struct {
	k     *ssa.Const
	in    *ssa.Function
	loads []ssa.Value
}

// tableTags: for every call in fn that hands a table to a module function, the table's integer constants and the loads
// of the corresponding field from the receiving parameter. (C03.keyhash: the operator tag may come from the table.)
func tableTags(c *Ctx, fn *ssa.Function) []tableTag {
	var out []tableTag
	allInstrs(fn, func(i ssa.Instruction) {
		cc := callCommon(i)
		if cc == nil || cc.IsInvoke() {
			return
		}
		h := calleeFunc(cc)
		if h == nil || !c.w.inModule(h) || h.Blocks == nil {
			return
		}
		for ai, a := range cc.Args {
			if ai >= len(h.Params) {
				continue
			}
			_, tab := tableOf(c, a)
			if tab == nil {
				continue
			}
			for f, val := range tab {
				k, isK := val.(*ssa.Const)
				if !isK || k.Value == nil || k.Value.Kind() != constant.Int {
					continue
				}
				tt := tableTag{k: k, in: h}
				allInstrs(h, func(j ssa.Instruction) {
					v, isV := j.(ssa.Value)
					if !isV {
						return
					}
					if s, lf, ok := fieldLoad(v); ok && lf == f && peel(s) == ssa.Value(h.Params[ai]) {
						tt.loads = append(tt.loads, v)
					}
				})
				if len(tt.loads) > 0 {
					out = append(out, tt)
				}
			}
		}
	})
	sort.Slice(out, func(i, j int) bool { return out[i].k.Value.ExactString() < out[j].k.Value.ExactString() })
	return out
}

// ---- calls of function values held in struct fields ----------------------------------------------------------------------

// fieldFuncTargets: the functions a call of the function value v may run, where v is read from a struct field
// (`op.accumulate(acc, x)`): every value the module (its package initialisers included) stores into that field, resolved
// to a function (a named function, a literal, the thunk of a method expression `(*roaring.Bitmap).And`). ok is false if v
// is not such a read, or some store puts in a value that does not resolve: the caller then knows nothing about the call.
func fieldFuncTargets(c *Ctx, v ssa.Value) (out []*ssa.Function, ok bool) {
	_, f, isLoad := fieldLoad(v)
	if !isLoad || f == nil {
		return nil, false
	}
	if _, isSig := f.Type().Underlying().(*types.Signature); !isSig {
		return nil, false
	}
	ok = true
	seen := map[*ssa.Function]bool{}
	scan := func(fn *ssa.Function) {
		allInstrs(fn, func(i ssa.Instruction) {
			st, isSt := i.(*ssa.Store)
			if !isSt {
				return
			}
			fa, isFA := st.Addr.(*ssa.FieldAddr)
			if !isFA || fieldOf(fa.X.Type(), fa.Field) != f {
				return
			}
			if k, isK := st.Val.(*ssa.Const); isK && k.IsNil() {
				return
			}
			g := funcValueOf(st.Val, nil)
			if g == nil {
				ok = false
				return
			}
			if !seen[g] {
				seen[g] = true
				out = append(out, g)
			}
		})
	}
	for _, fn := range c.w.ModFuncs {
		scan(fn)
	}
	for _, p := range c.w.SSA {
		if ini := p.Func("init"); ini != nil {
			scan(ini)
		}
	}
	sort.Slice(out, func(i, j int) bool { return out[i].String() < out[j].String() })
	return out, ok && len(out) > 0
}

// bitmapMethodOfThunk: g is the function ssa synthesises for a method expression of roaring.Bitmap
// (`(*roaring.Bitmap).And`: the receiver is its first parameter); the method's name.
func bitmapMethodOfThunk(g *ssa.Function) (string, bool) {
	if g == nil || g.Synthetic == "" || g.Signature.Recv() != nil || len(g.Params) == 0 {
		return "", false
	}
	m, ok := g.Object().(*types.Func)
	if !ok {
		return "", false
	}
	sig, ok := m.Type().(*types.Signature)
	if !ok || sig.Recv() == nil || !typeIs(sig.Recv().Type(), roaringPkg, "Bitmap") {
		return "", false
	}
	return m.Name(), true
}

// ---- C14.bounds: a constant index into a slice parameter, guarded where the function is called ----------------------------
//
// `intersect(elems)` starts from elems[0]; `apply(exprs, elems)` tests len(elems) and looks at exprs[0]. The guarantee
// lies with the callers: the function is unexported, is never used as a value, and at every call in the module the
// argument is long enough — by a length test that dominates the call, on the argument itself or on the list it is the
// element-wise image of (`elems, err := evalOperands(idx, operands)` with err == nil: one bitmap per operand, a loop
// elementLoop accepts: whole list, nothing skipped) — or another parameter is, which the function itself tests, and
// which at every call is the image of the indexed one (an image is never longer than its source). A guard on a list
// other than the one that is evaluated (the operand list before nested operators were spliced into it) does not count.

// imageSource: v, at `at`, is the complete element-wise image (one evaluation result per element) of a list the call that
// produced v was given: v is the slice result of a module helper whose error is known to be nil at `at` (or that has no
// error result). Returns that list (a value of the caller), or nil.
func imageSource(c *Ctx, v ssa.Value, at ssa.Instruction) ssa.Value {
	call, callee, _, ok := resultOrigins(c.w, v)
	if !ok || call.Parent() != at.Parent() {
		return nil
	}
	if res := callee.Signature.Results(); res.Len() == 2 && isErrorType(res.At(1).Type()) {
		if !errKnownNil(extractOf(call, 1), at) {
			return nil
		}
	} else if res.Len() != 1 {
		return nil
	}
	for _, a := range call.Call.Args {
		if _, isSlice := a.Type().Underlying().(*types.Slice); !isSlice {
			continue
		}
		src := a
		if ok, _ := elementLoopX(c, call.Parent(), v, func(x ssa.Value) bool { return x == src }, evalCallElem, 0, false); ok {
			return src
		}
	}
	return nil
}

// lenAtLeastIP: lenAtLeast, also through the lists v is the image of.
func lenAtLeastIP(c *Ctx, v ssa.Value, need int64, at ssa.Instruction) bool {
	for n := 0; n < 3 && v != nil; n++ {
		if lenAtLeast(v, need, at) {
			return true
		}
		v = imageSource(c, v, at)
	}
	return false
}

// staticCallsOf: the calls of fn in the module, or nil,false if fn can also run in ways that are not such calls
// (exported, a function literal, used as a value, called through an interface or deferred/started as a goroutine).
func staticCallsOf(c *Ctx, fn *ssa.Function) ([]*ssa.Call, bool) {
	if fn.Parent() != nil || fn.Object() == nil || fn.Object().Exported() || c.usedAsValue(fn) {
		return nil, false
	}
	var sites []*ssa.Call
	ok := true
	for _, g := range c.w.ModFuncs {
		allInstrs(g, func(i ssa.Instruction) {
			cc := callCommon(i)
			if cc == nil || calleeFunc(cc) != fn {
				return
			}
			if call, isCall := i.(*ssa.Call); isCall {
				sites = append(sites, call)
			} else {
				ok = false
			}
		})
	}
	// a method can also be reached through an interface it implements: the call sites are then not all known
	if fn.Signature.Recv() != nil && c.w.CG != nil {
		if node := c.w.CG.Nodes[fn]; node != nil {
			for _, e := range node.In {
				if e.Site != nil && e.Site.Common().IsInvoke() {
					ok = false
				}
			}
		}
	}
	return sites, ok && len(sites) > 0
}

// c14IndexByCallers: the constant index ia (need = index+1 elements) into a slice parameter is in bounds by what the
// callers guarantee (see above).
func c14IndexByCallers(c *Ctx, ia *ssa.IndexAddr, need int64) bool {
	fn := ia.Parent()
	// (a parameter a function literal captures is kept in a cell that is stored once: peel)
	p, ok := peel(ia.X).(*ssa.Parameter)
	if !ok || p.Parent() != fn {
		return false
	}
	sites, ok := staticCallsOf(c, fn)
	if !ok {
		return false
	}
	all := true
	for _, s := range sites {
		a := argFor(s, fn, p)
		if a == nil || !lenAtLeastIP(c, a, need, s) {
			all = false
		}
	}
	if all {
		return true
	}
	// another parameter, tested here, that every caller passes the image of the indexed one for
	for _, q := range fn.Params {
		if q == p {
			continue
		}
		if _, isSlice := q.Type().Underlying().(*types.Slice); !isSlice || !lenAtLeast(q, need, ia) {
			continue
		}
		all = true
		for _, s := range sites {
			ap, aq := argFor(s, fn, p), argFor(s, fn, q)
			if ap == nil || aq == nil {
				all = false
				continue
			}
			if ok, _ := elementLoopX(c, s.Parent(), aq, func(x ssa.Value) bool { return x == ap }, evalCallElem, 0, false); !ok {
				all = false
			}
		}
		if all {
			return true
		}
	}
	return false
}
