package main

import (
	"go/token"
	"go/types"

	"golang.org/x/tools/go/ssa"
)

// natural loops of a function
type loopInfo struct {
	header *ssa.BasicBlock
	blocks map[*ssa.BasicBlock]bool
}

func loopsOf(fn *ssa.Function) []*loopInfo {
	byHeader := map[*ssa.BasicBlock]*loopInfo{}
	var out []*loopInfo
	for _, b := range fn.Blocks {
		for _, h := range b.Succs {
			if !h.Dominates(b) {
				continue
			}
			li := byHeader[h]
			if li == nil {
				li = &loopInfo{header: h, blocks: map[*ssa.BasicBlock]bool{h: true}}
				byHeader[h] = li
				out = append(out, li)
			}
			// nodes that reach b without passing h
			stack := []*ssa.BasicBlock{b}
			for len(stack) > 0 {
				x := stack[len(stack)-1]
				stack = stack[:len(stack)-1]
				if li.blocks[x] {
					continue
				}
				li.blocks[x] = true
				for _, p := range x.Preds {
					stack = append(stack, p)
				}
			}
		}
	}
	return out
}

func definedOutside(v ssa.Value, l *loopInfo) bool {
	// a load inside the loop from a local variable (or a field of one) that lives outside the loop and is not stored to
	// inside it yields the same slice in every iteration
	if ld, ok := v.(*ssa.UnOp); ok && ld.Op == token.MUL && l.blocks[ld.Block()] {
		if sv, ok := sliceVarOf(ld.X); ok {
			if al, ok := sv.alloc.(*ssa.Alloc); ok && !l.blocks[al.Block()] {
				written := false
				for b := range l.blocks {
					for _, ins := range b.Instrs {
						if st, ok := ins.(*ssa.Store); ok {
							if sv2, ok := sliceVarOf(st.Addr); ok && sv2.alloc == sv.alloc && (sv2.field == sv.field || sv2.field == -1) {
								written = true
							}
						}
					}
				}
				return !written
			}
		}
		return false
	}
	switch x := v.(type) {
	case *ssa.Parameter, *ssa.Const, *ssa.Global, *ssa.FreeVar, *ssa.Function:
		return true
	case ssa.Instruction:
		return !l.blocks[x.Block()]
	}
	return true
}

// ---------- ALIAS ----------

// aliasRule: an append whose base slice is defined outside a loop that contains the append, and is therefore the same
// slice in every iteration, makes all iterations share one backing array whenever cap(base) > len(base).
func aliasRule(c *Ctx, rule string, fns []*ssa.Function) {
	n := 0
	for _, fn := range fns {
		loops := loopsOf(fn)
		if len(loops) == 0 {
			continue
		}
		allInstrs(fn, func(i ssa.Instruction) {
			call, ok := i.(*ssa.Call)
			if !ok {
				return
			}
			if b, ok := call.Call.Value.(*ssa.Builtin); !ok || b.Name() != "append" || len(call.Call.Args) < 2 {
				return
			}
			base := call.Call.Args[0]
			for _, l := range loops {
				if !l.blocks[call.Block()] || !definedOutside(base, l) {
					continue
				}
				n++
				key := safeFname(fn) + ": append " + describeValue(base)
				why := ""
				switch x := base.(type) {
				case *ssa.Const:
					if x.IsNil() {
						c.r.ok(rule, key, "base is nil: every append allocates", c.w.ipos(i))
						return
					}
				case *ssa.Slice:
					if x.Max != nil {
						c.r.ok(rule, key, "full slice expression: capacity equals length, append copies", c.w.ipos(i))
						return
					}
				case *ssa.UnOp:
					if g, ok := x.X.(*ssa.Global); ok && x.Op == token.MUL {
						if why = capEqLenForever(c, g); why == "" {
							c.r.ok(rule, key, "package-level slice whose capacity equals its length forever: append copies", c.w.ipos(i))
							return
						}
					}
				}
				msg := "append inside a loop to a slice that is the same in every iteration (defined outside the loop): when it has spare capacity all iterations write into one backing array, so earlier results are overwritten by later ones"
				if why != "" {
					msg += " (" + why + ")"
				}
				c.r.bad(rule, key, msg, []string{c.w.ipos(i)})
				return
			}
		})
	}
	if n == 0 {
		c.r.ok(rule, "no loop-invariant append base", "no append in a loop uses a base slice defined outside that loop")
	}
}

func describeValue(v ssa.Value) string {
	p := path(v)
	if f := p.lastField(); f != nil {
		return "." + f.Name()
	}
	if v.Name() != "" {
		return v.Name()
	}
	return v.String()
}

// ---------- ORDER ----------

// accumulated slice inside a map-range loop: a local cell (alloc) or a field of a local struct (alloc, field)
type sliceVar struct {
	alloc ssa.Value
	field int // -1: the cell itself
}

func sliceVarOf(addr ssa.Value) (sliceVar, bool) {
	switch x := addr.(type) {
	case *ssa.FieldAddr:
		if al, ok := peelCell(x.X).(*ssa.Alloc); ok {
			return sliceVar{al, x.Field}, true
		}
	default:
		if al, ok := peelCell(addr).(*ssa.Alloc); ok {
			return sliceVar{al, -1}, true
		}
	}
	return sliceVar{}, false
}

func loadsOf(fn *ssa.Function, sv sliceVar) []ssa.Instruction {
	var out []ssa.Instruction
	all := []*ssa.Function{fn}
	for _, an := range fn.AnonFuncs {
		all = append(all, an)
	}
	for _, f := range all {
		allInstrs(f, func(i ssa.Instruction) {
			u, ok := i.(*ssa.UnOp)
			if !ok || u.Op != token.MUL {
				return
			}
			if sv.field >= 0 {
				if fa, ok := u.X.(*ssa.FieldAddr); ok && fa.Field == sv.field && peelCell(fa.X) == sv.alloc {
					out = append(out, i)
					return
				}
				// whole-struct load
				if peelCell(u.X) == sv.alloc {
					out = append(out, i)
				}
				return
			}
			if peelCell(u.X) == sv.alloc {
				out = append(out, i)
			}
		})
	}
	return out
}

var sortCalls = map[string]bool{"sort.Slice": true, "sort.SliceStable": true, "sort.Strings": true, "sort.Sort": true, "sort.Stable": true,
	"slices.Sort": true, "slices.SortFunc": true, "slices.SortStableFunc": true}

// orderRule: a slice filled while ranging over a map (iteration order is random) must be sorted ascending before it is
// used, and the sort must compare a string field byte-wise in ascending order.
func orderRule(c *Ctx, rule string, fn *ssa.Function) int {
	n := 0
	loops := loopsOf(fn)
	allInstrs(fn, func(i ssa.Instruction) {
		rg, ok := i.(*ssa.Range)
		if !ok {
			return
		}
		if _, isMap := rg.X.Type().Underlying().(*types.Map); !isMap {
			return
		}
		// the loop of this range: the innermost loop containing its Next
		var next *ssa.Next
		for _, r := range referrers(rg) {
			if nx, ok := r.(*ssa.Next); ok {
				next = nx
			}
		}
		if next == nil {
			return
		}
		var loop *loopInfo
		for _, l := range loops {
			if l.blocks[next.Block()] && (loop == nil || len(l.blocks) < len(loop.blocks)) {
				loop = l
			}
		}
		if loop == nil {
			return
		}
		// slices appended to inside the loop
		vars := map[sliceVar]ssa.Instruction{}
		for b := range loop.blocks {
			for _, ins := range b.Instrs {
				st, ok := ins.(*ssa.Store)
				if !ok {
					continue
				}
				call, ok := st.Val.(*ssa.Call)
				if !ok {
					continue
				}
				if bi, ok := call.Call.Value.(*ssa.Builtin); !ok || bi.Name() != "append" {
					continue
				}
				if sv, ok := sliceVarOf(st.Addr); ok {
					// only variables that live across the whole map loop (declared outside it)
					if al, ok := sv.alloc.(*ssa.Alloc); ok && !loop.blocks[al.Block()] {
						vars[sv] = ins
					}
				}
			}
		}
		for sv, at := range vars {
			n++
			key := safeFname(fn) + ": " + sv.alloc.Name()
			if al, ok := sv.alloc.(*ssa.Alloc); ok && al.Comment != "" {
				key = safeFname(fn) + ": " + al.Comment
			}
			if sv.field >= 0 {
				key += "." + fieldOf(sv.alloc.Type(), sv.field).Name()
			}
			// uses after the loop
			var sorts []*ssa.Call
			var others []ssa.Instruction
			for _, ld := range loadsOf(fn, sv) {
				if ld.Parent() == fn && loop.blocks[ld.Block()] {
					continue
				}
				if ld.Parent() != fn {
					continue // inside closures (the less function): checked below
				}
				isSort := false
				for _, u := range usesOf(ld.(ssa.Value)) {
					uu := u
					if mi, ok := u.(*ssa.MakeInterface); ok {
						for _, u2 := range usesOf(mi) {
							uu = u2
						}
					}
					if call, ok := uu.(*ssa.Call); ok && sortCalls[calleeName(&call.Call)] {
						sorts = append(sorts, call)
						isSort = true
					}
				}
				if !isSort {
					others = append(others, ld)
				}
			}
			// only loads that can execute after the loop matter
			var after []ssa.Instruction
			for _, o := range others {
				if c.fc.reachableFrom(fn, at, o) {
					after = append(after, o)
				}
			}
			if len(after) == 0 && len(sorts) == 0 {
				c.r.ok(rule, key, "filled from a map but not used afterwards", c.w.ipos(at))
				continue
			}
			if len(sorts) == 0 {
				c.r.bad(rule, key, "a slice filled while ranging over a map is used without being sorted: its order changes from run to run", []string{c.w.ipos(at)})
				continue
			}
			okDom := true
			for _, o := range after {
				dominated := false
				for _, sc := range sorts {
					if sc.Block() == o.Block() {
						if pointOf(sc).i < pointOf(o).i {
							dominated = true
						}
					} else if sc.Block().Dominates(o.Block()) {
						dominated = true
					}
				}
				if !dominated {
					okDom = false
				}
			}
			if !okDom {
				c.r.bad(rule, key, "a slice filled while ranging over a map is used on a path that has not sorted it", []string{c.w.ipos(at)})
				continue
			}
			// the comparison
			bad := ""
			for _, sc := range sorts {
				name := calleeName(&sc.Call)
				if name == "sort.Strings" || name == "slices.Sort" {
					continue
				}
				if name != "sort.Slice" && name != "sort.SliceStable" {
					bad = "sorted with " + shortName(name) + ", whose order this rule cannot check"
					continue
				}
				var less *ssa.Function
				switch v := sc.Call.Args[1].(type) {
				case *ssa.MakeClosure:
					less, _ = v.Fn.(*ssa.Function)
				case *ssa.Function:
					less = v
				}
				if less == nil || len(less.Params) != 2 {
					bad = "less function not resolvable"
					continue
				}
				nRet := 0
				allInstrs(less, func(j ssa.Instruction) {
					ret, ok := j.(*ssa.Return)
					if !ok || len(ret.Results) != 1 {
						return
					}
					nRet++
					b, ok := ret.Results[0].(*ssa.BinOp)
					if !ok || b.Op != token.LSS {
						if ok && b.Op == token.GTR {
							bad = "descending comparison"
						} else {
							bad = "less function is not a plain `a[i].F < a[j].F`"
						}
						return
					}
					xi, xf := elemIndexField(b.X)
					yi, yf := elemIndexField(b.Y)
					if xi == nil || yi == nil || xf != yf {
						bad = "less function does not compare the same field of two elements"
						return
					}
					if xi != ssa.Value(less.Params[0]) || yi != ssa.Value(less.Params[1]) {
						bad = "descending comparison (element j compared before element i)"
						return
					}
					if bt, ok := b.X.Type().Underlying().(*types.Basic); !ok || bt.Info()&types.IsString == 0 {
						bad = "comparison is not on a string"
					}
				})
				if nRet != 1 && bad == "" {
					bad = "less function with several returns"
				}
			}
			c.r.check(bad == "", rule, key, "sorted ascending (byte-wise on a string) before any use", "a slice filled from a map is not sorted ascending by its string key: "+bad, c.w.ipos(sorts[0]))
		}
	})
	return n
}

// elemIndexField: v is `s[idx].F` (load of a field of an indexed element): returns idx and F.
func elemIndexField(v ssa.Value) (ssa.Value, *types.Var) {
	ld, ok := v.(*ssa.UnOp)
	if !ok || ld.Op != token.MUL {
		return nil, nil
	}
	switch x := ld.X.(type) {
	case *ssa.FieldAddr:
		if ia, ok := x.X.(*ssa.IndexAddr); ok {
			return ia.Index, fieldOf(x.X.Type(), x.Field)
		}
	case *ssa.IndexAddr:
		return x.Index, nil // []string: the element itself
	}
	return nil, nil
}
