package main

import (
	"go/token"
	"go/types"

	"golang.org/x/tools/go/ssa"
)

// natural loops of a function
type loopInfo struct {
	header *ssa.BasicBlock
	blocks map[*ssa.BasicBlock]bool
}

func loopsOf(fn *ssa.Function) []*loopInfo {
	byHeader := map[*ssa.BasicBlock]*loopInfo{}
	var out []*loopInfo
	for _, b := range fn.Blocks {
		for _, h := range b.Succs {
			if !h.Dominates(b) {
				continue
			}
			li := byHeader[h]
			if li == nil {
				li = &loopInfo{header: h, blocks: map[*ssa.BasicBlock]bool{h: true}}
				byHeader[h] = li
				out = append(out, li)
			}
			// nodes that reach b without passing h
			stack := []*ssa.BasicBlock{b}
			for len(stack) > 0 {
				x := stack[len(stack)-1]
				stack = stack[:len(stack)-1]
				if li.blocks[x] {
					continue
				}
				li.blocks[x] = true
				for _, p := range x.Preds {
					stack = append(stack, p)
				}
			}
		}
	}
	return out
}

func definedOutside(v ssa.Value, l *loopInfo) bool {
	// a load inside the loop from a local variable (or a field of one) that lives outside the loop and is not stored to
	// inside it yields the same slice in every iteration
	if ld, ok := v.(*ssa.UnOp); ok && ld.Op == token.MUL && l.blocks[ld.Block()] {
		if sv, ok := sliceVarOf(ld.X); ok {
			if al, ok := sv.alloc.(*ssa.Alloc); ok && !l.blocks[al.Block()] {
				written := false
				for b := range l.blocks {
					for _, ins := range b.Instrs {
						if st, ok := ins.(*ssa.Store); ok {
							if sv2, ok := sliceVarOf(st.Addr); ok && sv2.alloc == sv.alloc && (sv2.field == sv.field || sv2.field == -1) {
								written = true
							}
						}
					}
				}
				return !written
			}
		}
		return false
	}
	switch x := v.(type) {
	case *ssa.Parameter, *ssa.Const, *ssa.Global, *ssa.FreeVar, *ssa.Function:
		return true
	case ssa.Instruction:
		return !l.blocks[x.Block()]
	}
	return true
}

// ---------- ALIAS ----------

// aliasRule: an append whose base slice is defined outside a loop that contains the append, and is therefore the same
// slice in every iteration, makes all iterations share one backing array whenever cap(base) > len(base).
func aliasRule(c *Ctx, rule string, fns []*ssa.Function) {
	n := 0
	for _, fn := range fns {
		loops := loopsOf(fn)
		if len(loops) == 0 {
			continue
		}
		allInstrs(fn, func(i ssa.Instruction) {
			call, ok := i.(*ssa.Call)
			if !ok {
				return
			}
			if b, ok := call.Call.Value.(*ssa.Builtin); !ok || b.Name() != "append" || len(call.Call.Args) < 2 {
				return
			}
			base := call.Call.Args[0]
			for _, l := range loops {
				if !l.blocks[call.Block()] || !definedOutside(base, l) {
					continue
				}
				n++
				key := safeFname(fn) + ": append " + describeValue(base)
				why := ""
				switch x := base.(type) {
				case *ssa.Const:
					if x.IsNil() {
						c.r.ok(rule, key, "base is nil: every append allocates", c.w.ipos(i))
						return
					}
				case *ssa.Slice:
					if x.Max != nil {
						c.r.ok(rule, key, "full slice expression: capacity equals length, append copies", c.w.ipos(i))
						return
					}
				case *ssa.UnOp:
					if g, ok := x.X.(*ssa.Global); ok && x.Op == token.MUL {
						if why = capEqLenForever(c, g); why == "" {
							c.r.ok(rule, key, "package-level slice whose capacity equals its length forever: append copies", c.w.ipos(i))
							return
						}
					}
				}
				msg := "append inside a loop to a slice that is the same in every iteration (defined outside the loop): when it has spare capacity all iterations write into one backing array, so earlier results are overwritten by later ones"
				if why != "" {
					msg += " (" + why + ")"
				}
				c.r.bad(rule, key, msg, []string{c.w.ipos(i)})
				return
			}
		})
	}
	if n == 0 {
		c.r.ok(rule, "no loop-invariant append base", "no append in a loop uses a base slice defined outside that loop")
	}
}

func describeValue(v ssa.Value) string {
	p := path(v)
	if f := p.lastField(); f != nil {
		return "." + f.Name()
	}
	if v.Name() != "" {
		return v.Name()
	}
	return v.String()
}

// ---------- ORDER ----------

// accumulated slice inside a map-range loop: a local cell (alloc) or a field of a local struct (alloc, field)
type sliceVar struct {
	alloc ssa.Value
	field int // -1: the cell itself
}

func sliceVarOf(addr ssa.Value) (sliceVar, bool) {
	switch x := addr.(type) {
	case *ssa.FieldAddr:
		if al := localObjOf(x.X); al != nil {
			return sliceVar{al, x.Field}, true
		}
	default:
		if al, ok := peelCell(addr).(*ssa.Alloc); ok {
			return sliceVar{al, -1}, true
		}
	}
	return sliceVar{}, false
}

// localObjOf: the object created in this function that a struct address denotes: a local struct variable (possibly
// captured by a closure), or the object a pointer variable assigned exactly once points to (`gb := &groupBy{…}`, whose
// fields are reached through loads of gb — directly or, in a closure, through the captured cell).
func localObjOf(v ssa.Value) *ssa.Alloc {
	if al, ok := peelCell(v).(*ssa.Alloc); ok {
		return al
	}
	if _, isLoad := v.(*ssa.UnOp); isLoad {
		if al, ok := peel(v).(*ssa.Alloc); ok {
			return al
		}
	}
	return nil
}

func loadsOf(fn *ssa.Function, sv sliceVar) []ssa.Instruction {
	var out []ssa.Instruction
	all := []*ssa.Function{fn}
	for _, an := range fn.AnonFuncs {
		all = append(all, an)
	}
	for _, f := range all {
		allInstrs(f, func(i ssa.Instruction) {
			u, ok := i.(*ssa.UnOp)
			if !ok || u.Op != token.MUL {
				return
			}
			if sv.field >= 0 {
				if fa, ok := u.X.(*ssa.FieldAddr); ok && fa.Field == sv.field && ssa.Value(localObjOf(fa.X)) == sv.alloc {
					out = append(out, i)
					return
				}
				// whole-struct load
				if peelCell(u.X) == sv.alloc {
					out = append(out, i)
				}
				return
			}
			if peelCell(u.X) == sv.alloc {
				out = append(out, i)
			}
		})
	}
	return out
}

// sortCalls: library calls that sort their first argument in place.
var sortCalls = map[string]bool{"sort.Slice": true, "sort.SliceStable": true, "sort.Strings": true, "sort.Sort": true, "sort.Stable": true,
	"slices.Sort": true, "slices.SortFunc": true, "slices.SortStableFunc": true}

// orderRule (ORDER): a slice whose element order comes from a map (iteration order is random) must be sorted
// ascending, byte-wise on a string key, before it is used. Returns the number of such slices found in fn (the callers'
// vacuity guards count them). A slice "filled from a map" is
//
//   - a slice variable appended to inside a `for … range m` loop over a map and living across that loop: a local cell
//     (a variable or a field of a local struct that a closure captures or whose address is taken) or an SSA register
//     (the loop-carried phi of a plain local, which is what a variable becomes once no `sort.Slice` closure captures it);
//   - a cell of this function appended to by the body of `for k := range maps.Keys(m)` (maps.Values, maps.All), which
//     go/ssa compiles to a call of the sequence with the body as a closure;
//   - the result of slices.Collect(maps.Keys(m)) / slices.Collect(maps.Values(m));
//   - the result of slices.Sorted / slices.SortedFunc / slices.SortedStableFunc over maps.Keys(m) / maps.Values(m), which
//     is sorted by construction: by `<` on its elements (which must be strings), resp. by the comparison function,
//     which is held to the same standard as the one of slices.SortFunc.
//
// Accepted sorts: sort.Strings, slices.Sort on strings, sort.Slice/SliceStable with a less function equivalent to
// `a[i].F < a[j].F` (also `cmp.Less(…)`, `cmp.Compare(…) < 0`, `strings.Compare(…) < 0`), slices.SortFunc/SortStableFunc
// with a comparison function equivalent to `cmp.Compare(a.F, b.F)` (also strings.Compare, or one of the two passed
// directly). Swapped operands, `>`, a negated comparison, a different field on the two sides and a non-string key are
// reported; so is any other sorting API (its order cannot be checked).
//
// Every read of the slice that can execute after it was filled must be dominated by an accepted sort; len and cap do not
// depend on the order and are not reads. A read that only walks the still unsorted slice in another loop
// (`for _, k := range keys`) hands the random order on: the slices filled in that loop are then held to the same rule and
// the walk itself is not a violation (a walk that fills nothing stays a plain read).
//
// Once a slice is known to be sorted, three ways of undoing the order are refuted (reported only when positively
// identified; any other later reordering is not looked for): slices.Reverse on it, ranging over slices.Backward of it,
// and an index walk from the back inside a loop that appends.
func orderRule(c *Ctx, rule string, fn *ssa.Function) int {
	o := &orderCtx{c: c, rule: rule, fn: fn, loops: loopsOf(fn), filled: map[*loopInfo]int{}}
	allInstrs(fn, func(i ssa.Instruction) {
		switch x := i.(type) {
		case *ssa.Range:
			if _, isMap := x.X.Type().Underlying().(*types.Map); !isMap {
				return
			}
			// the loop of this range: the innermost loop containing its Next
			for _, r := range referrers(x) {
				if nx, ok := r.(*ssa.Next); ok {
					o.unorderedLoop(o.innermost(nx.Block()))
				}
			}
		case *ssa.Call:
			o.keySlice(x)
			o.rangeFunc(x)
		}
	})
	return o.n
}

type orderCtx struct {
	c      *Ctx
	rule   string
	fn     *ssa.Function
	loops  []*loopInfo
	filled map[*loopInfo]int // loops walking something unordered that have been looked at: number of slices filled in them
	n      int
}

// filledSlice: one slice whose element order comes from a map.
type filledSlice struct {
	key      string
	at       ssa.Instruction          // an append that fills it, or the call that produces it
	loop     *loopInfo                // the loop that fills it (nil: produced by a call, or filled by a range-over-func body)
	reach    bool                     // only reads that can execute after `at` count (false: every read follows `at` anyway)
	reads    []sliceRead              // the values through which it is read outside that loop
	internal map[ssa.Instruction]bool // the variable's own plumbing (phis, the filling appends, stores into its cell): not reads
}

type sliceRead struct {
	val ssa.Value
	pos ssa.Instruction // the load, when the variable is a cell; nil for an SSA register, which is read where it is used
	obj bool            // val is the address of the object that holds the slice: only handing the object on counts as a read
}

func (o *orderCtx) innermost(b *ssa.BasicBlock) *loopInfo {
	var loop *loopInfo
	for _, l := range o.loops {
		if l.blocks[b] && (loop == nil || len(l.blocks) < len(loop.blocks)) {
			loop = l
		}
	}
	return loop
}

func appendCallOf(i ssa.Instruction) (*ssa.Call, bool) {
	call, ok := i.(*ssa.Call)
	if !ok {
		return nil, false
	}
	if bi, ok := call.Call.Value.(*ssa.Builtin); !ok || bi.Name() != "append" || len(call.Call.Args) == 0 {
		return nil, false
	}
	return call, true
}

// unorderedLoop: loop walks something in random order (a map, or a slice of map keys that has not been sorted); every
// slice variable that receives appends inside it and lives across it is a filled slice.
func (o *orderCtx) unorderedLoop(loop *loopInfo) int {
	if loop == nil {
		return 0
	}
	if k, done := o.filled[loop]; done {
		return k
	}
	o.filled[loop] = 0
	fn := o.fn
	// cells appended to inside the loop
	vars := map[sliceVar]ssa.Instruction{}
	var order []sliceVar
	for _, b := range fn.Blocks {
		if !loop.blocks[b] {
			continue
		}
		for _, ins := range b.Instrs {
			st, ok := ins.(*ssa.Store)
			if !ok {
				continue
			}
			if _, ok := appendCallOf(instrOf(st.Val)); !ok {
				continue
			}
			if sv, ok := sliceVarOf(st.Addr); ok {
				// only variables that live across the whole loop (declared outside it)
				if al, ok := sv.alloc.(*ssa.Alloc); ok && !loop.blocks[al.Block()] {
					if _, dup := vars[sv]; !dup {
						order = append(order, sv)
					}
					vars[sv] = ins
				}
			}
		}
	}
	for _, sv := range order {
		fs := &filledSlice{key: o.cellKey(sv), at: vars[sv], loop: loop, reach: true, reads: o.cellReads(sv, loop)}
		o.n++
		o.filled[loop]++
		o.check(fs, false, "")
	}
	// registers: loop-carried phis of slice type that are appended to inside the loop
	for _, ins := range loop.header.Instrs {
		phi, ok := ins.(*ssa.Phi)
		if !ok {
			break
		}
		if _, isSlice := phi.Type().Underlying().(*types.Slice); !isSlice {
			continue
		}
		vals, internal, app := o.versions(phi, loop)
		if app == nil {
			continue
		}
		carried := false
		for k, e := range phi.Edges {
			if loop.blocks[phi.Block().Preds[k]] && e != ssa.Value(phi) {
				for _, v := range vals {
					carried = carried || v == e
				}
			}
		}
		if !carried {
			continue // appended to, but the result does not become the variable's next value
		}
		name := phi.Comment
		if name == "" {
			name = phi.Name()
		}
		fs := &filledSlice{key: safeFname(fn) + ": " + name, at: app, loop: loop, reach: true, internal: internal}
		for _, v := range vals {
			fs.reads = append(fs.reads, sliceRead{val: v})
		}
		o.n++
		o.filled[loop]++
		o.check(fs, false, "")
	}
	return o.filled[loop]
}

func (o *orderCtx) cellKey(sv sliceVar) string {
	key := safeFname(o.fn) + ": " + sv.alloc.Name()
	if al, ok := sv.alloc.(*ssa.Alloc); ok && al.Comment != "" {
		key = safeFname(o.fn) + ": " + al.Comment
	}
	if sv.field >= 0 {
		key += "." + fieldOf(sv.alloc.Type(), sv.field).Name()
	}
	return key
}

// cellReads: the loads of a slice cell in this function outside the loop that fills it. Loads inside closures (the less
// function) are part of the sort, which is checked on its own.
func (o *orderCtx) cellReads(sv sliceVar, loop *loopInfo) []sliceRead {
	var out []sliceRead
	for _, ld := range loadsOf(o.fn, sv) {
		if ld.Parent() != o.fn || (loop != nil && loop.blocks[ld.Block()]) {
			continue
		}
		out = append(out, sliceRead{val: ld.(ssa.Value), pos: ld})
	}
	// the slice is a field of an object held by pointer (`gb := &groupBy{…}`): handing the pointer on (returning it,
	// storing it, passing it to a call) lets the receiver read the slice as it is at that point
	if al, ok := sv.alloc.(*ssa.Alloc); ok && sv.field >= 0 && al.Heap {
		out = append(out, sliceRead{val: al, obj: true})
		allInstrs(o.fn, func(i ssa.Instruction) {
			u, ok := i.(*ssa.UnOp)
			if !ok || u.Op != token.MUL || (loop != nil && loop.blocks[u.Block()]) {
				return
			}
			if cell, isCell := peelCell(u.X).(*ssa.Alloc); isCell && cell != al && peel(u) == ssa.Value(al) {
				out = append(out, sliceRead{val: u, pos: u, obj: true})
			}
		})
	}
	return out
}

// rangeFunc: `for k := range maps.Keys(m)` (also maps.Values, maps.All) is the call seq(yield) with the loop body as the
// yield closure: the cells of this function that the body appends to are filled in map order.
func (o *orderCtx) rangeFunc(call *ssa.Call) {
	if m, _ := mapSeq(call.Call.Value); m == nil || len(call.Call.Args) != 1 {
		return
	}
	mc, ok := call.Call.Args[0].(*ssa.MakeClosure)
	if !ok {
		return
	}
	body, _ := mc.Fn.(*ssa.Function)
	if body == nil {
		return
	}
	seen := map[sliceVar]bool{}
	allInstrs(body, func(ins ssa.Instruction) {
		st, ok := ins.(*ssa.Store)
		if !ok {
			return
		}
		if _, ok := appendCallOf(instrOf(st.Val)); !ok {
			return
		}
		sv, ok := sliceVarOf(st.Addr)
		if !ok || seen[sv] {
			return
		}
		if al, ok := sv.alloc.(*ssa.Alloc); !ok || al.Parent() != o.fn {
			return
		}
		seen[sv] = true
		o.n++
		o.check(&filledSlice{key: o.cellKey(sv), at: call, reads: o.cellReads(sv, nil), reach: true}, false, "")
	})
}

// versions: the SSA values that stand for one slice variable: the seed, the phis that merge versions, the appends to a
// version inside the filling loop and — for the result of a call (loop == nil) that is stored into a local cell (a
// variable captured by a closure, a field of a local struct) — the loads of that cell in this function.
func (o *orderCtx) versions(seed ssa.Value, loop *loopInfo) (vals []ssa.Value, internal map[ssa.Instruction]bool, app ssa.Instruction) {
	internal = map[ssa.Instruction]bool{}
	seen := map[ssa.Value]bool{}
	work := []ssa.Value{seed}
	for len(work) > 0 {
		v := work[0]
		work = work[1:]
		if seen[v] {
			continue
		}
		seen[v] = true
		vals = append(vals, v)
		for _, u := range usesOf(v) {
			switch x := u.(type) {
			case *ssa.Phi:
				internal[x] = true
				work = append(work, x)
			case *ssa.Call:
				if call, ok := appendCallOf(x); ok && loop != nil && loop.blocks[x.Block()] && call.Call.Args[0] == v {
					internal[x] = true
					if app == nil {
						app = x
					}
					work = append(work, x)
				}
			case *ssa.Store:
				if loop != nil || x.Addr == v {
					continue
				}
				if sv, ok := sliceVarOf(x.Addr); ok {
					if _, isAlloc := sv.alloc.(*ssa.Alloc); isAlloc {
						internal[x] = true
						for _, ld := range loadsOf(o.fn, sv) {
							if ld.Parent() == o.fn {
								work = append(work, ld.(ssa.Value))
							}
						}
					}
				}
			}
		}
	}
	return
}

// mapSeq: v is maps.Keys(m), maps.Values(m) or maps.All(m) of a map m (possibly held in a variable assigned once).
func mapSeq(v ssa.Value) (m ssa.Value, name string) {
	call, ok := peel(v).(*ssa.Call)
	if !ok || len(call.Call.Args) != 1 {
		return nil, ""
	}
	name = calleeName(&call.Call)
	if name != "maps.Keys" && name != "maps.Values" && name != "maps.All" {
		return nil, ""
	}
	if _, isMap := call.Call.Args[0].Type().Underlying().(*types.Map); !isMap {
		return nil, ""
	}
	return call.Call.Args[0], name
}

// keySlice: the slice of a map's keys (values) made by the slices/maps packages instead of a hand-written loop.
func (o *orderCtx) keySlice(call *ssa.Call) {
	name := calleeName(&call.Call)
	switch name {
	case "slices.Collect", "slices.Sorted", "slices.SortedFunc", "slices.SortedStableFunc":
	default:
		return
	}
	if len(call.Call.Args) == 0 {
		return
	}
	m, seq := mapSeq(call.Call.Args[0])
	if m == nil {
		return
	}
	vals, internal, _ := o.versions(call, nil)
	fs := &filledSlice{key: safeFname(o.fn) + ": " + name + "(" + seq + "(" + describeValue(m) + "))", at: call, internal: internal}
	for _, v := range vals {
		fs.reads = append(fs.reads, sliceRead{val: v})
	}
	o.n++
	switch {
	case name == "slices.Collect":
		o.check(fs, false, "")
	case name == "slices.Sorted":
		o.check(fs, true, notStringKey(elemType(call.Type())))
	case len(call.Call.Args) == 2:
		o.check(fs, true, keyFuncDefect(call.Call.Args[1], true))
	}
}

func notStringKey(t types.Type) string {
	if t != nil {
		if bt, ok := t.Underlying().(*types.Basic); ok && bt.Info()&types.IsString != 0 {
			return ""
		}
	}
	return "comparison is not on a string"
}

// check decides one filled slice. sorted: it is sorted by construction (defect: what is wrong with that order).
func (o *orderCtx) check(fs *filledSlice, sorted bool, defect string) {
	c, fn, rule, key := o.c, o.fn, o.rule, fs.key
	site := c.w.ipos(fs.at)
	const notAscending = "a slice filled from a map is not sorted ascending by its string key: "
	if defect != "" {
		c.r.bad(rule, key, notAscending+defect, []string{site})
		return
	}
	type use struct {
		pos   ssa.Instruction // program point of the read
		val   ssa.Value
		users []ssa.Instruction
	}
	var sorts []*ssa.Call
	var others []use
	for _, r := range fs.reads {
		isSort := false
		var plain []ssa.Instruction
		for _, u := range usesOf(r.val) {
			if fs.internal[u] {
				continue
			}
			if r.pos == nil && fs.loop != nil && u.Parent() == fn && fs.loop.blocks[u.Block()] {
				continue // inside the filling loop
			}
			if r.obj {
				// address computations, the object's own initialisation and captures (the less function is part of the
				// sort) do not read the slice
				switch x := u.(type) {
				case *ssa.FieldAddr, *ssa.MakeClosure, *ssa.DebugRef, *ssa.UnOp:
					continue
				case *ssa.Store:
					if x.Val != r.val {
						continue
					}
					if cell, isCell := x.Addr.(*ssa.Alloc); isCell && !escapesCell(cell) {
						continue // kept in a local pointer variable, whose loads are reads of their own
					}
				}
			}
			uu := u
			if mi, ok := u.(*ssa.MakeInterface); ok {
				for _, u2 := range usesOf(mi) {
					uu = u2
				}
			}
			if call, ok := uu.(*ssa.Call); ok && sortCalls[calleeName(&call.Call)] {
				sorts = append(sorts, call)
				isSort = true
				continue
			}
			if isCallTo(u, "builtin.len", "builtin.cap") {
				continue // does not depend on the order
			}
			plain = append(plain, u)
		}
		switch {
		case r.pos == nil:
			for _, u := range plain {
				others = append(others, use{pos: u, val: r.val, users: []ssa.Instruction{u}})
			}
		case !isSort && len(plain) > 0:
			others = append(others, use{pos: r.pos, val: r.val, users: plain})
		}
	}
	// only reads that can execute after the filling matter
	var after []use
	for _, ot := range others {
		if !fs.reach || c.fc.reachableFrom(fn, fs.at, ot.pos) {
			after = append(after, ot)
		}
	}
	sortedAt := func(at ssa.Instruction) bool {
		for _, sc := range sorts {
			if sc.Block() == at.Block() {
				if pointOf(sc).i < pointOf(at).i {
					return true
				}
			} else if sc.Block().Dominates(at.Block()) {
				return true
			}
		}
		return false
	}
	okmsg := "sorted ascending (byte-wise on a string) by construction"
	if !sorted {
		okmsg = "sorted ascending (byte-wise on a string) before any use"
		walked := false
		var rest []use
		for _, ot := range after {
			if !sortedAt(ot.pos) {
				// the random order is handed on to what that loop fills; a walk that fills nothing stays a plain use
				if l := o.walkOf(fs, ot.val, ot.users); l != nil && o.unorderedLoop(l) > 0 {
					walked = true
					continue
				}
			}
			rest = append(rest, ot)
		}
		after = rest
		if len(after) == 0 && len(sorts) == 0 {
			msg := "filled from a map but not used afterwards"
			if walked {
				msg = "filled from a map and only walked afterwards; the slices filled during that walk are held to this rule instead"
			}
			c.r.ok(rule, key, msg, site)
			return
		}
		if len(sorts) == 0 {
			c.r.bad(rule, key, "a slice filled while ranging over a map is used without being sorted: its order changes from run to run", []string{site})
			return
		}
		for _, ot := range after {
			if !sortedAt(ot.pos) {
				c.r.bad(rule, key, "a slice filled while ranging over a map is used on a path that has not sorted it", []string{site})
				return
			}
		}
		// the comparison
		bad := ""
		for _, sc := range sorts {
			if d := sortDefect(sc); d != "" {
				bad = d
			}
		}
		if bad != "" {
			c.r.bad(rule, key, notAscending+bad, []string{c.w.ipos(sorts[0])})
			return
		}
		site = c.w.ipos(sorts[0])
	}
	// the order must not be undone afterwards
	for _, ot := range after {
		isSorted := sorted
		for _, sc := range sorts {
			isSorted = isSorted || c.fc.reachableFrom(fn, sc, ot.pos)
		}
		if !isSorted {
			continue
		}
		for _, u := range ot.users {
			if why := o.undoes(u, ot.val); why != "" {
				c.r.bad(rule, key, notAscending+why, []string{c.w.ipos(u)})
				return
			}
		}
	}
	c.r.ok(rule, key, okmsg, site)
}

// escapesCell: the local variable's address is used for anything but loads and stores of the variable (captures included).
func escapesCell(cell *ssa.Alloc) bool {
	_, esc := cellStores(cell)
	return esc
}

// inductionOf: idx is base+k for a phi at the header of a loop; step is the phi's change per iteration (0: not constant).
func inductionOf(idx ssa.Value) (phi *ssa.Phi, step int64) {
	b, _ := lin(idx)
	phi, ok := b.(*ssa.Phi)
	if !ok {
		return nil, 0
	}
	for _, e := range phi.Edges {
		if eb, eo := lin(e); eb == ssa.Value(phi) && eo != 0 {
			if step != 0 && step != eo {
				return phi, 0
			}
			step = eo
		}
	}
	return phi, step
}

// walkOf: the users of one read of a slice do nothing but walk it front to back or back to front in a loop other than
// the one that fills it (`for _, k := range s`, `for i := range s { … s[i] … }`): returns that loop.
func (o *orderCtx) walkOf(fs *filledSlice, val ssa.Value, users []ssa.Instruction) *loopInfo {
	var loop *loopInfo
	for _, u := range users {
		ia, ok := u.(*ssa.IndexAddr)
		if !ok || ia.X != val {
			return nil
		}
		phi, step := inductionOf(ia.Index)
		if phi == nil || step == 0 {
			return nil
		}
		var l *loopInfo
		for _, cand := range o.loops {
			if cand.header == phi.Block() {
				l = cand
			}
		}
		if l == nil || !l.blocks[ia.Block()] || l == fs.loop || (loop != nil && l != loop) {
			return nil
		}
		if fs.loop != nil && l.blocks[fs.at.Block()] {
			return nil // an enclosing loop of the filling loop
		}
		loop = l
	}
	return loop
}

// undoes: u, a use of the sorted slice val, positively reverses its order.
func (o *orderCtx) undoes(u ssa.Instruction, val ssa.Value) string {
	switch x := u.(type) {
	case *ssa.Call:
		if len(x.Call.Args) == 0 || x.Call.Args[0] != val {
			return ""
		}
		switch calleeName(&x.Call) {
		case "slices.Reverse":
			return "it is reversed with slices.Reverse after it was sorted"
		case "slices.Backward":
			return "it is walked from the back (slices.Backward) after it was sorted"
		}
	case *ssa.IndexAddr:
		if x.X != val {
			return ""
		}
		if phi, step := inductionOf(x.Index); phi != nil && step < 0 {
			if l := o.innermost(x.Block()); l != nil {
				for b := range l.blocks {
					for _, ins := range b.Instrs {
						if _, ok := appendCallOf(ins); ok {
							return "after it was sorted it is walked from the back by a loop that fills another slice"
						}
					}
				}
			}
		}
	}
	return ""
}

// sortDefect: what is wrong with the order a sort call establishes ("": ascending, byte-wise, on a string key).
func sortDefect(sc *ssa.Call) string {
	name := calleeName(&sc.Call)
	switch name {
	case "sort.Strings":
		return ""
	case "slices.Sort":
		return notStringKey(elemType(sc.Call.Args[0].Type()))
	case "sort.Slice", "sort.SliceStable":
		return keyFuncDefect(sc.Call.Args[1], false)
	case "slices.SortFunc", "slices.SortStableFunc":
		return keyFuncDefect(sc.Call.Args[1], true)
	}
	return "sorted with " + shortName(name) + ", whose order this rule cannot check"
}

// keyFuncDefect checks the function handed to a sort: a less function `func(i, j int) bool` over indices of the slice
// (threeWay false) or a comparison function `func(a, b T) int` over its elements (threeWay true). It must have a single
// return whose value is equivalent to `key(first) < key(second)`, resp. `cmp.Compare(key(first), key(second))`, where
// key is the element itself or one and the same field of it, of string type.
func keyFuncDefect(f ssa.Value, threeWay bool) string {
	what := "less function"
	if threeWay {
		what = "comparison function"
	}
	var fn *ssa.Function
	switch v := f.(type) {
	case *ssa.MakeClosure:
		fn, _ = v.Fn.(*ssa.Function)
	case *ssa.Function:
		fn = v
	}
	if fn == nil {
		return what + " not resolvable"
	}
	if n := funcFullName(fn); threeWay && (n == "cmp.Compare" || n == "strings.Compare") {
		// the library comparison itself, on the elements (no body is built for it: go by the signature)
		return notStringKey(fn.Signature.Params().At(0).Type())
	}
	if len(fn.Params) != 2 || fn.Blocks == nil {
		return what + " not resolvable"
	}
	nRet, bad := 0, ""
	allInstrs(fn, func(j ssa.Instruction) {
		ret, ok := j.(*ssa.Return)
		if !ok || len(ret.Results) != 1 {
			return
		}
		nRet++
		var x, y ssa.Value
		var why string
		if threeWay {
			x, y, why = comparePair(ret.Results[0])
		} else {
			x, y, why = lessPair(ret.Results[0])
		}
		if why != "" {
			bad = why
			return
		}
		xi, xf, okx := sortKeyOf(fn, x, threeWay)
		yi, yf, oky := sortKeyOf(fn, y, threeWay)
		if !okx || !oky || xf != yf || xi == yi {
			bad = what + " does not compare the same field of two elements"
			return
		}
		if xi != 0 {
			bad = "descending comparison (the second element compared before the first)"
			return
		}
		bad = notStringKey(x.Type())
	})
	if nRet != 1 && bad == "" {
		bad = what + " with several returns"
	}
	return bad
}

func libCall(v ssa.Value, names ...string) (*ssa.Call, bool) {
	call, ok := v.(*ssa.Call)
	if !ok || !isCallTo(call, names...) {
		return nil, false
	}
	return call, true
}

// comparePair: v, the int result of a comparison function, has the sign of compare(x, y).
func comparePair(v ssa.Value) (x, y ssa.Value, why string) {
	if call, ok := libCall(v, "cmp.Compare", "strings.Compare"); ok && len(call.Call.Args) == 2 {
		return call.Call.Args[0], call.Call.Args[1], ""
	}
	if neg, ok := v.(*ssa.UnOp); ok && neg.Op == token.SUB {
		x, y, why = comparePair(neg.X)
		return y, x, why
	}
	return nil, nil, "comparison function is not a plain `cmp.Compare(a.F, b.F)`"
}

// lessPair: v, the bool result of a less function, is equivalent to x < y.
func lessPair(v ssa.Value) (x, y ssa.Value, why string) {
	const notPlain = "less function is not a plain `a[i].F < a[j].F`"
	if call, ok := libCall(v, "cmp.Less"); ok && len(call.Call.Args) == 2 {
		return call.Call.Args[0], call.Call.Args[1], ""
	}
	b, ok := v.(*ssa.BinOp)
	if !ok || (b.Op != token.LSS && b.Op != token.GTR) {
		return nil, nil, notPlain
	}
	x, y = b.X, b.Y
	if k, isInt := constInt(y); isInt {
		// cmp.Compare(p, q) < 0
		if k != 0 {
			return nil, nil, notPlain
		}
		if x, y, why = comparePair(x); why != "" {
			return nil, nil, notPlain
		}
	}
	if b.Op == token.GTR {
		x, y = y, x
	}
	return x, y, ""
}

// sortKeyOf: v is the sort key of the which-th (0/1) parameter of the function handed to a sort: `s[p].F` / `s[p]` for
// an index parameter p, `p.F` / `p` for an element parameter p (field nil: the element itself).
func sortKeyOf(fn *ssa.Function, v ssa.Value, elemParams bool) (which int, field *types.Var, ok bool) {
	var p ssa.Value
	if !elemParams {
		p, field = elemIndexField(v)
	} else {
		switch x := v.(type) {
		case *ssa.UnOp:
			if x.Op != token.MUL {
				return 0, nil, false
			}
			if fa, isField := x.X.(*ssa.FieldAddr); isField {
				field = fieldOf(fa.X.Type(), fa.Field)
				p = fa.X
			} else {
				p = x.X
			}
		case *ssa.Field:
			field = fieldOf(x.X.Type(), x.Field)
			p = x.X
		default:
			p = v
		}
		// struct-typed parameters whose fields are addressed are copied into a local first
		p = spilledParam(p)
	}
	for k, q := range fn.Params {
		if p == ssa.Value(q) {
			return k, field, true
		}
	}
	return 0, nil, false
}

// elemIndexField: v is `s[idx].F` (load of a field of an indexed element): returns idx and F.
func elemIndexField(v ssa.Value) (ssa.Value, *types.Var) {
	ld, ok := v.(*ssa.UnOp)
	if !ok || ld.Op != token.MUL {
		return nil, nil
	}
	switch x := ld.X.(type) {
	case *ssa.FieldAddr:
		if ia, ok := x.X.(*ssa.IndexAddr); ok {
			return ia.Index, fieldOf(x.X.Type(), x.Field)
		}
	case *ssa.IndexAddr:
		return x.Index, nil // []string: the element itself
	}
	return nil, nil
}
