package main

import (
	"fmt"
	"go/token"
	"go/types"
	"strings"

	"golang.org/x/tools/go/ssa"
)

func init() {
	register(&propDef{
		id:  "C10",
		run: runC10,
		explanation: "Decided (structural, for every query tree): " +
			"C10.exhaustive — the formatter's switch over the expression oneof has a case for every wrapper type, and each case formats that wrapper's own member; " +
			"C10.exhaustive / C10.parens on a formatter that has no function per operator (one recursive function that is told the enclosing operator, a classifier followed by a switch over an internal kind, one requiresParens(parent, operand), operator texts in a table): the whole formatter is symbolically executed from QueryToString on a family of model query trees (all of depth <= 3 with AND/OR of 1 or 2 operands, those of depth 4 with a shallow sibling at the root, 3 or 4 operands at the root; oneof tests, getters, operand lists, loop counters and constant package-level tables are concrete for a model tree, comparison payloads opaque), the structural characters ( ) ^ & | it writes are parsed by the operand grammar below and compared with the tree modulo flattening of nested chains of one operator and unwrapping of single-operand AND/OR; a mismatch is reported for the (operator, operand kind) pair at the root of a smallest failing tree; " +
			"C10.parens — the parenthesisation table required by the parser (operands of '&', '|' and '^' are parsed by the simple-expression function, which yields AND/OR only through a parenthesised group — re-checked on the parser on every run) is T[NOT] ⊇ {AND, OR}, T[AND] ⊇ {OR}, T[OR] ⊇ {AND}; each operator formatter is symbolically executed once per assumed operand kind (getter/type tests on the operand resolved by the assumption, all other branches explored both ways; helpers of the formatter are executed in place with their parameters bound to the call's arguments — a flag to its value, a predicate parameter to the function passed, whose verdict is evaluated under the same assumption): on every path each recursive formatting call for a kind in the table is immediately preceded by a write containing '(' and followed by one containing ')', and for other kinds writes are balanced; " +
			"C10.quote — the formatter doubles quotes with ReplaceAll(s, `\"`, `\"\"`) and wraps in `\"%s\"`, the parser's decoder undoes it with the swapped constants; C10.lexinput — the lexer scans exactly the string passed to ParseQuery (no rewriting of the raw text, which would alter quoted values); C10.unquote — the decoder removes exactly one delimiter at each end (only s[1:], s[:len-1], TrimPrefix/TrimSuffix of one quote) before undoing the doubling; comparison and placeholder formats are `%s = %s` / `%s = $%d` with the value passed through the quoting function; the group-by list is joined by ',' after ';' (the text a formatting function produces is followed through returning and builder-writing helpers alike); " +
			"C10.fieldtoken — the lexer state that scans identifiers emits the one constant token kind the parser requires in front of a comparison on every path (never a kind chosen from the scanned word), so every column name the formatter writes comes back as a field; " +
			"C10.fieldverbatim — the column stored in a comparison node and every element of the group-by list is the field token's text itself (followed through variables, parameters and parser helpers; no call, re-slice or concatenation applied to it). " +
			"NOT decided: the round-trip equality itself and the fixpoint of format∘parse (string values; need the parser's language, see C09).",
		assumptions: []string{"the generated getters return the oneof member or nil", "go/ssa CFG", "tree model of the formatter: the lexer's structural characters are ( ) ^ & |, and a chain uses one operator (mixing & and | without a group is rejected)"},
	})
}

func runC10(c *Ctx) {
	if !c.need("C10.parens", c.a.QueryToString, c.a.ParseSimple) {
		return
	}
	qe := c.w.namedType(pkgProto, "Query_Expression")
	vf := structFieldNamed(qe, "Value")
	iface, _ := vf.Type().(*types.Named)
	if iface == nil {
		c.r.undecided("C10.exhaustive", "<anchor>", "oneof interface not found")
		return
	}
	wrappers := c.w.implementers(pkgProto, iface)
	// the recursive formatter: the function QueryToString calls with q.Expr (and whatever else it needs: the builder,
	// the kind of the enclosing operator, …)
	var exprFmt *ssa.Function
	allInstrs(c.a.QueryToString, func(i ssa.Instruction) {
		if call, ok := i.(*ssa.Call); ok {
			if f := calleeFunc(&call.Call); f != nil && c.w.pkgPathOf(f) == pkgParser {
				for _, a := range call.Call.Args {
					if typeIs(a.Type(), pkgProto, "Query_Expression") {
						exprFmt = f
					}
				}
			}
		}
	})
	if exprFmt == nil {
		c.r.undecided("C10.exhaustive", safeFname(c.a.QueryToString), "the formatter does not pass the query's expression to a formatting function", c.w.pos(c.a.QueryToString.Pos()))
		return
	}
	// ---- exhaustive + kind -> formatter map
	kindFmt := map[string]*ssa.Function{}
	seen := map[*types.Named]bool{}
	type wrapperCase struct {
		w      *types.Named
		at     ssa.Instruction
		callee *ssa.Function
		okArg  bool
	}
	var cases []wrapperCase
	allInstrs(exprFmt, func(i ssa.Instruction) {
		ta, ok := i.(*ssa.TypeAssert)
		if !ok || !ta.CommaOk {
			return
		}
		w := namedOf(ta.AssertedType)
		isW := false
		for _, x := range wrappers {
			if x == w {
				isW = true
			}
		}
		if !isW {
			return
		}
		val, okv := extractOf(ta, 0), extractOf(ta, 1)
		var callee *ssa.Function
		okArg := false
		allInstrs(exprFmt, func(j ssa.Instruction) {
			call, ok := j.(*ssa.Call)
			if !ok || okv == nil || !knownTrue(okv, call) {
				return
			}
			f := calleeFunc(&call.Call)
			if f == nil || c.w.pkgPathOf(f) != pkgParser {
				return
			}
			callee = f
			for _, a := range call.Call.Args {
				if val != nil && derivesFrom(a, val) {
					okArg = true
				}
			}
		})
		cases = append(cases, wrapperCase{w, i, callee, okArg})
	})
	memberKind := func(w *types.Named) string {
		member := namedOf(w.Underlying().(*types.Struct).Field(0).Type())
		return strings.TrimPrefix(member.Obj().Name(), "Query_Expression_")
	}
	// Two organisations of the formatter are decided. (1) One function per operator, reached from the cases of a type
	// switch over the oneof wrappers: each operator formatter is executed per assumed operand kind (below). (2) Anything
	// else — one recursive function that is told the enclosing operator, a classifier followed by a switch over an
	// internal kind, one requiresParens(parent, operand): no case of the switch leads to a formatter of Not/And/Or of its
	// own, and the whole formatter is executed on a family of model query trees instead (rules_ag25.go).
	perOperator := false
	for _, wc := range cases {
		if k := memberKind(wc.w); k != "Equal" && wc.callee != nil && wc.okArg && wc.callee != exprFmt {
			// a formatter of this operator: it is handed the operator's own message (not just its operand list,
			// which a generic operand writer shared by several operators takes as well)
			member := namedOf(wc.w.Underlying().(*types.Struct).Field(0).Type())
			for _, p := range wc.callee.Params {
				if namedOf(p.Type()) == member {
					perOperator = true
				}
			}
		}
	}
	if perOperator {
		for _, wc := range cases {
			seen[wc.w] = true
			key := fmt.Sprintf("%s: case %s", safeFname(exprFmt), wc.w.Obj().Name())
			if wc.callee == nil || !wc.okArg {
				c.r.bad("C10.exhaustive", key, "this case of the formatter's switch does not format the wrapper's own member: expressions of this kind are dropped from the text", []string{c.w.ipos(wc.at)})
				continue
			}
			kindFmt[memberKind(wc.w)] = wc.callee
			c.r.ok("C10.exhaustive", key, "formatted by "+safeFname(wc.callee), c.w.ipos(wc.at))
		}
		for _, w := range wrappers {
			if !seen[w] {
				c.r.bad("C10.exhaustive", safeFname(exprFmt)+": case "+w.Obj().Name(), "the formatter's switch has no case for this wrapper: such expressions are silently omitted from the text", []string{c.w.pos(exprFmt.Pos())})
			}
		}
		c.r.min["C10.exhaustive"] = len(wrappers)
	} else {
		for _, wc := range cases {
			if wc.callee != nil && wc.okArg && wc.callee != exprFmt && memberKind(wc.w) == "Equal" {
				kindFmt["Equal"] = wc.callee
			}
		}
	}

	// ---- parser side of the table. The grammar functions are structural anchors (rules_ag5.go: told apart by the oneof
	// wrappers they build, today's names being only the first guess), so renaming them or the parser type keeps the check.
	// One function may parse both chains (`parseExpr` looking the operator up in a table of node constructors): the And and
	// the Or role are then the same function, which is looked at once. What the table needs from the parser is unchanged:
	// every expression an operator function obtains comes from the simple-expression function — or from a node
	// constructor, which parses nothing and only wraps the operands it is handed (called directly or selected through a
	// constant package-level table; parserShape.funcTargets / parsesNothing).
	ps := c.a.PS
	parserOK := true
	scanned := map[*ssa.Function]bool{}
	for _, role := range []struct {
		label string
		fn    *ssa.Function
	}{{"parseAndExpr", ps.ParseAnd}, {"parseOrExpr", ps.ParseOr}, {"parseSimpleExpr", ps.ParseSimple}} {
		pn, pf := role.label, role.fn
		if pf == nil {
			c.r.undecided("C10.parens", "parser: "+pn, "parser function not found (neither by the expression wrappers it builds nor by its name)")
			parserOK = false
			continue
		}
		if scanned[pf] {
			continue
		}
		scanned[pf] = true
		allInstrs(pf, func(i ssa.Instruction) {
			call, ok := i.(*ssa.Call)
			if !ok || call.Call.IsInvoke() {
				return
			}
			if _, isBuiltin := call.Call.Value.(*ssa.Builtin); isBuiltin {
				return
			}
			targets := []*ssa.Function{calleeFunc(&call.Call)}
			if targets[0] == nil {
				if _, isPtr := call.Type().(*types.Pointer); !isPtr || !typeIs(call.Type(), pkgProto, "Query_Expression") {
					return
				}
				var resolved bool
				if targets, resolved = ps.funcTargets(call.Call.Value); !resolved {
					parserOK = false
					c.r.undecided("C10.parens", "parser: "+pn, "an expression is obtained from a function value the rule cannot resolve (not an entry of a constant package-level table): if it parses operands, the parenthesisation table this rule uses no longer describes the parser", c.w.ipos(i))
					return
				}
			}
			for _, f := range targets {
				if f == nil || c.w.pkgPathOf(f) != pkgParser || f.Signature.Results().Len() != 1 || !typeIs(f.Signature.Results().At(0).Type(), pkgProto, "Query_Expression") {
					continue
				}
				switch {
				case f == ps.ParseSimple || (f == ps.ParseComparison && f != nil):
				case f == ps.ParseGrouped && f != nil:
					if pf != ps.ParseSimple {
						parserOK = false
					}
				case ps.parsesNothing(f):
					// a node constructor: wraps the operands it is given, parses none
				default:
					parserOK = false
					c.r.undecided("C10.parens", "parser: "+pn, "operands are parsed by "+f.Name()+", not by the simple-expression function: the parenthesisation table this rule uses no longer describes the parser", c.w.ipos(i))
				}
			}
		})
	}
	if parserOK {
		c.r.ok("C10.parens", "parser: operand grammar", "operands of '&', '|' and '^' are parsed by the simple-expression function (AND/OR operands need parentheses)")
	}

	// ---- parens
	if !perOperator {
		if eq := c10Model(c, exprFmt, wrappers); eq != nil && kindFmt["Equal"] == nil {
			kindFmt["Equal"] = eq
		}
	}
	table := map[string][]string{"Not": {"And", "Or"}, "And": {"Or"}, "Or": {"And"}}
	for _, P := range []string{"Not", "And", "Or"} {
		if !perOperator {
			break
		}
		f := kindFmt[P]
		if f == nil {
			c.r.undecided("C10.parens", "formatter of "+P, "no formatter function found for this kind")
			continue
		}
		need := map[string]bool{}
		for _, k := range table[P] {
			need[k] = true
		}
		for _, k := range []string{"Equal", "Not", "And", "Or"} {
			paths, why := simulateFormatter(c, f, exprFmt, kindFmt, k)
			key := fmt.Sprintf("%s: operand %s", safeFname(f), k)
			if why != "" {
				c.r.undecided("C10.parens", key, why, c.w.pos(f.Pos()))
				continue
			}
			bad := ""
			nR := 0
			for _, ev := range paths {
				nR += strings.Count(ev, "R")
				if need[k] {
					if !matchSeq(ev, true) {
						bad = ev
					}
				} else if !matchSeq(ev, false) {
					bad = ev
				}
			}
			switch {
			case bad != "" && need[k]:
				c.r.bad("C10.parens", key, fmt.Sprintf("an operand of kind %s is written without surrounding parentheses on some path (event sequence %q; O='(' R=operand C=')'): the text re-parses with different structure or not at all", k, bad), []string{c.w.pos(f.Pos())})
			case bad != "":
				c.r.bad("C10.parens", key, fmt.Sprintf("unbalanced parentheses around an operand of kind %s (event sequence %q)", k, bad), []string{c.w.pos(f.Pos())})
			case nR == 0:
				c.r.bad("C10.parens", key, "the operand is never formatted", []string{c.w.pos(f.Pos())})
			default:
				msg := "balanced"
				if need[k] {
					msg = "always parenthesised"
				}
				c.r.ok("C10.parens", key, fmt.Sprintf("%s on all %d explored paths", msg, len(paths)), c.w.pos(f.Pos()))
			}
		}
	}
	c10Quote(c, exprFmt, kindFmt)
	unquoteRule(c, "C10.unquote")
	lexInputRule(c, "C10.lexinput")
	c10FieldToken(c)
	c10FieldVerbatim(c)
}

// matchSeq: ev consists of groups "ORC" (strict) or of "ORC" and bare "R" (non-strict).
func matchSeq(ev string, strict bool) bool {
	for len(ev) > 0 {
		switch {
		case strings.HasPrefix(ev, "ORC"):
			ev = ev[3:]
		case !strict && strings.HasPrefix(ev, "R"):
			ev = ev[1:]
		default:
			return false
		}
	}
	return true
}

// simulateFormatter explores the paths of an operator formatter under the assumption that every operand it formats has
// the given kind, and returns the sequence of events (O: write containing '(', C: write containing ')', R: recursive
// formatting call) of each path. Branch conditions that test the operand's kind are resolved; others are explored both ways.
// Where the decision about parentheses sits does not matter: inline, in a helper that is handed a flag
// (writeOperand(b, e, needsParens)), or in a predicate — a bool-valued function of the package called directly or
// handed to the helper as a function value (writeOperands(b, es, sep, func(e) bool { return e.GetOr() != nil })): helper
// parameters are bound to the call's arguments and the predicate's verdict is evaluated under the assumed kind; a verdict
// that depends on anything else (the operand count, the index) is unknown, so both outcomes are explored.
func simulateFormatter(c *Ctx, f, exprFmt *ssa.Function, kindFmt map[string]*ssa.Function, kind string) ([]string, string) {
	getterKind := func(v ssa.Value) (string, bool) {
		call, ok := v.(*ssa.Call)
		if !ok {
			return "", false
		}
		g := calleeFunc(&call.Call)
		if g == nil || c.w.pkgPathOf(g) != pkgProto || !strings.HasPrefix(g.Name(), "Get") {
			return "", false
		}
		if len(call.Call.Args) != 1 || !typeIs(call.Call.Args[0].Type(), pkgProto, "Query_Expression") {
			return "", false
		}
		k := strings.TrimPrefix(g.Name(), "Get")
		if k == "Eq" {
			k = "Equal"
		}
		return k, true
	}
	// Function values handed to a helper ("which operands need parentheses" passed as a predicate) travel in the same
	// per-path environment as the boolean assumptions: a function-typed parameter is bound to fnBase + the index of
	// the function in fns.
	const fnBase = 100
	var fns []*ssa.Function
	isBoolT := func(t types.Type) bool {
		bt, ok := t.Underlying().(*types.Basic)
		return ok && bt.Info()&types.IsBoolean != 0
	}
	// funcValue: the function a function-typed value denotes on this path (a named function, a literal, or a
	// function-typed parameter bound on inlining); nil if unknown.
	funcValue := func(v ssa.Value, phis map[ssa.Value]int) *ssa.Function {
		for n := 0; n < 4; n++ {
			if ct, ok := v.(*ssa.ChangeType); ok {
				v = ct.X
				continue
			}
			break
		}
		switch x := v.(type) {
		case *ssa.Function:
			return x
		case *ssa.MakeClosure:
			g, _ := x.Fn.(*ssa.Function)
			return g
		case *ssa.Parameter:
			if n, ok := phis[x]; ok && n >= fnBase && n-fnBase < len(fns) {
				return fns[n-fnBase]
			}
		}
		return nil
	}
	var evalBool func(v ssa.Value, phis map[ssa.Value]int) int // 1 true, 0 false, -1 unknown
	// bindParams: the environment of helper g entered with args: boolean parameters get the value of their argument
	// under the caller's environment (-1 if unknown), function-typed parameters the function their argument denotes.
	bindParams := func(g *ssa.Function, args []ssa.Value, phis map[ssa.Value]int) map[ssa.Value]int {
		env := map[ssa.Value]int{}
		for k, par := range g.Params {
			if k >= len(args) {
				break
			}
			if isBoolT(par.Type()) {
				env[par] = evalBool(args[k], phis)
			} else if _, isSig := par.Type().Underlying().(*types.Signature); isSig {
				if h := funcValue(args[k], phis); h != nil {
					env[par] = fnBase + len(fns)
					fns = append(fns, h)
				}
			}
		}
		return env
	}
	// evalPred evaluates a bool-valued predicate of the formatter package (`func(operand) bool { return
	// operand.GetOr() != nil }`, needsParens(operand), …) under the operand-kind assumption: its paths are followed
	// with kind tests resolved and other conditions taken both ways; the verdict is known if every return it can
	// reach yields the same known value.
	predDepth := 0
	evalPred := func(g *ssa.Function, env map[ssa.Value]int) int {
		if g == nil || g.Blocks == nil || predDepth >= 3 {
			return -1
		}
		predDepth++
		defer func() { predDepth-- }()
		res, steps := -2, 0
		var run func(b, prev *ssa.BasicBlock, phis map[ssa.Value]int, visits map[*ssa.BasicBlock]bool)
		run = func(b, prev *ssa.BasicBlock, phis map[ssa.Value]int, visits map[*ssa.BasicBlock]bool) {
			steps++
			if res == -1 || steps > 2000 || visits[b] {
				res = -1 // (a loop inside a predicate is not followed)
				return
			}
			v2 := map[*ssa.BasicBlock]bool{b: true}
			for k := range visits {
				v2[k] = true
			}
			p2 := map[ssa.Value]int{}
			for k, n := range phis {
				p2[k] = n
			}
			for _, ins := range b.Instrs {
				switch x := ins.(type) {
				case *ssa.Phi:
					for k, pr := range b.Preds {
						if pr == prev {
							p2[x] = evalBool(x.Edges[k], phis)
						}
					}
				case *ssa.If:
					r := evalBool(x.Cond, p2)
					if r != 0 {
						run(b.Succs[0], b, p2, v2)
					}
					if r != 1 {
						run(b.Succs[1], b, p2, v2)
					}
					return
				case *ssa.Jump:
					run(b.Succs[0], b, p2, v2)
					return
				case *ssa.Return:
					r := -1
					if len(x.Results) == 1 {
						r = evalBool(x.Results[0], p2)
					}
					if r < 0 || (res >= 0 && res != r) {
						res = -1
					} else {
						res = r
					}
					return
				case *ssa.Panic:
					return
				}
			}
		}
		run(g.Blocks[0], nil, env, nil)
		if res < 0 {
			return -1
		}
		return res
	}
	evalBool = func(v ssa.Value, phis map[ssa.Value]int) int {
		switch x := v.(type) {
		case *ssa.Call:
			// the verdict of a predicate: a bool-valued function of the formatter package called directly, or through
			// a function-typed parameter the helper was handed
			if x.Call.IsInvoke() || !isBoolT(x.Type()) {
				break
			}
			g := funcValue(x.Call.Value, phis)
			if g == nil || c.w.pkgPathOf(g) != pkgParser {
				break
			}
			return evalPred(g, bindParams(g, x.Call.Args, phis))
		case *ssa.Const:
			if b, ok := constBool(x); ok {
				if b {
					return 1
				}
				return 0
			}
		case *ssa.Phi:
			if r, ok := phis[x]; ok {
				return r
			}
		case *ssa.Parameter:
			if r, ok := phis[x]; ok {
				return r
			}
		case *ssa.UnOp:
			if x.Op == token.NOT {
				r := evalBool(x.X, phis)
				if r >= 0 {
					return 1 - r
				}
			}
		case *ssa.BinOp:
			if x.Op == token.NEQ || x.Op == token.EQL {
				var other ssa.Value
				if isNilConst(x.Y) {
					other = x.X
				} else if isNilConst(x.X) {
					other = x.Y
				}
				if other != nil {
					if k, ok := getterKind(other); ok {
						isK := k == kind
						if (x.Op == token.NEQ) == isK {
							return 1
						}
						return 0
					}
				}
			}
		case *ssa.Extract:
			// _, ok := operand.Value.(*Wrapper)
			if ta, ok := x.Tuple.(*ssa.TypeAssert); ok && x.Index == 1 {
				if w := namedOf(ta.AssertedType); w != nil && w.Obj().Pkg() != nil && w.Obj().Pkg().Path() == pkgProto {
					if st, ok := w.Underlying().(*types.Struct); ok && st.NumFields() == 1 {
						if m := namedOf(st.Field(0).Type()); m != nil {
							k := strings.TrimPrefix(m.Obj().Name(), "Query_Expression_")
							if k == kind {
								return 1
							}
							return 0
						}
					}
				}
			}
		}
		return -1
	}
	eventOf := func(i ssa.Instruction) string {
		call, ok := i.(*ssa.Call)
		if !ok {
			return ""
		}
		if g := calleeFunc(&call.Call); g != nil {
			if g == exprFmt {
				return "R"
			}
			for _, kf := range kindFmt {
				if g == kf {
					return "R"
				}
			}
		}
		name := calleeName(&call.Call)
		switch name {
		case "(*strings.Builder).WriteString", "(*strings.Builder).WriteByte", "(*strings.Builder).WriteRune", "fmt.Fprintf", "fmt.Fprint", "(*bytes.Buffer).WriteString", "io.WriteString":
			ev := ""
			for _, a := range call.Call.Args {
				if s, ok := constString(a); ok {
					if strings.Contains(s, "(") {
						ev += "O"
					}
					if strings.Contains(s, ")") {
						ev += "C"
					}
				} else if k, ok := constInt(a); ok {
					if k == '(' {
						ev += "O"
					}
					if k == ')' {
						ev += "C"
					}
				}
			}
			return ev
		}
		return ""
	}
	var results []string
	why := ""
	nPaths := 0
	isFormatter := func(g *ssa.Function) bool {
		if g == exprFmt {
			return true
		}
		for _, kf := range kindFmt {
			if g == kf {
				return true
			}
		}
		return false
	}
	// exec runs block b from instruction index `from`; cont is what happens when the current function returns
	// (the rest of the caller for inlined helpers, recording the path for the formatter itself).
	var exec func(b, prev *ssa.BasicBlock, from int, phis map[ssa.Value]int, visits map[*ssa.BasicBlock]int, ev string, depth int, cont func(ev string))
	exec = func(b, prev *ssa.BasicBlock, from int, phis map[ssa.Value]int, visits map[*ssa.BasicBlock]int, ev string, depth int, cont func(ev string)) {
		if why != "" {
			return
		}
		v2 := visits
		p2 := phis
		if from == 0 {
			if visits[b] >= 2 {
				return // loop unrolled twice is enough to see the per-operand pattern
			}
			nPaths++
			if nPaths > 40000 {
				why = "too many paths to explore"
				return
			}
			v2 = map[*ssa.BasicBlock]int{}
			for k, n := range visits {
				v2[k] = n
			}
			v2[b]++
			p2 = map[ssa.Value]int{}
			for k, n := range phis {
				// a new loop iteration re-evaluates every non-phi condition: assumptions made for them do not carry over
				if _, isPhi := k.(*ssa.Phi); !isPhi && visits[b] >= 1 {
					if _, isParam := k.(*ssa.Parameter); !isParam {
						continue
					}
				}
				p2[k] = n
			}
		}
		for idx := from; idx < len(b.Instrs); idx++ {
			ins := b.Instrs[idx]
			switch x := ins.(type) {
			case *ssa.Phi:
				if prev != nil {
					for k, pr := range b.Preds {
						if pr == prev {
							p2[x] = evalBool(x.Edges[k], p2)
						}
					}
				}
			case *ssa.Return:
				cont(ev)
				return
			case *ssa.Panic:
				return
			case *ssa.If:
				r := evalBool(x.Cond, p2)
				if r < 0 {
					k := condKey(x.Cond)
					if a, ok := p2[k]; ok && a >= 0 {
						r = a
					} else {
						pT := map[ssa.Value]int{}
						pF := map[ssa.Value]int{}
						for kk, n := range p2 {
							pT[kk], pF[kk] = n, n
						}
						pT[k], pF[k] = 1, 0
						exec(b.Succs[0], b, 0, pT, v2, ev, depth, cont)
						exec(b.Succs[1], b, 0, pF, v2, ev, depth, cont)
						return
					}
				}
				if r != 0 {
					exec(b.Succs[0], b, 0, p2, v2, ev, depth, cont)
				}
				if r != 1 {
					exec(b.Succs[1], b, 0, p2, v2, ev, depth, cont)
				}
				return
			case *ssa.Jump:
				exec(b.Succs[0], b, 0, p2, v2, ev, depth, cont)
				return
			case *ssa.Call:
				// a helper of the formatter package that is not itself a formatter of a kind: inline it
				if g := calleeFunc(&x.Call); g != nil && !isFormatter(g) && c.w.pkgPathOf(g) == pkgParser && g.Blocks != nil && depth < 3 && writesOrFormats(g, isFormatter) {
					// its parameters are bound to the call's arguments: a flag to its value under the assumed operand
					// kind, a predicate parameter to the function passed
					env := bindParams(g, x.Call.Args, p2)
					bb, nextIdx, pp, vv := b, idx+1, p2, v2
					exec(g.Blocks[0], nil, 0, env, map[*ssa.BasicBlock]int{}, ev, depth+1, func(ev2 string) {
						exec(bb, prev, nextIdx, pp, vv, ev2, depth, cont)
					})
					return
				}
				ev += eventOf(ins)
			default:
				ev += eventOf(ins)
			}
		}
	}
	exec(f.Blocks[0], nil, 0, map[ssa.Value]int{}, map[*ssa.BasicBlock]int{}, "", 0, func(ev string) { results = append(results, ev) })
	return results, why
}

// writesOrFormats: g (a helper) writes to the output or calls a formatter — itself or through further helpers of its
// package (writeOperands → writeOperand → the recursive formatter).
func writesOrFormats(g *ssa.Function, isFormatter func(*ssa.Function) bool) bool {
	seen := map[*ssa.Function]bool{}
	var visit func(g *ssa.Function, depth int) bool
	visit = func(g *ssa.Function, depth int) bool {
		if g == nil || g.Blocks == nil || seen[g] || depth > 3 {
			return false
		}
		seen[g] = true
		found := false
		allInstrs(g, func(i ssa.Instruction) {
			call, ok := i.(*ssa.Call)
			if !ok || found {
				return
			}
			switch calleeName(&call.Call) {
			case "(*strings.Builder).WriteString", "(*strings.Builder).WriteByte", "(*strings.Builder).WriteRune", "fmt.Fprintf", "fmt.Fprint", "(*bytes.Buffer).WriteString", "io.WriteString":
				found = true
				return
			}
			if f := calleeFunc(&call.Call); f != nil {
				if isFormatter(f) || (f.Pkg == g.Pkg && f.Pkg != nil && visit(f, depth+1)) {
					found = true
				}
			}
		})
		return found
	}
	return visit(g, 0)
}

func c10Quote(c *Ctx, exprFmt *ssa.Function, kindFmt map[string]*ssa.Function) {
	const rule = "C10.quote"
	type rep struct {
		fn   *ssa.Function
		a, b string
		call *ssa.Call
	}
	var reps []rep
	for _, fn := range c.w.ModFuncs {
		if c.w.pkgPathOf(fn) != pkgParser {
			continue
		}
		allInstrs(fn, func(i ssa.Instruction) {
			call, ok := i.(*ssa.Call)
			if !ok {
				return
			}
			n := calleeName(&call.Call)
			if n != "strings.ReplaceAll" && n != "strings.Replace" {
				return
			}
			a, ok1 := constString(call.Call.Args[1])
			b, ok2 := constString(call.Call.Args[2])
			if ok1 && ok2 {
				if n == "strings.Replace" {
					if k, ok := constInt(call.Call.Args[3]); !ok || k >= 0 {
						a, b = "<limited>", "<limited>"
					}
				}
				reps = append(reps, rep{fn, a, b, call})
			}
		})
	}
	var enc, dec *rep
	for k := range reps {
		r := &reps[k]
		if r.a == `"` && r.b == `""` {
			enc = r
		}
		if r.a == `""` && r.b == `"` {
			dec = r
		}
	}
	c.r.check(enc != nil, rule, "formatter: quote doubling", "ReplaceAll(s, `\"`, `\"\"`)", "the formatter does not double embedded quotes with ReplaceAll(s, `\"`, `\"\"`): values containing quotes do not survive formatting and re-parsing", c.w.pos(c.a.QueryToString.Pos()))
	c.r.check(dec != nil, rule, "parser: quote undoubling", "ReplaceAll(s, `\"\"`, `\"`)", "the parser's string decoder does not undo the doubling with the swapped constants", c.w.pos(c.a.ParseQuery.Pos()))
	isFormatter := func(g *ssa.Function) bool {
		for _, kf := range kindFmt {
			if g == kf {
				return true
			}
		}
		return g == exprFmt
	}
	if enc != nil {
		// what the function holding the encoder produces — writes into the builder it is given and/or returns — has
		// the escaped value between two double quotes on every path, whichever way it is put together (`"%s"`,
		// concatenation, WriteByte('"') before and after); and it produces it on some path.
		seqs, why := outputSeqs(c, enc.fn, isFormatter, enc.fn.Signature.Results().Len() == 1)
		if why != "" {
			c.r.undecided(rule, "formatter: quote wrapping", "the text produced by the quoting function cannot be followed: "+why, c.w.ipos(enc.call))
		} else {
			n, bad := 0, ""
			for _, sq := range seqs {
				for rest := sq; ; {
					k := strings.Index(rest, "<esc:")
					if k < 0 {
						break
					}
					e := k + strings.Index(rest[k:], ">")
					if k == 0 || rest[k-1] != '"' || e+1 >= len(rest) || rest[e+1] != '"' {
						bad = sq
					}
					n++
					rest = rest[e+1:]
				}
			}
			c.r.check(n > 0 && bad == "", rule, "formatter: quote wrapping", "the escaped value is wrapped in double quotes",
				fmt.Sprintf("the escaped value is not wrapped as `\"%%s\"` (%s produces %q; <esc:x> = x with quotes doubled): without both delimiters the text is not a string literal of the query language and does not parse back to the value", safeFname(enc.fn), firstNonEmpty(bad, strings.Join(seqs, " | "))), c.w.ipos(enc.call))
		}
	}
	// what the comparison formatter writes, as a symbolic token sequence per path (constants with blanks removed,
	// <Column>, <q:Value> = the value through the quoting function, i.e. `"` <esc:Value> `"`, <n:Placeholder> = decimal
	// placeholder number). The quoting function is rendered in place, so it may return the literal or write it.
	if f := kindFmt["Equal"]; f != nil {
		seqs, why := outputSeqs(c, f, isFormatter, false)
		if why != "" {
			c.r.undecided(rule, safeFname(f)+": output", "the text written by the comparison formatter cannot be followed: "+why, c.w.pos(f.Pos()))
		} else {
			want := map[string]bool{"<Column>=<q:Value>": true, "<Column>=$<n:Placeholder>": true}
			got := map[string]bool{}
			bad, anyBad := "", false // (a path that writes nothing renders as "", which is a wrong output too)
			for _, sq := range seqs {
				sq = strings.ReplaceAll(sq, `"<esc:Value>"`, "<q:Value>")
				got[sq] = true
				if !want[sq] {
					bad, anyBad = sq, true
				}
			}
			c.r.check(!anyBad && len(got) == 2, rule, safeFname(f)+": output", "writes `column = \"value\"` (value through the quoting function) or `column = $n`",
				fmt.Sprintf("the comparison formatter writes %q on some path (expected column, '=', then either the value through the quoting function or '$' and the decimal placeholder number): the text does not parse back to the same comparison", bad), c.w.pos(f.Pos()))
		}
	} else {
		c.r.undecided(rule, "formatter of Equal", "not found")
	}
	// group-by list: on the path that writes it, ';' followed by the columns joined by ','
	{
		seqs, why := outputSeqs(c, c.a.QueryToString, isFormatter, false)
		if why != "" {
			c.r.undecided(rule, safeFname(c.a.QueryToString)+": group-by", "the text written for the group-by list cannot be followed: "+why, c.w.pos(c.a.QueryToString.Pos()))
		} else {
			okGB := false
			bad := ""
			for _, sq := range seqs {
				if strings.Contains(sq, "<join") {
					if strings.HasSuffix(sq, ";<join,:GroupBy>") {
						okGB = true
					} else {
						bad = sq
					}
				}
			}
			c.r.check(okGB && bad == "", rule, safeFname(c.a.QueryToString)+": group-by", "`;` followed by the group-by columns joined by ','",
				"the group-by list is not written as ';' followed by the columns joined by ',' ("+bad+")", c.w.pos(c.a.QueryToString.Pos()))
		}
	}
}

// outFrame is one activation in the symbolic output model: the function being rendered, the phi choices of the path
// taken so far, and — for a helper rendered in place of its call — the binding of its parameters to the call's
// arguments together with the caller's activation (in which those arguments are rendered).
type outFrame struct {
	fn     *ssa.Function
	phis   map[*ssa.Phi]ssa.Value
	args   map[*ssa.Parameter]ssa.Value
	parent *outFrame
}

func (fr *outFrame) depth() int {
	n := 0
	for f := fr; f != nil; f = f.parent {
		n++
	}
	return n
}

func (fr *outFrame) active(g *ssa.Function) bool {
	for f := fr; f != nil; f = f.parent {
		if f.fn == g {
			return true
		}
	}
	return false
}

// sinkHolder: t is a pointer to a struct one of whose fields is a builder/buffer held by value (a formatter object:
// `type formatter struct{ out strings.Builder }`), whose address &f.out is a text sink.
func sinkHolder(t types.Type) bool {
	p, ok := t.Underlying().(*types.Pointer)
	if !ok {
		return false
	}
	st, ok := p.Elem().Underlying().(*types.Struct)
	if !ok {
		return false
	}
	for i := 0; i < st.NumFields(); i++ {
		if isTextSink(types.NewPointer(st.Field(i).Type())) {
			return true
		}
	}
	return false
}

// isTextSink: the static type of v is one the formatter writes text to.
func isTextSink(t types.Type) bool {
	switch typeString(t) {
	case "*strings.Builder", "*bytes.Buffer", "io.Writer", "io.StringWriter", "io.ByteWriter":
		return true
	}
	return false
}

// outputSeqs enumerates the paths of a (loop-free) formatting function and renders the text each path produces as a
// string of symbolic tokens: constants (blanks removed), <Field> for a field load, <n:Field> for the decimal rendering
// of an integer field, <esc:Field> for the field with every '"' doubled (ReplaceAll(v, `"`, `""`)), <join,:Field>.
// "Produces" means: writes to the builder the function was given (or created), whatever API is used — WriteString /
// WriteByte / WriteRune of constants and values, Fprintf/Fprint/Sprintf verbs, strconv.Itoa/FormatInt(_, 10), string
// concatenation — plus, with withResult, the string it returns. Helpers of the parser package are rendered in place of
// their call with their parameters bound to the call's arguments: a *returning* helper (one return statement) yields
// the rendering of its result, a *writing* helper that is handed the output builder contributes its own writes, path
// by path. So `"%s"` around the escaped value, `"` + esc + `"`, and WriteByte('"'); WriteString(esc); WriteByte('"')
// inside writeQuoted(b, s) all render as `"<esc:Value>"`, and each broken variant (other escape, a missing quote, the
// raw value, the value inside a format string) renders differently in each of these shapes.
// skip names functions that are not rendered in place (the recursive formatters).
func outputSeqs(c *Ctx, fn *ssa.Function, skip func(*ssa.Function) bool, withResult bool) ([]string, string) {
	var out []string
	why := ""
	plainVerb := func(verb string) bool { return verb == "" || verb == "s" || verb == "v" }
	var resolve func(v ssa.Value, fr *outFrame) (ssa.Value, *outFrame)
	var tok func(v ssa.Value, fr *outFrame, verb string) string
	tok = func(v ssa.Value, fr *outFrame, verb string) string {
		for n := 0; n < 8; n++ {
			if phi, ok := v.(*ssa.Phi); ok {
				if r, ok := fr.phis[phi]; ok {
					v = r
					continue
				}
			}
			break
		}
		// a string-valued sub-expression under a verb other than %s/%v is not the text itself
		wrap := func(s string) string {
			if plainVerb(verb) {
				return s
			}
			return "<%" + verb + ":" + s + ">"
		}
		switch x := v.(type) {
		case *ssa.Const:
			if sv, ok := constString(x); ok {
				return wrap(strings.ReplaceAll(sv, " ", ""))
			}
			if k, ok := constInt(x); ok {
				return string(rune(k))
			}
		case *ssa.Parameter:
			if a, ok := fr.args[x]; ok && fr.parent != nil {
				return tok(a, fr.parent, verb)
			}
			// a parameter of the function being rendered itself
			return wrap("<$" + x.Name() + ">")
		case *ssa.MakeInterface:
			return tok(x.X, fr, verb)
		case *ssa.Convert:
			return tok(x.X, fr, verb)
		case *ssa.ChangeType:
			return tok(x.X, fr, verb)
		case *ssa.BinOp:
			if x.Op == token.ADD {
				return wrap(tok(x.X, fr, "") + tok(x.Y, fr, ""))
			}
		case *ssa.UnOp:
			if f := srcField(x); f != nil {
				switch verb {
				case "", "s", "v":
					if b, ok := f.Type().Underlying().(*types.Basic); ok && b.Info()&types.IsInteger != 0 {
						return "<n:" + f.Name() + ">"
					}
					return "<" + f.Name() + ">"
				case "d":
					return "<n:" + f.Name() + ">"
				default:
					return "<%" + verb + ":" + f.Name() + ">"
				}
			}
		case *ssa.Call:
			// the generated getter of a message field renders like the field it yields (rules_ag31.go: the getter's body
			// is inspected; for a nil message it yields the zero value, which the parser-made messages never are)
			if _, f := pbGetterField(c, x); f != nil {
				switch verb {
				case "", "s", "v":
					if b, ok := f.Type().Underlying().(*types.Basic); ok && b.Info()&types.IsInteger != 0 {
						return "<n:" + f.Name() + ">"
					}
					return "<" + f.Name() + ">"
				case "d":
					return "<n:" + f.Name() + ">"
				default:
					return "<%" + verb + ":" + f.Name() + ">"
				}
			}
			name := calleeName(&x.Call)
			switch name {
			case "strconv.Itoa", "strconv.FormatInt", "strconv.FormatUint":
				base := int64(10)
				if name != "strconv.Itoa" {
					base, _ = constInt(x.Call.Args[1])
				}
				if inner := tok(peelConv(x.Call.Args[0]), fr, "d"); base == 10 && strings.HasPrefix(inner, "<n:") {
					return wrap(inner)
				}
			case "strings.ReplaceAll", "strings.Replace":
				if k, ok := constInt(x.Call.Args[len(x.Call.Args)-1]); name == "strings.Replace" && (!ok || k >= 0) {
					return wrap("<replace-some:" + tok(x.Call.Args[0], fr, "") + ">")
				}
				a, ok1 := constString(x.Call.Args[1])
				b, ok2 := constString(x.Call.Args[2])
				inner := tok(x.Call.Args[0], fr, "")
				if ok1 && ok2 && a == `"` && b == `""` && strings.HasPrefix(inner, "<") && strings.HasSuffix(inner, ">") && strings.Count(inner, "<") == 1 {
					return wrap("<esc:" + inner[1:])
				}
				return wrap("<replace:" + inner + ">")
			case "strings.Join":
				// (the list may reach a helper as a parameter: f.groupBy(q.GroupBy) → strings.Join(fields, ", "))
				list, _ := resolve(x.Call.Args[0], fr)
				f := path(list).lastField()
				if gc, isCall := list.(*ssa.Call); isCall && f == nil {
					_, f = pbGetterField(c, gc) // strings.Join(q.GetGroupBy(), ", ")
				}
				if f != nil {
					if sep, ok := constString(x.Call.Args[1]); ok {
						return wrap("<join" + strings.TrimSpace(sep) + ":" + f.Name() + ">")
					}
				}
			case "fmt.Sprintf":
				return wrap(fmtTokens(x.Call.Args, 0, func(v ssa.Value, verb string) string { return tok(v, fr, verb) }))
			case "fmt.Sprint":
				return wrap(fmtTokens(x.Call.Args, -1, func(v ssa.Value, verb string) string { return tok(v, fr, verb) }))
			}
			// a returning helper of the parser package: the rendering of what it returns, parameters bound to the arguments
			if g := calleeFunc(&x.Call); g != nil && c.w.pkgPathOf(g) == pkgParser && g.Blocks != nil && !fr.active(g) && fr.depth() < 4 && (skip == nil || !skip(g)) && g.Signature.Results().Len() == 1 {
				var rets []*ssa.Return
				allInstrs(g, func(i ssa.Instruction) {
					if r, ok := i.(*ssa.Return); ok {
						rets = append(rets, r)
					}
				})
				if len(rets) == 1 && len(rets[0].Results) == 1 {
					sub := &outFrame{fn: g, phis: map[*ssa.Phi]ssa.Value{}, args: map[*ssa.Parameter]ssa.Value{}, parent: fr}
					for k, p := range g.Params {
						if k < len(x.Call.Args) {
							sub.args[p] = x.Call.Args[k]
						}
					}
					return wrap(tok(rets[0].Results[0], sub, ""))
				}
			}
		}
		return "<?>"
	}
	// resolve follows v to where it was made: through interface/type conversions, the phi choices of the path, and — for
	// a parameter of a helper rendered in place — to the call's argument in the caller's activation.
	resolve = func(v ssa.Value, fr *outFrame) (ssa.Value, *outFrame) {
		for n := 0; n < 16; n++ {
			switch x := v.(type) {
			case *ssa.MakeInterface:
				v = x.X
				continue
			case *ssa.ChangeType:
				v = x.X
				continue
			case *ssa.ChangeInterface:
				v = x.X
				continue
			case *ssa.Phi:
				if r, ok := fr.phis[x]; ok {
					v = r
					continue
				}
			case *ssa.Parameter:
				if a, ok := fr.args[x]; ok && fr.parent != nil {
					v, fr = a, fr.parent
					continue
				}
			}
			break
		}
		return v, fr
	}
	// handed: the root function was given its output (a builder parameter, or a formatter object that holds the
	// builder); a builder it creates itself is then a scratch buffer, not the output.
	handed := func(root *ssa.Function) bool {
		for _, p := range root.Params {
			if isTextSink(p.Type()) || sinkHolder(p.Type()) {
				return true
			}
		}
		return false
	}
	// isCarrier: v is the object that holds the output builder in a field (`type formatter struct{ out strings.Builder }`):
	// the root function's own receiver/parameter of such a type, or its local variable of such a type (declared, or obtained
	// from a constructor that only allocates it) — possibly handed
	// down as the receiver or an argument of helpers (f.groupBy(…), f.operand(…)). A formatter object local to a helper
	// is not.
	isCarrier := func(v ssa.Value, fr *outFrame) bool {
		v, fr = resolve(v, fr)
		if fr.parent != nil || !sinkHolder(v.Type()) {
			return false
		}
		switch x := v.(type) {
		case *ssa.Parameter:
			return true
		case *ssa.Alloc:
			return x.Parent() == fr.fn && !handed(fr.fn)
		case *ssa.Call:
			// f := newFormatter(): a constructor of the parser package that only allocates the object it returns (no
			// call in its body, so nothing is written into the builder before the root function gets it)
			_, g, vals, ok := resultOrigins(c.w, x)
			if !ok || c.w.pkgPathOf(g) != pkgParser || handed(fr.fn) {
				return false
			}
			calls := false
			allInstrs(g, func(i ssa.Instruction) {
				if _, isCall := i.(ssa.CallInstruction); isCall {
					calls = true
				}
			})
			for _, rv := range vals {
				if al, isAlloc := rv.(*ssa.Alloc); !isAlloc || al.Parent() != g {
					return false
				}
			}
			return !calls
		}
		return false
	}
	// isOut: v is the builder whose contents are the function's output — the root function's builder parameter or
	// local builder, or the builder field of the object that carries the output (isCarrier), possibly handed down
	// through helper parameters and receivers. A builder local to a helper is not.
	isOut := func(v ssa.Value, fr *outFrame) bool {
		v, fr = resolve(v, fr)
		if !isTextSink(v.Type()) {
			return false
		}
		switch x := v.(type) {
		case *ssa.Parameter:
			return fr.parent == nil
		case *ssa.Alloc:
			// the root function's own builder (QueryToString) — unless it was given one, which then is the output
			return fr.parent == nil && !handed(fr.fn)
		case *ssa.FieldAddr:
			// the builder kept in a struct: &f.out with f the output's carrier (var w exprWriter; …; return w.b.String() in
			// the root function, or f the receiver of a formatter method, in the root function or a helper it calls)
			return isCarrier(x.X, fr)
		}
		return false
	}
	steps := 0
	// walk runs block b of the activation fr from instruction index `from`; cont is what happens when the activation
	// returns (the rest of the caller for a helper rendered in place, recording the path for the root function).
	var walk func(b, prev *ssa.BasicBlock, from int, fr *outFrame, acc string, visits map[*ssa.BasicBlock]int, cont func(acc string))
	walk = func(b, prev *ssa.BasicBlock, from int, fr *outFrame, acc string, visits map[*ssa.BasicBlock]int, cont func(acc string)) {
		if why != "" {
			return
		}
		v2 := visits
		if from == 0 {
			steps++
			if steps > 5000 {
				why = "too many paths"
				return
			}
			if visits[b] >= 1 {
				return // loops are not followed (the operator formatters are checked by C10.parens)
			}
			v2 = map[*ssa.BasicBlock]int{}
			for k, n := range visits {
				v2[k] = n
			}
			v2[b]++
			p2 := map[*ssa.Phi]ssa.Value{}
			for k, v := range fr.phis {
				p2[k] = v
			}
			if prev != nil {
				for _, ins := range b.Instrs {
					phi, ok := ins.(*ssa.Phi)
					if !ok {
						break
					}
					for k, p := range b.Preds {
						if p == prev {
							p2[phi] = phi.Edges[k]
						}
					}
				}
			}
			fr = &outFrame{fn: fr.fn, phis: p2, args: fr.args, parent: fr.parent}
		}
		for idx := from; idx < len(b.Instrs); idx++ {
			switch x := b.Instrs[idx].(type) {
			case *ssa.Call:
				name := calleeName(&x.Call)
				args := x.Call.Args
				switch name {
				case "(*strings.Builder).WriteString", "io.WriteString", "(*bytes.Buffer).WriteString", "(*strings.Builder).WriteByte", "(*strings.Builder).WriteRune", "(*bytes.Buffer).WriteByte", "(*bytes.Buffer).WriteRune":
					if isOut(args[0], fr) {
						acc += tok(args[1], fr, "")
					}
					continue
				case "fmt.Fprintf":
					if isOut(args[0], fr) {
						acc += fmtTokens(args[1:], 0, func(v ssa.Value, verb string) string { return tok(v, fr, verb) })
					}
					continue
				case "fmt.Fprint":
					if isOut(args[0], fr) {
						acc += fmtTokens(args[1:], -1, func(v ssa.Value, verb string) string { return tok(v, fr, verb) })
					}
					continue
				}
				// a writing helper of the parser package that is handed the output builder: its writes, path by path
				g := calleeFunc(&x.Call)
				if g == nil || c.w.pkgPathOf(g) != pkgParser || g.Blocks == nil || (skip != nil && skip(g)) {
					continue
				}
				// (as an argument, or inside the formatter object the helper is a method of / is passed)
				given := false
				for _, a := range args {
					if isOut(a, fr) || isCarrier(a, fr) {
						given = true
					}
				}
				if !given {
					continue
				}
				if fr.active(g) || fr.depth() >= 4 {
					acc += "<?>"
					continue
				}
				sub := &outFrame{fn: g, phis: map[*ssa.Phi]ssa.Value{}, args: map[*ssa.Parameter]ssa.Value{}, parent: fr}
				for k, p := range g.Params {
					if k < len(args) {
						sub.args[p] = args[k]
					}
				}
				bb, nextIdx, frame, vv := b, idx+1, fr, v2
				walk(g.Blocks[0], nil, 0, sub, acc, map[*ssa.BasicBlock]int{}, func(acc2 string) {
					walk(bb, prev, nextIdx, frame, acc2, vv, cont)
				})
				return
			case *ssa.If:
				walk(b.Succs[0], b, 0, fr, acc, v2, cont)
				walk(b.Succs[1], b, 0, fr, acc, v2, cont)
				return
			case *ssa.Jump:
				walk(b.Succs[0], b, 0, fr, acc, v2, cont)
				return
			case *ssa.Return:
				if fr.parent == nil && withResult && len(x.Results) == 1 {
					acc += tok(x.Results[0], fr, "")
				}
				cont(acc)
				return
			case *ssa.Panic:
				return
			}
		}
	}
	root := &outFrame{fn: fn, phis: map[*ssa.Phi]ssa.Value{}}
	walk(fn.Blocks[0], nil, 0, root, "", map[*ssa.BasicBlock]int{}, func(acc string) { out = append(out, acc) })
	return out, why
}

func firstNonEmpty(a, b string) string {
	if a != "" {
		return a
	}
	return b
}

// fmtTokens renders fmt-style arguments: args[fmtIdx] is the format (fmtIdx < 0: Sprint-style, no format), followed by
// the variadic slice built by the compiler.
func fmtTokens(args []ssa.Value, fmtIdx int, tok func(ssa.Value, string) string) string {
	var elems []ssa.Value
	if len(args) > 0 {
		last := args[len(args)-1]
		if sl, ok := last.(*ssa.Slice); ok {
			if al, ok := sl.X.(*ssa.Alloc); ok {
				byIdx := map[int64]ssa.Value{}
				max := int64(-1)
				for _, r := range referrers(al) {
					if ia, ok := r.(*ssa.IndexAddr); ok {
						k, _ := constInt(ia.Index)
						for _, rr := range referrers(ia) {
							if st, ok := rr.(*ssa.Store); ok {
								byIdx[k] = st.Val
								if k > max {
									max = k
								}
							}
						}
					}
				}
				for k := int64(0); k <= max; k++ {
					elems = append(elems, byIdx[k])
				}
			}
		}
	}
	if fmtIdx < 0 {
		outS := ""
		for _, e := range elems {
			outS += tok(e, "")
		}
		return outS
	}
	format, ok := constString(args[fmtIdx])
	if !ok {
		return "<non-constant format>"
	}
	outS := ""
	ai := 0
	for i := 0; i < len(format); i++ {
		ch := format[i]
		if ch != '%' {
			if ch != ' ' {
				outS += string(ch)
			}
			continue
		}
		i++
		if i >= len(format) {
			break
		}
		if format[i] == '%' {
			outS += "%"
			continue
		}
		// flags / width are not expected in these formats: take the verb letter
		for i < len(format) && strings.ContainsRune("+-# 0123456789.", rune(format[i])) {
			i++
		}
		verb := ""
		if i < len(format) {
			verb = string(format[i])
		}
		if ai < len(elems) && elems[ai] != nil {
			outS += tok(elems[ai], verb)
		} else {
			outS += "<missing>"
		}
		ai++
	}
	return outS
}

// unquoteRule: the parser's string decoder removes exactly one character at each end of the token before undoing the
// quote doubling. The value handed to the inverse ReplaceAll must derive from the token only through: s[1:], s[:len(s)-1],
// s[1:len(s)-1], strings.TrimPrefix/TrimSuffix(s, `"`) and phis of those. Anything else (strings.Trim, TrimLeft/Right,
// TrimFunc, further replacements …) can eat an escaped quote adjacent to the delimiters.
func unquoteRule(c *Ctx, rule string) {
	var dec *ssa.Call
	for _, fn := range c.w.ModFuncs {
		if c.w.pkgPathOf(fn) != pkgParser {
			continue
		}
		allInstrs(fn, func(i ssa.Instruction) {
			if call, ok := i.(*ssa.Call); ok && calleeName(&call.Call) == "strings.ReplaceAll" {
				a, ok1 := constString(call.Call.Args[1])
				b, ok2 := constString(call.Call.Args[2])
				if ok1 && ok2 && a == `""` && b == `"` {
					dec = call
				}
			}
		})
	}
	if dec == nil {
		c.r.undecided(rule, "parser: string decoder", "no ReplaceAll(s, `\"\"`, `\"`) found in the parser package")
		return
	}
	fn := dec.Parent()
	if len(fn.Params) != 1 {
		c.r.undecided(rule, safeFname(fn), "decoder with an unexpected signature", c.w.pos(fn.Pos()))
		return
	}
	src := ssa.Value(fn.Params[0])
	bad := ""
	seen := map[ssa.Value]bool{}
	var visit func(v ssa.Value)
	visit = func(v ssa.Value) {
		if seen[v] || bad != "" {
			return
		}
		seen[v] = true
		if v == src {
			return
		}
		switch x := v.(type) {
		case *ssa.Phi:
			for _, e := range x.Edges {
				visit(e)
			}
		case *ssa.Slice:
			lowOK := x.Low == nil
			if k, ok := constInt(x.Low); x.Low != nil && ok && k == 1 {
				lowOK = true
			}
			highOK := x.High == nil
			if x.High != nil {
				hb, ho := lin(x.High)
				if ho == -1 && isLenOfChain(hb, src) {
					highOK = true
				}
			}
			if !lowOK || !highOK || (x.Low == nil && x.High == nil) {
				bad = "a re-slice that does not remove exactly one character at an end"
				return
			}
			visit(x.X)
		case *ssa.Call:
			switch calleeName(&x.Call) {
			case "strings.TrimPrefix", "strings.TrimSuffix":
				if s, ok := constString(x.Call.Args[1]); ok && s == `"` {
					visit(x.Call.Args[0])
					return
				}
				bad = "TrimPrefix/TrimSuffix with something other than one quote"
			default:
				bad = "a call to " + shortName(calleeName(&x.Call))
			}
		default:
			bad = "an unrecognised transformation"
		}
	}
	visit(dec.Call.Args[0])
	c.r.check(bad == "", rule, safeFname(fn), "exactly one delimiter is removed at each end before the doubling is undone",
		"before undoing the quote doubling the decoder applies "+bad+": escaped quotes next to the delimiters (e.g. `\"x\"\"\"`, `\"\"\"\"`) are lost and the value differs from what the grammar prescribes", c.w.ipos(dec))
}

// isLenOfChain: v is len(x) where x derives from src through the accepted re-slices/phis.
func isLenOfChain(v, src ssa.Value) bool {
	call, ok := peelConv(v).(*ssa.Call)
	if !ok {
		return false
	}
	if b, ok := call.Call.Value.(*ssa.Builtin); !ok || b.Name() != "len" {
		return false
	}
	x := call.Call.Args[0]
	for n := 0; n < 8; n++ {
		if x == src {
			return true
		}
		switch y := x.(type) {
		case *ssa.Phi:
			// any edge
			for _, e := range y.Edges {
				if e == src {
					return true
				}
				if sl, ok := e.(*ssa.Slice); ok && sl.X == src {
					return true
				}
			}
			return false
		case *ssa.Slice:
			x = y.X
		default:
			return false
		}
	}
	return false
}

// lexInputRule: the text the lexer scans is exactly the string handed to ParseQuery — no normalisation, trimming or
// replacement on the raw text (which would also rewrite the contents of quoted values).
func lexInputRule(c *Ctx, rule string) {
	// the scanned text: the string field of the lexer that its rune-reading method decodes from (rules_ag5.go)
	if !c.a.PS.need(rule, "lexer", "lexer input") {
		return
	}
	in := c.a.PS.InputF
	n := 0
	lexInputReached = 0
	for _, fn := range c.w.ModFuncs {
		if c.w.pkgPathOf(fn) != pkgParser {
			continue
		}
		allInstrs(fn, func(i ssa.Instruction) {
			st, ok := i.(*ssa.Store)
			if !ok {
				return
			}
			fa, ok := st.Addr.(*ssa.FieldAddr)
			if !ok || fieldOf(fa.X.Type(), fa.Field) != in {
				return
			}
			n++
			why := passThrough(c, st.Val, fn, 0)
			c.r.check(why == "", rule, fmt.Sprintf("%s: lexer input#%d", safeFname(fn), n), "the lexer scans ParseQuery's argument unchanged",
				"the text given to the lexer is not ParseQuery's argument itself ("+why+"): any rewriting of the raw text also changes the contents of quoted values, so values do not survive parsing", c.w.ipos(i))
		})
	}
	if n == 0 {
		c.r.undecided(rule, "lexer input", "no assignment of the lexer's input found")
	} else if lexInputReached == 0 {
		c.r.undecided(rule, "lexer input", "no assignment of the lexer's input is reached from ParseQuery's argument")
	}
}

// lexInputReached counts the pass-through chains that end at ParseQuery's parameter (vacuity guard of lexInputRule).
var lexInputReached int

// passThrough: v is a parameter of fn that every caller fills with its own parameter, up to ParseQuery's argument.
func passThrough(c *Ctx, v ssa.Value, fn *ssa.Function, depth int) string {
	if depth > 5 {
		return "call chain too deep"
	}
	p, ok := v.(*ssa.Parameter)
	if !ok {
		if call, isCall := v.(*ssa.Call); isCall {
			return "it is the result of " + shortName(calleeName(&call.Call))
		}
		return "it is computed, not passed through"
	}
	if fn == c.a.ParseQuery {
		lexInputReached++
		return ""
	}
	idx := -1
	for k, q := range fn.Params {
		if q == p {
			idx = k
		}
	}
	node := c.w.CG.Nodes[fn]
	if node == nil || len(node.In) == 0 {
		// a function nobody in the program calls (a debugging aid used by tests only, another exported entry point) is
		// not on ParseQuery's path: what it feeds the lexer says nothing about what ParseQuery parses
		return ""
	}
	for _, e := range node.In {
		if e.Site == nil || !c.w.inModule(e.Caller.Func) {
			continue
		}
		cc := e.Site.Common()
		if calleeFunc(cc) != fn || idx >= len(cc.Args) {
			continue
		}
		if why := passThrough(c, cc.Args[idx], e.Caller.Func, depth+1); why != "" {
			return why
		}
	}
	return ""
}

// condKey: a representative for an unknown branch condition, so that re-evaluations of the same predicate on one path
// are taken consistently: the value itself, or for calls of module functions the first call with the same callee and arguments.
var condReps = map[string]ssa.Value{}

func condKey(v ssa.Value) ssa.Value {
	call, ok := v.(*ssa.Call)
	if !ok {
		return v
	}
	f := calleeFunc(&call.Call)
	if f == nil {
		return v
	}
	key := fmt.Sprintf("%p", f)
	for _, a := range call.Call.Args {
		key += fmt.Sprintf("|%p", peel(a))
	}
	if r, ok := condReps[key]; ok {
		return r
	}
	condReps[key] = v
	return v
}
