package main

// ssax: the helper layer over go/ssa shared by all rules. It hides the known traps:
// receivers and variables spilled into Alloc cells because a closure captures them,
// free variables, tuple Extracts, interface conversions, deferred calls.

import (
	"go/constant"
	"go/token"
	"go/types"
	"strings"

	"golang.org/x/tools/go/ssa"
)

// ---------- calls ----------

func callCommon(i ssa.Instruction) *ssa.CallCommon {
	switch c := i.(type) {
	case *ssa.Call:
		return &c.Call
	case *ssa.Defer:
		return &c.Call
	case *ssa.Go:
		return &c.Call
	}
	return nil
}

// calleeName gives a resolved, type-based name of what a call invokes:
//
//	static function/method:  types.Func.FullName(), e.g. "(*go.etcd.io/bbolt.DB).View", "sort.Slice"
//	interface method:        "(pkg.Iface).Method" (types.Func.FullName of the abstract method)
//	builtin:                 "builtin.append"
//	closure / func value:    "" (use calleeFunc)
func calleeName(c *ssa.CallCommon) string {
	if c == nil {
		return ""
	}
	if c.IsInvoke() {
		return c.Method.FullName()
	}
	switch v := c.Value.(type) {
	case *ssa.Builtin:
		return "builtin." + v.Name()
	case *ssa.Function:
		return funcFullName(v)
	case *ssa.MakeClosure:
		return ""
	}
	return ""
}

func funcFullName(f *ssa.Function) string {
	if f == nil {
		return ""
	}
	if o := f.Origin(); o != nil {
		f = o
	}
	if obj, ok := f.Object().(*types.Func); ok && obj != nil {
		return obj.FullName()
	}
	return f.String()
}

// calleeFunc returns the statically known function a call runs (function, method, or directly-called closure).
func calleeFunc(c *ssa.CallCommon) *ssa.Function {
	if c == nil || c.IsInvoke() {
		return nil
	}
	switch v := c.Value.(type) {
	case *ssa.Function:
		return v
	case *ssa.MakeClosure:
		f, _ := v.Fn.(*ssa.Function)
		return f
	}
	return nil
}

// callArgs returns the receiver-first argument list of a call, for both invoke and static mode.
func callArgs(c *ssa.CallCommon) []ssa.Value {
	if c.IsInvoke() {
		return append([]ssa.Value{c.Value}, c.Args...)
	}
	return c.Args
}

func isCallTo(i ssa.Instruction, names ...string) bool {
	c := callCommon(i)
	if c == nil {
		return false
	}
	n := calleeName(c)
	for _, want := range names {
		if n == want {
			return true
		}
	}
	return false
}

// allInstrs iterates over all instructions of a function.
func allInstrs(fn *ssa.Function, f func(ssa.Instruction)) {
	for _, b := range fn.Blocks {
		for _, i := range b.Instrs {
			f(i)
		}
	}
}

// callsIn returns the call instructions (Call/Defer/Go) in fn whose callee name is one of names.
func callsIn(fn *ssa.Function, names ...string) []ssa.Instruction {
	var out []ssa.Instruction
	allInstrs(fn, func(i ssa.Instruction) {
		if isCallTo(i, names...) {
			out = append(out, i)
		}
	})
	return out
}

// ---------- peeling values ----------

// cellStores returns the values stored into a local cell (an Alloc, possibly captured by closures) and whether
// the cell's address escapes in a way we do not follow (passed to a call, stored somewhere).
func cellStores(cell ssa.Value) (stores []*ssa.Store, escapes bool) {
	seen := map[ssa.Value]bool{}
	var visit func(v ssa.Value)
	visit = func(v ssa.Value) {
		if seen[v] {
			return
		}
		seen[v] = true
		refs := v.Referrers()
		if refs == nil {
			return
		}
		for _, r := range *refs {
			switch r := r.(type) {
			case *ssa.Store:
				if r.Addr == v {
					stores = append(stores, r)
				} else {
					escapes = true // address stored somewhere
				}
			case *ssa.UnOp: // load
			case *ssa.MakeClosure:
				fn, _ := r.Fn.(*ssa.Function)
				for bi, b := range r.Bindings {
					if b == v && fn != nil && bi < len(fn.FreeVars) {
						visit(fn.FreeVars[bi])
					}
				}
			case *ssa.DebugRef:
			case *ssa.FieldAddr, *ssa.IndexAddr:
				// address of a part of the cell: writes through it do not replace the cell's value
			default:
				escapes = true
			}
		}
	}
	visit(cell)
	return
}

// freeVarBinding maps a closure's free variable to the value bound in the enclosing function.
func freeVarBinding(fv *ssa.FreeVar) ssa.Value {
	fn := fv.Parent()
	parent := fn.Parent()
	if parent == nil {
		return nil
	}
	idx := -1
	for i, v := range fn.FreeVars {
		if v == fv {
			idx = i
		}
	}
	if idx < 0 {
		return nil
	}
	var out ssa.Value
	allInstrs(parent, func(i ssa.Instruction) {
		if mc, ok := i.(*ssa.MakeClosure); ok && mc.Fn == fn && idx < len(mc.Bindings) {
			out = mc.Bindings[idx]
		}
	})
	return out
}

// peel looks through representation-only wrappers and single-assignment local cells:
// ChangeType, ChangeInterface, MakeInterface (optionally), free variables, loads from a cell stored exactly once.
func peel(v ssa.Value) ssa.Value {
	for n := 0; n < 64; n++ {
		switch x := v.(type) {
		case *ssa.ChangeType:
			v = x.X
			continue
		case *ssa.ChangeInterface:
			v = x.X
			continue
		case *ssa.FreeVar:
			if b := freeVarBinding(x); b != nil {
				v = b
				continue
			}
			return v
		case *ssa.UnOp:
			if x.Op == token.MUL {
				cell := peelCell(x.X)
				if isLocalCell(cell) {
					stores, esc := cellStores(cell)
					if !esc && len(stores) == 1 {
						v = stores[0].Val
						continue
					}
				}
			}
			return v
		}
		return v
	}
	return v
}

// peelCell resolves a free variable that stands for a captured cell to the Alloc in the enclosing function.
func peelCell(v ssa.Value) ssa.Value {
	for n := 0; n < 16; n++ {
		if fv, ok := v.(*ssa.FreeVar); ok {
			if b := freeVarBinding(fv); b != nil {
				v = b
				continue
			}
		}
		return v
	}
	return v
}

func isLocalCell(v ssa.Value) bool {
	a, ok := v.(*ssa.Alloc)
	if !ok {
		return false
	}
	// a cell holds a scalar/pointer/interface variable; struct/array allocs are objects, handled by accessPath
	_ = a
	return true
}

// cellValues: all values a local variable cell may hold (all stores), or nil,false if it escapes.
func cellValues(cell ssa.Value) ([]ssa.Value, bool) {
	cell = peelCell(cell)
	if !isLocalCell(cell) {
		return nil, false
	}
	stores, esc := cellStores(cell)
	if esc {
		return nil, false
	}
	var out []ssa.Value
	for _, s := range stores {
		out = append(out, s.Val)
	}
	return out, true
}

// ---------- access paths ----------

// A step of an access path: a struct field, or an element (slice/array/map element, pointer deref is implicit).
type step struct {
	Field *types.Var // nil for element access / deref
	Deref bool       // a pointer/slice/map/interface value was loaded from memory here (we left the object we were in)
	Elem  bool       // element of slice/array/map
}

type accPath struct {
	Root  ssa.Value
	Steps []step
}

func (p accPath) lastField() *types.Var {
	for i := len(p.Steps) - 1; i >= 0; i-- {
		if p.Steps[i].Field != nil {
			return p.Steps[i].Field
		}
	}
	return nil
}

func (p accPath) hasField(f *types.Var) bool {
	for _, s := range p.Steps {
		if s.Field == f {
			return true
		}
	}
	return false
}

func fieldOf(t types.Type, idx int) *types.Var {
	if p, ok := t.Underlying().(*types.Pointer); ok {
		t = p.Elem()
	}
	st, ok := t.Underlying().(*types.Struct)
	if !ok || idx >= st.NumFields() {
		return nil
	}
	return st.Field(idx)
}

// path computes the access path of a value or address: root object plus the fields/elements selected from it.
// Loads, single-store cells, type changes and extracts of known tuples are looked through.
func path(v ssa.Value) accPath {
	var steps []step
	for n := 0; n < 128; n++ {
		v = peel(v)
		switch x := v.(type) {
		case *ssa.FieldAddr:
			steps = append([]step{{Field: fieldOf(x.X.Type(), x.Field)}}, steps...)
			v = x.X
			continue
		case *ssa.Field:
			steps = append([]step{{Field: fieldOf(x.X.Type(), x.Field)}}, steps...)
			v = x.X
			continue
		case *ssa.IndexAddr:
			steps = append([]step{{Elem: true}}, steps...)
			v = x.X
			continue
		case *ssa.Index:
			steps = append([]step{{Elem: true}}, steps...)
			v = x.X
			continue
		case *ssa.Lookup:
			steps = append([]step{{Elem: true}}, steps...)
			v = x.X
			continue
		case *ssa.Slice:
			v = x.X
			continue
		case *ssa.UnOp:
			if x.Op == token.MUL {
				// load through an address that is not a single-store cell: continue with the address
				if _, isAlloc := peelCell(x.X).(*ssa.Alloc); isAlloc {
					return accPath{Root: v, Steps: steps}
				}
				if _, isGlobal := x.X.(*ssa.Global); isGlobal {
					return accPath{Root: v, Steps: steps}
				}
				steps = append([]step{{Deref: true}}, steps...)
				v = x.X
				continue
			}
		case *ssa.TypeAssert:
			v = x.X
			continue
		case *ssa.MakeInterface:
			v = x.X
			continue
		case *ssa.Extract:
			// comma-ok forms: element 0 of Lookup/TypeAssert tuples
			if x.Index == 0 {
				switch t := x.Tuple.(type) {
				case *ssa.Lookup:
					steps = append([]step{{Elem: true}}, steps...)
					v = t.X
					continue
				case *ssa.TypeAssert:
					v = t.X
					continue
				}
			}
		}
		break
	}
	return accPath{Root: v, Steps: steps}
}

// ---------- constants ----------

func constInt(v ssa.Value) (int64, bool) {
	c, ok := peelConv(v).(*ssa.Const)
	if !ok || c.Value == nil {
		return 0, false
	}
	if c.Value.Kind() != constant.Int {
		return 0, false
	}
	return constant.Int64Val(constant.ToInt(c.Value))
}

func constString(v ssa.Value) (string, bool) {
	c, ok := v.(*ssa.Const)
	if !ok || c.Value == nil || c.Value.Kind() != constant.String {
		return "", false
	}
	return constant.StringVal(c.Value), true
}

func constBool(v ssa.Value) (bool, bool) {
	c, ok := v.(*ssa.Const)
	if !ok || c.Value == nil || c.Value.Kind() != constant.Bool {
		return false, false
	}
	return constant.BoolVal(c.Value), true
}

func isNilConst(v ssa.Value) bool {
	c, ok := v.(*ssa.Const)
	return ok && c.IsNil()
}

// peelConv looks through numeric conversions and type changes.
func peelConv(v ssa.Value) ssa.Value {
	for n := 0; n < 16; n++ {
		switch x := v.(type) {
		case *ssa.Convert:
			v = x.X
			continue
		case *ssa.ChangeType:
			v = x.X
			continue
		}
		return v
	}
	return v
}

// ---------- types ----------

func namedOf(t types.Type) *types.Named {
	for {
		switch x := t.(type) {
		case *types.Pointer:
			t = x.Elem()
			continue
		case *types.Named:
			return x
		case *types.Alias:
			t = types.Unalias(x)
			continue
		}
		return nil
	}
}

// typeIs reports whether t (possibly behind pointers) is the named type pkgPath.name.
func typeIs(t types.Type, pkgPath, name string) bool {
	n := namedOf(t)
	if n == nil || n.Obj() == nil {
		return false
	}
	if n.Obj().Name() != name {
		return false
	}
	if n.Obj().Pkg() == nil {
		return pkgPath == ""
	}
	return n.Obj().Pkg().Path() == pkgPath
}

func typeString(t types.Type) string {
	return types.TypeString(t, func(p *types.Package) string { return p.Name() })
}

func isErrorType(t types.Type) bool {
	return types.Identical(t, types.Universe.Lookup("error").Type())
}

func shortName(full string) string {
	// "(*github.com/akrennmair/updog.Index).Execute" -> "(*updog.Index).Execute"
	i := strings.LastIndex(full, "/")
	if i < 0 {
		return full
	}
	j := strings.IndexAny(full, "(*")
	prefix := ""
	if j == 0 {
		k := 0
		for k < len(full) && (full[k] == '(' || full[k] == '*') {
			k++
		}
		prefix = full[:k]
	}
	return prefix + full[i+1:]
}

// ---------- referrers ----------

func referrers(v ssa.Value) []ssa.Instruction {
	r := v.Referrers()
	if r == nil {
		return nil
	}
	return *r
}

// usesOf lists the instructions that use v directly or through peel-transparent wrappers (type changes, phis are NOT followed).
func usesOf(v ssa.Value) []ssa.Instruction {
	var out []ssa.Instruction
	seen := map[ssa.Value]bool{}
	var visit func(v ssa.Value)
	visit = func(v ssa.Value) {
		if seen[v] {
			return
		}
		seen[v] = true
		for _, r := range referrers(v) {
			switch x := r.(type) {
			case *ssa.ChangeType:
				visit(x)
			case *ssa.ChangeInterface:
				visit(x)
			case *ssa.DebugRef:
			default:
				out = append(out, r)
			}
		}
	}
	visit(v)
	return out
}

// extractOf finds the Extract #idx of a tuple-valued call.
func extractOf(tuple ssa.Value, idx int) *ssa.Extract {
	for _, r := range referrers(tuple) {
		if e, ok := r.(*ssa.Extract); ok && e.Index == idx {
			return e
		}
	}
	return nil
}

// resultValue returns the idx-th result of a call as a value (the call itself for single results, else the Extract).
func resultValue(call *ssa.Call, idx int) ssa.Value {
	sig := call.Call.Signature()
	if sig.Results().Len() == 1 {
		if idx == 0 {
			return call
		}
		return nil
	}
	if e := extractOf(call, idx); e != nil {
		return e
	}
	return nil
}

// spilledParam: v itself if it is a parameter; the parameter a local Alloc was initialised from if v is such a spill cell
// (struct-typed parameters whose fields are addressed are copied into a local first).
func spilledParam(v ssa.Value) ssa.Value {
	v = peel(v)
	if _, ok := v.(*ssa.Parameter); ok {
		return v
	}
	if al, ok := v.(*ssa.Alloc); ok {
		stores, esc := cellStores(al)
		if !esc && len(stores) == 1 {
			if p, ok := stores[0].Val.(*ssa.Parameter); ok {
				return p
			}
		}
	}
	return v
}

// retVals returns the values a Return instruction returns, looking through the result cells go/ssa introduces in
// functions with defers ("*r0 = v; rundefers; t = *r0; return t"): the value is the last store to the cell in the
// returning block. The recover block's return (which re-reads the cells after a recovered panic) yields the loads themselves.
func retVals(ret *ssa.Return) []ssa.Value {
	out := make([]ssa.Value, len(ret.Results))
	b := ret.Block()
	for k, rv := range ret.Results {
		out[k] = rv
		ld, ok := rv.(*ssa.UnOp)
		if !ok || ld.Op != token.MUL {
			continue
		}
		cell, ok := ld.X.(*ssa.Alloc)
		if !ok {
			continue
		}
		for j := len(b.Instrs) - 1; j >= 0; j-- {
			if st, ok := b.Instrs[j].(*ssa.Store); ok && st.Addr == ssa.Value(cell) {
				out[k] = st.Val
				break
			}
		}
	}
	return out
}

// isRecoverBlockReturn: the synthetic return of the recover block (runs only after a recovered panic).
func isRecoverBlockReturn(ret *ssa.Return) bool {
	fn := ret.Parent()
	return fn.Recover != nil && ret.Block() == fn.Recover
}

// derivesFrom: v is reached from src by field selections, loads, element accesses and re-slicing only.
func derivesFrom(v, src ssa.Value) bool {
	for n := 0; n < 64; n++ {
		if v == src {
			return true
		}
		switch x := v.(type) {
		case *ssa.FieldAddr:
			v = x.X
		case *ssa.Field:
			v = x.X
		case *ssa.IndexAddr:
			v = x.X
		case *ssa.Index:
			v = x.X
		case *ssa.Slice:
			v = x.X
		case *ssa.UnOp:
			if x.Op != token.MUL {
				return false
			}
			v = x.X
		case *ssa.ChangeType:
			v = x.X
		default:
			return false
		}
	}
	return false
}

// phiIncludes: v is x, or a phi (of phis) one of whose incoming values is x.
func phiIncludes(v, x ssa.Value) bool {
	seen := map[ssa.Value]bool{}
	var visit func(v ssa.Value) bool
	visit = func(v ssa.Value) bool {
		if v == x {
			return true
		}
		if seen[v] {
			return false
		}
		seen[v] = true
		if phi, ok := v.(*ssa.Phi); ok {
			for _, e := range phi.Edges {
				if visit(e) {
					return true
				}
			}
		}
		return false
	}
	return visit(v)
}

func arrayLen(t types.Type) (int64, bool) {
	if p, ok := t.Underlying().(*types.Pointer); ok {
		t = p.Elem()
	}
	if a, ok := t.Underlying().(*types.Array); ok {
		return a.Len(), true
	}
	return 0, false
}
