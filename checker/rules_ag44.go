package main

// The gRPC handler's loop over the request's queries, written with a map helper (C13.loop / C13.id / C13.nopartial /
// C14.errors):
//
//	results, err := mapSliceErr(req.Queries, func(idx int, pbq *proto.Query) (*proto.Result, error) { ...one query... })
//	if err != nil { return nil, err }
//	resp.Results = results
//
// The loop then lives in the helper (c13MapShape: it calls the callback once for every element of the list, in order,
// with the element and its position, appends what the callback returns to a list that starts empty, and returns that
// list without error only after the loop), and the loop's body is the callback: what C13.loop / C13.id say about "the
// element appended for the current query" is judged on what the callback returns, its parameters standing for the
// current query and the range index (plus what the helper adds to the index before handing it on). An error of a
// conversion/execution inside the callback ends the request iff the callback returns an error there, the helper
// returns an error wherever its callback's error is non-nil, and the handler treats the helper's error like that of
// any per-query helper (errThroughCallback).

import (
	"go/token"
	"go/types"

	"golang.org/x/tools/go/ssa"
)

// c13Map is a verified map helper: call is the one call of the callback in it, elemPar / idxPar the positions of the
// current element and of its index among the callback's arguments (idxPar < 0: the index is not passed) and idxOff what
// the helper adds to the index before passing it.
type c13Map struct {
	fn      *ssa.Function
	call    *ssa.Call
	elemPar int
	idxPar  int
	idxOff  int64
}

// funcArg: v is a function of the module with a body, given as a value (a function literal, a bound method, a named
// function).
func funcArg(c *Ctx, v ssa.Value) *ssa.Function {
	var f *ssa.Function
	switch x := v.(type) {
	case *ssa.MakeClosure:
		f, _ = x.Fn.(*ssa.Function)
	case *ssa.Function:
		f = x
	}
	if f == nil || f.Blocks == nil || !c.w.inModule(f) {
		return nil
	}
	return f
}

// boundMethod: w is the wrapper go/ssa synthesises for a method value `x.m` — a function without a source that does
// nothing but call one method with its only free variable (the receiver) followed by its own parameters, in order, and
// return what that returns. It yields the method (nil if w is anything else).
func boundMethod(w *ssa.Function) *ssa.Function {
	if w.Synthetic == "" || len(w.FreeVars) != 1 || len(w.Blocks) != 1 {
		return nil
	}
	var m *ssa.Function
	n := 0
	for _, i := range w.Blocks[0].Instrs {
		cl, ok := i.(*ssa.Call)
		if !ok {
			continue
		}
		n++
		g := calleeFunc(&cl.Call)
		if g == nil || len(cl.Call.Args) != len(w.Params)+1 || cl.Call.Args[0] != ssa.Value(w.FreeVars[0]) {
			return nil
		}
		for k, p := range w.Params {
			if cl.Call.Args[k+1] != ssa.Value(p) {
				return nil
			}
		}
		m = g
	}
	if n != 1 {
		return nil
	}
	return m
}

// c13MapShape: M, given a list as its k-th parameter and a function as its j-th, returns the list of what the function
// returns for every element, in order (or an error). It reads the current element at one place, at a counter that
// starts at the first position, advances by one and leaves the loop only when it has reached len(list); it calls the
// function at exactly one place, with the current element (and possibly the counter); it appends the function's first
// result — exactly one entry — to a list that starts empty on every path to the next iteration; it returns that list
// without error only after the loop, and every other return carries an error. why says what is not so. (What becomes of
// the function's error is not decided here: errThroughCallback.)
func c13MapShape(c *Ctx, M *ssa.Function, k, j int) (*c13Map, string) {
	in, cb := M.Params[k], M.Params[j]
	elems := elemLoadsAtCounter(M, in)
	if len(elems) != 1 {
		return nil, "it does not read the current element at one place, at a loop counter that starts with the first element"
	}
	cur := elems[0]
	idx := cur.X.(*ssa.IndexAddr).Index
	ib, io := lin(idx)
	phi, ok := ib.(*ssa.Phi)
	if !ok {
		return nil, "its loop over the list is not recognised"
	}
	// every position is visited: the counter advances by one …
	for _, e := range phi.Edges {
		if _, isK := constInt(e); isK {
			continue
		}
		b, isB := e.(*ssa.BinOp)
		if !isB || b.Op != token.ADD || b.X != ssa.Value(phi) {
			return nil, "its loop counter does not advance by one"
		}
		if s, isK := constInt(b.Y); !isK || s != 1 {
			return nil, "its loop counter does not advance by one: elements are skipped"
		}
	}
	// … and the loop goes on as long as the position that is read lies before len(list)
	hb := phi.Block()
	iff, ok := hb.Instrs[len(hb.Instrs)-1].(*ssa.If)
	if !ok || len(hb.Succs) != 2 || !hb.Succs[0].Dominates(cur.Block()) {
		return nil, "its loop over the list is not recognised"
	}
	cond, ok := iff.Cond.(*ssa.BinOp)
	if !ok || cond.Op != token.LSS {
		return nil, "its loop does not run while position < len(list)"
	}
	if tb, to := lin(cond.X); tb != ib || to != io {
		return nil, "the position its loop tests is not the one it reads: the last elements are left out"
	}
	if lc, isCall := cond.Y.(*ssa.Call); !isCall || len(lc.Call.Args) != 1 || lc.Call.Args[0] != ssa.Value(in) {
		return nil, "its loop does not run up to len(list)"
	} else if b, isB := lc.Call.Value.(*ssa.Builtin); !isB || b.Name() != "len" {
		return nil, "its loop does not run up to len(list)"
	}
	hdr := loopHeaderOf(idx)
	if hdr == nil {
		return nil, "its loop over the list is not recognised"
	}
	// the callback: called at one place, never handed on
	m := &c13Map{fn: M, elemPar: -1, idxPar: -1}
	for _, u := range usesOf(cb) {
		cl, isCall := u.(*ssa.Call)
		if !isCall || cl.Call.Value != ssa.Value(cb) || m.call != nil {
			return nil, "its callback is handed on, deferred, or called at more than one place"
		}
		for _, a := range cl.Call.Args {
			if a == ssa.Value(cb) {
				return nil, "its callback is handed on"
			}
		}
		m.call = cl
	}
	if m.call == nil {
		return nil, "it never calls its callback"
	}
	for p, a := range m.call.Call.Args {
		switch {
		case a == ssa.Value(cur):
			if m.elemPar < 0 {
				m.elemPar = p
			}
		case isIntegerType(a.Type()):
			if ab, ao := lin(a); ab == ib && m.idxPar < 0 {
				m.idxPar, m.idxOff = p, ao-io
			}
		}
	}
	if m.elemPar < 0 {
		return nil, "its callback is not given the current element of the list"
	}
	// one entry per element: what the callback returned for it
	var app *ssa.Call
	var acc, elem ssa.Value
	n := 0
	allInstrs(M, func(i ssa.Instruction) {
		if ac, l, e := appendedOne(i); ac != nil && types.Identical(ac.Type(), M.Signature.Results().At(0).Type()) {
			app, acc, elem = ac, l, e
			n++
		}
	})
	if n != 1 {
		return nil, "it does not append to the list it returns at exactly one place"
	}
	if elem != resultValue(m.call, 0) {
		return nil, "the entry appended is not what the callback returned for the current element"
	}
	isApp := func(i ssa.Instruction) bool { return i == ssa.Instruction(app) }
	isHdr := func(i ssa.Instruction) bool { return i == hdr }
	if p := c.fc.pathAvoiding(M, cur, isHdr, isApp); p != nil {
		return nil, "an iteration can go on to the next element without appending an entry: the entries after it no longer sit at the positions of their elements"
	}
	accPhi, ok := acc.(*ssa.Phi)
	if !ok || ssa.Instruction(accPhi).Block() != hdr.Block() {
		return nil, "the list of entries is not carried from one iteration to the next"
	}
	for _, e := range accPhi.Edges {
		if e != ssa.Value(app) && !c13EmptyList(e) {
			return nil, "the list of entries does not start empty, or is replaced on the way"
		}
	}
	hasErr := M.Signature.Results().Len() == 2
	why := ""
	allInstrs(M, func(i ssa.Instruction) {
		ret, isRet := i.(*ssa.Return)
		if !isRet || isRecoverBlockReturn(ret) || why != "" {
			return
		}
		switch {
		case !hasErr || isSuccessReturn(ret):
			if retVals(ret)[0] != acc {
				why = "what it returns without error is not the list the entries were appended to"
			}
		case isErrorReturn(ret):
		default:
			why = "one of its returns is neither a success nor an error return"
		}
	})
	if why != "" {
		return nil, why
	}
	isDone := isSuccessReturn
	if !hasErr {
		isDone = func(i ssa.Instruction) bool { _, isRet := i.(*ssa.Return); return isRet }
	}
	if p := c.fc.pathAvoiding(M, cur, isDone, isHdr); p != nil {
		return nil, "it can return its list from inside its loop, before all elements were visited"
	}
	return m, ""
}

// c13Mapped handles a handler that leaves the loop over the request's queries to a map helper of its package, the
// loop's body being the function it hands to the helper. It returns false if there is no such call (the caller then
// tries the other shapes and reports what it misses).
func c13Mapped(c *Ctx, fn *ssa.Function, req ssa.Value, name, site string) bool {
	var call *ssa.Call
	var M, cbFn *ssa.Function
	k, j, n := 0, -1, 0
	allInstrs(fn, func(i ssa.Instruction) {
		cl, ok := i.(*ssa.Call)
		if !ok {
			return
		}
		callee := calleeFunc(&cl.Call)
		if callee == nil || callee.Blocks == nil || c.w.pkgPathOf(callee) != c.w.pkgPathOf(fn) {
			return
		}
		for p, a := range cl.Call.Args {
			ap := path(a)
			whole := true // the list itself, not an element of it
			for _, st := range ap.Steps {
				if st.Elem {
					whole = false
				}
			}
			if f := ap.lastField(); f != nil && f.Name() == "Queries" && ap.Root == req && whole && p < len(callee.Params) {
				call, M, k = cl, callee, p
				n++
			}
		}
	})
	if n != 1 {
		return false
	}
	for p, a := range call.Call.Args {
		if f := funcArg(c, a); f != nil && p < len(M.Params) && p != k {
			if j >= 0 {
				return false // two callbacks: not this shape
			}
			j, cbFn = p, f
		}
	}
	if j < 0 {
		return false
	}
	res := M.Signature.Results()
	hasErr := res.Len() == 2 && isErrorType(res.At(1).Type())
	if !hasErr && res.Len() != 1 {
		return false
	}
	if _, isSlice := res.At(0).Type().Underlying().(*types.Slice); !isSlice {
		return false
	}
	mname, cbname := safeFname(M), safeFname(cbFn)
	m, why := c13MapShape(c, M, k, j)
	if m == nil {
		c.r.bad("C13.loop", name+": map helper", "the handler leaves the loop over the request's queries to "+mname+", but that does not collect, in request order, what its callback returns for every query: "+why, []string{c.w.pos(M.Pos())})
		return true
	}
	if len(cbFn.Params) != len(m.call.Call.Args) {
		c.r.undecided("C13.loop", name+": map helper", "the parameters of "+cbname+" do not line up with the arguments "+mname+" calls its callback with", c.w.ipos(call))
		return true
	}
	c.r.ok("C13.loop", name+": map helper", mname+" calls its callback once per query, in order, appends what it returns, and returns the list without error only after its loop", c.w.pos(M.Pos()))
	results := resultValue(call, 0)
	var merr ssa.Value
	if hasErr {
		merr = resultValue(call, 1)
	}
	if results == nil || (hasErr && merr == nil) {
		c.r.bad("C13.loop", name+": whole batch", "the error of "+mname+" is ignored: when a query fails it returns no list (or only the results of the queries before it), and the response would hold fewer results than the request has queries", []string{c.w.ipos(call)})
		return true
	}
	// the list collected is the response's list: stored there at one place, as it is
	var stores []*ssa.Store
	allInstrs(fn, func(i ssa.Instruction) {
		st, ok := i.(*ssa.Store)
		if !ok {
			return
		}
		dp := path(st.Addr)
		if f := dp.lastField(); f == nil || f.Name() != "Results" || !typeIs(dp.Root.Type(), pkgProto, "QueryResponse") {
			return
		}
		if c13EmptyList(st.Val) && !c.fc.reachableFrom(fn, call, st) {
			return // the list's initial value, before the first query is looked at
		}
		stores = append(stores, st)
	})
	if len(stores) != 1 || stores[0].Val != results {
		c.r.bad("C13.loop", name+": append", "the response's result list is not set, at exactly one place, to the list "+mname+" collected (one result per query, in request order)", []string{site})
		return true
	}
	ap := stores[0]
	for _, u := range usesOf(results) {
		switch y := u.(type) {
		case *ssa.Store:
			if y == ap {
				continue
			}
		case *ssa.Call:
			if b, isB := y.Call.Value.(*ssa.Builtin); isB && (b.Name() == "len" || b.Name() == "cap") {
				continue
			}
		}
		c.r.undecided("C13.loop", name+": append", "the list "+mname+" collected is also used elsewhere before it becomes the response's result list (changed, re-sliced or handed on): the rule cannot tell that the response still holds one result per query in request order", c.w.ipos(u))
		return true
	}
	// the loop's body: every return of the callback that is not an error return yields the element for the current query
	x := &qctx{f: cbFn, cur: cbFn.Params[m.elemPar]}
	if m.idxPar >= 0 {
		x.idx, x.idxOff = cbFn.Params[m.idxPar], m.idxOff
	}
	el := queryElem{chainOK: true, idOK: true}
	nEl := 0
	allInstrs(cbFn, func(i ssa.Instruction) {
		ret, isRet := i.(*ssa.Return)
		if !isRet || isRecoverBlockReturn(ret) || len(ret.Results) == 0 {
			return
		}
		rv := retVals(ret)
		if isErrorReturn(ret) && isNilConst(rv[0]) {
			return // error returns: their error must end the request (C13.nopartial)
		}
		// (a return that hands on both results of a per-query helper is judged on the helper's returns: c13Element)
		nEl++
		r := c13Element(c, x, rv[0])
		if !r.chainOK && el.chainOK {
			el.chainOK, el.why = false, r.why
		}
		if !r.idOK && el.idOK {
			el.idOK, el.idWhy = false, r.idWhy
		}
	})
	if nEl == 0 {
		w := "the function that answers one query (" + cbname + ") never returns a result"
		el = queryElem{why: w, idWhy: w}
	}
	if el.idOK && m.idxPar < 0 {
		el.idOK, el.idWhy = false, mname+" does not tell its callback the position of the query: an unnumbered query cannot get its 1-based position as id"
	}
	c.r.check(el.chainOK, "C13.loop", name+": element", "element collected = ToProtobufResult(Execute(ToQuery(current query)), id)", "the element collected for a query is not that query's own converted result: "+el.why, c.w.pos(cbFn.Pos()))
	// every query answered, and a response only for the whole batch
	isStore := func(i ssa.Instruction) bool { return i == ssa.Instruction(ap) }
	if p := c.fc.pathAvoiding(fn, call, isSuccessReturn, isStore); p != nil {
		c.r.bad("C13.loop", name+": every query answered", "a response can be returned without the results "+mname+" collected: it would have fewer results than the request has queries", []string{c.w.ipos(p[len(p)-1])}, c.fc.witnessStrings(p)...)
	} else {
		c.r.ok("C13.loop", name+": every query answered", "every response returned holds the list "+mname+" collected, one entry per query", c.w.ipos(ap))
	}
	var bad ssa.Instruction
	if hasErr {
		allInstrs(fn, func(i ssa.Instruction) {
			if isSuccessReturn(i) && !errKnownNil(merr, i) && bad == nil {
				bad = i
			}
		})
	}
	if bad != nil {
		c.r.bad("C13.loop", name+": whole batch", "a response can be returned although "+mname+" failed: it stops at the first failing query, so the response holds no results (or only those of the queries before that one) instead of the call failing", []string{c.w.ipos(bad)})
	} else {
		c.r.ok("C13.loop", name+": whole batch", "a response is returned only where "+mname+" is known to have answered every query", c.w.ipos(call))
	}
	c.r.check(el.idOK, "C13.id", name, "id = query.Id, or int32(range index + 1) on the Id == 0 branch", el.idWhy, c.w.pos(cbFn.Pos()))
	c13Nopartial(c, fn, name)
	return true
}

// errThroughCallback: f, a function of the handler's scope, is handed as a callback to a module function M (a function
// literal given to a map helper). Its error ends the request iff, at every such place, the function value goes nowhere
// but into that call, M does nothing with the parameter but call it, M's non-nil callback error only reaches error
// returns of M (errPropagated; the violating variant — an M that skips or swallows the failing element — is found
// there), and M's own error ends the request where M is called (errEndsRequest, up to the handler). isCb is false if f
// is not used as a callback anywhere in the scope.
func errThroughCallback(c *Ctx, handler *ssa.Function, scope []*ssa.Function, f *ssa.Function, at *ssa.Call, depth int) (out errOutcome, isCb bool) {
	var worst *errOutcome
	fail := func(msg string, at ssa.Instruction) {
		if worst == nil {
			worst = &errOutcome{false, msg, at, nil}
		}
	}
	fname := safeFname(f)
	isF := func(v ssa.Value) bool {
		switch x := v.(type) {
		case *ssa.Function:
			return x == f
		case *ssa.MakeClosure:
			// a function literal, or the method value `s.f`
			w, _ := x.Fn.(*ssa.Function)
			return w == f || (w != nil && boundMethod(w) == f)
		}
		return false
	}
	through := ""
	handle := func(g *ssa.Function, mcall *ssa.Call, j int) {
		M := calleeFunc(&mcall.Call)
		if M == nil || M.Blocks == nil || !c.w.inModule(M) || j >= len(M.Params) {
			fail(fname+" is handed as a function value to code the rule does not follow: its error is not known to end the request", mcall)
			return
		}
		mname := safeFname(M)
		nCalls := 0
		for _, u := range usesOf(M.Params[j]) {
			cl, isCall := u.(*ssa.Call)
			if !isCall || cl.Call.Value != ssa.Value(M.Params[j]) {
				fail(mname+", which "+fname+" is handed to, hands it on or starts it with go/defer: its error is not known to end the request", u)
				return
			}
			nCalls++
			res := cl.Call.Signature().Results()
			o := c.fc.errPropagated(M, cl, resultValue(cl, res.Len()-1))
			if !o.ok {
				if worst == nil {
					worst = &errOutcome{false, "in " + mname + ", which calls " + fname + " for every query: " + o.msg, o.site, o.witness}
				}
				return
			}
		}
		if nCalls == 0 {
			fail(mname+", which "+fname+" is handed to, never calls it", mcall)
			return
		}
		mres := M.Signature.Results()
		if mres.Len() == 0 || !isErrorType(mres.At(mres.Len()-1).Type()) {
			fail(mname+", which calls "+fname+", has no error result: the error cannot end the request", mcall)
			return
		}
		if o := errEndsRequest(c, handler, scope, g, mcall, depth+1); !o.ok && worst == nil {
			worst = &o
		}
		through = mname
	}
	for _, g := range scope {
		allInstrs(g, func(i ssa.Instruction) {
			if mc, ok := i.(*ssa.MakeClosure); ok && isF(mc) {
				// the function value: it may only be called on the spot or be an argument of a call (handled at that call)
				for _, u := range usesOf(mc) {
					if _, isCall := u.(*ssa.Call); !isCall {
						isCb = true
						fail(fname+" is kept as a function value, or started with go/defer: its error is not known to end the request", u)
					}
				}
				return
			}
			cl, isCall := i.(*ssa.Call)
			if !isCall {
				// a named function used as a value outside a call (go/defer of it is seen by errEndsRequest itself)
				if _, isGoDefer := i.(ssa.CallInstruction); !isGoDefer {
					for _, op := range i.Operands(nil) {
						if op != nil && *op != nil && isF(*op) {
							isCb = true
							fail(fname+" is kept as a function value: its error is not known to end the request", i)
						}
					}
				}
				return
			}
			for j, a := range cl.Call.Args {
				if isF(a) {
					isCb = true
					handle(g, cl, j)
				}
			}
		})
	}
	if !isCb {
		return errOutcome{}, false
	}
	if worst != nil {
		return *worst, true
	}
	if through == "" {
		return errOutcome{false, fname + " is used as a function value but never handed to a function that calls it", at, nil}, true
	}
	return errOutcome{true, through + " returns an error wherever " + fname + ", which it calls for every query, does, and its error ends the request where it is called", at, nil}, true
}
