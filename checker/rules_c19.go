package main

import (
	"fmt"
	"go/constant"
	"go/token"
	"go/types"
	"sort"
	"strings"

	"golang.org/x/tools/go/ssa"
)

func init() {
	register(&propDef{
		id:  "C19",
		run: runC19,
		explanation: "Decided (structural, for every CSV file and both modes): " +
			"C19.csvstrict — no option of the csv.Reader is changed from its strict defaults (ragged records and bare quotes stay errors, field contents stay exact); " +
			"C19.records — every csv Read call site in the create command is classified: the first record is the header and flows only into the header normalisation; every other read sits in the record loop, and on its non-error path the record is turned into a row (values[header[i]] = record[i] for the same range index i over the record, header being the normalised header) that reaches exactly one AddRow before the next read, on every path; no record is read and dropped; " +
			"C19.normalize — the header normalisation lower-cases and then maps every rune through a function that returns either its argument, only under a test r >= 'a' && r <= 'z', or the constant '_'; " +
			"C19.errexit — errors of reading (except io.EOF, which ends the input), AddRow, Flush, both bbolt.Open calls and the big writer's constructor reach the command's error result; the cobra RunE closure returns it and main exits with a non-zero constant when Execute fails; " +
			"C19.txrelease — a writer that keeps a bbolt write transaction open between calls has a method that rolls it back, and the command runs it (deferred) on every path after constructing the writer, so a failure cannot leave DB.Close waiting on a pending transaction (the command would hang instead of exiting non-zero); " +
			"C19.flush — the successful return is preceded by Flush on every path; C19.excl — the big-mode output is opened with O_EXCL and the scratch database without O_CREATE (as C16). " +
			"NOT decided: observational identity of normal and --big output (C05's value-level clause); CSV parsing itself (encoding/csv, trusted); distinctness of headers after normalisation (excluded by the property).",
		assumptions: []string{"encoding/csv default behaviour", "cobra runs RunE and returns its error from Execute", "go/ssa, dominance"},
	})
}

func runC19(c *Ctx) {
	if !c.need("C19.records", c.a.CreateCmd, c.a.NormalizeHeader, c.a.Main) {
		return
	}
	c19CSVStrict(c)
	c19Records(c)
	c19Normalize(c)
	c19ErrExit(c)
	txReleaseRule(c, "C19.txrelease")
	c19NoTouch(c)
	// excl: the create command's bbolt.Open sites
	decide, why := hookDecider(c)
	n := 0
	for _, s := range boltOpenSites(c) {
		if s.fn != c.a.CreateCmd {
			continue
		}
		n++
		role := "output"
		if fromCreateTemp(s.call.Call.Args[0]) {
			role = "scratch"
		}
		key := fmt.Sprintf("createCmd#%d (%s)", n, role)
		pos := c.w.ipos(s.call)
		if decide == nil {
			c.r.undecided("C19.excl", key, why, pos)
			continue
		}
		if !s.hook || s.exists == nil {
			c.r.bad("C19.excl", key, "bbolt.Open without an openfile hook built from constant options: an existing output file would be opened and written into", []string{pos})
			continue
		}
		d := decide(*s.exists, *s.notExists)
		if role == "output" {
			c.r.check(d.kind == "excl", "C19.excl", key, "opened with O_EXCL", "the big-mode output file is opened without O_EXCL ("+d.kind+"): an existing output would be modified", pos)
		} else {
			c.r.check(d.kind == "nocreate", "C19.excl", key, "opened without O_CREATE", "the scratch database is opened with a hook that does not clear O_CREATE ("+d.kind+")", pos)
		}
	}
}

func c19CSVStrict(c *Ctx) {
	const rule = "C19.csvstrict"
	n := 0
	for _, fn := range c.w.ModFuncs {
		if c.w.pkgPathOf(fn) != pkgCmd {
			continue
		}
		allInstrs(fn, func(i ssa.Instruction) {
			st, ok := i.(*ssa.Store)
			if !ok {
				return
			}
			fa, ok := st.Addr.(*ssa.FieldAddr)
			if !ok || !typeIs(fa.X.Type(), "encoding/csv", "Reader") {
				return
			}
			n++
			f := fieldOf(fa.X.Type(), fa.Field)
			c.r.bad(rule, safeFname(fn)+": csv.Reader."+f.Name(), "the CSV reader's "+f.Name()+" option is changed: with the defaults ragged records and bare quotes are errors and field contents are preserved exactly", []string{c.w.ipos(i)})
		})
	}
	if n == 0 {
		c.r.ok(rule, "csv.Reader options", "no option of the CSV reader is assigned anywhere in the command")
	}
}

func c19Records(c *Ctx) {
	const rule = "C19.records"
	top := c.a.CreateCmd
	name := safeFname(top)
	fns := c.scope(top, 2, c.a.NormalizeHeader)
	type readSite struct {
		fn   *ssa.Function
		call *ssa.Call
	}
	var reads []readSite
	for _, fn := range fns {
		allInstrs(fn, func(i ssa.Instruction) {
			if call, ok := i.(*ssa.Call); ok && calleeName(&call.Call) == "(*encoding/csv.Reader).Read" {
				reads = append(reads, readSite{fn, call})
			}
			if call, ok := i.(*ssa.Call); ok && calleeName(&call.Call) == "(*encoding/csv.Reader).ReadAll" {
				c.r.undecided(rule, name+": ReadAll", "records are read with ReadAll, a form this rule does not follow", c.w.ipos(i))
			}
		})
	}
	if len(reads) < 2 {
		c.r.undecided(rule, name, fmt.Sprintf("expected a header read and a record-loop read, found %d csv Read call sites", len(reads)), c.w.pos(top.Pos()))
		return
	}
	// header: the read (in the command function) whose record flows into normalizeHeader
	var headerRead *ssa.Call
	var normCall *ssa.Call
	allInstrs(top, func(i ssa.Instruction) {
		call, ok := i.(*ssa.Call)
		if !ok || calleeFunc(&call.Call) != c.a.NormalizeHeader {
			return
		}
		if e, ok := call.Call.Args[0].(*ssa.Extract); ok && e.Index == 0 {
			if rc, ok := e.Tuple.(*ssa.Call); ok {
				headerRead, normCall = rc, call
			}
		}
	})
	if headerRead == nil {
		c.r.bad(rule, name+": header", "no csv record is passed to the header normalisation: the header is not taken from the first record", []string{c.w.pos(top.Pos())})
		return
	}
	// values that denote the normalised header, per function (bound through helper parameters), and the call in the
	// command function through which each helper is entered
	hdr := map[*ssa.Function]map[ssa.Value]bool{top: {ssa.Value(normCall): true}}
	entry := map[*ssa.Function]ssa.Instruction{}
	for round := 0; round < 3; round++ {
		for _, fn := range fns {
			if hdr[fn] == nil {
				continue
			}
			allInstrs(fn, func(i ssa.Instruction) {
				call, ok := i.(*ssa.Call)
				if !ok {
					return
				}
				g := calleeFunc(&call.Call)
				if g == nil || g == fn {
					return
				}
				inScope := false
				for _, f := range fns {
					if f == g {
						inScope = true
					}
				}
				if !inScope {
					return
				}
				if _, ok := entry[g]; !ok {
					if fn == top {
						entry[g] = i
					} else if e, ok := entry[fn]; ok {
						entry[g] = e
					}
				}
				for k, a := range call.Call.Args {
					if hdr[fn][a] && k < len(g.Params) {
						if hdr[g] == nil {
							hdr[g] = map[ssa.Value]bool{}
						}
						hdr[g][g.Params[k]] = true
					}
				}
			})
		}
	}
	// the header read happens once and before any other read
	okHdr := !c.fc.reachableFrom(top, headerRead, headerRead)
	for _, r := range reads {
		if r.call == headerRead {
			continue
		}
		at := ssa.Instruction(r.call)
		if r.fn != top {
			at = entry[r.fn]
			if at == nil {
				okHdr = false
				continue
			}
		}
		if c.fc.reachableFrom(top, at, headerRead) || !c.fc.reachableFrom(top, headerRead, at) {
			okHdr = false
		}
	}
	if e := extractOf(headerRead, 0); e != nil {
		for _, u := range usesOf(e) {
			if call, ok := u.(*ssa.Call); !ok || calleeFunc(&call.Call) != c.a.NormalizeHeader {
				okHdr = false
			}
		}
	}
	c.r.check(okHdr, rule, name+": header", "the first record read is the header and is used only for that", "the header is not exactly the first record (another read precedes it, it is read repeatedly, or the header record is also used as data)", c.w.ipos(headerRead))

	k := 0
	for _, rs := range reads {
		if rs.call == headerRead {
			continue
		}
		k++
		fn, r := rs.fn, rs.call
		key := fmt.Sprintf("%s: record read#%d", safeFname(fn), k)
		rec := extractOf(r, 0)
		errv := extractOf(r, 1)
		if rec == nil || errv == nil {
			c.r.bad(rule, key, "a record is read and discarded (or its error ignored): that record never becomes a row", []string{c.w.ipos(r)})
			continue
		}
		var addRows []ssa.Instruction
		allInstrs(fn, func(i ssa.Instruction) {
			call, ok := i.(*ssa.Call)
			if !ok {
				return
			}
			if call.Call.IsInvoke() && call.Call.Method.Name() == "AddRow" {
				addRows = append(addRows, i)
			}
			if f := calleeFunc(&call.Call); f != nil && f.Name() == "AddRow" && c.w.pkgPathOf(f) == pkgRoot {
				addRows = append(addRows, i)
			}
		})
		isAddRow := func(i ssa.Instruction) bool {
			for _, a := range addRows {
				if a == i {
					return true
				}
			}
			return false
		}
		isRead := func(i ssa.Instruction) bool {
			for _, x := range reads {
				if ssa.Instruction(x.call) == i {
					return true
				}
			}
			return false
		}
		// (2) the row passed to AddRow is built from this record and the normalised header
		rowOK, why := false, "no AddRow call takes a row built from this record"
		for _, a := range addRows {
			cc := callCommon(a)
			m := cc.Args[len(cc.Args)-1]
			if ok, w := rowBuilt(c, m, func(x ssa.Value) bool { return hdr[fn][x] }, func(x ssa.Value) bool { return phiIncludes(x, rec) }, a, 0); ok {
				rowOK = true
			} else {
				why = w
			}
		}
		if !rowOK {
			c.r.bad(rule, key, "the record is not turned into a row faithfully: "+why, []string{c.w.ipos(r)})
			continue
		}
		// (3) on the non-error path: exactly one AddRow before the next read / the end
		errNil := func(pred, succ *ssa.BasicBlock) bool { // cut the error branch
			iff, ok := pred.Instrs[len(pred.Instrs)-1].(*ssa.If)
			if !ok {
				return false
			}
			for _, cm := range trueCmps(fact{iff.Cond, pred.Succs[0] == succ}) {
				if cm.Op == token.NEQ && cm.Y != nil && phiIncludes(cm.X, errv) && isNilConst(cm.Y) {
					return true
				}
			}
			return false
		}
		if p := c.fc.pathFrom(fn, r, func(i ssa.Instruction) bool { return isRead(i) || isSuccessReturn(i) }, isAddRow, errNil); p != nil {
			c.r.bad(rule, key, "a successfully read record can reach the next read (or the end) without an AddRow: the record is skipped", []string{c.w.ipos(r)}, c.fc.witnessStrings(p)...)
			continue
		}
		double := false
		for _, a := range addRows {
			if !c.fc.reachableFrom(fn, r, a) {
				continue
			}
			if p := c.fc.pathFrom(fn, a, isAddRow, isRead, nil); p != nil {
				double = true
				c.r.bad(rule, key, "a record can be added twice before the next read", []string{c.w.ipos(a)}, c.fc.witnessStrings(p)...)
			}
		}
		if !double {
			c.r.ok(rule, key, "record -> values[header[i]] = record[i] -> exactly one AddRow per record", c.w.ipos(r))
		}
	}
}

// rowBuilt: m (the argument of AddRow at instruction `at`) is a map made for this record and filled with
// header[i] -> record[i] for the same index i running over the whole record; or the result of a module helper that builds
// such a map from parameters bound to the header and the record.
func rowBuilt(c *Ctx, m ssa.Value, isHeader, isRec func(ssa.Value) bool, at ssa.Instruction, depth int) (bool, string) {
	if depth > 2 {
		return false, "the row is built too deep in helpers"
	}
	if call, callee, vals, ok := resultOrigins(c.w, m); ok {
		var ph, pr ssa.Value
		for k, a := range call.Call.Args {
			if k >= len(callee.Params) {
				continue
			}
			if isHeader(a) {
				ph = callee.Params[k]
			}
			if isRec(a) {
				pr = callee.Params[k]
			}
		}
		if ph == nil || pr == nil {
			return false, "the helper that builds the row is not given the normalised header and the record just read"
		}
		for _, rv := range vals {
			if ok, why := rowBuilt(c, rv, func(x ssa.Value) bool { return x == ph }, func(x ssa.Value) bool { return x == pr }, nil, depth+1); !ok {
				return false, why
			}
		}
		return true, ""
	}
	mk, ok := m.(*ssa.MakeMap)
	if !ok {
		return false, "the row passed to AddRow is not a map made for this record"
	}
	if at != nil && !mk.Block().Dominates(at.Block()) {
		return false, "the row map is not created on the way to this AddRow"
	}
	nUpd := 0
	for _, u := range referrers(mk) {
		mu, ok := u.(*ssa.MapUpdate)
		if !ok {
			continue
		}
		nUpd++
		kl, ok1 := mu.Key.(*ssa.UnOp)
		vl, ok2 := mu.Value.(*ssa.UnOp)
		if !ok1 || !ok2 {
			return false, "map key/value are not plain elements of header/record"
		}
		ki, ok1 := kl.X.(*ssa.IndexAddr)
		vi, ok2 := vl.X.(*ssa.IndexAddr)
		if !ok1 || !ok2 {
			return false, "map key/value are not plain elements of header/record"
		}
		switch {
		case !isHeader(ki.X):
			return false, "the column name is not taken from the normalised header"
		case !isRec(vi.X):
			return false, "the value is not taken from the record just read"
		case ki.Index != vi.Index:
			return false, "header and record are indexed differently: values land in the wrong columns"
		}
		ib, io := lin(vi.Index)
		lb, isCtr := phiLower(ib)
		if !isCtr || lb+io != 0 {
			return false, "the field loop does not start at the first field"
		}
		upper := false
		for _, cm := range cmpsAt(mu) {
			if cm.Y != nil && cm.Op == token.LSS && cm.X == vi.Index && isLenOf(cm.Y, vi.X) {
				upper = true
			}
		}
		if !upper {
			return false, "the field loop does not run over the whole record"
		}
	}
	if nUpd != 1 {
		return false, fmt.Sprintf("the row map is filled at %d sites", nUpd)
	}
	return true, ""
}

func c19Normalize(c *Ctx) {
	const rule = "C19.normalize"
	fn := c.a.NormalizeHeader
	name := safeFname(fn)
	var mapCalls []*ssa.Call
	allInstrs(fn, func(i ssa.Instruction) {
		if call, ok := i.(*ssa.Call); ok && calleeName(&call.Call) == "strings.Map" {
			mapCalls = append(mapCalls, call)
		}
	})
	if len(mapCalls) != 1 {
		c.r.undecided(rule, name, fmt.Sprintf("expected one strings.Map call, found %d", len(mapCalls)), c.w.pos(fn.Pos()))
		return
	}
	mc := mapCalls[0]
	// input lower-cased first
	lowered := false
	if in, ok := mc.Call.Args[1].(*ssa.Call); ok && calleeName(&in.Call) == "strings.ToLower" {
		lowered = true
	}
	c.r.check(lowered, rule, name+": lower", "strings.ToLower is applied before mapping", "the header is not lower-cased before the character mapping: upper-case letters become '_' or stay upper-case", c.w.ipos(mc))
	var cl *ssa.Function
	switch v := mc.Call.Args[0].(type) {
	case *ssa.MakeClosure:
		cl, _ = v.Fn.(*ssa.Function)
	case *ssa.Function:
		cl = v
	}
	if cl == nil || len(cl.Params) != 1 {
		c.r.undecided(rule, name+": mapping", "mapping function not resolvable", c.w.ipos(mc))
		return
	}
	r := ssa.Value(cl.Params[0])
	okAll, why := true, ""
	// interpret the mapping function for one representative of every interval of the rune domain induced by the
	// constants it compares its argument with: the result must be the argument itself only inside 'a'..'z', and '_' otherwise
	pts := map[int64]bool{0: true, 0x10FFFF: true, 'a': true, 'z': true}
	allInstrs(cl, func(i ssa.Instruction) {
		if b, ok := i.(*ssa.BinOp); ok {
			for _, pair := range [][2]ssa.Value{{b.X, b.Y}, {b.Y, b.X}} {
				if peelConv(pair[0]) == r {
					if k, ok := constInt(pair[1]); ok {
						pts[k] = true
					}
				}
			}
		}
	})
	var sorted []int64
	for p := range pts {
		if p >= 0 && p <= 0x10FFFF {
			sorted = append(sorted, p)
		}
	}
	sort.Slice(sorted, func(i, j int) bool { return sorted[i] < sorted[j] })
	var ivals [][2]int64
	for i, p := range sorted {
		ivals = append(ivals, [2]int64{p, p})
		if i+1 < len(sorted) && sorted[i+1] > p+1 {
			ivals = append(ivals, [2]int64{p + 1, sorted[i+1] - 1})
		}
	}
	for _, iv := range ivals {
		self, val, ok := evalRuneMap(cl, r, iv[0])
		switch {
		case !ok:
			okAll, why = false, "the mapping function is not a composition of comparisons of the rune with constants (cannot be interpreted)"
		case self && !(iv[0] >= 'a' && iv[1] <= 'z'):
			okAll, why = false, fmt.Sprintf("runes in [%s] are kept although they are outside 'a'..'z'", ivalString(iv))
		case !self && val != '_':
			okAll, why = false, fmt.Sprintf("runes in [%s] are mapped to %q, not '_'", ivalString(iv), rune(val))
		case !self && iv[0] >= 'a' && iv[1] <= 'z':
			okAll, why = false, fmt.Sprintf("letters in [%s] are replaced by '_'", ivalString(iv))
		}
		if !okAll {
			break
		}
	}
	c.r.check(okAll, rule, name+": mapping", "runes in a-z are kept, everything else becomes '_'", "the header normalisation deviates from 'keep a-z, replace everything else by _': "+why, c.w.pos(cl.Pos()))
	// the normalised headers are returned one per input header, in order (append in a range loop over the input)
}

func mustInt(k *ssa.Const) int64 {
	n, _ := constant.Int64Val(constant.ToInt(k.Value))
	return n
}

func c19ErrExit(c *Ctx) {
	const rule = "C19.errexit"
	top := c.a.CreateCmd
	n := 0
	var flushes []ssa.Instruction
	scopeFns := c.scope(top, 2, c.a.NormalizeHeader)
	inScope := func(f *ssa.Function) bool {
		for _, x := range scopeFns {
			if x == f {
				return true
			}
		}
		return false
	}
	for _, fn := range scopeFns {
		if fn.Parent() != nil {
			continue
		}
		sigr := fn.Signature.Results()
		if sigr.Len() == 0 || !isErrorType(sigr.At(sigr.Len()-1).Type()) {
			continue // helpers without an error result cannot swallow one they do not produce
		}
		fn := fn
		name := safeFname(fn)
		allInstrs(fn, func(i ssa.Instruction) {
			call, ok := i.(*ssa.Call)
			if !ok {
				return
			}
			what := ""
			if f := calleeFunc(&call.Call); f != nil && f != fn && inScope(f) {
				sr := f.Signature.Results()
				if sr.Len() > 0 && isErrorType(sr.At(sr.Len()-1).Type()) {
					what = safeFname(f)
				}
			}
			cname := calleeName(&call.Call)
			switch {
			case cname == "(*encoding/csv.Reader).Read":
				what = "csv Read"
			case cname == "go.etcd.io/bbolt.Open":
				what = "bbolt.Open"
			case cname == "os.Open", cname == "os.CreateTemp":
				what = cname
			case call.Call.IsInvoke() && (call.Call.Method.Name() == "AddRow" || call.Call.Method.Name() == "Flush"):
				what = call.Call.Method.Name()
			default:
				if f := calleeFunc(&call.Call); f != nil && c.w.pkgPathOf(f) == pkgRoot {
					sig := f.Signature.Results()
					if sig.Len() > 0 && isErrorType(sig.At(sig.Len()-1).Type()) {
						what = f.Name()
					}
				}
			}
			if what == "" {
				return
			}
			if what == "Flush" && fn == top {
				flushes = append(flushes, i)
			}
			n++
			sig := call.Call.Signature().Results()
			ev := resultValue(call, sig.Len()-1)
			var cut func(pred, succ *ssa.BasicBlock) bool
			if what == "csv Read" {
				// io.EOF ends the input: the branch where errors.Is(err, io.EOF) / err == io.EOF holds is not a swallowed error
				cut = func(pred, succ *ssa.BasicBlock) bool {
					iff, ok := pred.Instrs[len(pred.Instrs)-1].(*ssa.If)
					if !ok || pred.Succs[0] != succ {
						return false
					}
					cond := iff.Cond
					if ic, ok := cond.(*ssa.Call); ok && calleeName(&ic.Call) == "errors.Is" && ic.Call.Args[0] == ev && isGlobalNamed(ic.Call.Args[1], "io", "EOF") {
						return true
					}
					if b, ok := cond.(*ssa.BinOp); ok && b.Op == token.EQL {
						if (b.X == ev && isGlobalNamed(b.Y, "io", "EOF")) || (b.Y == ev && isGlobalNamed(b.X, "io", "EOF")) {
							return true
						}
					}
					return false
				}
			}
			key := fmt.Sprintf("%s: %s#%d", name, what, n)
			out := c.fc.errPropagatedExcept(fn, call, ev, cut)
			if out.ok {
				c.r.ok(rule, key, out.msg, c.w.ipos(call))
			} else {
				c.r.bad(rule, key, "a failure of "+what+" does not make the command fail: "+out.msg, []string{c.w.ipos(out.site)}, c.fc.witnessStrings(out.witness)...)
			}
		})
	}
	fn := top
	name := safeFname(fn)
	c.r.expect(rule, 7)
	// flush before success
	isFlush := func(i ssa.Instruction) bool {
		for _, f := range flushes {
			if f == i {
				return true
			}
		}
		return false
	}
	if p := c.fc.pathAvoiding(fn, nil, isSuccessReturn, isFlush); p != nil {
		c.r.bad("C19.flush", name, "the command can report success without having flushed the index", []string{c.w.ipos(p[len(p)-1])}, c.fc.witnessStrings(p)...)
	} else {
		c.r.ok("C19.flush", name, "every successful return has passed Flush", c.w.pos(fn.Pos()))
	}
	// RunE closure returns createCmd's error; main exits non-zero when Execute fails
	main := c.a.Main
	okRunE := false
	for _, f := range c.w.ModFuncs {
		if f.Parent() != main {
			continue
		}
		allInstrs(f, func(i ssa.Instruction) {
			call, ok := i.(*ssa.Call)
			if !ok || calleeFunc(&call.Call) != fn {
				return
			}
			out := c.fc.errPropagated(f, call, resultValue(call, 0))
			if out.ok {
				okRunE = true
			} else {
				c.r.bad(rule, "main: RunE of create", "the create command's error is not returned to cobra: "+out.msg, []string{c.w.ipos(call)})
			}
		})
	}
	if okRunE {
		c.r.ok(rule, "main: RunE of create", "the cobra RunE closure returns createCmd's error")
	} else if c.r.seen[rule+"[main: RunE of create]"] == nil {
		c.r.undecided(rule, "main: RunE of create", "no closure of main calls createCmd")
	}
	// main: Execute error -> os.Exit(non-zero constant)
	okExit := false
	allInstrs(main, func(i ssa.Instruction) {
		call, ok := i.(*ssa.Call)
		if !ok || calleeName(&call.Call) != "(*github.com/spf13/cobra.Command).Execute" {
			return
		}
		ev := ssa.Value(call)
		allInstrs(main, func(j ssa.Instruction) {
			ex, ok := j.(*ssa.Call)
			if !ok || calleeName(&ex.Call) != "os.Exit" {
				return
			}
			code, isK := constInt(ex.Call.Args[0])
			if !isK || code == 0 {
				return
			}
			for _, cm := range cmpsAt(ex) {
				if cm.Op == token.NEQ && cm.Y != nil && cm.X == ev && isNilConst(cm.Y) {
					okExit = true
				}
			}
		})
		// and the error branch cannot fall through to a normal return
		if okExit {
			for _, b := range main.Blocks {
				if len(b.Preds) == 1 {
					p := b.Preds[0]
					if iff, ok := p.Instrs[len(p.Instrs)-1].(*ssa.If); ok {
						for _, cm := range trueCmps(fact{iff.Cond, p.Succs[0] == b}) {
							if cm.Op == token.NEQ && cm.Y != nil && cm.X == ev && isNilConst(cm.Y) {
								if pth := c.fc.pathAvoiding(main, b.Instrs[0], func(x ssa.Instruction) bool { _, r := x.(*ssa.Return); return r }, nil); pth != nil {
									// pathAvoiding cuts at os.Exit (diverging); a surviving path means some way around the exit
									if _, isExit := b.Instrs[0].(*ssa.Call); !isExit || calleeName(callCommon(b.Instrs[0])) != "os.Exit" {
										okExit = false
									}
								}
							}
						}
					}
				}
			}
		}
	})
	c.r.check(okExit, rule, "main: exit status", "os.Exit with a non-zero constant when Execute returns an error", "main does not exit with a non-zero status when the command fails", c.w.pos(main.Pos()))
}

func isGlobalNamed(v ssa.Value, pkg, name string) bool {
	u, ok := v.(*ssa.UnOp)
	if !ok || u.Op != token.MUL {
		return false
	}
	g, ok := u.X.(*ssa.Global)
	return ok && g.Name() == name && g.Pkg != nil && g.Pkg.Pkg.Path() == pkg
}

var _ = types.Typ

// txReleaseRule: a writer that keeps a bbolt write transaction open between calls (a *bbolt.Tx field assigned from
// DB.Begin(true)) must offer a method that rolls that transaction back, and the create command must run it (normally by
// defer) on every path after the writer was constructed: bbolt's DB.Close waits for pending transactions, so abandoning
// the writer on an error path makes the command hang instead of failing.
func txReleaseRule(c *Ctx, rule string) {
	type held struct {
		fld   *types.Var
		owner *types.Named
	}
	var helds []held
	seen := map[*types.Var]bool{}
	for _, fn := range c.w.ModFuncs {
		if c.w.pkgPathOf(fn) != pkgRoot {
			continue
		}
		allInstrs(fn, func(i ssa.Instruction) {
			st, ok := i.(*ssa.Store)
			if !ok {
				return
			}
			fa, ok := st.Addr.(*ssa.FieldAddr)
			if !ok {
				return
			}
			f := fieldOf(fa.X.Type(), fa.Field)
			if f == nil || !typeIs(f.Type(), pkgBolt, "Tx") || seen[f] {
				return
			}
			if e, ok := st.Val.(*ssa.Extract); ok {
				if bc, ok := e.Tuple.(*ssa.Call); ok && calleeName(&bc.Call) == "(*go.etcd.io/bbolt.DB).Begin" {
					if w, isK := constBool(bc.Call.Args[1]); !isK || w {
						seen[f] = true
						helds = append(helds, held{f, c.w.ownerOf(f)})
					}
				}
			}
		})
	}
	if len(helds) == 0 {
		c.r.ok(rule, "module", "no type keeps a write transaction open between calls")
		return
	}
	for _, h := range helds {
		if h.owner == nil {
			continue
		}
		// release methods: methods of the owner that roll the held transaction back
		var release []*ssa.Function
		for _, fn := range c.w.ModFuncs {
			if fn.Signature.Recv() == nil || namedOf(fn.Signature.Recv().Type()) != h.owner {
				continue
			}
			allInstrs(fn, func(i ssa.Instruction) {
				if call, ok := i.(*ssa.Call); ok && calleeName(&call.Call) == "(*go.etcd.io/bbolt.Tx).Rollback" && path(call.Call.Args[0]).lastField() == h.fld {
					release = append(release, fn)
				}
			})
		}
		key := h.owner.Obj().Name() + "." + h.fld.Name()
		if len(release) == 0 {
			c.r.bad(rule, key, "the type keeps a write transaction open between calls but has no method that rolls it back: a caller that gives up before Flush cannot close the database any more (DB.Close blocks on the pending transaction)", []string{c.w.pos(h.fld.Pos())})
			continue
		}
		isRelease := func(i ssa.Instruction) bool {
			cc := callCommon(i)
			if cc == nil {
				return false
			}
			if _, isGo := i.(*ssa.Go); isGo {
				return false
			}
			f := calleeFunc(cc)
			for _, r := range release {
				if f == r {
					return true
				}
			}
			return false
		}
		// constructors: module functions returning *owner
		n := 0
		for _, fn := range c.w.ModFuncs {
			if c.w.pkgPathOf(fn) != pkgCmd {
				continue
			}
			allInstrs(fn, func(i ssa.Instruction) {
				call, ok := i.(*ssa.Call)
				if !ok {
					return
				}
				ctor := calleeFunc(&call.Call)
				if ctor == nil || !c.w.inModule(ctor) || ctor.Signature.Results().Len() == 0 || namedOf(ctor.Signature.Results().At(0).Type()) != h.owner {
					return
				}
				if _, isPtr := ctor.Signature.Results().At(0).Type().(*types.Pointer); !isPtr {
					return
				}
				n++
				ckey := fmt.Sprintf("%s: %s#%d", safeFname(fn), safeFname(ctor), n)
				errv := resultValue(call, ctor.Signature.Results().Len()-1)
				ctorFailed := func(pred, succ *ssa.BasicBlock) bool {
					iff, ok := pred.Instrs[len(pred.Instrs)-1].(*ssa.If)
					if !ok || errv == nil {
						return false
					}
					for _, cm := range trueCmps(fact{iff.Cond, pred.Succs[0] == succ}) {
						if cm.Op == token.NEQ && cm.Y != nil && cm.X == errv && isNilConst(cm.Y) {
							return true
						}
					}
					return false
				}
				if p := c.fc.pathFrom(fn, call, func(x ssa.Instruction) bool { _, r := x.(*ssa.Return); return r }, isRelease, ctorFailed); p != nil {
					c.r.bad(rule, ckey, "after the writer was created the command can return without releasing the writer's pending transaction: the deferred Close of the temporary database then waits forever and the command hangs instead of exiting with an error (e.g. on a malformed CSV record in --big mode)",
						[]string{c.w.ipos(p[len(p)-1])}, c.fc.witnessStrings(p)...)
				} else {
					c.r.ok(rule, ckey, "the writer's pending transaction is released (deferred) on every path", c.w.ipos(call))
				}
			})
		}
	}
}

// c19NoTouch: every file-mutating os call reachable from the create command targets the temporary file it made itself
// (the name of os.CreateTemp's file), never a path taken from the configuration: the output path may name an existing file.
func c19NoTouch(c *Ctx) {
	const rule = "C19.notouch"
	re := c.w.reach(c.a.CreateCmd)
	n := 0
	for _, fn := range re.sorted() {
		if c.w.pkgPathOf(fn) != pkgCmd {
			continue
		}
		allInstrs(fn, func(i ssa.Instruction) {
			cc := callCommon(i)
			if cc == nil {
				return
			}
			name := calleeName(cc)
			if !fileMutators[name] && name != "os.OpenFile" {
				return
			}
			if name == "os.CreateTemp" || name == "os.MkdirTemp" {
				return
			}
			if strings.HasPrefix(name, "(*os.File)") {
				return
			}
			n++
			key := fmt.Sprintf("%s: %s#%d", safeFname(fn), shortName(name), n)
			arg := cc.Args[0]
			c.r.check(fromCreateTemp(arg) || fromCreateTemp(peel(arg)), rule, key, "targets the command's own temporary file",
				"a file-mutating call in the create command targets a path that is not the temporary file the command created itself: if it is the output path, a pre-existing output file is deleted or modified although the command must leave it untouched", c.w.ipos(i))
		})
	}
	if n == 0 {
		c.r.ok(rule, "createCmd", "no file-mutating os call besides creating the temporary file")
	}
}

// evalRuneMap interprets g (func(rune) rune) for the concrete argument rep: reports whether it returns its argument
// itself (self) or a constant.
func evalRuneMap(g *ssa.Function, par ssa.Value, rep int64) (self bool, val int64, ok bool) {
	bools := map[ssa.Value]bool{}
	var ev func(v ssa.Value) (bool, bool)
	ev = func(v ssa.Value) (bool, bool) {
		if r, ok := bools[v]; ok {
			return r, true
		}
		switch x := v.(type) {
		case *ssa.Const:
			return constBool(x)
		case *ssa.UnOp:
			if x.Op == token.NOT {
				if r, ok := ev(x.X); ok {
					return !r, true
				}
			}
		case *ssa.BinOp:
			var k int64
			var isK bool
			op := x.Op
			if peelConv(x.X) == par {
				k, isK = constInt(x.Y)
			} else if peelConv(x.Y) == par {
				k, isK = constInt(x.X)
				op = swapOp(op)
			}
			if !isK {
				return false, false
			}
			switch op {
			case token.EQL:
				return rep == k, true
			case token.NEQ:
				return rep != k, true
			case token.LSS:
				return rep < k, true
			case token.LEQ:
				return rep <= k, true
			case token.GTR:
				return rep > k, true
			case token.GEQ:
				return rep >= k, true
			}
		}
		return false, false
	}
	b := g.Blocks[0]
	var prev *ssa.BasicBlock
	phiVals := map[ssa.Value]ssa.Value{}
	for steps := 0; steps < 300; steps++ {
		var next *ssa.BasicBlock
		for _, ins := range b.Instrs {
			switch x := ins.(type) {
			case *ssa.Phi:
				if prev != nil {
					for k, p := range b.Preds {
						if p == prev {
							if r, ok := ev(x.Edges[k]); ok {
								bools[x] = r
							}
							phiVals[x] = x.Edges[k]
						}
					}
				}
			case *ssa.If:
				r, ok := ev(x.Cond)
				if !ok {
					return false, 0, false
				}
				if r {
					next = b.Succs[0]
				} else {
					next = b.Succs[1]
				}
			case *ssa.Jump:
				next = b.Succs[0]
			case *ssa.Return:
				if len(x.Results) != 1 {
					return false, 0, false
				}
				v := x.Results[0]
				for n := 0; n < 8; n++ {
					if pv, ok := phiVals[v]; ok {
						v = pv
						continue
					}
					break
				}
				if peelConv(v) == par {
					return true, 0, true
				}
				if k, ok := constInt(v); ok {
					return false, k, true
				}
				return false, 0, false
			case *ssa.Call, *ssa.Store, *ssa.Panic, *ssa.Send, *ssa.MapUpdate:
				return false, 0, false
			}
			if next != nil {
				break
			}
		}
		if next == nil {
			return false, 0, false
		}
		prev, b = b, next
	}
	return false, 0, false
}
