package main

import (
	"fmt"
	"go/constant"
	"go/token"
	"go/types"
	"sort"
	"strings"

	"golang.org/x/tools/go/ssa"
)

func init() {
	register(&propDef{
		id:  "C19",
		run: runC19,
		explanation: "Decided (structural, for every CSV file and both modes): " +
			"C19.csvstrict — no option of the csv.Reader is changed from its strict defaults (ragged records and bare quotes stay errors, field contents stay exact); " +
			"C19.records — every csv Read call site in the create command is classified: the first record is the header and flows only into the header normalisation; every other read sits in the record loop, and on its non-error path the record is turned into a row (values[header[i]] = record[i] for the same range index i over the record, header being the normalised header) that reaches exactly one AddRow before the next read, on every path; no record is read and dropped; the reading may sit in helpers of the command (a function given the reader and the header, or a helper type that keeps the reader and the normalised header in fields, reads the header in its constructor and returns one row per call): the header is followed through parameters, helper results and struct fields that are only ever assigned it, and a helper that returns the row instead of adding it must return a faithful row for every record it read and tell its caller (flag or non-nil error) when it has none, the caller then owes exactly one AddRow per returned row and none otherwise; " +
			"C19.normalize — the header normalisation lower-cases and then maps every rune through a function that returns either its argument, only under a test r >= 'a' && r <= 'z', or the constant '_'; " +
			"C19.errexit — errors of reading (except io.EOF, which ends the input), AddRow, Flush, both bbolt.Open calls and the big writer's constructor reach the command's error result; the cobra RunE closure returns it and main exits with a non-zero constant when Execute fails; " +
			"C19.txrelease — a writer that keeps a bbolt write transaction open between calls has a method that rolls it back, and the command runs it (deferred) on every path after constructing the writer — itself, or through a release function that the set-up helper hands back on success (a closure that runs the release before it closes the databases, or a runner of a grow-only list of cleanups, last one first, to which such a closure was added last) and that every caller of the helper runs on every path —, so a failure cannot leave DB.Close waiting on a pending transaction (the command would hang instead of exiting non-zero); " +
			"C19.notouch — every file-mutating os call reachable from the create command targets the temporary file the command made itself (os.CreateTemp) or a file that this run is proved to have created exclusively (dominated by the successful O_EXCL open; guarded by an ownership flag of a per-run object or local variable that is only set after that open succeeded; in a cleanup closure made after it) — never a path that may name a pre-existing output; " +
			"C19.flush — the successful return is preceded by Flush on every path; C19.excl — the big-mode output (and the output of a writer type of the command's own) is opened with O_EXCL and the scratch database without O_CREATE, also where the open sits in a helper of the command (as C16, same census). " +
			"NOT decided: observational identity of normal and --big output (C05's value-level clause); CSV parsing itself (encoding/csv, trusted); distinctness of headers after normalisation (excluded by the property).",
		assumptions: []string{"encoding/csv default behaviour", "cobra runs RunE and returns its error from Execute", "go/ssa, dominance"},
	})
}

func runC19(c *Ctx) {
	if !c.need("C19.records", c.a.CreateCmd, c.a.NormalizeHeader, c.a.Main) {
		return
	}
	c19CSVStrict(c)
	c19Records(c)
	c19Normalize(c)
	c19ErrExit(c)
	txReleaseRule(c, "C19.txrelease")
	c19NoTouch(c)
	// excl: the create command's bbolt.Open sites
	decide, why := hookDecider(c)
	n := 0
	for _, s := range boltOpenSites(c) {
		// the command's sites: in createCmd itself, in its helpers and in the Flush of a writer type of its own (the census,
		// boltOpenSites, follows the callers and binds a helper's path parameter to find out whether the file is the
		// command's temporary file)
		if s.anchor != c.a.CreateCmd {
			continue
		}
		n++
		role := s.role
		key := fmt.Sprintf("createCmd#%d (%s)", n, role)
		pos := c.w.ipos(s.call)
		if decide == nil {
			c.r.undecided("C19.excl", key, why, pos)
			continue
		}
		if !s.hook || s.exists == nil {
			c.r.bad("C19.excl", key, "bbolt.Open without an openfile hook built from constant options: an existing output file would be opened and written into", []string{pos})
			continue
		}
		d := decide(*s.exists, *s.notExists)
		if role == "output" {
			c.r.check(d.kind == "excl", "C19.excl", key, "opened with O_EXCL", "an output file of the create command is opened without O_EXCL ("+d.kind+"): an existing output would be modified", pos)
		} else {
			c.r.check(d.kind == "nocreate", "C19.excl", key, "opened without O_CREATE", "the scratch database is opened with a hook that does not clear O_CREATE ("+d.kind+")", pos)
		}
	}
}

func c19CSVStrict(c *Ctx) {
	const rule = "C19.csvstrict"
	n := 0
	for _, fn := range c.w.ModFuncs {
		if c.w.pkgPathOf(fn) != pkgCmd {
			continue
		}
		allInstrs(fn, func(i ssa.Instruction) {
			st, ok := i.(*ssa.Store)
			if !ok {
				return
			}
			fa, ok := st.Addr.(*ssa.FieldAddr)
			if !ok || !typeIs(fa.X.Type(), "encoding/csv", "Reader") {
				return
			}
			n++
			f := fieldOf(fa.X.Type(), fa.Field)
			key := safeFname(fn) + ": csv.Reader." + f.Name()
			// an assignment of the option's default value changes nothing
			if k, ok := st.Val.(*ssa.Const); ok {
				def := false
				switch f.Name() {
				case "Comma":
					v, isInt := constInt(k)
					def = isInt && v == ','
				default: // Comment 0, FieldsPerRecord 0, LazyQuotes/TrimLeadingSpace/ReuseRecord false
					if v, isInt := constInt(k); isInt {
						def = v == 0
					} else if k.Value != nil && k.Value.Kind() == constant.Bool {
						def = !constant.BoolVal(k.Value)
					}
				}
				if def {
					c.r.ok(rule, key, "assigned its default value")
					return
				}
			}
			// the field delimiter may be the user's choice (a command line option) as long as the option's default is ','
			if f.Name() == "Comma" {
				if why, good, decided := c19CommaFromOption(c, st.Val); decided {
					c.r.check(good, rule, key, "the delimiter is a command line option whose default is ',' ("+why+"); how the option's text becomes the rune is not analysed",
						"the field delimiter comes from a command line option whose default is not ',' ("+why+"): without that option the command no longer reads comma separated files as before", c.w.ipos(i))
					return
				}
			}
			c.r.bad(rule, key, "the CSV reader's "+f.Name()+" option is changed: with the defaults ragged records and bare quotes are errors and field contents are preserved exactly", []string{c.w.ipos(i)})
		})
	}
	if n == 0 {
		c.r.ok(rule, "csv.Reader options", "no option of the CSV reader is assigned anywhere in the command")
	}
}

// c19CommaFromOption decides where a non-constant csv delimiter comes from: every data source of the value (followed
// backwards through conversions, phis, calls of module functions and their results) must be a constant or a string field
// of a configuration struct of the command that is bound to a flag (pflag StringVar/StringVarP/…) — and those flags must
// have the default "," (or "", which the command has to map to the default itself; a Comma of 0 makes every read fail,
// which the existing tests see). decided is false when some source is something else (e.g. derived from the input file's
// contents: delimiter sniffing changes how well-formed comma separated files are read).
func c19CommaFromOption(c *Ctx, v ssa.Value) (why string, good, decided bool) {
	fields := map[*types.Var]bool{}
	seen := map[ssa.Value]bool{}
	okAll := true
	var walk func(v ssa.Value, depth int)
	walk = func(v ssa.Value, depth int) {
		if seen[v] || !okAll {
			return
		}
		seen[v] = true
		if depth > 6 {
			okAll = false
			return
		}
		switch x := v.(type) {
		case *ssa.Const:
		case *ssa.Convert:
			walk(x.X, depth)
		case *ssa.ChangeType:
			walk(x.X, depth)
		case *ssa.Phi:
			for _, e := range x.Edges {
				walk(e, depth)
			}
		case *ssa.Extract:
			walk(x.Tuple, depth)
		case *ssa.UnOp:
			if x.Op != token.MUL {
				walk(x.X, depth)
				return
			}
			if fa, ok := x.X.(*ssa.FieldAddr); ok {
				if f := fieldOf(fa.X.Type(), fa.Field); f.Pkg() != nil && c.w.Pkgs[f.Pkg().Path()] != nil {
					fields[f] = true
					return
				}
			}
			okAll = false
		case *ssa.BinOp:
			walk(x.X, depth)
			walk(x.Y, depth)
		case *ssa.Lookup:
			walk(x.X, depth)
			walk(x.Index, depth)
		case *ssa.Call:
			callee := x.Call.StaticCallee()
			if callee == nil {
				okAll = false
				return
			}
			if c.w.inModule(callee) && callee.Blocks != nil {
				// the helper's results: every returned value of the same result position (all of them, to stay simple)
				allInstrs(callee, func(i ssa.Instruction) {
					if r, ok := i.(*ssa.Return); ok {
						for _, rv := range r.Results {
							if _, isErr := rv.Type().Underlying().(*types.Interface); !isErr {
								walk(rv, depth+1)
							}
						}
					}
				})
				return
			}
			// pure library decoding of a string (utf8.DecodeRuneInString, strings.*, []rune conversion helpers)
			switch c.w.pkgPathOf(callee) {
			case "unicode/utf8", "strings", "unicode", "strconv":
				for _, a := range x.Call.Args {
					walk(a, depth)
				}
			default:
				okAll = false
			}
		case *ssa.Parameter:
			fn := x.Parent()
			idx := -1
			for k, p := range fn.Params {
				if p == x {
					idx = k
				}
			}
			callers := 0
			if node := c.w.CG.Nodes[fn]; node != nil {
				for _, e := range node.In {
					if e.Site == nil || e.Site.Common().IsInvoke() || e.Site.Common().StaticCallee() != fn || idx < 0 || idx >= len(e.Site.Common().Args) {
						okAll = false
						continue
					}
					callers++
					walk(e.Site.Common().Args[idx], depth+1)
				}
			}
			if callers == 0 {
				okAll = false
			}
		default:
			okAll = false
		}
	}
	walk(v, 0)
	if !okAll || len(fields) == 0 {
		return "", false, false
	}
	// the flags bound to those fields and their defaults
	var descr []string
	good = true
	for f := range fields {
		found := false
		for _, fn := range c.w.ModFuncs {
			if c.w.pkgPathOf(fn) != pkgCmd {
				continue
			}
			allInstrs(fn, func(i ssa.Instruction) {
				call, ok := i.(*ssa.Call)
				if !ok {
					return
				}
				args := call.Call.Args
				for k, a := range args {
					fa, ok := a.(*ssa.FieldAddr)
					if !ok || fieldOf(fa.X.Type(), fa.Field) != f {
						continue
					}
					// (p *string, name string, [shorthand string,] value string, usage string)
					var strs []string
					for _, b := range args[k+1:] {
						if s, ok := constString(b); ok {
							strs = append(strs, s)
						} else {
							strs = append(strs, "\x00non-constant")
						}
					}
					di := 1
					if strings.HasSuffix(calleeName(&call.Call), "P") {
						di = 2
					}
					if len(strs) <= di {
						continue
					}
					found = true
					descr = append(descr, fmt.Sprintf("--%s default %q", strs[0], strs[di]))
					if strs[di] != "," && strs[di] != "" {
						good = false
					}
				}
			})
		}
		if !found {
			return "", false, false
		}
	}
	sort.Strings(descr)
	return strings.Join(descr, ", "), good, true
}

// c19Records follows the csv records of the create command from the Read call sites to AddRow. The reading may live in
// helpers of the command: a function that is handed the reader and the header (`addRows(r, header, iw)`), or a helper
// type that owns both (`rowReader{records *csv.Reader, header []string}` with a constructor that reads and normalises the
// header and a `Next()` that returns the next row). The invariants are the same in every shape:
//
//	header   the record that goes into the header normalisation is read exactly once and before every other read, and is
//	         used for nothing else;
//	row      every other read's record becomes a row values[header[i]] = record[i] (same i, over the whole record), where
//	         `header` denotes the normalised header: the normalisation's result itself, a parameter or helper result bound
//	         to it, or a load of a struct field that is only ever assigned it;
//	once     a successfully read record reaches exactly one AddRow before the next read. When the function that reads
//	         does not add rows itself it must *return* the row (a "record source", see c19RecordSource) and the obligation
//	         moves to its callers, with the helper's call in the place of the read.
func c19Records(c *Ctx) {
	const rule = "C19.records"
	top := c.a.CreateCmd
	name := safeFname(top)
	st := &c19rec{c: c, top: top, fns: c.scope(top, 2, c.a.NormalizeHeader), hdr: map[*ssa.Function]map[ssa.Value]bool{}, hdrFields: map[*types.Var]bool{}}
	for _, fn := range st.fns {
		allInstrs(fn, func(i ssa.Instruction) {
			if call, ok := i.(*ssa.Call); ok && calleeName(&call.Call) == "(*encoding/csv.Reader).Read" {
				st.reads = append(st.reads, c19read{fn, call})
			}
			if call, ok := i.(*ssa.Call); ok && calleeName(&call.Call) == "(*encoding/csv.Reader).ReadAll" {
				c.r.undecided(rule, name+": ReadAll", "records are read with ReadAll, a form this rule does not follow", c.w.ipos(i))
			}
		})
	}
	if len(st.reads) < 2 {
		c.r.undecided(rule, name, fmt.Sprintf("expected a header read and a record-loop read, found %d csv Read call sites", len(st.reads)), c.w.pos(top.Pos()))
		return
	}
	// header: the read (in the command function or in a helper of it) whose record flows into normalizeHeader
	var headerRead, normCall *ssa.Call
	for _, fn := range st.fns {
		allInstrs(fn, func(i ssa.Instruction) {
			call, ok := i.(*ssa.Call)
			if !ok || headerRead != nil || calleeFunc(&call.Call) != c.a.NormalizeHeader {
				return
			}
			if e, ok := call.Call.Args[0].(*ssa.Extract); ok && e.Index == 0 {
				if rc, ok := e.Tuple.(*ssa.Call); ok && st.isRead(rc) {
					headerRead, normCall = rc, call
				}
			}
		})
	}
	if headerRead == nil {
		c.r.bad(rule, name+": header", "no csv record is passed to the header normalisation: the header is not taken from the first record", []string{c.w.pos(top.Pos())})
		return
	}
	hfn := headerRead.Parent()
	st.hdr[hfn] = map[ssa.Value]bool{ssa.Value(normCall): true}
	st.propagateHeader()

	// the header read happens once and before any other read
	okHdr, unk := st.execOnce(headerRead, 3), ""
	for _, r := range st.reads {
		if r.call == headerRead {
			continue
		}
		if r.fn == hfn {
			if c.fc.reachableFrom(hfn, r.call, headerRead) || !c.fc.reachableFrom(hfn, headerRead, r.call) {
				okHdr = false
			}
			continue
		}
		hAts, rAts := st.liftAll(headerRead), st.liftAll(r.call)
		if len(hAts) == 0 || len(rAts) == 0 {
			okHdr = false
			continue
		}
		for _, h := range hAts {
			for _, at := range rAts {
				switch {
				case h == at:
					unk = "the header read and a record read are both reached through the same call of " + name + ": their order is not followed that deep"
				case c.fc.reachableFrom(top, at, h) || !c.fc.reachableFrom(top, h, at):
					okHdr = false
				}
			}
		}
	}
	if e := extractOf(headerRead, 0); e != nil {
		for _, u := range usesOf(e) {
			if call, ok := u.(*ssa.Call); !ok || calleeFunc(&call.Call) != c.a.NormalizeHeader {
				okHdr = false
			}
		}
	}
	if okHdr && unk != "" {
		c.r.undecided(rule, name+": header", unk, c.w.ipos(headerRead))
	} else {
		c.r.check(okHdr, rule, name+": header", "the first record read is the header and is used only for that", "the header is not exactly the first record (another read precedes it, it is read repeatedly, or the header record is also used as data)", c.w.ipos(headerRead))
	}

	k := 0
	for _, rs := range st.reads {
		if rs.call == headerRead {
			continue
		}
		k++
		fn, r := rs.fn, rs.call
		key := fmt.Sprintf("%s: record read#%d", safeFname(fn), k)
		rec := extractOf(r, 0)
		errv := extractOf(r, 1)
		if rec == nil || errv == nil {
			c.r.bad(rule, key, "a record is read and discarded (or its error ignored): that record never becomes a row", []string{c.w.ipos(r)})
			continue
		}
		isRec := func(x ssa.Value) bool { return phiIncludes(x, rec) }
		if len(st.addRowsIn(fn)) > 0 {
			// the function that reads also adds the row
			rowIs := func(m ssa.Value, a ssa.Instruction) (bool, string) {
				return rowBuilt(c, m, func(x ssa.Value) bool { return st.isHdr(fn, x) }, isRec, a, 0)
			}
			if f := st.consumed(fn, r, rowIs, c19NoRowEdge(errv, nil, false)); f != nil {
				c.r.bad(rule, key, f.msg, []string{c.w.ipos(f.site)}, c.fc.witnessStrings(f.witness)...)
			} else {
				c.r.ok(rule, key, "record -> values[header[i]] = record[i] -> exactly one AddRow per record", c.w.ipos(r))
			}
			continue
		}
		// the function that reads hands the row to its callers
		src, f := c19RecordSource(st, fn, r, isRec, errv)
		if f != nil {
			c.r.bad(rule, key, f.msg, []string{c.w.ipos(f.site)}, c.fc.witnessStrings(f.witness)...)
			continue
		}
		var sites []*ssa.Call
		for _, g := range st.fns {
			allInstrs(g, func(i ssa.Instruction) {
				if cc := callCommon(i); cc != nil && calleeFunc(cc) == fn {
					if call, ok := i.(*ssa.Call); ok {
						sites = append(sites, call)
					} else {
						f = &c19fail{"the helper that reads the record is started with go/defer: its row cannot reach AddRow", i, nil}
					}
				}
			})
		}
		if f == nil && len(sites) == 0 {
			f = &c19fail{"the helper that reads the record is not called from the create command in a way this rule follows", r, nil}
		}
		for _, cs := range sites {
			if f != nil {
				break
			}
			cs := cs
			g := cs.Parent()
			if len(st.addRowsIn(g)) == 0 {
				f = &c19fail{"the record is not turned into a row faithfully: the row returned by " + safeFname(fn) + " is not passed to AddRow by its caller " + safeFname(g), cs, nil}
				break
			}
			rowv := resultValue(cs, src.km)
			errAt, okAt := resultValue(cs, src.ke), ssa.Value(nil)
			if src.kb >= 0 {
				okAt = resultValue(cs, src.kb)
			}
			rowIs := func(m ssa.Value, a ssa.Instruction) (bool, string) {
				if rowv == nil || m != ssa.Value(rowv) {
					return false, "no AddRow call takes the row returned by " + safeFname(fn)
				}
				// AddRow must not run when the helper returned without a row (end of input, error)
				for _, nr := range src.noRow {
					okKnown := nr.okDist && okAt != nil && ((src.bT && knownTrue(okAt, a)) || (!src.bT && knownFalse(okAt, a)))
					errKnown := nr.errDist && errAt != nil && c19KnownNil(errAt, a)
					if !okKnown && !errKnown {
						return false, "AddRow is also reached when " + safeFname(fn) + " returned no row (" + c.w.ipos(nr.ret) + "): a spurious empty row is added"
					}
				}
				return true, ""
			}
			f = st.consumed(g, cs, rowIs, c19NoRowEdge(errAt, okAt, src.bT))
		}
		if f != nil {
			c.r.bad(rule, key, f.msg, []string{c.w.ipos(f.site)}, c.fc.witnessStrings(f.witness)...)
		} else {
			c.r.ok(rule, key, "record -> values[header[i]] = record[i] -> returned as the row -> exactly one AddRow per returned row", c.w.ipos(r))
		}
	}
}

type c19read struct {
	fn   *ssa.Function
	call *ssa.Call
}

type c19fail struct {
	msg     string
	site    ssa.Instruction
	witness []ssa.Instruction
}

// c19rec is the state shared by the parts of c19Records: the command's scope, its csv Read sites, and what denotes the
// normalised header in each function.
type c19rec struct {
	c         *Ctx
	top       *ssa.Function
	fns       []*ssa.Function
	reads     []c19read
	hdr       map[*ssa.Function]map[ssa.Value]bool
	hdrFields map[*types.Var]bool
}

func (st *c19rec) inScope(f *ssa.Function) bool {
	for _, x := range st.fns {
		if x == f {
			return true
		}
	}
	return false
}

func (st *c19rec) isRead(i ssa.Instruction) bool {
	for _, x := range st.reads {
		if ssa.Instruction(x.call) == i {
			return true
		}
	}
	return false
}

// isReadLike: a csv Read, or a call of a helper of the command that (transitively) reads.
func (st *c19rec) isReadLike(i ssa.Instruction) bool {
	if st.isRead(i) {
		return true
	}
	cc := callCommon(i)
	if cc == nil {
		return false
	}
	g := calleeFunc(cc)
	return g != nil && st.inScope(g) && st.c.fc.mayContain(g, st.isRead, 2)
}

func (st *c19rec) addRowsIn(fn *ssa.Function) []ssa.Instruction {
	var out []ssa.Instruction
	allInstrs(fn, func(i ssa.Instruction) {
		call, ok := i.(*ssa.Call)
		if !ok {
			return
		}
		if call.Call.IsInvoke() && call.Call.Method.Name() == "AddRow" {
			out = append(out, i)
		}
		if f := calleeFunc(&call.Call); f != nil && f.Name() == "AddRow" && st.c.w.pkgPathOf(f) == pkgRoot {
			out = append(out, i)
		}
	})
	return out
}

// isHdr: v denotes the normalised header in fn.
func (st *c19rec) isHdr(fn *ssa.Function, v ssa.Value) bool {
	if st.hdr[fn][v] {
		return true
	}
	if ld, ok := v.(*ssa.UnOp); ok && ld.Op == token.MUL {
		if fa, ok := ld.X.(*ssa.FieldAddr); ok {
			return st.hdrFields[fieldOf(fa.X.Type(), fa.Field)]
		}
	}
	return false
}

// propagateHeader extends "denotes the normalised header" from the normalisation call to
//
//	(a) a parameter of a helper, when every call of the helper in the command's scope passes the header for it;
//	(b) a result of a helper that returns the header on every return (nil next to a non-nil error is fine), at the
//	    helper's call sites;
//	(c) loads of a struct field of the command's package, when every assignment to that field anywhere in the package
//	    stores the header, the field's address is used for nothing but these stores and plain loads, and no whole struct
//	    of the type is overwritten. The header is read only once (checked by the caller), so every object of the type that
//	    has the field set carries the one normalised header; an object without it has a nil header, and indexing that
//	    panics instead of mislabelling a value.
func (st *c19rec) propagateHeader() {
	c := st.c
	add := func(fn *ssa.Function, v ssa.Value) {
		if v == nil {
			return
		}
		if st.hdr[fn] == nil {
			st.hdr[fn] = map[ssa.Value]bool{}
		}
		st.hdr[fn][v] = true
	}
	for round := 0; round < 4; round++ {
		// (a) parameters
		type pk struct {
			g *ssa.Function
			k int
		}
		all, some := map[pk]bool{}, map[pk]bool{}
		for _, fn := range st.fns {
			allInstrs(fn, func(i ssa.Instruction) {
				cc := callCommon(i)
				if cc == nil {
					return
				}
				g := calleeFunc(cc)
				if g == nil || g == fn || !st.inScope(g) {
					return
				}
				for k, a := range cc.Args {
					if k >= len(g.Params) {
						continue
					}
					key := pk{g, k}
					if st.isHdr(fn, a) {
						if _, seen := all[key]; !seen {
							all[key] = true
						}
						some[key] = true
					} else {
						all[key] = false
					}
				}
			})
		}
		for key := range some {
			if all[key] {
				add(key.g, key.g.Params[key.k])
			}
		}
		// (b) results
		for _, g := range st.fns {
			res := g.Signature.Results()
			for k := 0; k < res.Len(); k++ {
				n, good := 0, true
				allInstrs(g, func(i ssa.Instruction) {
					ret, ok := i.(*ssa.Return)
					if !ok || isRecoverBlockReturn(ret) || k >= len(ret.Results) {
						return
					}
					v := retVals(ret)[k]
					switch {
					case st.isHdr(g, v):
						n++
					case isNilConst(v) && isErrorReturn(ret):
					default:
						good = false
					}
				})
				if n == 0 || !good {
					continue
				}
				for _, fn := range st.fns {
					allInstrs(fn, func(i ssa.Instruction) {
						if call, ok := i.(*ssa.Call); ok && calleeFunc(&call.Call) == g && fn != g {
							add(fn, resultValue(call, k))
						}
					})
				}
			}
		}
		// (c) fields
		type fieldUse struct {
			stores int
			good   bool
			owner  types.Type
		}
		uses := map[*types.Var]*fieldUse{}
		var pkgFns []*ssa.Function
		for _, fn := range c.w.ModFuncs {
			if c.w.pkgPathOf(fn) == pkgCmd {
				pkgFns = append(pkgFns, fn)
			}
		}
		for _, fn := range pkgFns {
			allInstrs(fn, func(i ssa.Instruction) {
				fa, ok := i.(*ssa.FieldAddr)
				if !ok {
					return
				}
				f := fieldOf(fa.X.Type(), fa.Field)
				if f == nil {
					return
				}
				if sl, ok := f.Type().Underlying().(*types.Slice); !ok || !types.Identical(sl.Elem(), types.Typ[types.String]) {
					return
				}
				u := uses[f]
				if u == nil {
					u = &fieldUse{good: true}
					if p, ok := fa.X.Type().Underlying().(*types.Pointer); ok {
						u.owner = p.Elem()
					}
					uses[f] = u
				}
				for _, r := range referrers(fa) {
					switch x := r.(type) {
					case *ssa.Store:
						if x.Addr != ssa.Value(fa) || !st.isHdr(fn, x.Val) {
							u.good = false
						} else {
							u.stores++
						}
					case *ssa.UnOp:
						if x.Op != token.MUL {
							u.good = false
						}
					case *ssa.DebugRef:
					default:
						u.good = false // the field's address escapes: it may be written through it
					}
				}
			})
		}
		for _, fn := range pkgFns {
			allInstrs(fn, func(i ssa.Instruction) {
				if s, ok := i.(*ssa.Store); ok {
					for _, u := range uses {
						if u.owner != nil && types.Identical(s.Val.Type(), u.owner) {
							u.good = false
						}
					}
				}
			})
		}
		for f, u := range uses {
			if u.good && u.stores > 0 {
				st.hdrFields[f] = true
			}
		}
	}
}

// callSites lists the instructions in the command's scope that call fn.
func (st *c19rec) callSites(fn *ssa.Function) []ssa.Instruction {
	var out []ssa.Instruction
	for _, g := range st.fns {
		allInstrs(g, func(i ssa.Instruction) {
			if cc := callCommon(i); cc != nil && calleeFunc(cc) == fn {
				out = append(out, i)
			}
		})
	}
	return out
}

// execOnce: ins executes at most once per run of the command: it is not on a cycle of its function, and its function
// is the command itself or has a single call site that executes at most once.
func (st *c19rec) execOnce(ins ssa.Instruction, depth int) bool {
	fn := ins.Parent()
	if depth < 0 || st.c.fc.reachableFrom(fn, ins, ins) {
		return false
	}
	if fn == st.top {
		return true
	}
	sites := st.callSites(fn)
	return len(sites) == 1 && st.execOnce(sites[0], depth-1)
}

// liftAll maps an instruction of a helper to the instructions of the command function through which it is reached
// (itself if it already lives there).
func (st *c19rec) liftAll(ins ssa.Instruction) []ssa.Instruction {
	if ins.Parent() == st.top {
		return []ssa.Instruction{ins}
	}
	var out []ssa.Instruction
	seen := map[ssa.Instruction]bool{}
	var up func(i ssa.Instruction, depth int)
	up = func(i ssa.Instruction, depth int) {
		if depth < 0 {
			return
		}
		for _, s := range st.callSites(i.Parent()) {
			if s.Parent() == st.top {
				if !seen[s] {
					seen[s] = true
					out = append(out, s)
				}
			} else {
				up(s, depth-1)
			}
		}
	}
	up(ins, 2)
	return out
}

// c19NoRowEdge returns the predicate of CFG edges on which a read (error result errv, optional "have a row" flag okv that
// equals bT for a row) is known to have produced no record: err != nil, errors.Is(err, io.EOF) / err == io.EOF, or the
// flag having the other value.
func c19NoRowEdge(errv, okv ssa.Value, bT bool) func(pred, succ *ssa.BasicBlock) bool {
	return func(pred, succ *ssa.BasicBlock) bool {
		iff, ok := pred.Instrs[len(pred.Instrs)-1].(*ssa.If)
		if !ok || len(pred.Succs) != 2 || pred.Succs[0] == pred.Succs[1] {
			return false
		}
		taken := pred.Succs[0] == succ
		for _, cm := range trueCmps(fact{iff.Cond, taken}) {
			if c19EOFCmp(cm, errv) {
				return true
			}
			if cm.Y == nil {
				if okv != nil && sameValue(cm.X, okv) && (cm.Op == token.EQL) != bT {
					return true
				}
				continue
			}
			if errv == nil {
				continue
			}
			for _, p := range [][2]ssa.Value{{cm.X, cm.Y}, {cm.Y, cm.X}} {
				if phiIncludes(p[0], errv) && cm.Op == token.NEQ && isNilConst(p[1]) {
					return true
				}
			}
		}
		return false
	}
}

// c19EOFCmp: the comparison cm, known to be true, says that the error errv (itself, or a phi that carries it) is the
// end-of-input marker: `errv == io.EOF` or `errors.Is(errv, io.EOF)`. Because it is applied to the comparisons that hold
// on an edge (trueCmps), every spelling of the test is covered: `err != io.EOF` / `!errors.Is(…)` on the else edge, the
// test before the nil test or nested inside `if err != nil { … }`, a `switch err { case io.EOF: … }`.
func c19EOFCmp(cm cmp, errv ssa.Value) bool {
	if errv == nil {
		return false
	}
	if cm.Y == nil {
		ic, isCall := cm.X.(*ssa.Call)
		return isCall && cm.Op == token.EQL && calleeName(&ic.Call) == "errors.Is" && len(ic.Call.Args) == 2 &&
			phiIncludes(ic.Call.Args[0], errv) && isGlobalNamed(ic.Call.Args[1], "io", "EOF")
	}
	if cm.Op != token.EQL {
		return false
	}
	return (phiIncludes(cm.X, errv) && isGlobalNamed(cm.Y, "io", "EOF")) || (phiIncludes(cm.Y, errv) && isGlobalNamed(cm.X, "io", "EOF"))
}

// c19EOFEdge: the CFG edges on which errv is known to be io.EOF (see c19EOFCmp).
func c19EOFEdge(errv ssa.Value) func(pred, succ *ssa.BasicBlock) bool {
	return func(pred, succ *ssa.BasicBlock) bool {
		iff, ok := pred.Instrs[len(pred.Instrs)-1].(*ssa.If)
		if !ok || len(pred.Succs) != 2 || pred.Succs[0] == pred.Succs[1] {
			return false
		}
		for _, cm := range trueCmps(fact{iff.Cond, pred.Succs[0] == succ}) {
			if c19EOFCmp(cm, errv) {
				return true
			}
		}
		return false
	}
}

// c19EndOfInput decides, for a helper f of the command whose last result is an error, whether io.EOF in that result means
// what it means for csv.Reader.Read — the input is exhausted, nothing failed — so that the caller may leave its read loop
// on it without failing (C19.errexit's one exception). That is the case when
//
//   - f hands the reader's error on: some return's error is (a phi carrying) the error result of a csv Read in f, or of a
//     helper of the command for which the same holds (depth levels down), either as it is or wrapped by fmt.Errorf; and
//   - f does not *make up* an end of input: wherever f itself writes io.EOF (returns it, assigns it), a read's error is
//     known to be io.EOF at that point (`if err == io.EOF { return nil, io.EOF }`); io.EOF may otherwise only be compared
//     with. A helper that turns a failure into io.EOF (`if err != nil { return nil, io.EOF }`) is therefore not granted
//     the exception, and the caller's `break` on io.EOF is reported as the swallowed failure it is.
//
// Errors f produces in other ways (fmt.Errorf, errors.New, results of AddRow/Flush/Open) are not io.EOF (trusted: none of
// these APIs reports io.EOF), so the EOF edge of the caller is dead for them and the exception cannot hide them.
func c19EndOfInput(c *Ctx, f *ssa.Function, inScope func(*ssa.Function) bool, depth int) bool {
	if f == nil || len(f.Blocks) == 0 {
		return false
	}
	res := f.Signature.Results()
	if res.Len() == 0 || !isErrorType(res.At(res.Len()-1).Type()) {
		return false
	}
	// the end-of-input capable errors inside f
	var readErrs []ssa.Value
	allInstrs(f, func(i ssa.Instruction) {
		call, ok := i.(*ssa.Call)
		if !ok {
			return
		}
		src := calleeName(&call.Call) == "(*encoding/csv.Reader).Read"
		if g := calleeFunc(&call.Call); !src && g != nil && g != f && depth > 0 && inScope(g) {
			src = c19EndOfInput(c, g, inScope, depth-1)
		}
		if src {
			if ev := resultValue(call, call.Call.Signature().Results().Len()-1); ev != nil {
				readErrs = append(readErrs, ev)
			}
		}
	})
	if len(readErrs) == 0 {
		return false
	}
	isReadErr := func(v ssa.Value) bool {
		for _, e := range readErrs {
			if phiIncludes(v, e) {
				return true
			}
		}
		return false
	}
	knownEOF := func(at ssa.Instruction) bool {
		for _, cm := range cmpsAt(at) {
			for _, e := range readErrs {
				if c19EOFCmp(cm, e) {
					return true
				}
			}
		}
		return false
	}
	// io.EOF is only compared with, or written where a read reported it
	madeUp := false
	allInstrs(f, func(i ssa.Instruction) {
		ld, ok := i.(*ssa.UnOp)
		if !ok || !isGlobalNamed(ld, "io", "EOF") {
			return
		}
		for _, u := range referrers(ld) {
			switch x := u.(type) {
			case *ssa.DebugRef:
			case *ssa.BinOp:
				if x.Op != token.EQL && x.Op != token.NEQ {
					madeUp = true
				}
			case *ssa.Call:
				if calleeName(&x.Call) != "errors.Is" || len(x.Call.Args) != 2 || x.Call.Args[0] == ssa.Value(ld) {
					madeUp = true
				}
			case *ssa.Return, *ssa.Store:
				if !knownEOF(u) {
					madeUp = true
				}
			default:
				madeUp = true
			}
		}
	})
	if madeUp {
		return false
	}
	handsOn := false
	allInstrs(f, func(i ssa.Instruction) {
		ret, ok := i.(*ssa.Return)
		if !ok || isRecoverBlockReturn(ret) || len(ret.Results) != res.Len() {
			return
		}
		ev := retVals(ret)[res.Len()-1]
		switch {
		case isReadErr(ev):
			handsOn = true
		case isGlobalNamed(ev, "io", "EOF"):
			handsOn = true // known to stand for a read's io.EOF (checked above)
		default:
			if call, isCall := ev.(*ssa.Call); isCall && calleeName(&call.Call) == "fmt.Errorf" && len(call.Call.Args) == 2 {
				if al := sliceOfArray(call.Call.Args[1]); al != nil {
					if elems, _, ok := arrayElems(al); ok {
						for _, el := range elems {
							if isReadErr(peel(el)) {
								handsOn = true
							}
						}
					}
				}
			}
		}
	})
	return handsOn
}

// c19KnownNil: v == nil is a dominating fact at `at`.
func c19KnownNil(v ssa.Value, at ssa.Instruction) bool {
	for _, cm := range cmpsAt(at) {
		if cm.Op == token.EQL && cm.Y != nil && ((sameValue(cm.X, v) && isNilConst(cm.Y)) || (sameValue(cm.Y, v) && isNilConst(cm.X))) {
			return true
		}
	}
	return false
}

// consumed checks, in fn, that what the source instruction src produced (a csv Read, or the call of a record source)
// ends up in exactly one AddRow: some AddRow takes a row that rowIs accepts; with the edges on which src produced
// nothing cut, src cannot reach the next read or a successful return without an AddRow; and no second AddRow follows
// before the next read. nil when all of this holds.
func (st *c19rec) consumed(fn *ssa.Function, src ssa.Instruction, rowIs func(m ssa.Value, a ssa.Instruction) (bool, string), noRow func(pred, succ *ssa.BasicBlock) bool) *c19fail {
	c := st.c
	addRows := st.addRowsIn(fn)
	isAddRow := func(i ssa.Instruction) bool {
		for _, a := range addRows {
			if a == i {
				return true
			}
		}
		return false
	}
	rowOK, why := false, "no AddRow call takes a row built from this record"
	for _, a := range addRows {
		cc := callCommon(a)
		if ok, w := rowIs(cc.Args[len(cc.Args)-1], a); ok {
			rowOK = true
		} else {
			why = w
		}
	}
	if !rowOK {
		return &c19fail{"the record is not turned into a row faithfully: " + why, src, nil}
	}
	if p := c.fc.pathFrom(fn, src, func(i ssa.Instruction) bool { return st.isReadLike(i) || isSuccessReturn(i) }, isAddRow, noRow); p != nil {
		return &c19fail{"a successfully read record can reach the next read (or the end) without an AddRow: the record is skipped", src, p}
	}
	for _, a := range addRows {
		if !c.fc.reachableFrom(fn, src, a) {
			continue
		}
		if p := c.fc.pathFrom(fn, a, isAddRow, st.isReadLike, nil); p != nil {
			return &c19fail{"a record can be added twice before the next read", a, p}
		}
	}
	return nil
}

// c19source describes a record source: a helper of the command that reads one record and returns it as a row.
type c19source struct {
	km, ke, kb int  // result indices of the row (map), the error (last result) and the optional "have a row" flag (-1: none)
	bT         bool // value of the flag on the returns that carry a row
	noRow      []c19noRow
}

// c19noRow is a return of a record source that carries no row, with the ways its caller can tell: the flag is the
// constant opposite of bT (okDist), the error is known to be non-nil (errDist).
type c19noRow struct {
	ret             *ssa.Return
	okDist, errDist bool
}

// c19RecordSource decides whether fn, which reads a record at r but adds no row itself, hands every successfully read
// record to its caller as a faithful row: its results include one map (the row) and a trailing error; the returns that
// carry a row (map built from this record and the normalised header by rowBuilt, nil error, constant flag) are reached on
// every path on which the read succeeded; every other return can be told from them by the caller (opposite constant flag,
// or an error that is known non-nil). The caller side (AddRow exactly once per row, never without one) is checked by
// c19Records with the description returned here.
func c19RecordSource(st *c19rec, fn *ssa.Function, r *ssa.Call, isRec func(ssa.Value) bool, errv ssa.Value) (*c19source, *c19fail) {
	c := st.c
	res := fn.Signature.Results()
	src := &c19source{km: -1, ke: -1, kb: -1}
	for k := 0; k < res.Len(); k++ {
		switch t := res.At(k).Type().Underlying().(type) {
		case *types.Map:
			if src.km >= 0 {
				src.km = -2
			} else if src.km == -1 {
				src.km = k
			}
		case *types.Basic:
			if t.Kind() == types.Bool {
				if src.kb >= 0 {
					src.kb = -2
				} else if src.kb == -1 {
					src.kb = k
				}
			}
		}
	}
	if res.Len() > 0 && isErrorType(res.At(res.Len()-1).Type()) {
		src.ke = res.Len() - 1
	}
	if src.km < 0 || src.ke < 0 || src.kb == -2 {
		return nil, &c19fail{"the record is not turned into a row faithfully: no AddRow call takes a row built from this record (" + safeFname(fn) + " reads it, but neither adds a row nor returns one together with an error)", r, nil}
	}
	var rets []*ssa.Return
	allInstrs(fn, func(i ssa.Instruction) {
		if ret, ok := i.(*ssa.Return); ok && !isRecoverBlockReturn(ret) && len(ret.Results) == res.Len() {
			rets = append(rets, ret)
		}
	})
	rowRet := map[ssa.Instruction]bool{}
	why, haveFlag := "no return of "+safeFname(fn)+" carries a row", false
	for _, ret := range rets {
		vals := retVals(ret)
		if !isNilConst(vals[src.ke]) || isNilConst(vals[src.km]) {
			continue
		}
		ok, w := rowBuilt(c, vals[src.km], func(x ssa.Value) bool { return st.isHdr(fn, x) }, isRec, ret, 0)
		if !ok {
			why = w
			continue
		}
		if src.kb >= 0 {
			b, isK := constBool(vals[src.kb])
			if !isK {
				why = "the flag returned next to the row is not a constant"
				continue
			}
			if haveFlag && b != src.bT {
				return nil, &c19fail{"the record is not turned into a row faithfully: " + safeFname(fn) + " returns rows with both values of its flag, the caller cannot tell a row from the end of the input", ret, nil}
			}
			src.bT, haveFlag = b, true
		}
		rowRet[ret] = true
	}
	if len(rowRet) == 0 {
		return nil, &c19fail{"the record is not turned into a row faithfully: " + why, r, nil}
	}
	for _, ret := range rets {
		if rowRet[ret] {
			continue
		}
		vals := retVals(ret)
		nr := c19noRow{ret: ret}
		if src.kb >= 0 {
			if b, isK := constBool(vals[src.kb]); isK && b != src.bT {
				nr.okDist = true
			}
		}
		ev := vals[src.ke]
		if knownNonNil(ev, ret) || isGlobalNamed(ev, "io", "EOF") {
			nr.errDist = true
		} else if call, ok := ev.(*ssa.Call); ok && (calleeName(&call.Call) == "fmt.Errorf" || calleeName(&call.Call) == "errors.New") {
			nr.errDist = true
		}
		if !nr.okDist && !nr.errDist {
			return nil, &c19fail{"the record is not turned into a row faithfully: " + safeFname(fn) + " can return without a row in a way its caller cannot tell from a row (neither a non-nil error nor the opposite flag)", ret, nil}
		}
		src.noRow = append(src.noRow, nr)
	}
	// a record that was read successfully leaves the helper as a row
	lost := func(i ssa.Instruction) bool {
		if ret, ok := i.(*ssa.Return); ok {
			return !rowRet[ret]
		}
		return st.isReadLike(i)
	}
	if p := c.fc.pathFrom(fn, r, lost, nil, c19NoRowEdge(errv, nil, false)); p != nil {
		return nil, &c19fail{"a successfully read record can leave " + safeFname(fn) + " without being returned as a row (or the next record is read first): the record is skipped", r, p}
	}
	return src, nil
}

// rowBuilt: m (the argument of AddRow at instruction `at`) is a map made for this record and filled with
// header[i] -> record[i] for the same index i running over the whole record; or the result of a module helper that builds
// such a map from parameters bound to the header and the record.
func rowBuilt(c *Ctx, m ssa.Value, isHeader, isRec func(ssa.Value) bool, at ssa.Instruction, depth int) (bool, string) {
	if depth > 2 {
		return false, "the row is built too deep in helpers"
	}
	if call, callee, vals, ok := resultOrigins(c.w, m); ok {
		var ph, pr ssa.Value
		for k, a := range call.Call.Args {
			if k >= len(callee.Params) {
				continue
			}
			if isHeader(a) {
				ph = callee.Params[k]
			}
			if isRec(a) {
				pr = callee.Params[k]
			}
		}
		if ph == nil || pr == nil {
			return false, "the helper that builds the row is not given the normalised header and the record just read"
		}
		for _, rv := range vals {
			if ok, why := rowBuilt(c, rv, func(x ssa.Value) bool { return x == ph }, func(x ssa.Value) bool { return x == pr }, nil, depth+1); !ok {
				return false, why
			}
		}
		return true, ""
	}
	mk, ok := m.(*ssa.MakeMap)
	if !ok {
		return false, "the row passed to AddRow is not a map made for this record"
	}
	if at != nil && !mk.Block().Dominates(at.Block()) {
		return false, "the row map is not created on the way to this AddRow"
	}
	nUpd := 0
	for _, u := range referrers(mk) {
		mu, ok := u.(*ssa.MapUpdate)
		if !ok {
			continue
		}
		nUpd++
		kl, ok1 := mu.Key.(*ssa.UnOp)
		vl, ok2 := mu.Value.(*ssa.UnOp)
		if !ok1 || !ok2 {
			return false, "map key/value are not plain elements of header/record"
		}
		ki, ok1 := kl.X.(*ssa.IndexAddr)
		vi, ok2 := vl.X.(*ssa.IndexAddr)
		if !ok1 || !ok2 {
			return false, "map key/value are not plain elements of header/record"
		}
		switch {
		case !isHeader(ki.X):
			return false, "the column name is not taken from the normalised header"
		case !isRec(vi.X):
			return false, "the value is not taken from the record just read"
		case ki.Index != vi.Index:
			return false, "header and record are indexed differently: values land in the wrong columns"
		}
		ib, io := lin(vi.Index)
		lb, isCtr := phiLower(ib)
		if !isCtr || lb+io != 0 {
			return false, "the field loop does not start at the first field"
		}
		upper := false
		for _, cm := range cmpsAt(mu) {
			if cm.Y != nil && cm.Op == token.LSS && cm.X == vi.Index && isLenOf(cm.Y, vi.X) {
				upper = true
			}
		}
		if !upper {
			return false, "the field loop does not run over the whole record"
		}
	}
	if nUpd != 1 {
		return false, fmt.Sprintf("the row map is filled at %d sites", nUpd)
	}
	return true, ""
}

func c19Normalize(c *Ctx) {
	const rule = "C19.normalize"
	fn := c.a.NormalizeHeader
	name := safeFname(fn)
	var mapCalls []*ssa.Call
	allInstrs(fn, func(i ssa.Instruction) {
		if call, ok := i.(*ssa.Call); ok && calleeName(&call.Call) == "strings.Map" {
			mapCalls = append(mapCalls, call)
		}
	})
	if len(mapCalls) != 1 {
		c.r.undecided(rule, name, fmt.Sprintf("expected one strings.Map call, found %d", len(mapCalls)), c.w.pos(fn.Pos()))
		return
	}
	mc := mapCalls[0]
	// input lower-cased first
	lowered := false
	if in, ok := mc.Call.Args[1].(*ssa.Call); ok && calleeName(&in.Call) == "strings.ToLower" {
		lowered = true
	}
	c.r.check(lowered, rule, name+": lower", "strings.ToLower is applied before mapping", "the header is not lower-cased before the character mapping: upper-case letters become '_' or stay upper-case", c.w.ipos(mc))
	var cl *ssa.Function
	switch v := mc.Call.Args[0].(type) {
	case *ssa.MakeClosure:
		cl, _ = v.Fn.(*ssa.Function)
	case *ssa.Function:
		cl = v
	}
	if cl == nil || len(cl.Params) != 1 {
		c.r.undecided(rule, name+": mapping", "mapping function not resolvable", c.w.ipos(mc))
		return
	}
	r := ssa.Value(cl.Params[0])
	okAll, why := true, ""
	// interpret the mapping function for one representative of every interval of the rune domain induced by the
	// constants it compares its argument with: the result must be the argument itself only inside 'a'..'z', and '_' otherwise
	pts := map[int64]bool{0: true, 0x10FFFF: true, 'a': true, 'z': true}
	allInstrs(cl, func(i ssa.Instruction) {
		if b, ok := i.(*ssa.BinOp); ok {
			for _, pair := range [][2]ssa.Value{{b.X, b.Y}, {b.Y, b.X}} {
				if peelConv(pair[0]) == r {
					if k, ok := constInt(pair[1]); ok {
						pts[k] = true
					}
				}
			}
		}
	})
	var sorted []int64
	for p := range pts {
		if p >= 0 && p <= 0x10FFFF {
			sorted = append(sorted, p)
		}
	}
	sort.Slice(sorted, func(i, j int) bool { return sorted[i] < sorted[j] })
	var ivals [][2]int64
	for i, p := range sorted {
		ivals = append(ivals, [2]int64{p, p})
		if i+1 < len(sorted) && sorted[i+1] > p+1 {
			ivals = append(ivals, [2]int64{p + 1, sorted[i+1] - 1})
		}
	}
	for _, iv := range ivals {
		self, val, ok := evalRuneMap(cl, r, iv[0])
		switch {
		case !ok:
			okAll, why = false, "the mapping function is not a composition of comparisons of the rune with constants (cannot be interpreted)"
		case self && !(iv[0] >= 'a' && iv[1] <= 'z'):
			okAll, why = false, fmt.Sprintf("runes in [%s] are kept although they are outside 'a'..'z'", ivalString(iv))
		case !self && val != '_':
			okAll, why = false, fmt.Sprintf("runes in [%s] are mapped to %q, not '_'", ivalString(iv), rune(val))
		case !self && iv[0] >= 'a' && iv[1] <= 'z':
			okAll, why = false, fmt.Sprintf("letters in [%s] are replaced by '_'", ivalString(iv))
		}
		if !okAll {
			break
		}
	}
	c.r.check(okAll, rule, name+": mapping", "runes in a-z are kept, everything else becomes '_'", "the header normalisation deviates from 'keep a-z, replace everything else by _': "+why, c.w.pos(cl.Pos()))
	// the normalised headers are returned one per input header, in order (append in a range loop over the input)
}

func mustInt(k *ssa.Const) int64 {
	n, _ := constant.Int64Val(constant.ToInt(k.Value))
	return n
}

func c19ErrExit(c *Ctx) {
	const rule = "C19.errexit"
	top := c.a.CreateCmd
	n := 0
	var flushes []ssa.Instruction
	scopeFns := c.scope(top, 2, c.a.NormalizeHeader)
	inScope := func(f *ssa.Function) bool {
		for _, x := range scopeFns {
			if x == f {
				return true
			}
		}
		return false
	}
	for _, fn := range scopeFns {
		if fn.Parent() != nil {
			continue
		}
		sigr := fn.Signature.Results()
		if sigr.Len() == 0 || !isErrorType(sigr.At(sigr.Len()-1).Type()) {
			continue // helpers without an error result cannot swallow one they do not produce
		}
		fn := fn
		name := safeFname(fn)
		allInstrs(fn, func(i ssa.Instruction) {
			call, ok := i.(*ssa.Call)
			if !ok {
				return
			}
			what := ""
			if f := calleeFunc(&call.Call); f != nil && f != fn && inScope(f) {
				sr := f.Signature.Results()
				if sr.Len() > 0 && isErrorType(sr.At(sr.Len()-1).Type()) {
					what = safeFname(f)
				}
			}
			cname := calleeName(&call.Call)
			switch {
			case cname == "(*encoding/csv.Reader).Read":
				what = "csv Read"
			case cname == "go.etcd.io/bbolt.Open":
				what = "bbolt.Open"
			case cname == "os.Open", cname == "os.CreateTemp":
				what = cname
			case call.Call.IsInvoke() && (call.Call.Method.Name() == "AddRow" || call.Call.Method.Name() == "Flush"):
				what = call.Call.Method.Name()
			default:
				if f := calleeFunc(&call.Call); f != nil && c.w.pkgPathOf(f) == pkgRoot {
					sig := f.Signature.Results()
					if sig.Len() > 0 && isErrorType(sig.At(sig.Len()-1).Type()) {
						what = f.Name()
					}
				}
			}
			if what == "" {
				return
			}
			if what == "Flush" && fn == top {
				flushes = append(flushes, i)
			}
			n++
			sig := call.Call.Signature().Results()
			ev := resultValue(call, sig.Len()-1)
			var cut func(pred, succ *ssa.BasicBlock) bool
			if f := calleeFunc(&call.Call); what == "csv Read" || (f != nil && f != fn && inScope(f) && c19EndOfInput(c, f, inScope, 2)) {
				// io.EOF ends the input: the edge on which errors.Is(err, io.EOF) / err == io.EOF holds is not a swallowed
				// error. This holds for the csv reader's own Read and for a helper of the command that hands the reader's
				// error on (a `rowReader.Next()` around Read), but not for a helper that turns failures into io.EOF
				// (c19EndOfInput); the edge is recognised in every form of the test (c19EOFCmp), also nested inside the
				// `err != nil` branch.
				cut = c19EOFEdge(ev)
			}
			key := fmt.Sprintf("%s: %s#%d", name, what, n)
			out := c.fc.errPropagatedExcept(fn, call, ev, cut)
			if out.ok {
				c.r.ok(rule, key, out.msg, c.w.ipos(call))
			} else {
				c.r.bad(rule, key, "a failure of "+what+" does not make the command fail: "+out.msg, []string{c.w.ipos(out.site)}, c.fc.witnessStrings(out.witness)...)
			}
		})
	}
	fn := top
	name := safeFname(fn)
	c.r.expect(rule, 7)
	// flush before success
	isFlush := func(i ssa.Instruction) bool {
		for _, f := range flushes {
			if f == i {
				return true
			}
		}
		return false
	}
	if p := c.fc.pathAvoiding(fn, nil, isSuccessReturn, isFlush); p != nil {
		c.r.bad("C19.flush", name, "the command can report success without having flushed the index", []string{c.w.ipos(p[len(p)-1])}, c.fc.witnessStrings(p)...)
	} else {
		c.r.ok("C19.flush", name, "every successful return has passed Flush", c.w.pos(fn.Pos()))
	}
	// RunE closure returns createCmd's error; main exits non-zero when Execute fails
	main := c.a.Main
	okRunE := false
	for _, f := range c.w.ModFuncs {
		if f.Parent() != main {
			continue
		}
		allInstrs(f, func(i ssa.Instruction) {
			call, ok := i.(*ssa.Call)
			if !ok || calleeFunc(&call.Call) != fn {
				return
			}
			out := c.fc.errPropagated(f, call, resultValue(call, 0))
			if out.ok {
				okRunE = true
			} else {
				c.r.bad(rule, "main: RunE of create", "the create command's error is not returned to cobra: "+out.msg, []string{c.w.ipos(call)})
			}
		})
	}
	if okRunE {
		c.r.ok(rule, "main: RunE of create", "the cobra RunE closure returns createCmd's error")
	} else if c.r.seen[rule+"[main: RunE of create]"] == nil {
		c.r.undecided(rule, "main: RunE of create", "no closure of main calls createCmd")
	}
	// main: Execute error -> os.Exit(non-zero constant)
	okExit := false
	allInstrs(main, func(i ssa.Instruction) {
		call, ok := i.(*ssa.Call)
		if !ok || calleeName(&call.Call) != "(*github.com/spf13/cobra.Command).Execute" {
			return
		}
		ev := ssa.Value(call)
		allInstrs(main, func(j ssa.Instruction) {
			ex, ok := j.(*ssa.Call)
			if !ok || calleeName(&ex.Call) != "os.Exit" {
				return
			}
			code, isK := constInt(ex.Call.Args[0])
			if !isK || code == 0 {
				return
			}
			for _, cm := range cmpsAt(ex) {
				if cm.Op == token.NEQ && cm.Y != nil && cm.X == ev && isNilConst(cm.Y) {
					okExit = true
				}
			}
		})
		// and the error branch cannot fall through to a normal return
		if okExit {
			for _, b := range main.Blocks {
				if len(b.Preds) == 1 {
					p := b.Preds[0]
					if iff, ok := p.Instrs[len(p.Instrs)-1].(*ssa.If); ok {
						for _, cm := range trueCmps(fact{iff.Cond, p.Succs[0] == b}) {
							if cm.Op == token.NEQ && cm.Y != nil && cm.X == ev && isNilConst(cm.Y) {
								if pth := c.fc.pathAvoiding(main, b.Instrs[0], func(x ssa.Instruction) bool { _, r := x.(*ssa.Return); return r }, nil); pth != nil {
									// pathAvoiding cuts at os.Exit (diverging); a surviving path means some way around the exit
									if _, isExit := b.Instrs[0].(*ssa.Call); !isExit || calleeName(callCommon(b.Instrs[0])) != "os.Exit" {
										okExit = false
									}
								}
							}
						}
					}
				}
			}
		}
	})
	c.r.check(okExit, rule, "main: exit status", "os.Exit with a non-zero constant when Execute returns an error", "main does not exit with a non-zero status when the command fails", c.w.pos(main.Pos()))
}

func isGlobalNamed(v ssa.Value, pkg, name string) bool {
	u, ok := v.(*ssa.UnOp)
	if !ok || u.Op != token.MUL {
		return false
	}
	g, ok := u.X.(*ssa.Global)
	return ok && g.Name() == name && g.Pkg != nil && g.Pkg.Pkg.Path() == pkg
}

var _ = types.Typ

// txReleaseRule: a writer that keeps a bbolt write transaction open between calls (a *bbolt.Tx field assigned from
// DB.Begin(true)) must offer a method that rolls that transaction back, and the create command must run it (normally by
// defer) on every path after the writer was constructed: bbolt's DB.Close waits for pending transactions, so abandoning
// the writer on an error path makes the command hang instead of failing. The duty may be handed to the callers of a
// set-up helper as a function value (txHand, rules_ag45.go).
func txReleaseRule(c *Ctx, rule string) {
	type held struct {
		fld   *types.Var
		owner *types.Named
	}
	var helds []held
	seen := map[*types.Var]bool{}
	for _, fn := range c.w.ModFuncs {
		if c.w.pkgPathOf(fn) != pkgRoot {
			continue
		}
		allInstrs(fn, func(i ssa.Instruction) {
			st, ok := i.(*ssa.Store)
			if !ok {
				return
			}
			fa, ok := st.Addr.(*ssa.FieldAddr)
			if !ok {
				return
			}
			f := fieldOf(fa.X.Type(), fa.Field)
			if f == nil || !typeIs(f.Type(), pkgBolt, "Tx") || seen[f] {
				return
			}
			if e, ok := st.Val.(*ssa.Extract); ok {
				if bc, ok := e.Tuple.(*ssa.Call); ok && calleeName(&bc.Call) == "(*go.etcd.io/bbolt.DB).Begin" {
					if w, isK := constBool(bc.Call.Args[1]); !isK || w {
						seen[f] = true
						helds = append(helds, held{f, c.w.ownerOf(f)})
					}
				}
			}
		})
	}
	if len(helds) == 0 {
		c.r.ok(rule, "module", "no type keeps a write transaction open between calls")
		return
	}
	for _, h := range helds {
		if h.owner == nil {
			continue
		}
		// release methods: methods of the owner that roll the held transaction back
		var release []*ssa.Function
		for _, fn := range c.w.ModFuncs {
			if fn.Signature.Recv() == nil || namedOf(fn.Signature.Recv().Type()) != h.owner {
				continue
			}
			allInstrs(fn, func(i ssa.Instruction) {
				if call, ok := i.(*ssa.Call); ok && calleeName(&call.Call) == "(*go.etcd.io/bbolt.Tx).Rollback" && path(call.Call.Args[0]).lastField() == h.fld {
					release = append(release, fn)
				}
			})
		}
		key := h.owner.Obj().Name() + "." + h.fld.Name()
		if len(release) == 0 {
			c.r.bad(rule, key, "the type keeps a write transaction open between calls but has no method that rolls it back: a caller that gives up before Flush cannot close the database any more (DB.Close blocks on the pending transaction)", []string{c.w.pos(h.fld.Pos())})
			continue
		}
		// what counts as running a release method: txHand.relInstr (rules_ag45.go)
		// constructors: module functions returning *owner
		n := 0
		for _, fn := range c.w.ModFuncs {
			if c.w.pkgPathOf(fn) != pkgCmd {
				continue
			}
			allInstrs(fn, func(i ssa.Instruction) {
				call, ok := i.(*ssa.Call)
				if !ok {
					return
				}
				ctor := calleeFunc(&call.Call)
				if ctor == nil || !c.w.inModule(ctor) || ctor.Signature.Results().Len() == 0 || namedOf(ctor.Signature.Results().At(0).Type()) != h.owner {
					return
				}
				if _, isPtr := ctor.Signature.Results().At(0).Type().(*types.Pointer); !isPtr {
					return
				}
				n++
				ckey := fmt.Sprintf("%s: %s#%d", safeFname(fn), safeFname(ctor), n)
				errv := resultValue(call, ctor.Signature.Results().Len()-1)
				// the duty may be met here, or handed to the callers as a function value that runs the release
				// (rules_ag45.go): the witness is then a path of the function that drops it
				hand := newTxHand(c, release)
				if p, note := hand.unreleased(&txSite{fn, call, failedEdge(errv)}, 0); p != nil {
					c.r.bad(rule, ckey, "after the writer was created the command can return without releasing the writer's pending transaction: the deferred Close of the temporary database then waits forever and the command hangs instead of exiting with an error (e.g. on a malformed CSV record in --big mode)"+note,
						[]string{c.w.ipos(p[len(p)-1])}, c.fc.witnessStrings(p)...)
				} else {
					c.r.ok(rule, ckey, "the writer's pending transaction is released (deferred) on every path", c.w.ipos(call))
				}
			})
		}
	}
}

// c19NoTouch: every file-mutating os call reachable from the create command targets the temporary file it made itself
// (the name of os.CreateTemp's file), never a path taken from the configuration: the output path may name an existing file.
func c19NoTouch(c *Ctx) {
	const rule = "C19.notouch"
	re := c.w.reach(c.a.CreateCmd)
	n := 0
	var prover *ownProver
	for _, fn := range re.sorted() {
		if c.w.pkgPathOf(fn) != pkgCmd {
			continue
		}
		allInstrs(fn, func(i ssa.Instruction) {
			cc := callCommon(i)
			if cc == nil {
				return
			}
			name := calleeName(cc)
			if !fileMutators[name] && name != "os.OpenFile" {
				return
			}
			if name == "os.CreateTemp" || name == "os.MkdirTemp" {
				return
			}
			if strings.HasPrefix(name, "(*os.File)") {
				return
			}
			n++
			key := fmt.Sprintf("%s: %s#%d", safeFname(fn), shortName(name), n)
			arg := cc.Args[0]
			if fromCreateTemp(arg) || fromCreateTemp(peel(arg)) {
				c.r.ok(rule, key, "targets the command's own temporary file", c.w.ipos(i))
				return
			}
			// the output file, once this run has created it exclusively, is the command's own as well (removing the
			// incomplete index after a failure): rules_ag21.go proves "created by this run" or says why it cannot
			if prover == nil {
				prover = newOwnProver(c)
			}
			c.r.check(prover.owned(i, arg), rule, key, "targets a file this run of the command created exclusively",
				"a file-mutating call in the create command targets a path that is neither the temporary file the command created itself nor a file this run is known to have created exclusively: if it is the output path, a pre-existing output file is deleted or modified although the command must leave it untouched"+prover.why(), c.w.ipos(i))
		})
	}
	if n == 0 {
		c.r.ok(rule, "createCmd", "no file-mutating os call besides creating the temporary file")
	}
}

// evalRuneMap interprets g (func(rune) rune) for the concrete argument rep: reports whether it returns its argument
// itself (self) or a constant.
func evalRuneMap(g *ssa.Function, par ssa.Value, rep int64) (self bool, val int64, ok bool) {
	bools := map[ssa.Value]bool{}
	var ev func(v ssa.Value) (bool, bool)
	ev = func(v ssa.Value) (bool, bool) {
		if r, ok := bools[v]; ok {
			return r, true
		}
		switch x := v.(type) {
		case *ssa.Const:
			return constBool(x)
		case *ssa.UnOp:
			if x.Op == token.NOT {
				if r, ok := ev(x.X); ok {
					return !r, true
				}
			}
		case *ssa.BinOp:
			var k int64
			var isK bool
			op := x.Op
			if peelConv(x.X) == par {
				k, isK = constInt(x.Y)
			} else if peelConv(x.Y) == par {
				k, isK = constInt(x.X)
				op = swapOp(op)
			}
			if !isK {
				return false, false
			}
			switch op {
			case token.EQL:
				return rep == k, true
			case token.NEQ:
				return rep != k, true
			case token.LSS:
				return rep < k, true
			case token.LEQ:
				return rep <= k, true
			case token.GTR:
				return rep > k, true
			case token.GEQ:
				return rep >= k, true
			}
		}
		return false, false
	}
	b := g.Blocks[0]
	var prev *ssa.BasicBlock
	phiVals := map[ssa.Value]ssa.Value{}
	for steps := 0; steps < 300; steps++ {
		var next *ssa.BasicBlock
		for _, ins := range b.Instrs {
			switch x := ins.(type) {
			case *ssa.Phi:
				if prev != nil {
					for k, p := range b.Preds {
						if p == prev {
							if r, ok := ev(x.Edges[k]); ok {
								bools[x] = r
							}
							phiVals[x] = x.Edges[k]
						}
					}
				}
			case *ssa.If:
				r, ok := ev(x.Cond)
				if !ok {
					return false, 0, false
				}
				if r {
					next = b.Succs[0]
				} else {
					next = b.Succs[1]
				}
			case *ssa.Jump:
				next = b.Succs[0]
			case *ssa.Return:
				if len(x.Results) != 1 {
					return false, 0, false
				}
				v := x.Results[0]
				for n := 0; n < 8; n++ {
					if pv, ok := phiVals[v]; ok {
						v = pv
						continue
					}
					break
				}
				if peelConv(v) == par {
					return true, 0, true
				}
				if k, ok := constInt(v); ok {
					return false, k, true
				}
				return false, 0, false
			case *ssa.Call, *ssa.Store, *ssa.Panic, *ssa.Send, *ssa.MapUpdate:
				return false, 0, false
			}
			if next != nil {
				break
			}
		}
		if next == nil {
			return false, 0, false
		}
		prev, b = b, next
	}
	return false, 0, false
}
