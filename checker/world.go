package main

// Loading /repo and building the program representations the rules work on.
// Nothing here (or anywhere in the checker) executes updog code.

import (
	"fmt"
	"go/ast"
	"go/token"
	"go/types"
	"os"
	"sort"
	"strings"

	"golang.org/x/tools/go/callgraph"
	"golang.org/x/tools/go/callgraph/cha"
	"golang.org/x/tools/go/callgraph/vta"
	"golang.org/x/tools/go/packages"
	"golang.org/x/tools/go/ssa"
	"golang.org/x/tools/go/ssa/ssautil"
)

const modPath = "github.com/akrennmair/updog"

// expected module packages (a static tool sees only what was parsed: fewer than this fails the check)
var wantPkgs = []string{
	modPath,
	modPath + "/cmd/updog",
	modPath + "/driver",
	modPath + "/internal/convert",
	modPath + "/internal/openfile",
	modPath + "/internal/queryparser",
	modPath + "/proto/updog/v1",
}

type World struct {
	Dir      string
	Tier     string
	Tags     string
	Fset     *token.FileSet
	Pkgs     map[string]*packages.Package // module packages by path
	Prog     *ssa.Program
	SSA      map[string]*ssa.Package // module packages by path
	CG       *callgraph.Graph
	Whole    bool            // whole-program bodies available (thorough)
	ModFuncs []*ssa.Function // all functions (incl. anonymous, methods) whose source is in the module
	fnDecl   map[*ssa.Function]ast.Node
	NumFuncs int // number of ssa functions with bodies in the program
}

func loadWorld(dir, tier, tags string) (*World, error) {
	mode := packages.LoadSyntax
	if tier == "thorough" {
		mode = packages.LoadAllSyntax
	}
	env := append(os.Environ(),
		"GOFLAGS=-mod=mod", "GOPROXY=off", "GOSUMDB=off", "GOTOOLCHAIN=local", "GOWORK=off", "CGO_ENABLED=1")
	cfg := &packages.Config{Mode: mode, Dir: dir, Env: env, Tests: false}
	if tags != "" {
		cfg.BuildFlags = []string{"-tags=" + tags}
	}
	initial, err := packages.Load(cfg, "./...")
	if err != nil {
		return nil, fmt.Errorf("loading %s: %v", dir, err)
	}
	w := &World{Dir: dir, Tier: tier, Tags: tags, Pkgs: map[string]*packages.Package{}, SSA: map[string]*ssa.Package{}, fnDecl: map[*ssa.Function]ast.Node{}}
	var errs []string
	for _, p := range initial {
		for _, e := range p.Errors {
			errs = append(errs, e.Error())
		}
		w.Pkgs[p.PkgPath] = p
		w.Fset = p.Fset
	}
	if len(errs) > 0 {
		return nil, fmt.Errorf("package errors in %s (a tree that does not type-check cannot be decided): %s", dir, strings.Join(errs, "; "))
	}
	for _, want := range wantPkgs {
		if w.Pkgs[want] == nil {
			return nil, fmt.Errorf("expected module package %s was not loaded (got %d packages)", want, len(initial))
		}
	}
	if tier == "thorough" {
		var deperrs []string
		packages.Visit(initial, nil, func(p *packages.Package) {
			for _, e := range p.Errors {
				deperrs = append(deperrs, e.Error())
			}
		})
		if len(deperrs) > 0 {
			return nil, fmt.Errorf("errors in dependencies: %s", strings.Join(deperrs, "; "))
		}
	}
	prog, _ := ssautil.AllPackages(initial, ssa.InstantiateGenerics)
	prog.Build()
	w.Prog = prog
	for path, p := range w.Pkgs {
		sp := prog.Package(p.Types)
		if sp == nil {
			return nil, fmt.Errorf("no SSA package for %s", path)
		}
		w.SSA[path] = sp
	}
	all := ssautil.AllFunctions(prog)
	for f := range all {
		if f.Blocks != nil {
			w.NumFuncs++
		}
		if f.Pkg != nil && w.SSA[f.Pkg.Pkg.Path()] == f.Pkg && f.Blocks != nil && f.Synthetic == "" {
			w.ModFuncs = append(w.ModFuncs, f)
		} else if f.Blocks != nil && f.Synthetic == "" && f.Parent() != nil {
			// anonymous functions have Pkg set as well; nothing to do
		}
	}
	sort.Slice(w.ModFuncs, func(i, j int) bool { return w.posOf(w.ModFuncs[i].Pos()) < w.posOf(w.ModFuncs[j].Pos()) })
	if tier == "thorough" {
		w.Whole = true
		w.CG = vta.CallGraph(all, cha.CallGraph(prog))
	} else {
		w.CG = cha.CallGraph(prog)
	}
	return w, nil
}

func (w *World) posOf(p token.Pos) string {
	if !p.IsValid() {
		return "-"
	}
	pos := w.Fset.Position(p)
	fn := pos.Filename
	if strings.HasPrefix(fn, w.Dir+"/") {
		fn = fn[len(w.Dir)+1:]
	}
	return fmt.Sprintf("%s:%04d", fn, pos.Line)
}

// pos renders a position as file:line relative to the repository root.
func (w *World) pos(p token.Pos) string {
	if !p.IsValid() {
		return "-"
	}
	pos := w.Fset.Position(p)
	fn := pos.Filename
	if strings.HasPrefix(fn, w.Dir+"/") {
		fn = fn[len(w.Dir)+1:]
	}
	return fmt.Sprintf("%s:%d", fn, pos.Line)
}

// ipos gives the best position for an instruction (falls back to the nearest positioned neighbour, then the function).
func (w *World) ipos(i ssa.Instruction) string {
	if i == nil {
		return "-"
	}
	if i.Pos().IsValid() {
		return w.pos(i.Pos())
	}
	if v, ok := i.(ssa.Value); ok {
		_ = v
	}
	b := i.Block()
	if b != nil {
		for _, j := range b.Instrs {
			if j.Pos().IsValid() {
				return w.pos(j.Pos())
			}
		}
	}
	if i.Parent() != nil {
		return w.pos(i.Parent().Pos())
	}
	return "-"
}

// ---- lookup of program entities by (package, receiver, name); used only by anchors.go ----

func (w *World) pkg(path string) *ssa.Package { return w.SSA[path] }

func (w *World) fn(pkgPath, name string) *ssa.Function {
	p := w.SSA[pkgPath]
	if p == nil {
		return nil
	}
	return p.Func(name)
}

func (w *World) namedType(pkgPath, name string) *types.Named {
	p := w.Pkgs[pkgPath]
	if p == nil {
		return nil
	}
	o := p.Types.Scope().Lookup(name)
	if o == nil {
		return nil
	}
	tn, ok := o.(*types.TypeName)
	if !ok {
		return nil
	}
	n, _ := tn.Type().(*types.Named)
	return n
}

// method finds a method (pointer or value receiver) of a named module type.
func (w *World) method(pkgPath, typ, name string) *ssa.Function {
	n := w.namedType(pkgPath, typ)
	if n == nil {
		return nil
	}
	for _, t := range []types.Type{types.NewPointer(n), n} {
		ms := w.Prog.MethodSets.MethodSet(t)
		if sel := ms.Lookup(n.Obj().Pkg(), name); sel != nil {
			if f := w.Prog.MethodValue(sel); f != nil {
				return f
			}
		}
	}
	return nil
}

func (w *World) field(pkgPath, typ, name string) *types.Var {
	n := w.namedType(pkgPath, typ)
	if n == nil {
		return nil
	}
	st, ok := n.Underlying().(*types.Struct)
	if !ok {
		return nil
	}
	for i := 0; i < st.NumFields(); i++ {
		if st.Field(i).Name() == name {
			return st.Field(i)
		}
	}
	return nil
}

func (w *World) global(pkgPath, name string) *ssa.Global {
	p := w.SSA[pkgPath]
	if p == nil {
		return nil
	}
	g, _ := p.Members[name].(*ssa.Global)
	return g
}

func (w *World) constant(pkgPath, name string) *ssa.NamedConst {
	p := w.SSA[pkgPath]
	if p == nil {
		return nil
	}
	c, _ := p.Members[name].(*ssa.NamedConst)
	return c
}

// inModule reports whether fn's source lies in one of the module packages (generated protobuf package included).
func (w *World) inModule(fn *ssa.Function) bool {
	if fn == nil {
		return false
	}
	for fn.Parent() != nil {
		fn = fn.Parent()
	}
	if fn.Pkg == nil {
		// instantiations and wrappers: use the object
		if o := fn.Object(); o != nil && o.Pkg() != nil {
			return w.Pkgs[o.Pkg().Path()] != nil
		}
		return false
	}
	return w.SSA[fn.Pkg.Pkg.Path()] == fn.Pkg
}

func (w *World) pkgPathOf(fn *ssa.Function) string {
	for fn.Parent() != nil {
		fn = fn.Parent()
	}
	if fn.Pkg != nil {
		return fn.Pkg.Pkg.Path()
	}
	if o := fn.Object(); o != nil && o.Pkg() != nil {
		return o.Pkg().Path()
	}
	return ""
}

// fname is a short stable name for a function: (*T).m, f, f$1.
func fname(fn *ssa.Function) string { return safeFname(fn) }

func safeFname(fn *ssa.Function) string {
	if fn == nil {
		return "<nil>"
	}
	if fn.Package() == nil {
		return fn.String()
	}
	return fn.RelString(fn.Package().Pkg)
}

// astFile returns the syntax file holding pos.
func (w *World) astFile(pos token.Pos) (*packages.Package, *ast.File) {
	for _, p := range w.Pkgs {
		for _, f := range p.Syntax {
			if f.FileStart <= pos && pos <= f.FileEnd {
				return p, f
			}
		}
	}
	return nil, nil
}

// funcDecl returns the *ast.FuncDecl or *ast.FuncLit of a module function.
func (w *World) funcSyntax(fn *ssa.Function) ast.Node {
	if n := fn.Syntax(); n != nil {
		return n
	}
	return nil
}
