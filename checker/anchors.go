package main

// The only place where identifiers of /repo appear: a table mapping roles to program entities, resolved by type
// information on every run. A role that no longer resolves makes the rules that need it undecided.
//
// Only EXPORTED identifiers (the API, database/sql/driver methods, generated protobuf names) are looked up by name here.
// Every unexported entity — function, method, type, field, package-level variable — is resolved from the shape of the
// program: rules_ag5.go (parserShape) for the query parser, rules_ag10.go (progShape) for everything else; today's
// unexported names appear there only as first guesses and tie-breakers.

import (
	"go/types"
	"sort"
	"strings"

	"golang.org/x/tools/go/ssa"
)

const (
	pkgRoot    = modPath
	pkgCmd     = modPath + "/cmd/updog"
	pkgDriver  = modPath + "/driver"
	pkgConvert = modPath + "/internal/convert"
	pkgOpen    = modPath + "/internal/openfile"
	pkgParser  = modPath + "/internal/queryparser"
	pkgProto   = modPath + "/proto/updog/v1"
	pkgBolt    = "go.etcd.io/bbolt"
)

type Anchors struct {
	c *Ctx

	// updog
	Execute, GetSchema, IndexClose, OpenIndex, OpenFromDB *ssa.Function
	WithCache, WithPreloaded, WithMetrics                 *ssa.Function
	NewPreloaded, GetValueIndex                           *ssa.Function
	LRUGet, LRUPut, NewLRU                                *ssa.Function
	MemAddRow, MemFlush, MemWrite, BigAddRow, BigFlush    *ssa.Function
	NewBig, NewMem, SchemaAdd                             *ssa.Function
	IndexT, QueryT, SchemaT, ColumnT, LRUT, LRUItemT      *types.Named
	PreloadedT, OnDemandT, MemWriterT, BigWriterT         *types.Named
	ExprIface, CacheIface, GetterIface                    *types.Named
	ExprImpls                                             []*types.Named
	KeySchema, KeyRows, KeyValue                          *ssa.Global
	// (structurally resolved, rules_ag10.go) names of the unexported interface methods, row counters, LRU bookkeeping
	// fields, the group-by working types
	EvalName, KeyName, GetColName             string
	IdxRowsF, MemRowsF, BigRowsF              *types.Var
	LRUCurF, LRUMaxF, ItemKeyF, ItemSizeF     *types.Var
	ResGroupT, GroupLevelT, GroupValT         *types.Named
	ResGroupBMF, ResGroupFieldsF              *types.Var
	LevelColF, LevelValsF, ValIdxF, ValValueF *types.Var
	SH                                        *progShape

	// queryparser: the exported entry points are resolved by name; everything unexported comes from the structural
	// resolution in rules_ag5.go (PS), so that renaming unexported identifiers neither alarms nor disables a rule
	PS                                                                              *parserShape
	ParseQuery, ParserParse, ParseSimple, Walk, WalkInner, ReplacePH, QueryToString *ssa.Function
	Lex, LexRun, ParserErrorf                                                       *ssa.Function

	// convert
	ToQuery, ToExpr, ToPBResult, ToResult *ssa.Function

	// driver
	DrvOpenFile, DrvOpen, FileConnClose, NewRows, FileStmtQuery, GrpcStmtQuery, NumInput *ssa.Function
	DriverT, FileConnT, FileStmtT, GrpcStmtT, RowsT, RowT                                *types.Named
	RowsColsF, RowFieldsF, RowCountF                                                     *types.Var

	// cmd
	CreateCmd, NormalizeHeader, Main, ServerQuery, ServerCmd, SchemaCmd *ssa.Function
	ServerT                                                             *types.Named

	// openfile
	OpenFileFn *ssa.Function

	missing []string
}

func resolveAnchors(c *Ctx) *Anchors {
	w := c.w
	a := &Anchors{c: c}
	f := func(role string, fn *ssa.Function) *ssa.Function {
		if fn == nil {
			a.missing = append(a.missing, role)
		}
		return fn
	}
	t := func(role string, n *types.Named) *types.Named {
		if n == nil {
			a.missing = append(a.missing, role)
		}
		return n
	}
	g := func(role string, gl *ssa.Global) *ssa.Global {
		if gl == nil {
			a.missing = append(a.missing, role)
		}
		return gl
	}
	v := func(role string, fld *types.Var) *types.Var {
		if fld == nil {
			a.missing = append(a.missing, role)
		}
		return fld
	}
	// ---- exported entities: by name
	a.Execute = f("index.execute", w.method(pkgRoot, "Index", "Execute"))
	a.GetSchema = f("index.getschema", w.method(pkgRoot, "Index", "GetSchema"))
	a.IndexClose = f("index.close", w.method(pkgRoot, "Index", "Close"))
	a.OpenIndex = f("index.openfile", w.fn(pkgRoot, "OpenIndex"))
	a.OpenFromDB = f("index.open", w.fn(pkgRoot, "OpenIndexFromBoltDatabase"))
	a.WithCache = f("index.opt.cache", w.fn(pkgRoot, "WithCache"))
	a.WithPreloaded = f("index.opt.preload", w.fn(pkgRoot, "WithPreloadedData"))
	a.WithMetrics = f("index.opt.metrics", w.fn(pkgRoot, "WithIndexMetrics"))
	a.LRUGet = f("cache.lru.get", w.method(pkgRoot, "LRUCache", "Get"))
	a.LRUPut = f("cache.lru.put", w.method(pkgRoot, "LRUCache", "Put"))
	a.NewLRU = f("cache.lru.new", w.fn(pkgRoot, "NewLRUCache"))
	a.MemAddRow = f("writer.mem.addrow", w.method(pkgRoot, "IndexWriter", "AddRow"))
	a.MemFlush = f("writer.mem.flush", w.method(pkgRoot, "IndexWriter", "Flush"))
	a.MemWrite = f("writer.mem.write", w.method(pkgRoot, "IndexWriter", "WriteToBoltDatabase"))
	a.BigAddRow = f("writer.big.addrow", w.method(pkgRoot, "BigIndexWriter", "AddRow"))
	a.BigFlush = f("writer.big.flush", w.method(pkgRoot, "BigIndexWriter", "Flush"))
	a.NewBig = f("writer.big.new", w.fn(pkgRoot, "NewBigIndexWriter"))
	a.NewMem = f("writer.mem.new", w.fn(pkgRoot, "NewIndexWriter"))
	a.IndexT = t("index.type", w.namedType(pkgRoot, "Index"))
	a.QueryT = t("query.type", w.namedType(pkgRoot, "Query"))
	a.LRUT = t("cache.lru", w.namedType(pkgRoot, "LRUCache"))
	a.MemWriterT = t("writer.mem", w.namedType(pkgRoot, "IndexWriter"))
	a.BigWriterT = t("writer.big", w.namedType(pkgRoot, "BigIndexWriter"))
	a.ExprIface = t("expr.iface", w.namedType(pkgRoot, "Expression"))
	a.CacheIface = t("cache.iface", w.namedType(pkgRoot, "Cache"))
	if a.ExprIface != nil {
		a.ExprImpls = w.implementers(pkgRoot, a.ExprIface)
		if len(a.ExprImpls) == 0 {
			a.missing = append(a.missing, "expr.impls")
		}
	}
	a.ParseQuery = f("parse.entry", w.fn(pkgParser, "ParseQuery"))
	a.Walk = f("walk.fn", w.fn(pkgParser, "Walk"))
	a.ReplacePH = f("bind.fn", w.fn(pkgParser, "ReplacePlaceholders"))
	a.QueryToString = f("fmt.entry", w.fn(pkgParser, "QueryToString"))
	a.ToQuery = f("conv.toquery", w.fn(pkgConvert, "ToQuery"))
	a.ToPBResult = f("conv.topb", w.fn(pkgConvert, "ToProtobufResult"))
	a.ToResult = f("conv.frompb", w.fn(pkgConvert, "ToResult"))
	a.Main = f("cmd.main", w.fn(pkgCmd, "main"))
	a.OpenFileFn = f("openfile.fn", w.fn(pkgOpen, "OpenFile"))

	// ---- unexported entities of the query parser: by shape (rules_ag5.go)
	a.PS = resolveParserShape(c)
	a.ParserParse = f("parse.top", a.PS.Parse)
	a.ParseSimple = f("parse.simple", a.PS.ParseSimple)
	a.ParserErrorf = f("parse.errorf", a.PS.PErrorf)
	a.WalkInner = f("walk.inner", walkInner(w, a.Walk))
	a.Lex = f("lex.new", a.PS.LexNew)
	a.LexRun = f("lex.run", a.PS.LexRun)

	// ---- unexported entities of updog, convert, driver, cmd/updog: by shape (rules_ag10.go)
	a.SH = resolveProgShape(c, a)
	evalName, keyName, getColName = a.EvalName, a.KeyName, a.GetColName
	if a.EvalName == "" {
		a.missing = append(a.missing, "expr.eval")
	}
	if a.KeyName == "" {
		a.missing = append(a.missing, "expr.cachekey")
	}
	if a.GetColName == "" {
		a.missing = append(a.missing, "getter.getcol")
	}
	f("getter.preload.new", a.NewPreloaded)
	f("hash.value", a.GetValueIndex)
	f("schema.add", a.SchemaAdd)
	t("schema.type", a.SchemaT)
	t("schema.column", a.ColumnT)
	t("cache.lru.item", a.LRUItemT)
	t("getter.preloaded", a.PreloadedT)
	t("getter.ondemand", a.OnDemandT)
	t("getter.iface", a.GetterIface)
	g("key.schema", a.KeySchema)
	g("key.rows", a.KeyRows)
	g("key.value", a.KeyValue)
	v("index.rows", a.IdxRowsF)
	v("writer.mem.rows", a.MemRowsF)
	v("writer.big.rows", a.BigRowsF)
	v("cache.lru.cur", a.LRUCurF)
	v("cache.lru.max", a.LRUMaxF)
	v("cache.lru.item.key", a.ItemKeyF)
	v("cache.lru.item.size", a.ItemSizeF)
	t("groupby.partial", a.ResGroupT)
	t("groupby.level", a.GroupLevelT)
	t("groupby.value", a.GroupValT)
	f("conv.toexpr", a.ToExpr)
	f("drv.open", a.DrvOpen)
	f("drv.openfile", a.DrvOpenFile)
	f("drv.conn.close", a.FileConnClose)
	f("drv.rows.new", a.NewRows)
	f("drv.filestmt.query", a.FileStmtQuery)
	f("drv.grpcstmt.query", a.GrpcStmtQuery)
	f("drv.numinput", a.NumInput)
	t("drv.type", a.DriverT)
	t("drv.conn", a.FileConnT)
	t("drv.filestmt", a.FileStmtT)
	t("drv.grpcstmt", a.GrpcStmtT)
	t("drv.rows", a.RowsT)
	f("cmd.create", a.CreateCmd)
	f("cmd.normalize", a.NormalizeHeader)
	f("srv.handler", a.ServerQuery)
	f("srv.cmd", a.ServerCmd)
	f("cmd.schema", a.SchemaCmd)
	return a
}

// walkInner: the recursive worker behind the exported Walk — today's `walk`, or else the one function of the parser
// package to which Walk hands its callback parameter.
func walkInner(w *World, walk *ssa.Function) *ssa.Function {
	if g := w.fn(pkgParser, "walk"); g != nil || walk == nil {
		return g
	}
	var cands []*ssa.Function
	allInstrs(walk, func(i ssa.Instruction) {
		call, ok := i.(*ssa.Call)
		if !ok {
			return
		}
		f := calleeFunc(&call.Call)
		if f == nil || f == walk || w.pkgPathOf(f) != pkgParser {
			return
		}
		for _, a := range call.Call.Args {
			if p, ok := a.(*ssa.Parameter); ok && len(walk.Params) > 0 && p == walk.Params[len(walk.Params)-1] {
				cands = append(cands, f)
			}
		}
	})
	if len(cands) == 1 {
		return cands[0]
	}
	return nil
}

// need reports roles as undecided for a rule when any of the given entities is missing.
func (c *Ctx) need(rule string, vals ...interface{}) bool {
	ok := true
	for _, v := range vals {
		switch x := v.(type) {
		case *ssa.Function:
			if x == nil {
				ok = false
			}
		case *types.Named:
			if x == nil {
				ok = false
			}
		case *ssa.Global:
			if x == nil {
				ok = false
			}
		case *types.Var:
			if x == nil {
				ok = false
			}
		case nil:
			ok = false
		}
	}
	if !ok {
		msg := "an anchor this rule needs no longer resolves (renamed or removed): " + joinStrings(c.a.missing)
		if c.a.SH != nil {
			// structurally resolved entities of updog/convert/driver/cmd: say why the shape was not recognised
			msg += c.a.SH.whyText()
		}
		if c.a.PS != nil && (strings.HasPrefix(rule, "C09") || strings.HasPrefix(rule, "C10")) {
			// structurally resolved parser entities: say why the shape was not recognised
			var roles []string
			for r := range c.a.PS.why {
				roles = append(roles, r)
			}
			sort.Strings(roles)
			for _, r := range roles {
				msg += "; " + r + ": " + c.a.PS.why[r]
			}
		}
		c.r.undecided(rule, "<anchor>", msg)
	}
	return ok
}

func joinStrings(s []string) string {
	out := ""
	for i, x := range s {
		if i > 0 {
			out += ", "
		}
		out += x
	}
	return out
}

// implementers: named types of a module package whose pointer (or value) type implements iface.
func (w *World) implementers(pkgPath string, iface *types.Named) []*types.Named {
	it, ok := iface.Underlying().(*types.Interface)
	if !ok {
		return nil
	}
	var out []*types.Named
	for _, p := range w.Pkgs {
		sc := p.Types.Scope()
		for _, name := range sc.Names() {
			tn, ok := sc.Lookup(name).(*types.TypeName)
			if !ok || tn.IsAlias() {
				continue
			}
			n, ok := tn.Type().(*types.Named)
			if !ok || n == iface {
				continue
			}
			if _, isIface := n.Underlying().(*types.Interface); isIface {
				continue
			}
			if types.Implements(types.NewPointer(n), it) || types.Implements(n, it) {
				out = append(out, n)
			}
		}
	}
	sortNamed(out)
	return out
}

func sortNamed(ns []*types.Named) {
	for i := 0; i < len(ns); i++ {
		for j := i + 1; j < len(ns); j++ {
			if ns[j].Obj().Name() < ns[i].Obj().Name() {
				ns[i], ns[j] = ns[j], ns[i]
			}
		}
	}
}

func (a *Anchors) methodOf(n *types.Named, name string) *ssa.Function {
	if n == nil {
		return nil
	}
	w := a.c.w
	for _, t := range []types.Type{types.NewPointer(n), n} {
		ms := w.Prog.MethodSets.MethodSet(t)
		if sel := ms.Lookup(n.Obj().Pkg(), name); sel != nil {
			if f := w.Prog.MethodValue(sel); f != nil {
				return f
			}
		}
	}
	return nil
}

func structFieldNamed(n *types.Named, name string) *types.Var {
	if n == nil {
		return nil
	}
	st, ok := n.Underlying().(*types.Struct)
	if !ok {
		return nil
	}
	for i := 0; i < st.NumFields(); i++ {
		if st.Field(i).Name() == name {
			return st.Field(i)
		}
	}
	return nil
}

// ownerOf finds the named struct type (in module packages) that declares field f.
func (w *World) ownerOf(f *types.Var) *types.Named {
	for _, p := range w.Pkgs {
		sc := p.Types.Scope()
		for _, name := range sc.Names() {
			tn, ok := sc.Lookup(name).(*types.TypeName)
			if !ok {
				continue
			}
			n, ok := tn.Type().(*types.Named)
			if !ok {
				continue
			}
			st, ok := n.Underlying().(*types.Struct)
			if !ok {
				continue
			}
			for i := 0; i < st.NumFields(); i++ {
				if st.Field(i) == f {
					return n
				}
			}
		}
	}
	return nil
}
