package main

// parserShape — the entities of the query parser package that the C09 rules (and the C10 rules that look at the
// parser) reason about, resolved ONCE per run from the shape of the program instead of from identifiers.
//
// Everything in internal/queryparser apart from ParseQuery / QueryToString / ReplacePlaceholders / Walk is unexported, so
// its names are free to change in any refactoring (item→lexeme, lexer→scanner, next→advance …). A rule that looks its
// entities up by name either raises an alarm on such a rename or — worse — quietly stops applying. Here every entity
// has a structural definition (what it does, which types it connects); today's identifier is only the first guess (it
// is taken when it exists and still has the defining shape) and the tie-breaker between several structural candidates.
// An entity that is found neither way stays nil, its reason is recorded in why[role], and the rules that need it report
// `undecided` through (*parserShape).need — never a silent ok.
//
// Definitions (lexer side):
//   lexer type   struct with a channel field for which a state-function type exists
//   state type   named func type `func(*lexer) T` whose result is T itself; states = package-level funcs of that type
//   next         lexer method that decodes a rune from (a slice of) a string field with utf8.DecodeRuneInString;
//                input = that string field, pos = the field it advances, width = the field that receives the size,
//                end-of-input rune = the constant it returns instead (where pos has reached len(input))
//   backup       lexer method that stores pos - … back into pos
//   peek         parameterless lexer method with next's result type that calls next (its exact shape next;backup
//                is an obligation of C09.progress, not part of the definition, so a broken peek is still found)
//   acceptRun    lexer method with a string parameter that calls next inside a loop
//   emit         lexer method that itself sends on the channel a token one of whose fields is its parameter;
//                token-kind type = type of that parameter; token type = element type of the channel;
//                start = the field emit sets to pos after sending
//   errorf       lexer method that sends on the channel and returns a state; error kind = the constant it sends
//   token source function of the package whose only result is a token and that (transitively) receives from the channel
//   eof kind     the constant kind passed to an emitting method in a state function where the current rune (result of
//                peek/next) is known to equal the end-of-input rune
// (parser side):
//   parser type  struct with a field of type *lexer
//   parse        the function of the package that ParseQuery calls and that yields a *proto.Query
//   errorf       the diverging (NORETURN) method of the parser type
//   grammar functions (C10.parens): methods of the parser type returning *proto.Query_Expression, told apart by the
//                oneof wrappers they build: And / Or builders, simple = builder of Not, comparison = builder of Equal only,
//                grouped = builds nothing and reaches the And/Or builders only through another expression function (or,
//                when the chain parser is the whole `expr` production, calls it directly and is called by simple).
//                "Builds" includes what the node constructors build that the function calls — directly or through a
//                constant package-level table of constructors (funcTargets); And and Or may be one and the same function.

import (
	"go/constant"
	"go/token"
	"go/types"
	"sort"
	"strings"

	"golang.org/x/tools/go/ssa"
)

type parserShape struct {
	c *Ctx

	LexerT, StateT, TokenT, ParserT      *types.Named
	KindT                                types.Type
	ChanF, InputF, PosF, WidthF, StartF  *types.Var
	States                               []*ssa.Function
	Next, Backup, Peek, AcceptRun        *ssa.Function
	Emit, LexErrorf                      *ssa.Function
	LexNew, LexRun                       *ssa.Function
	EOFRune                              *int64
	EOFKind, ErrKind                     constant.Value
	Parse, PErrorf                       *ssa.Function
	ParseAnd, ParseOr, ParseSimple       *ssa.Function
	ParseGrouped, ParseComparison        *ssa.Function
	tokenSrc                             map[*ssa.Function]bool
	why                                  map[string]string
	sendsMemo                            map[*ssa.Function]bool
	lexMethods, parserMethods, pkgLevels []*ssa.Function
}

// need: all the listed roles are resolved; otherwise the rule is undecided (with the reasons) and must not go on.
func (ps *parserShape) need(rule string, roles ...string) bool {
	var miss []string
	for _, r := range roles {
		if !ps.has(r) {
			w := ps.why[r]
			if w == "" {
				w = "not found"
			}
			miss = append(miss, r+" ("+w+")")
		}
	}
	if len(miss) > 0 {
		ps.c.r.undecided(rule, "<anchor>", "the rule cannot find the parser entity it reasons about, neither by its shape nor by its name: "+strings.Join(miss, "; "))
		return false
	}
	return true
}

func (ps *parserShape) has(role string) bool {
	switch role {
	case "lexer":
		return ps.LexerT != nil
	case "state type":
		return ps.StateT != nil
	case "token type":
		return ps.TokenT != nil
	case "token kind type":
		return ps.KindT != nil
	case "parser type":
		return ps.ParserT != nil
	case "lexer channel":
		return ps.ChanF != nil
	case "lexer input":
		return ps.InputF != nil
	case "lexer start":
		return ps.StartF != nil
	case "next":
		return ps.Next != nil
	case "backup":
		return ps.Backup != nil
	case "peek":
		return ps.Peek != nil
	case "acceptRun":
		return ps.AcceptRun != nil
	case "emit":
		return ps.Emit != nil
	case "lexer errorf":
		return ps.LexErrorf != nil
	case "eof rune":
		return ps.EOFRune != nil
	case "eof kind":
		return ps.EOFKind != nil
	case "parse":
		return ps.Parse != nil
	case "parser errorf":
		return ps.PErrorf != nil
	}
	return false
}

// isLexMethod / isState: the classification the lexer rules used to do by receiver-type name and signature text.
func (ps *parserShape) isLexMethod(f *ssa.Function) bool {
	return f != nil && ps.LexerT != nil && f.Signature.Recv() != nil && namedOf(f.Signature.Recv().Type()) == ps.LexerT
}

func (ps *parserShape) isState(f *ssa.Function) bool {
	for _, s := range ps.States {
		if s == f {
			return true
		}
	}
	return false
}

// sends: f (or a module function it calls directly) sends on a channel.
func (ps *parserShape) sends(f *ssa.Function) bool {
	if f == nil || f.Blocks == nil {
		return false
	}
	if r, ok := ps.sendsMemo[f]; ok {
		return r
	}
	r := ps.c.fc.mayContain(f, func(i ssa.Instruction) bool { return len(sendsOf(i)) > 0 }, 1)
	ps.sendsMemo[f] = r
	return r
}

// emitKindArg: call is a call of an emitting lexer method (emit itself or a helper around it such as
// `emitSingle(kind)`: a lexer method that sends and takes a token kind); the kind argument is returned.
func (ps *parserShape) emitKindArg(call *ssa.Call) (ssa.Value, bool) {
	if call == nil || ps.KindT == nil {
		return nil, false
	}
	f := calleeFunc(&call.Call)
	if !ps.isLexMethod(f) || f.Blocks == nil || !ps.sends(f) {
		return nil, false
	}
	for k, p := range f.Params {
		if types.Identical(p.Type(), ps.KindT) && k < len(call.Call.Args) {
			return call.Call.Args[k], true
		}
	}
	return nil, false
}

// isErrorCall: a call of a lexer method that sends a token and returns the next state (the lexical-error helper).
func (ps *parserShape) isErrorCall(i ssa.Instruction) bool {
	call, ok := i.(*ssa.Call)
	if !ok || ps.StateT == nil {
		return false
	}
	f := calleeFunc(&call.Call)
	if !ps.isLexMethod(f) || f.Blocks == nil || !ps.sends(f) {
		return false
	}
	return f.Signature.Results().Len() == 1 && types.Identical(f.Signature.Results().At(0).Type(), ps.StateT)
}

// isTokenSource: f hands the parser the next token of the stream (today: parser.peek, parser.next, lexer.nextItem).
func (ps *parserShape) isTokenSource(f *ssa.Function) bool { return f != nil && ps.tokenSrc[f] }

// kindName: the declared name of a token-kind constant, for messages only.
func (ps *parserShape) kindName(v constant.Value) string {
	if v == nil || ps.KindT == nil {
		return "the end-of-input token kind"
	}
	p := ps.c.w.SSA[pkgParser]
	var names []string
	for n, m := range p.Members {
		if nc, ok := m.(*ssa.NamedConst); ok && types.Identical(nc.Type(), ps.KindT) && nc.Value != nil && nc.Value.Value != nil && constant.Compare(nc.Value.Value, token.EQL, v) {
			names = append(names, n)
		}
	}
	sort.Strings(names)
	if len(names) == 0 {
		return "the end-of-input token kind"
	}
	return names[0]
}

// choose implements "name first, then shape": the function carrying today's name is taken if it exists and still has
// the (loose) defining property; otherwise the structural candidates decide — a single one is it, several are
// ambiguous (nil), none leaves the role unresolved.
func (ps *parserShape) choose(role string, guess *ssa.Function, valid func(*ssa.Function) bool, cands []*ssa.Function) *ssa.Function {
	if guess != nil && valid(guess) {
		return guess
	}
	switch len(cands) {
	case 1:
		return cands[0]
	case 0:
		ps.why[role] = "no function of the parser package has the shape of this role"
	default:
		var names []string
		for _, f := range cands {
			names = append(names, safeFname(f))
		}
		ps.why[role] = "several functions have the shape of this role: " + strings.Join(names, ", ")
	}
	return nil
}

// sendsOf: the channel sends an instruction performs — a plain send, or the send cases of a select.
type chanSend struct{ ch, val ssa.Value }

func sendsOf(i ssa.Instruction) []chanSend {
	switch x := i.(type) {
	case *ssa.Send:
		return []chanSend{{x.Chan, x.X}}
	case *ssa.Select:
		var out []chanSend
		for _, st := range x.States {
			if st.Dir == types.SendOnly {
				out = append(out, chanSend{st.Chan, st.Send})
			}
		}
		return out
	}
	return nil
}

func hasName(fs []*ssa.Function, name string) *ssa.Function {
	for _, f := range fs {
		if f.Name() == name {
			return f
		}
	}
	return nil
}

func filterFns(fs []*ssa.Function, pred func(*ssa.Function) bool) []*ssa.Function {
	var out []*ssa.Function
	for _, f := range fs {
		if pred(f) {
			out = append(out, f)
		}
	}
	return out
}

func callsDirectly(f, g *ssa.Function) bool {
	if f == nil || g == nil {
		return false
	}
	found := false
	allInstrs(f, func(i ssa.Instruction) {
		if cc := callCommon(i); cc != nil && calleeFunc(cc) == g {
			found = true
		}
	})
	return found
}

// parserNamedTypes: the named (non-alias) types declared in the parser package, by name.
func parserNamedTypes(w *World) []*types.Named {
	p := w.Pkgs[pkgParser]
	if p == nil {
		return nil
	}
	var out []*types.Named
	sc := p.Types.Scope()
	for _, name := range sc.Names() {
		tn, ok := sc.Lookup(name).(*types.TypeName)
		if !ok || tn.IsAlias() {
			continue
		}
		if n, ok := tn.Type().(*types.Named); ok {
			out = append(out, n)
		}
	}
	return out
}

func resolveParserShape(c *Ctx) *parserShape {
	w := c.w
	ps := &parserShape{c: c, why: map[string]string{}, tokenSrc: map[*ssa.Function]bool{}, sendsMemo: map[*ssa.Function]bool{}}
	named := parserNamedTypes(w)

	// ---- lexer type and state-function type: found together, each defines the other
	type pair struct{ lex, st *types.Named }
	var pairs []pair
	for _, n := range named {
		st, ok := n.Underlying().(*types.Struct)
		if !ok {
			continue
		}
		hasChan := false
		for i := 0; i < st.NumFields(); i++ {
			if _, ok := st.Field(i).Type().Underlying().(*types.Chan); ok {
				hasChan = true
			}
		}
		if !hasChan {
			continue
		}
		for _, m := range named {
			sig, ok := m.Underlying().(*types.Signature)
			if !ok || sig.Params().Len() != 1 || sig.Results().Len() != 1 {
				continue
			}
			pt, isPtr := sig.Params().At(0).Type().(*types.Pointer)
			if isPtr && namedOf(pt.Elem()) == n && types.Identical(sig.Results().At(0).Type(), m) {
				pairs = append(pairs, pair{n, m})
			}
		}
	}
	switch {
	case len(pairs) == 1:
		ps.LexerT, ps.StateT = pairs[0].lex, pairs[0].st
	case len(pairs) > 1:
		for _, p := range pairs {
			if p.lex.Obj().Name() == "lexer" && (ps.LexerT == nil || p.st.Obj().Name() == "stateFn") {
				ps.LexerT, ps.StateT = p.lex, p.st
			}
		}
		if ps.LexerT == nil {
			ps.why["lexer"] = "several struct types with a channel and a state-function type"
		}
	default:
		// no state machine: the lexer may still exist under its name (the rules about the machine are then undecided)
		ps.LexerT = w.namedType(pkgParser, "lexer")
		ps.why["state type"] = "no named func type `func(*L) T` returning itself over a struct L with a channel field"
		if ps.LexerT == nil {
			ps.why["lexer"] = ps.why["state type"]
		}
	}

	for _, fn := range w.ModFuncs {
		if w.pkgPathOf(fn) != pkgParser || fn.Parent() != nil || fn.Blocks == nil {
			continue
		}
		if fn.Signature.Recv() == nil {
			ps.pkgLevels = append(ps.pkgLevels, fn)
		} else if ps.isLexMethod(fn) {
			ps.lexMethods = append(ps.lexMethods, fn)
		}
	}
	if ps.LexerT != nil {
		ps.resolveLexer()
	}
	ps.resolveParser()
	return ps
}

func (ps *parserShape) resolveLexer() {
	c, w := ps.c, ps.c.w
	lm := ps.lexMethods
	if ps.StateT != nil {
		for _, fn := range ps.pkgLevels {
			sig := fn.Signature
			if sig.Params().Len() == 1 && sig.Results().Len() == 1 && namedOf(sig.Params().At(0).Type()) == ps.LexerT && types.Identical(sig.Results().At(0).Type(), ps.StateT) {
				ps.States = append(ps.States, fn)
			}
		}
	}
	// the channel: the channel field the lexer's methods send on (a single channel field needs no further evidence)
	{
		st := ps.LexerT.Underlying().(*types.Struct)
		var chans []*types.Var
		for i := 0; i < st.NumFields(); i++ {
			if _, ok := st.Field(i).Type().Underlying().(*types.Chan); ok {
				chans = append(chans, st.Field(i))
			}
		}
		if len(chans) > 1 {
			sentOn := map[*types.Var]bool{}
			for _, f := range lm {
				allInstrs(f, func(i ssa.Instruction) {
					for _, s := range sendsOf(i) {
						if fld := path(s.ch).lastField(); fld != nil {
							sentOn[fld] = true
						}
					}
				})
			}
			chans = nil
			for i := 0; i < st.NumFields(); i++ {
				if sentOn[st.Field(i)] {
					chans = append(chans, st.Field(i))
				}
			}
		}
		if len(chans) == 1 {
			ps.ChanF = chans[0]
			if ch, ok := ps.ChanF.Type().Underlying().(*types.Chan); ok {
				ps.TokenT = namedOf(ch.Elem())
			}
		} else {
			ps.why["lexer channel"] = "the lexer has no single channel field it sends on"
		}
		if ps.TokenT == nil {
			ps.why["token type"] = "the element type of the lexer's channel is not a named type"
		}
	}

	// ---- next
	decodeCall := func(f *ssa.Function) *ssa.Call {
		var out *ssa.Call
		allInstrs(f, func(i ssa.Instruction) {
			if call, ok := i.(*ssa.Call); ok && calleeName(&call.Call) == "unicode/utf8.DecodeRuneInString" && out == nil {
				out = call
			}
		})
		return out
	}
	returnsInteger := func(f *ssa.Function) bool {
		if f.Signature.Results().Len() != 1 {
			return false
		}
		b, ok := f.Signature.Results().At(0).Type().Underlying().(*types.Basic)
		return ok && b.Info()&types.IsInteger != 0
	}
	isNextLike := func(f *ssa.Function) bool { return ps.isLexMethod(f) && returnsInteger(f) && decodeCall(f) != nil }
	// (the name guess only has to be a parameterless lexer method yielding a rune: with the names intact the rules keep
	// working on a next() that decodes differently, as they did before)
	ps.Next = ps.choose("next", hasName(lm, "next"), func(f *ssa.Function) bool {
		return ps.isLexMethod(f) && returnsInteger(f) && f.Signature.Params().Len() == 0
	}, filterFns(lm, isNextLike))
	if ps.Next != nil {
		dc := decodeCall(ps.Next)
		if dc != nil {
			ps.InputF = path(dc.Call.Args[0]).lastField()
		}
		if ps.InputF != nil {
			if b, ok := ps.InputF.Type().Underlying().(*types.Basic); !ok || b.Kind() != types.String {
				ps.InputF = nil
			}
		}
		allInstrs(ps.Next, func(i ssa.Instruction) {
			st, ok := i.(*ssa.Store)
			if !ok {
				return
			}
			fa, ok := st.Addr.(*ssa.FieldAddr)
			if !ok || namedOf(fa.X.Type()) != ps.LexerT {
				return
			}
			fld := fieldOf(fa.X.Type(), fa.Field)
			switch v := peelConv(st.Val).(type) {
			case *ssa.BinOp:
				if v.Op == token.ADD {
					ps.PosF = fld
				}
			case *ssa.Extract:
				if dc != nil && v.Tuple == ssa.Value(dc) && v.Index == 1 {
					ps.WidthF = fld
				}
			}
		})
		// the end-of-input marker: the constant next returns instead of a decoded rune; if it returns several constants, the
		// one returned where the position was compared with the length of the input
		type kret struct {
			v     int64
			atEnd bool
		}
		var ks []kret
		allInstrs(ps.Next, func(i ssa.Instruction) {
			ret, ok := i.(*ssa.Return)
			if !ok || len(ret.Results) != 1 {
				return
			}
			k, isK := constInt(ret.Results[0])
			if !isK {
				return
			}
			atEnd := false
			for _, cm := range cmpsAt(ret) {
				for _, side := range []ssa.Value{cm.X, cm.Y} {
					if side == nil {
						continue
					}
					if call, ok := peelConv(side).(*ssa.Call); ok {
						if b, ok := call.Call.Value.(*ssa.Builtin); ok && b.Name() == "len" && ps.InputF != nil && path(call.Call.Args[0]).lastField() == ps.InputF {
							atEnd = true
						}
					}
				}
			}
			ks = append(ks, kret{k, atEnd})
		})
		distinct := map[int64]bool{}
		for _, k := range ks {
			distinct[k.v] = true
		}
		if len(distinct) > 1 {
			distinct = map[int64]bool{}
			for _, k := range ks {
				if k.atEnd {
					distinct[k.v] = true
				}
			}
		}
		if len(distinct) == 1 {
			for v := range distinct {
				v := v
				ps.EOFRune = &v
			}
		}
	}
	if ps.EOFRune == nil {
		// by name: the rune constant
		if k := w.constant(pkgParser, "eof"); k != nil && k.Value != nil && k.Value.Value != nil && k.Value.Value.Kind() == constant.Int {
			if v, ok := constant.Int64Val(k.Value.Value); ok {
				ps.EOFRune = &v
			}
		}
	}
	if ps.EOFRune == nil {
		ps.why["eof rune"] = "the rune-decoding method does not return one constant at the end of the input"
	}
	if ps.InputF == nil {
		if ps.InputF = structFieldNamed(ps.LexerT, "input"); ps.InputF == nil {
			ps.why["lexer input"] = "no string field of the lexer is decoded by the rune-reading method"
		}
	}

	// ---- backup, peek, acceptRun
	noParams := func(f *ssa.Function) bool { return f.Signature.Params().Len() == 0 }
	isBackupLike := func(f *ssa.Function) bool {
		if !ps.isLexMethod(f) || !noParams(f) || f.Signature.Results().Len() != 0 || ps.PosF == nil || f == ps.Next {
			return false
		}
		found := false
		allInstrs(f, func(i ssa.Instruction) {
			if st, ok := i.(*ssa.Store); ok {
				if fa, ok := st.Addr.(*ssa.FieldAddr); ok && fieldOf(fa.X.Type(), fa.Field) == ps.PosF {
					if b, ok := peelConv(st.Val).(*ssa.BinOp); ok && b.Op == token.SUB {
						found = true
					}
				}
			}
		})
		return found
	}
	// (name guesses are validated loosely — right receiver and signature — so that with the names intact the rules see the
	// same functions as before; the strict shape decides only when the name is gone)
	ps.Backup = ps.choose("backup", hasName(lm, "backup"), func(f *ssa.Function) bool {
		return ps.isLexMethod(f) && noParams(f) && f.Signature.Results().Len() == 0
	}, filterFns(lm, isBackupLike))
	isPeekLike := func(f *ssa.Function) bool {
		return ps.isLexMethod(f) && ps.Next != nil && f != ps.Next && noParams(f) && f.Signature.Results().Len() == 1 &&
			types.Identical(f.Signature.Results().At(0).Type(), ps.Next.Signature.Results().At(0).Type()) && callsDirectly(f, ps.Next)
	}
	ps.Peek = ps.choose("peek", hasName(lm, "peek"), isPeekLike, filterFns(lm, isPeekLike))
	isAcceptLike := func(f *ssa.Function) bool {
		if !ps.isLexMethod(f) || ps.Next == nil || f == ps.Next || f.Signature.Params().Len() != 1 {
			return false
		}
		if b, ok := f.Signature.Params().At(0).Type().Underlying().(*types.Basic); !ok || b.Kind() != types.String {
			return false
		}
		for _, l := range loopsOf(f) {
			for b := range l.blocks {
				for _, ins := range b.Instrs {
					if call, ok := ins.(*ssa.Call); ok && calleeFunc(&call.Call) == ps.Next {
						return true
					}
				}
			}
		}
		return false
	}
	ps.AcceptRun = ps.choose("acceptRun", hasName(lm, "acceptRun"), func(f *ssa.Function) bool {
		if !ps.isLexMethod(f) || f.Signature.Params().Len() != 1 {
			return false
		}
		b, ok := f.Signature.Params().At(0).Type().Underlying().(*types.Basic)
		return ok && b.Kind() == types.String
	}, filterFns(lm, isAcceptLike))

	// ---- emit: sends, itself, a token one of whose fields is its parameter
	isKindType := func(t types.Type) bool {
		n, ok := t.(*types.Named)
		if !ok || n.Obj().Pkg() == nil || n.Obj().Pkg().Path() != pkgParser {
			return false
		}
		b, ok := n.Underlying().(*types.Basic)
		return ok && b.Info()&types.IsInteger != 0
	}
	kindParam := func(f *ssa.Function) *ssa.Parameter {
		if !ps.isLexMethod(f) {
			return nil
		}
		var out *ssa.Parameter
		allInstrs(f, func(i ssa.Instruction) {
			for _, s := range sendsOf(i) {
				if ps.ChanF != nil && path(s.ch).lastField() != ps.ChanF {
					continue
				}
				// the sent value: a load of a local token; look for a kind parameter stored into a field of it
				ld, ok := s.val.(*ssa.UnOp)
				if !ok || ld.Op != token.MUL {
					continue
				}
				allInstrs(f, func(j ssa.Instruction) {
					st, ok := j.(*ssa.Store)
					if !ok {
						return
					}
					fa, ok := st.Addr.(*ssa.FieldAddr)
					if !ok || fa.X != ld.X {
						return
					}
					if p, ok := st.Val.(*ssa.Parameter); ok && p != f.Params[0] && isKindType(p.Type()) {
						out = p
					}
				})
			}
		})
		return out
	}
	isEmitLike := func(f *ssa.Function) bool { return kindParam(f) != nil }
	ps.Emit = ps.choose("emit", hasName(lm, "emit"), isEmitLike, filterFns(lm, isEmitLike))
	if ps.Emit != nil {
		ps.KindT = kindParam(ps.Emit).Type()
		allInstrs(ps.Emit, func(i ssa.Instruction) {
			st, ok := i.(*ssa.Store)
			if !ok {
				return
			}
			fa, ok := st.Addr.(*ssa.FieldAddr)
			if !ok || namedOf(fa.X.Type()) != ps.LexerT || ps.PosF == nil {
				return
			}
			if path(st.Val).lastField() == ps.PosF {
				ps.StartF = fieldOf(fa.X.Type(), fa.Field)
			}
		})
	}
	if ps.KindT == nil {
		if n := w.namedType(pkgParser, "itemType"); n != nil {
			ps.KindT = n
		} else {
			ps.why["token kind type"] = "no lexer method sends a token built from a kind parameter"
		}
	}
	if ps.StartF == nil {
		if ps.StartF = structFieldNamed(ps.LexerT, "start"); ps.StartF == nil {
			ps.why["lexer start"] = "the emitting method does not move a start-of-token field up to the position"
		}
	}

	// ---- errorf of the lexer: sends and returns a state
	isErrLike := func(f *ssa.Function) bool {
		return ps.isLexMethod(f) && ps.StateT != nil && f.Signature.Results().Len() == 1 && types.Identical(f.Signature.Results().At(0).Type(), ps.StateT) && ps.sends(f)
	}
	ps.LexErrorf = ps.choose("lexer errorf", hasName(lm, "errorf"), isErrLike, filterFns(lm, isErrLike))
	if ps.LexErrorf != nil && ps.KindT != nil {
		allInstrs(ps.LexErrorf, func(i ssa.Instruction) {
			if st, ok := i.(*ssa.Store); ok {
				if k, ok := st.Val.(*ssa.Const); ok && k.Value != nil && types.Identical(k.Type(), ps.KindT) {
					ps.ErrKind = k.Value
				}
			}
		})
	}

	// ---- token sources: functions whose single result is a token and that receive from the lexer's channel
	if ps.TokenT != nil {
		recv := func(i ssa.Instruction) bool {
			u, ok := i.(*ssa.UnOp)
			return ok && u.Op == token.ARROW && (ps.ChanF == nil || path(u.X).lastField() == ps.ChanF)
		}
		for _, fn := range w.ModFuncs {
			if w.pkgPathOf(fn) != pkgParser || fn.Parent() != nil || fn.Blocks == nil || fn.Signature.Results().Len() != 1 {
				continue
			}
			if rt, ok := fn.Signature.Results().At(0).Type().(*types.Named); !ok || rt != ps.TokenT {
				continue
			}
			if c.fc.mayContain(fn, recv, 2) {
				ps.tokenSrc[fn] = true
			}
		}
	}

	// ---- the end-of-input token kind: what a state emits when the current rune is the end-of-input marker
	if ps.EOFRune != nil && ps.KindT != nil {
		isCur := func(v ssa.Value) bool {
			seen := map[ssa.Value]bool{}
			var visit func(v ssa.Value) bool
			visit = func(v ssa.Value) bool {
				v = peelConv(v)
				if seen[v] {
					return true
				}
				seen[v] = true
				switch x := v.(type) {
				case *ssa.Call:
					f := calleeFunc(&x.Call)
					return f != nil && (f == ps.Next || f == ps.Peek)
				case *ssa.Phi:
					for _, e := range x.Edges {
						if !visit(e) {
							return false
						}
					}
					return len(x.Edges) > 0
				}
				return false
			}
			return visit(v)
		}
		found := map[string]constant.Value{}
		for _, st := range ps.States {
			allInstrs(st, func(i ssa.Instruction) {
				call, ok := i.(*ssa.Call)
				if !ok {
					return
				}
				arg, ok := ps.emitKindArg(call)
				if !ok {
					return
				}
				k, ok := peelConv(arg).(*ssa.Const)
				if !ok || k.Value == nil {
					return
				}
				for _, cm := range cmpsAt(call) {
					if cm.Op != token.EQL || cm.Y == nil {
						continue
					}
					for _, p := range [][2]ssa.Value{{cm.X, cm.Y}, {cm.Y, cm.X}} {
						if kv, isK := constInt(p[1]); isK && kv == *ps.EOFRune && isCur(p[0]) {
							found[k.Value.ExactString()] = k.Value
						}
					}
				}
			})
		}
		if len(found) == 1 {
			for _, v := range found {
				ps.EOFKind = v
			}
		} else if len(found) > 1 {
			ps.why["eof kind"] = "the states emit different token kinds at the end of the input"
		}
	}
	if ps.EOFKind == nil {
		if k := w.constant(pkgParser, "itemEOF"); k != nil && k.Value != nil && k.Value.Value != nil {
			ps.EOFKind = k.Value.Value
			delete(ps.why, "eof kind")
		} else if ps.why["eof kind"] == "" {
			ps.why["eof kind"] = "no state function emits a constant token kind where the current rune is known to be the end-of-input marker"
		}
	}
}

func (ps *parserShape) resolveParser() {
	c, w := ps.c, ps.c.w
	// ---- parser type: the struct holding the lexer
	if ps.LexerT != nil {
		var cands []*types.Named
		for _, n := range parserNamedTypes(w) {
			st, ok := n.Underlying().(*types.Struct)
			if !ok || n == ps.LexerT {
				continue
			}
			for i := 0; i < st.NumFields(); i++ {
				if namedOf(st.Field(i).Type()) == ps.LexerT {
					cands = append(cands, n)
					break
				}
			}
		}
		switch {
		case len(cands) == 1:
			ps.ParserT = cands[0]
		case len(cands) > 1:
			for _, n := range cands {
				if n.Obj().Name() == "parser" {
					ps.ParserT = n
				}
			}
			if ps.ParserT == nil {
				ps.why["parser type"] = "several struct types hold a lexer"
			}
		}
	}
	if ps.ParserT == nil {
		if ps.ParserT = w.namedType(pkgParser, "parser"); ps.ParserT == nil && ps.why["parser type"] == "" {
			ps.why["parser type"] = "no struct type of the parser package holds the lexer"
		}
	}
	for _, fn := range w.ModFuncs {
		if w.pkgPathOf(fn) == pkgParser && fn.Parent() == nil && fn.Blocks != nil && fn.Signature.Recv() != nil && ps.ParserT != nil && namedOf(fn.Signature.Recv().Type()) == ps.ParserT {
			ps.parserMethods = append(ps.parserMethods, fn)
		}
	}
	pm := ps.parserMethods

	// ---- parse: what ParseQuery calls to obtain the query
	pq := w.fn(pkgParser, "ParseQuery")
	yieldsQuery := func(f *ssa.Function) bool {
		if f == nil || f.Blocks == nil || w.pkgPathOf(f) != pkgParser || f.Parent() != nil {
			return false
		}
		res := f.Signature.Results()
		for i := 0; i < res.Len(); i++ {
			if _, isPtr := res.At(i).Type().(*types.Pointer); isPtr && typeIs(res.At(i).Type(), pkgProto, "Query") {
				return true
			}
		}
		return false
	}
	if pq != nil {
		var cands []*ssa.Function
		seen := map[*ssa.Function]bool{}
		allInstrs(pq, func(i ssa.Instruction) {
			if call, ok := i.(*ssa.Call); ok {
				if f := calleeFunc(&call.Call); f != nil && f != pq && yieldsQuery(f) && !seen[f] {
					seen[f] = true
					cands = append(cands, f)
				}
			}
		})
		ps.Parse = ps.choose("parse", hasName(pm, "parse"), func(f *ssa.Function) bool { return yieldsQuery(f) && seen[f] }, cands)
	}
	if ps.Parse == nil {
		if g := hasName(pm, "parse"); g != nil && yieldsQuery(g) {
			ps.Parse = g
			delete(ps.why, "parse")
		}
	}
	// ---- errorf of the parser: the method that never returns
	isDiverging := func(f *ssa.Function) bool { return c.fc.noreturn[f] }
	ps.PErrorf = ps.choose("parser errorf", hasName(pm, "errorf"), isDiverging, filterFns(pm, isDiverging))

	// ---- lex / run: the function that starts the lexer goroutine and the function the goroutine runs
	for _, fn := range w.ModFuncs {
		if w.pkgPathOf(fn) != pkgParser {
			continue
		}
		allInstrs(fn, func(i ssa.Instruction) {
			if g, ok := i.(*ssa.Go); ok {
				if sp := calleeFunc(&g.Call); sp != nil && ps.isLexMethod(sp) && ps.LexRun == nil {
					ps.LexRun, ps.LexNew = sp, fn
				}
			}
		})
	}
	if ps.LexRun == nil {
		ps.LexRun = hasName(ps.lexMethods, "run")
	}
	if ps.LexNew == nil {
		ps.LexNew = w.fn(pkgParser, "lex")
	}

	// ---- grammar functions, by the oneof wrappers they build
	qe := w.namedType(pkgProto, "Query_Expression")
	vf := structFieldNamed(qe, "Value")
	if vf == nil {
		return
	}
	iface, _ := vf.Type().(*types.Named)
	if iface == nil {
		return
	}
	kindOf := map[*types.Named]string{}
	for _, wr := range w.implementers(pkgProto, iface) {
		if st, ok := wr.Underlying().(*types.Struct); ok && st.NumFields() > 0 {
			if m := namedOf(st.Field(0).Type()); m != nil {
				kindOf[wr] = strings.TrimPrefix(m.Obj().Name(), "Query_Expression_")
			}
		}
	}
	isExprFn := func(f *ssa.Function) bool {
		return f != nil && f.Signature.Results().Len() == 1 && typeIs(f.Signature.Results().At(0).Type(), pkgProto, "Query_Expression")
	}
	exprFns := filterFns(pm, isExprFn)
	// What a grammar function builds: the wrappers it allocates itself and those of the node constructors it hands its
	// operands to — `return newAndExpr(exprs)`, or a constructor selected through a constant package-level table
	// (`newChainExpr := chainOperators[op]; … return newChainExpr(exprs)`: one function parsing both chains then builds
	// And and Or). Only functions that cannot parse (parsesNothing) are looked into, so a grammar function is never
	// credited with what another grammar function builds.
	var kindsBuilt func(f *ssa.Function, into map[string]bool, depth int)
	kindsBuilt = func(f *ssa.Function, into map[string]bool, depth int) {
		allInstrs(f, func(i ssa.Instruction) {
			switch x := i.(type) {
			case *ssa.Alloc:
				if k, ok := kindOf[namedOf(x.Type())]; ok {
					into[k] = true
				}
			case *ssa.Call:
				if depth >= 3 || x.Call.IsInvoke() || !typeIs(x.Type(), pkgProto, "Query_Expression") {
					return
				}
				targets, _ := ps.funcTargets(x.Call.Value)
				for _, g := range targets {
					if g != f && ps.parsesNothing(g) {
						kindsBuilt(g, into, depth+1)
					}
				}
			}
		})
	}
	builds := map[*ssa.Function]map[string]bool{}
	for _, f := range exprFns {
		b := map[string]bool{}
		kindsBuilt(f, b, 0)
		builds[f] = b
	}
	builder := func(kind string, only bool) func(*ssa.Function) bool {
		return func(f *ssa.Function) bool { return builds[f][kind] && (!only || len(builds[f]) == 1) }
	}
	ps.ParseAnd = ps.choose("and-expression parser", hasName(pm, "parseAndExpr"), isExprFn, filterFns(exprFns, builder("And", false)))
	ps.ParseOr = ps.choose("or-expression parser", hasName(pm, "parseOrExpr"), isExprFn, filterFns(exprFns, builder("Or", false)))
	ps.ParseSimple = ps.choose("simple-expression parser", hasName(pm, "parseSimpleExpr"), isExprFn, filterFns(exprFns, builder("Not", false)))
	ps.ParseComparison = ps.choose("comparison parser", hasName(pm, "parseComparison"), isExprFn, filterFns(exprFns, builder("Equal", true)))
	callsOperator := func(f *ssa.Function) bool { return callsDirectly(f, ps.ParseAnd) || callsDirectly(f, ps.ParseOr) }
	isGroupedLike := func(f *ssa.Function) bool {
		if len(builds[f]) != 0 {
			return false
		}
		if callsOperator(f) {
			// the function that parses the chains may be the whole `expr` production (it parses the first operand itself,
			// no dispatcher in front of it): the grouped-expression function then calls it directly. It is told from a
			// dispatcher by its caller: the simple-expression function.
			return f != ps.ParseSimple && callsDirectly(ps.ParseSimple, f)
		}
		for _, g := range exprFns {
			if g != f && callsOperator(g) && callsDirectly(f, g) {
				return true
			}
		}
		return false
	}
	ps.ParseGrouped = ps.choose("grouped-expression parser", hasName(pm, "parseGroupedExpr"), isExprFn, filterFns(exprFns, isGroupedLike))
}

// globalMapFuncs: the functions held by a package-level map of function values that is built once in the package
// initialiser and never written anywhere else (decided by globalMapIntKeys, so the keys are integer constants: token kinds).
func globalMapFuncs(c *Ctx, g *ssa.Global) ([]*ssa.Function, bool) {
	if _, ok := globalMapIntKeys(c, g); !ok {
		return nil, false
	}
	init := g.Pkg.Func("init")
	var mk ssa.Value
	allInstrs(init, func(i ssa.Instruction) {
		if st, ok := i.(*ssa.Store); ok && st.Addr == ssa.Value(g) {
			mk = st.Val
		}
	})
	var out []*ssa.Function
	okAll := true
	allInstrs(init, func(i ssa.Instruction) {
		mu, ok := i.(*ssa.MapUpdate)
		if !ok || mu.Map != mk {
			return
		}
		switch v := peelConv(mu.Value).(type) {
		case *ssa.Function:
			out = append(out, v)
		case *ssa.MakeClosure:
			if f, ok := v.Fn.(*ssa.Function); ok {
				out = append(out, f)
			} else {
				okAll = false
			}
		default:
			okAll = false
		}
	})
	return out, okAll && len(out) > 0
}

// funcTargets: the functions a called value can denote — a function or closure itself, an entry of a constant
// package-level table of functions (`table[kind]`, with or without the presence flag), or a phi of such values. false
// if some possibility cannot be resolved (a parameter, a field, a table that is written elsewhere).
func (ps *parserShape) funcTargets(v ssa.Value) ([]*ssa.Function, bool) {
	seen := map[ssa.Value]bool{}
	var out []*ssa.Function
	var visit func(v ssa.Value, depth int) bool
	visit = func(v ssa.Value, depth int) bool {
		v = peelConv(v)
		if seen[v] {
			return true
		}
		seen[v] = true
		if depth > 4 {
			return false
		}
		switch x := v.(type) {
		case *ssa.Function:
			out = append(out, x)
			return true
		case *ssa.MakeClosure:
			f, ok := x.Fn.(*ssa.Function)
			if ok {
				out = append(out, f)
			}
			return ok
		case *ssa.Extract:
			if lk, ok := x.Tuple.(*ssa.Lookup); ok && x.Index == 0 {
				return visit(lk, depth)
			}
		case *ssa.Lookup:
			if ld, ok := x.X.(*ssa.UnOp); ok && ld.Op == token.MUL {
				if g, ok := ld.X.(*ssa.Global); ok {
					fs, ok := globalMapFuncs(ps.c, g)
					out = append(out, fs...)
					return ok
				}
			}
		case *ssa.Phi:
			for _, e := range x.Edges {
				if !visit(e, depth+1) {
					return false
				}
			}
			return true
		}
		return false
	}
	if !visit(v, 0) {
		return nil, false
	}
	return out, true
}

// parsesNothing: f is a function of the parser package that cannot take part in parsing — it neither is a method of
// the parser or the lexer nor is handed (or captures) one, and nothing it calls receives from a channel or is a token
// source. An expression-valued function of this kind (newAndExpr(exprs), a literal in a constructor table) only wraps
// the operands it is given: a node constructor.
func (ps *parserShape) parsesNothing(f *ssa.Function) bool {
	if f == nil || f.Blocks == nil || ps.c.w.pkgPathOf(f) != pkgParser || len(f.FreeVars) != 0 || ps.ParserT == nil {
		return false
	}
	for _, p := range f.Params { // (the receiver is the first parameter)
		if n := namedOf(p.Type()); n != nil && (n == ps.ParserT || n == ps.LexerT) {
			return false
		}
	}
	return !ps.c.fc.mayContain(f, func(i ssa.Instruction) bool {
		if u, ok := i.(*ssa.UnOp); ok && u.Op == token.ARROW {
			return true
		}
		if cc := callCommon(i); cc != nil {
			if cc.IsInvoke() {
				return false
			}
			g := calleeFunc(cc)
			if g == nil {
				if _, isBuiltin := cc.Value.(*ssa.Builtin); isBuiltin {
					return false
				}
				return true // a function value: what it does is unknown
			}
			return ps.isTokenSource(g) || (ps.ParserT != nil && g.Signature.Recv() != nil && namedOf(g.Signature.Recv().Type()) == ps.ParserT)
		}
		return false
	}, 4)
}
