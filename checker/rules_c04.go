package main

import (
	"fmt"
	"go/token"
	"go/types"
	"sort"

	"golang.org/x/tools/go/ssa"
)

func init() {
	register(&propDef{
		id:  "C04",
		run: runC04,
		explanation: "Decided (structural, for every schedule): for the concurrent entry set {Index.Execute, Index.GetSchema, LRUCache.Get, LRUCache.Put} and everything reachable from it — " +
			"C04.guarded: every write to shared (not freshly created) state lies in an exclusive critical section of a mutex of the object it belongs to, and every read of a field that is written there holds that mutex at least shared (lock-state dataflow with exact defer modelling; a recency-list update in Get counts as a write); " +
			"C04.immutable: no write at all to Index, schema, column or the column getters; C04.noargwrite: no write to the caller's Query/expression tree; " +
			"C04.globals: no write to package-level variables, and append on a package-level slice only if its capacity equals its length forever; " +
			"C04.inplace (= C03.pure: stored, preloaded and cached bitmaps are shared by concurrent queries without a lock of their own, so every mutating roaring method must have a receiver created by the calling function); " +
			"C04.views: bbolt is used only through read-only transactions; C04.lockbalance: every mutex field a reachable function acquires is released (directly or by a deferred unlock registered on that path) on every path to every return, so no call leaves a lock behind that blocks all later calls. Together: race freedom of updog's own memory for every interleaving. " +
			"NOT decided: that every call returns exactly the sequential result (follows from race freedom + C03.pure + determinism of roaring; not checked as such); thread-safety of concurrent reads inside roaring, bbolt read transactions and prometheus metrics (trusted).",
		assumptions: []string{"sync.Mutex/RWMutex semantics", "concurrent reads of roaring bitmaps and bbolt read transactions are safe (dependencies)", "call graph over-approximates"},
	})
}

func mutexFieldOf(n *types.Named) *types.Var {
	st, ok := n.Underlying().(*types.Struct)
	if !ok {
		return nil
	}
	for i := 0; i < st.NumFields(); i++ {
		f := st.Field(i)
		if typeIs(f.Type(), "sync", "Mutex") || typeIs(f.Type(), "sync", "RWMutex") {
			if _, isPtr := f.Type().(*types.Pointer); !isPtr {
				return f
			}
		}
	}
	return nil
}

func concurrentEntries(c *Ctx) []*ssa.Function {
	return []*ssa.Function{c.a.Execute, c.a.GetSchema, c.a.LRUGet, c.a.LRUPut}
}

func runC04(c *Ctx) {
	if !c.need("C04.guarded", c.a.Execute, c.a.GetSchema, c.a.LRUGet, c.a.LRUPut, c.a.IndexT, c.a.SchemaT, c.a.ColumnT, c.a.PreloadedT, c.a.OnDemandT) {
		return
	}
	entries := concurrentEntries(c)
	re := c.w.reach(entries...)
	c.r.Stats["reachable_functions"] = len(re.Funcs)
	guardedRule(c, "C04.guarded", entries, re)
	readonlyRule(c, "C04.immutable", entries, map[*types.Named]bool{c.a.IndexT: true, c.a.SchemaT: true, c.a.ColumnT: true, c.a.PreloadedT: true, c.a.OnDemandT: true},
		"index state must be immutable while queries run concurrently")
	readonlyRule(c, "C04.noargwrite", entries, exprProtected(c), "a Query shared by two goroutines would be written under the index's read lock")
	globalsRule(c, "C04.globals", re)
	boltReadOnlyRule(c, "C04.views", re)
	// bitmaps handed out by the getters and caches are shared between concurrent queries without any lock: mutating one in
	// place is a data race whatever mutex the mutating code happens to hold
	c03PureAs(c, "C04.inplace")
	lockBalanceRule(c, "C04.lockbalance", entries...) // a query that returns with a mutex held blocks every later query: "every call returns"
	c.r.expect("C04.guarded", 4)
	c.r.expect("C04.immutable", 10)
}

// guardedRule: every non-fresh write in the reachable set is under an exclusive lock belonging to an object on its
// access path; every read of a field so written holds that lock at least shared.
func guardedRule(c *Ctx, rule string, entries []*ssa.Function, re *Reach) {
	fr := newFresh(c)
	la := newLockAn(c, entries, re.Funcs)
	for _, p := range la.Problems {
		c.r.undecided(rule, safeFname(p.ins.Parent())+": defer", p.msg, c.w.ipos(p.ins))
	}
	guardFor := map[*types.Var]*types.Var{} // written field -> mutex field guarding it
	ownerName := func(f *types.Var) string {
		if o := c.w.ownerOf(f); o != nil {
			return o.Obj().Name() + "." + f.Name()
		}
		return f.Name()
	}
	type wsite struct {
		e     writeEv
		guard *types.Var
	}
	written := map[*types.Var]bool{}
	nW := 0
	for _, fn := range re.sorted() {
		for _, e := range fr.writes(fn) {
			if e.Fresh {
				continue
			}
			unpublished, publishedAt := publicationBefore(e)
			if unpublished {
				continue // the object is still being built: nothing else can see it before it is handed on (rules_ag29.go)
			}
			flds := e.fields()
			if len(flds) == 0 {
				// write through a non-fresh reference that is not a struct field (e.g. caller's slice): report unless locked exclusively
				if _, isGlobal := e.Target.Root.(*ssa.Global); isGlobal {
					continue // globalsRule
				}
			}
			nW++
			// candidate guards: mutexes of structs on the path (outermost first)
			var guard *types.Var
			for _, f := range flds {
				if o := c.w.ownerOf(f); o != nil {
					if m := mutexFieldOf(o); m != nil {
						guard = m
						break
					}
				}
			}
			st := la.stateAt(e.Ins)
			key := fmt.Sprintf("%s: %s", safeFname(fn), e.Kind)
			last := "(non-field memory)"
			if len(flds) > 0 {
				last = ownerName(flds[len(flds)-1])
				key += " " + last
			}
			if guard == nil {
				// no mutex-bearing struct on the path: accept only if some exclusive lock is held
				var held []*types.Var
				for m, mode := range st {
					if mode == lkW {
						held = append(held, m)
					}
				}
				if len(held) == 0 {
					msg := "write to shared state " + last + " with no lock held, and no object on its access path has a mutex"
					if publishedAt != nil {
						msg += "; the object is created in this function, but it has already been handed on at " + c.w.ipos(publishedAt) + " when it is written: complete an object before publishing it"
					}
					c.r.bad(rule, key, msg, []string{c.w.ipos(e.Ins)}, re.chain(fn)...)
					continue
				}
				sort.Slice(held, func(i, j int) bool { return held[i].Pos() < held[j].Pos() })
				guard = held[0]
			}
			if st[guard] != lkW {
				mode := map[int]string{lkU: "not held", lkR: "held only shared"}[st[guard]]
				c.r.bad(rule, key, fmt.Sprintf("write to shared state %s while %s is %s on some path", last, ownerName(guard), mode), []string{c.w.ipos(e.Ins)}, re.chain(fn)...)
				continue
			}
			for _, f := range flds {
				if _, ok := guardFor[f]; !ok {
					guardFor[f] = guard
				}
				written[f] = true
			}
			c.r.ok(rule, key, "under exclusive "+ownerName(guard), c.w.ipos(e.Ins))
		}
	}
	// reads of written fields
	nR := 0
	for _, fn := range re.sorted() {
		for _, a := range fieldAccesses(fn, written) {
			if a.Write {
				continue // covered above through the write census (fresh ones excluded there)
			}
			// skip accesses on objects created in this function (constructors)
			if fa, ok := a.Ins.(ssa.Value); ok {
				_ = fa
			}
			g := guardFor[a.Field]
			if g == nil {
				continue
			}
			if baseFresh(fr, a.Ins) || baseDetached(a.Ins) {
				continue
			}
			nR++
			st := la.stateAt(a.Ins)
			key := fmt.Sprintf("%s: read %s", safeFname(fn), ownerName(a.Field))
			if st[g] == lkU {
				c.r.bad(rule, key, fmt.Sprintf("%s of %s, which is written concurrently, without holding %s", a.What, ownerName(a.Field), ownerName(g)), []string{c.w.ipos(a.Ins)}, re.chain(fn)...)
			} else {
				c.r.ok(rule, key, "under "+ownerName(g), c.w.ipos(a.Ins))
			}
		}
	}
	c.r.Stats["shared_writes_"+rule] = nW
	c.r.Stats["shared_reads_"+rule] = nR
}

// baseFresh: the struct whose field is accessed by ins was created in this function.
func baseFresh(fr *Fresh, ins ssa.Instruction) bool {
	var ops []*ssa.Value
	ops = ins.Operands(ops)
	for _, op := range ops {
		if op == nil || *op == nil {
			continue
		}
		if fa, ok := (*op).(*ssa.FieldAddr); ok {
			if fr.level(fa.X) >= shallow {
				return true
			}
		}
	}
	return false
}

// globalsRule: no store to package-level variables in the reachable set; append on a global slice only if cap==len forever.
func globalsRule(c *Ctx, rule string, re *Reach) {
	n := 0
	for _, fn := range re.sorted() {
		allInstrs(fn, func(i ssa.Instruction) {
			switch x := i.(type) {
			case *ssa.Store:
				p := path(x.Addr)
				if g, ok := p.Root.(*ssa.Global); ok && c.w.Pkgs[g.Pkg.Pkg.Path()] != nil {
					n++
					c.r.bad(rule, safeFname(fn)+": store "+g.Name(), "package-level variable written from concurrently callable code", []string{c.w.ipos(i)}, re.chain(fn)...)
				}
			case *ssa.Call:
				if b, ok := x.Call.Value.(*ssa.Builtin); ok && b.Name() == "append" && len(x.Call.Args) > 1 {
					if ld, ok := x.Call.Args[0].(*ssa.UnOp); ok {
						if g, ok := ld.X.(*ssa.Global); ok {
							n++
							if why := capEqLenForever(c, g); why != "" {
								c.r.bad(rule, safeFname(fn)+": append "+g.Name(), "append on a package-level slice that may have spare capacity writes shared memory: "+why, []string{c.w.ipos(i)}, re.chain(fn)...)
							} else {
								c.r.ok(rule, safeFname(fn)+": append "+g.Name(), "global is initialised by a composite literal and never assigned or address-taken: cap == len, append always copies", c.w.ipos(i))
							}
						}
					}
				}
			}
		})
	}
	if n == 0 {
		c.r.ok(rule, "<none>", "no package-level variable is written or appended to in the reachable set")
	}
}

// capEqLenForever returns "" if global slice g provably has cap == len for the whole run, else the reason it may not.
func capEqLenForever(c *Ctx, g *ssa.Global) string {
	nStores := 0
	why := ""
	for _, fn := range c.w.ModFuncs {
		allInstrs(fn, func(i ssa.Instruction) {
			var ops []*ssa.Value
			for _, op := range i.Operands(ops) {
				if op == nil || *op != ssa.Value(g) {
					continue
				}
				switch x := i.(type) {
				case *ssa.UnOp: // load
				case *ssa.Store:
					if x.Addr != ssa.Value(g) {
						why = "its address is stored at " + c.w.ipos(i)
						return
					}
					nStores++
					if fn.Name() != "init" {
						why = "it is assigned at " + c.w.ipos(i)
						return
					}
					sl, ok := x.Val.(*ssa.Slice)
					if !ok || sl.Low != nil || sl.High != nil || sl.Max != nil {
						why = "its initialiser at " + c.w.ipos(i) + " is not a composite literal (capacity may exceed length)"
						return
					}
					if _, ok := sl.X.(*ssa.Alloc); !ok {
						why = "its initialiser at " + c.w.ipos(i) + " is not a composite literal"
					}
				default:
					why = "its address is taken at " + c.w.ipos(i)
				}
			}
		})
	}
	// the init function of the package is synthetic and not in ModFuncs: look there too
	if init := g.Pkg.Func("init"); init != nil {
		allInstrs(init, func(i ssa.Instruction) {
			if x, ok := i.(*ssa.Store); ok && x.Addr == ssa.Value(g) {
				nStores++
				sl, ok := x.Val.(*ssa.Slice)
				if !ok || sl.Low != nil || sl.High != nil || sl.Max != nil {
					why = "its initialiser at " + c.w.ipos(i) + " is not a composite literal (capacity may exceed length)"
					return
				}
				if _, ok := sl.X.(*ssa.Alloc); !ok {
					why = "its initialiser at " + c.w.ipos(i) + " is not a composite literal"
				}
			}
		})
	}
	if why == "" && nStores != 1 {
		why = fmt.Sprintf("it has %d initialising stores", nStores)
	}
	return why
}

// baseDetached: the struct whose field ins reads was taken out of the shared container by this computation: its
// pointer derives only from results of (*list.List).Remove, possibly collected in a local slice variable (also one
// captured by a deferred closure) by append. Such an object is no longer reachable through the list; the map entry
// that led to its element is deleted in the same critical section (C07.keymatch requires that), so after the removal
// only this goroutine holds it.
func baseDetached(ins ssa.Instruction) bool {
	var ops []*ssa.Value
	ops = ins.Operands(ops)
	for _, op := range ops {
		if op == nil || *op == nil {
			continue
		}
		v := *op
		if ld, ok := v.(*ssa.UnOp); ok && ld.Op == token.MUL {
			v = ld.X // the loaded field value is what is passed on
		}
		if fa, ok := v.(*ssa.FieldAddr); ok {
			if removedFromList(fa.X, 0, map[ssa.Value]bool{}) {
				return true
			}
		}
	}
	return false
}

func removedFromList(v ssa.Value, depth int, seen map[ssa.Value]bool) bool {
	if depth > 8 || seen[v] {
		return depth <= 8 // a cycle through a loop-carried slice adds nothing new
	}
	seen[v] = true
	switch x := v.(type) {
	case *ssa.TypeAssert:
		return removedFromList(x.X, depth+1, seen)
	case *ssa.Extract:
		return removedFromList(x.Tuple, depth+1, seen)
	case *ssa.ChangeType:
		return removedFromList(x.X, depth+1, seen)
	case *ssa.Call:
		return calleeName(&x.Call) == "(*container/list.List).Remove"
	case *ssa.Phi:
		for _, e := range x.Edges {
			if !removedFromList(e, depth+1, seen) {
				return false
			}
		}
		return len(x.Edges) > 0
	case *ssa.UnOp:
		if x.Op != token.MUL {
			return false
		}
		// element of a local slice: every value the slice variable ever holds is nil or append(itself, removed…)
		if ia, ok := x.X.(*ssa.IndexAddr); ok {
			return sliceOfRemoved(ia.X, depth+1, seen)
		}
		// a single-assignment local
		if vals, ok := cellValues(x.X); ok && len(vals) > 0 {
			for _, sv := range vals {
				if !removedFromList(sv, depth+1, seen) {
					return false
				}
			}
			return true
		}
	}
	return false
}

func sliceOfRemoved(s ssa.Value, depth int, seen map[ssa.Value]bool) bool {
	if depth > 8 {
		return false
	}
	if seen[s] {
		return true
	}
	seen[s] = true
	switch x := s.(type) {
	case *ssa.Const:
		return x.IsNil()
	case *ssa.Phi:
		for _, e := range x.Edges {
			if !sliceOfRemoved(e, depth+1, seen) {
				return false
			}
		}
		return len(x.Edges) > 0
	case *ssa.UnOp:
		if x.Op != token.MUL {
			return false
		}
		vals, ok := cellValues(x.X)
		if !ok || len(vals) == 0 {
			return false
		}
		for _, sv := range vals {
			if !sliceOfRemoved(sv, depth+1, seen) {
				return false
			}
		}
		return true
	case *ssa.Call:
		if b, ok := x.Call.Value.(*ssa.Builtin); ok && b.Name() == "append" && len(x.Call.Args) == 2 {
			if !sliceOfRemoved(x.Call.Args[0], depth+1, seen) {
				return false
			}
			el := variadicElem(x.Call.Args[1])
			return el != nil && removedFromList(el, depth+1, seen)
		}
	}
	return false
}
