package main

import (
	"encoding/json"
	"fmt"
	"io"
	"os"
	"os/exec"
	"path/filepath"
	"sort"
	"strings"
	"sync"
)

// Self-test of the checker's sensitivity (thorough tier only; information, never part of the verdict).
//
// For the property being checked, every stored variant of /repo with one instance broken — the hand-written mutants in
// checker/mutants/*.json and the independently seeded changes in seeded/<id>/patch.diff — is applied to a scratch copy of
// the CURRENT working tree (under os.MkdirTemp, removed afterwards) and the property's rules are run on it statically.
// A variant that still applies must be reported by a rule of this property. This is the "positive example that must
// match on every run": it shows on every thorough run that the rules have not silently stopped matching, also for rules
// that have no instance or no violation on the real tree. Nothing of updog is executed.

type mutantDef struct {
	ID     string `json:"id"`
	Prop   string `json:"prop"`
	Expect string `json:"expect"`
	Base   string `json:"base"` // optional: a behaviour-preserving patch (path relative to /verif) applied before the edits
	Edits  []struct {
		File string `json:"file"`
		Old  string `json:"old"`
		New  string `json:"new"`
	} `json:"edits"`
}

type variant struct {
	id     string
	expect string // substring a reported obligation key must contain
	mutant *mutantDef
	patch  string
}

func copyTree(src, dst string) error {
	return filepath.Walk(src, func(p string, info os.FileInfo, err error) error {
		if err != nil {
			return err
		}
		rel, _ := filepath.Rel(src, p)
		if rel == ".git" || strings.HasPrefix(rel, ".git"+string(filepath.Separator)) {
			if info.IsDir() {
				return filepath.SkipDir
			}
			return nil
		}
		target := filepath.Join(dst, rel)
		if info.IsDir() {
			return os.MkdirAll(target, 0o755)
		}
		if !info.Mode().IsRegular() {
			return nil
		}
		in, err := os.Open(p)
		if err != nil {
			return err
		}
		defer in.Close()
		out, err := os.OpenFile(target, os.O_CREATE|os.O_WRONLY|os.O_TRUNC, info.Mode().Perm())
		if err != nil {
			return err
		}
		defer out.Close()
		_, err = io.Copy(out, in)
		return err
	})
}

func selfTest(propID, repo, verif string) map[string]interface{} {
	var vs []variant
	files, _ := filepath.Glob(filepath.Join(verif, "checker", "mutants", "*.json"))
	sort.Strings(files)
	for _, f := range files {
		b, err := os.ReadFile(f)
		if err != nil {
			continue
		}
		var ms []mutantDef
		if json.Unmarshal(b, &ms) != nil {
			continue
		}
		for i := range ms {
			if ms[i].Prop == propID {
				vs = append(vs, variant{id: "mutant:" + ms[i].ID, expect: ms[i].Expect, mutant: &ms[i]})
			}
		}
	}
	seeds, _ := filepath.Glob(filepath.Join(verif, "seeded", propID+"-*", "patch.diff"))
	sort.Strings(seeds)
	for _, s := range seeds {
		// a seeded change the checks are known not to decide (meta.json known_miss, DESIGN §6.12) is no positive example
		if mb, err := os.ReadFile(filepath.Join(filepath.Dir(s), "meta.json")); err == nil {
			var meta struct {
				KnownMiss bool `json:"known_miss"`
			}
			if json.Unmarshal(mb, &meta) == nil && meta.KnownMiss {
				continue
			}
		}
		vs = append(vs, variant{id: "seed:" + filepath.Base(filepath.Dir(s)), expect: propID + ".", patch: s})
	}
	self, err := os.Executable()
	if err != nil || len(vs) == 0 {
		return map[string]interface{}{"variants": len(vs), "note": "no stored variants or executable path unknown"}
	}
	type res struct {
		id     string
		status string // reported | not-reported | not-applicable
		by     string
	}
	out := make([]res, len(vs))
	sem := make(chan struct{}, 8)
	var wg sync.WaitGroup
	for i := range vs {
		wg.Add(1)
		go func(i int) {
			defer wg.Done()
			sem <- struct{}{}
			defer func() { <-sem }()
			v := vs[i]
			out[i] = res{id: v.id, status: "not-applicable"}
			tmp, err := os.MkdirTemp("", "updogcheck-selftest.")
			if err != nil {
				return
			}
			defer os.RemoveAll(tmp)
			if copyTree(repo, tmp) != nil {
				return
			}
			if v.mutant != nil {
				if v.mutant.Base != "" {
					cmd := exec.Command("git", "apply", filepath.Join(verif, v.mutant.Base))
					cmd.Dir = tmp
					if cmd.Run() != nil {
						return
					}
				}
				for _, e := range v.mutant.Edits {
					p := filepath.Join(tmp, e.File)
					b, err := os.ReadFile(p)
					if err != nil || strings.Count(string(b), e.Old) != 1 {
						return
					}
					if os.WriteFile(p, []byte(strings.Replace(string(b), e.Old, e.New, 1)), 0o644) != nil {
						return
					}
				}
			} else {
				cmd := exec.Command("git", "apply", v.patch)
				cmd.Dir = tmp
				if cmd.Run() != nil {
					cmd = exec.Command("patch", "-p1", "-F3", "-s", "--no-backup-if-mismatch", "-i", v.patch)
					cmd.Dir = tmp
					if cmd.Run() != nil {
						return
					}
				}
			}
			cmd := exec.Command(self, "-repo", tmp, "-verif", verif, "-prop", propID, "-tier", "quick", "-no-evidence")
			b, _ := cmd.Output()
			out[i].status = "not-reported"
			for _, l := range strings.Split(string(b), "\n") {
				l = strings.TrimSpace(l)
				if !strings.HasPrefix(l, "violated ") && !strings.HasPrefix(l, "undecided ") {
					continue
				}
				if strings.Contains(l, propID+".load[") {
					// the variant does not type-check on this tree: not a usable positive example
					out[i].status = "not-applicable"
					return
				}
				if strings.Contains(l, v.expect) {
					out[i].status = "reported"
					by := l[strings.Index(l, " ")+1:]
					if k := strings.Index(by, " at "); k > 0 {
						by = by[:k]
					}
					out[i].by = by
					return
				}
			}
		}(i)
	}
	wg.Wait()
	n, app, rep := len(out), 0, 0
	var missed, samples []string
	for _, r := range out {
		switch r.status {
		case "reported":
			app++
			rep++
			if len(samples) < 4 {
				samples = append(samples, r.id+" -> "+r.by)
			}
		case "not-reported":
			app++
			missed = append(missed, r.id)
		}
	}
	if len(missed) > 0 {
		fmt.Fprintf(os.Stderr, "selftest WARNING: %d stored variant(s) of %s apply to this tree but were not reported: %s\n", len(missed), propID, strings.Join(missed, ", "))
	}
	fmt.Printf("%s selftest: %d stored variants, %d apply to this tree, %d reported by a rule of %s\n", propID, n, app, rep, propID)
	return map[string]interface{}{
		"what":         "stored broken variants of /repo (hand-written mutants + independently seeded changes) applied one at a time to a scratch copy of the current tree and analysed statically; informational, not part of the verdict",
		"variants":     n,
		"applicable":   app,
		"reported":     rep,
		"not_reported": missed,
		"examples":     samples,
	}
}
