package main

import (
	"fmt"
	"go/token"
	"go/types"
	"sort"
	"strings"

	"golang.org/x/tools/go/ssa"
)

func init() {
	register(&propDef{
		id:  "C05",
		run: runC05,
		explanation: "Decided (structural, for every AddRow sequence and both writers): " +
			"C05.rowid — ids are the row counter read under the lock, the counter only ever becomes counter+1, exactly once per successful AddRow (= C18.rowid; so ids are 0,1,2,… in call order); C05.siblings — both AddRow implementations pass every (column, value) pair of the row to schema.add and record the row under the index it returns; " +
			"C05.persist — path-sensitive typestate of the big writer's Flush (loops unrolled, phis resolved per path, nil tests pruned): no bitmap method is called on a nil bitmap, no bitmap that received row ids is replaced or left at a successful return without having been serialised into the data bucket (first key with hash 0, last bitmap, every bitmap in between); " +
			"C05.txlife — path-sensitive typestate of bbolt transactions in both writers: after Commit no method is called on that transaction or on a bucket obtained from it until both are re-derived (the 1001st value of the in-memory writer); " +
			"C05.flushorder — the big writer commits its pending temp transaction before it opens the read transaction on the temp database; " +
			"C05.sorted — slices filled while ranging over the schema's maps (GetSchema: columns and values) are sorted ascending by their string key before use, or are slices.Sorted over the maps' keys, and are not reversed afterwards; " +
			"C05.codec — writers and readers of the three record kinds (bitmap key, row counter, temp key) agree on byte order, width and offsets (= C01.codec); C05.schemaenc — both writers gob-encode their schema field under the schema key (also when the encoded bytes travel as an argument of a storage helper or as the value field of an entry of an encoded entry list that a helper stores with Put(e.key, e.value)), every successful flush has stored it, and the open function decodes that key into the same type; C05.rowcount — the row counter written (directly, through a helper parameter or as an entry of an encoded entry list) by every successful flush is the writer's own counter field (one per AddRow call, also for rows without columns; 'own' = selected from the writer object, also when the field sits in a struct the writer holds by value, such as a header embedded in both writers and the Index — the same holds for the schema field of C05.schemaenc); C05.schemaadd — every path through schema.add finds or enters both the column and the value in the schema maps before it returns an index. " +
			"NOT decided: observational identity of the two writers' outputs and exact schema/value sets (values); idempotence of reopening beyond the file not being written (C16).",
		assumptions: []string{"bbolt: a transaction and its buckets are invalid after Commit", "roaring ToBytes serialises the whole bitmap", "encoding/gob round-trips the schema type", "loops unrolled up to 3 iterations cover the first/next/same-value cases of the merge loop"},
	})
}

func runC05(c *Ctx) {
	if !c.need("C05.persist", c.a.BigFlush, c.a.MemWrite, c.a.BigAddRow, c.a.MemAddRow, c.a.GetSchema, c.a.OpenFromDB, c.a.MemWriterT, c.a.BigWriterT) {
		return
	}
	for _, wr := range []struct {
		name   string
		addRow *ssa.Function
		typ    *types.Named
	}{{"IndexWriter", c.a.MemAddRow, c.a.MemWriterT}, {"BigIndexWriter", c.a.BigAddRow, c.a.BigWriterT}} {
		rowidRule(c, "C05.rowid", wr.name, wr.addRow, wr.typ)
		siblingsRule(c, "C05.siblings", wr.name, wr.addRow)
	}
	persistRule(c, "C05.persist", c.a.BigFlush)
	for _, fn := range []*ssa.Function{c.a.MemWrite, c.a.BigFlush, c.a.BigAddRow, c.a.NewBig} {
		txlifeRule(c, "C05.txlife", fn)
	}
	flushOrderRule(c, "C05.flushorder")
	nSorted := 0
	for _, f := range c.scope(c.a.GetSchema, 2) {
		nSorted += orderRule(c, "C05.sorted", f)
	}
	if n := nSorted; n < 2 {
		c.r.undecided("C05.sorted", "<vacuity>", fmt.Sprintf("GetSchema fills %d slice(s) from maps; 2 (columns, values) were confirmed on the reference tree", n))
	}
	codecRule(c, "C05.codec")
	schemaEncRule(c, "C05.schemaenc")
	rowCountRule(c, "C05.rowcount")
	schemaAddRule(c, "C05.schemaadd")
	keyInjRule(c, "C05.keyinj")
}

// siblingsRule: every pair of the row map goes through schema.add and the row is recorded under the returned index.
func siblingsRule(c *Ctx, rule, wname string, addRow *ssa.Function) {
	site := c.w.pos(addRow.Pos())
	var values ssa.Value
	for _, p := range addRow.Params {
		if _, ok := p.Type().Underlying().(*types.Map); ok {
			values = p
		}
	}
	fns := []*ssa.Function{addRow}
	// one level of delegation (see rowidRule)
	allInstrs(addRow, func(i ssa.Instruction) {
		if call, ok := i.(*ssa.Call); ok {
			if g := calleeFunc(&call.Call); g != nil && c.w.inModule(g) && g.Signature.Recv() != nil && addRow.Signature.Recv() != nil && types.Identical(g.Signature.Recv().Type(), addRow.Signature.Recv().Type()) {
				for _, a := range call.Call.Args {
					if a == values {
						fns = append(fns, g)
					}
				}
			}
		}
	})
	ok := false
	why := "no call of schema.add with the key and value of the row map's range"
	for _, fn := range fns {
		var vals ssa.Value
		for _, p := range fn.Params {
			if _, isMap := p.Type().Underlying().(*types.Map); isMap {
				vals = p
			}
		}
		allInstrs(fn, func(i ssa.Instruction) {
			call, isCall := i.(*ssa.Call)
			if !isCall || calleeFunc(&call.Call) != c.a.SchemaAdd {
				return
			}
			if len(call.Call.Args) < 3 {
				why = "schema.add is not called with the key and the value of a map entry (it takes other arguments)"
				return
			}
			k, v := call.Call.Args[1], call.Call.Args[2]
			ek, ok1 := k.(*ssa.Extract)
			ev, ok2 := v.(*ssa.Extract)
			if !ok1 || !ok2 || ek.Tuple != ev.Tuple || ek.Index != 1 || ev.Index != 2 {
				why = "schema.add is not called with (key, value) of the same map entry"
				return
			}
			nx, isNext := ek.Tuple.(*ssa.Next)
			if !isNext {
				return
			}
			rg, isRange := nx.Iter.(*ssa.Range)
			if !isRange || rg.X != vals {
				why = "schema.add is not fed from a range over the row's own value map"
				return
			}
			// the returned index is what the row is recorded under: it flows into getValueBitmap / the temp key
			used := false
			for _, u := range usesOf(call) {
				if uc, isC := u.(*ssa.Call); isC {
					name := calleeName(&uc.Call)
					if strings.HasSuffix(name, "PutUint64") || (calleeFunc(&uc.Call) != nil && c.w.inModule(calleeFunc(&uc.Call))) {
						used = true
					}
				}
			}
			if used {
				ok = true
			} else {
				why = "the value index returned by schema.add is not what the row is recorded under"
			}
		})
	}
	c.r.check(ok, rule, wname, "every (column, value) of the row goes through schema.add and is recorded under the returned index",
		"AddRow does not register every (column, value) pair of the row in the schema and record the row under that pair's index: "+why, site)
}

type pathViol struct {
	key, msg string
	pos      string
	trail    []string
}

func persistRule(c *Ctx, rule string, anchor *ssa.Function) {
	// the merge loop may have been moved into a helper of Flush: explore the function that creates the bitmaps
	fn := anchor
	for _, f := range c.scope(anchor, 2) {
		has := false
		allInstrs(f, func(i ssa.Instruction) {
			if call, ok := i.(*ssa.Call); ok {
				switch calleeName(&call.Call) {
				case roaringPkg + ".New", roaringPkg + ".NewBitmap", roaringPkg + ".BitmapOf":
					has = true
				}
			}
		})
		if has {
			fn = f
			break
		}
	}
	name := safeFname(anchor)
	viols := map[string]pathViol{}
	add := func(st *xState, ins ssa.Instruction, what, msg string) {
		k := what + "@" + c.w.ipos(ins)
		if _, ok := viols[k]; !ok {
			viols[k] = pathViol{what, msg, c.w.ipos(ins), st.trailStrings(c.w)}
		}
	}
	isNew := func(ins ssa.Instruction) (ssa.Value, bool) {
		call, ok := ins.(*ssa.Call)
		if !ok {
			return nil, false
		}
		switch calleeName(&call.Call) {
		case roaringPkg + ".New", roaringPkg + ".NewBitmap", roaringPkg + ".BitmapOf":
			return call, true
		}
		return nil, false
	}
	nNew, nAdd, nPut := 0, 0, 0
	h := xHooks{
		creates: isNew,
		cond:    nilCond,
		instr: func(st *xState, ins ssa.Instruction) bool {
			call, ok := ins.(*ssa.Call)
			if !ok {
				return false
			}
			if v, isN := isNew(ins); isN {
				nNew++
				id := st.inst[v]
				for k, d := range st.user {
					if strings.HasPrefix(k, "dirty:") && d == 1 && k != fmt.Sprintf("dirty:%d", id) {
						add(st, ins, "bitmap dropped", "a new bitmap is started while the previous one, which already received row ids, has not been written to the data bucket: that value's bitmap is lost")
					}
				}
				return false
			}
			f := calleeFunc(&call.Call)
			if f != nil && f.Signature.Recv() != nil && typeIs(f.Signature.Recv().Type(), roaringPkg, "Bitmap") && len(call.Call.Args) > 0 {
				recv := st.resolve(call.Call.Args[0])
				if isNilConst(recv) {
					add(st, ins, "nil bitmap", "(*roaring.Bitmap)."+f.Name()+" is called on a bitmap variable that is nil on this path (e.g. the first key's value index equals the zero value the 'current index' variable starts with): Flush panics")
					return true
				}
				id := st.inst[recv]
				if id == 0 {
					return false
				}
				switch f.Name() {
				case "Add", "AddInt", "AddMany", "AddRange", "CheckedAdd":
					nAdd++
					if st.user[fmt.Sprintf("put:%d", id)] == 1 {
						add(st, ins, "add after put", "a bitmap that has already been written to the data bucket receives further row ids: the ids of the following value end up in the previous value's bitmap (no new bitmap was started when the value index changed)")
					}
					st.user[fmt.Sprintf("dirty:%d", id)] = 1
				case "ToBytes", "MarshalBinary":
					st.inst[call] = id // the serialised bytes stand for that instance
				}
				return false
			}
			// a helper that is handed a local struct holding the current bitmap in a field (`run.store(bucket)`): if it
			// serialises that field into the data bucket on every successful path on which the field is non-nil, the bitmap
			// is persisted
			if h := calleeFunc(&call.Call); h != nil && c.w.inModule(h) && h.Blocks != nil {
				for k, a := range call.Call.Args {
					al, isAl := peelCell(a).(*ssa.Alloc)
					if !isAl || k >= len(h.Params) {
						continue
					}
					stt, isStruct := al.Type().Underlying().(*types.Pointer).Elem().Underlying().(*types.Struct)
					if !isStruct {
						continue
					}
					for fi := 0; fi < stt.NumFields(); fi++ {
						if !typeIs(stt.Field(fi).Type(), roaringPkg, "Bitmap") {
							continue
						}
						cur, ok := st.fcell[fieldCell{al, fi}]
						if !ok || isNilConst(cur) {
							continue
						}
						id := st.inst[cur]
						if id == 0 {
							continue
						}
						if persistsField(c, h, h.Params[k], fi) {
							nPut++
							delete(st.user, fmt.Sprintf("dirty:%d", id))
							st.user[fmt.Sprintf("put:%d", id)] = 1
						}
					}
				}
			}
			// a helper that serialises one of its bitmap parameters into the data bucket on every successful path
			if h := calleeFunc(&call.Call); h != nil && c.w.inModule(h) && h.Blocks != nil && (h.Signature.Recv() == nil || !typeIs(h.Signature.Recv().Type(), roaringPkg, "Bitmap")) {
				for k, a := range call.Call.Args {
					if k >= len(h.Params) || !typeIs(a.Type(), roaringPkg, "Bitmap") {
						continue
					}
					r := st.resolve(a)
					if isNilConst(r) {
						continue
					}
					id := st.inst[r]
					if id == 0 {
						continue
					}
					if persistsParam(c, h, h.Params[k]) {
						nPut++
						delete(st.user, fmt.Sprintf("dirty:%d", id))
						st.user[fmt.Sprintf("put:%d", id)] = 1
					}
				}
			}
			if calleeName(&call.Call) == boltPut {
				val := st.resolve(call.Call.Args[2])
				if e, ok := val.(*ssa.Extract); ok {
					if id := st.inst[e.Tuple]; id != 0 && keyKind(c, call.Call.Args[1]) == "value" {
						nPut++
						delete(st.user, fmt.Sprintf("dirty:%d", id))
						st.user[fmt.Sprintf("put:%d", id)] = 1
					}
				}
			}
			return false
		},
		ret: func(st *xState, r *ssa.Return) {
			if !isSuccessReturn(r) {
				return
			}
			for k, d := range st.user {
				if strings.HasPrefix(k, "dirty:") && d == 1 {
					add(st, r, "last bitmap dropped", "Flush returns successfully while a bitmap that received row ids was never written to the data bucket (the last value's bitmap is lost)")
				}
			}
		},
	}
	exhausted := !c.fc.explore(fn, h, 4, 400000)
	if exhausted {
		c.r.undecided(rule, name, "path budget exhausted while exploring the merge loop", c.w.pos(fn.Pos()))
		return
	}
	if nNew == 0 || nAdd == 0 || nPut == 0 {
		c.r.undecided(rule, name, fmt.Sprintf("the merge loop was not recognised (bitmap creations %d, adds %d, bitmap puts %d on explored paths)", nNew, nAdd, nPut), c.w.pos(fn.Pos()))
		return
	}
	if len(viols) == 0 {
		c.r.ok(rule, name, fmt.Sprintf("no nil-bitmap call and no dropped bitmap on any explored path (%d creations, %d adds, %d bitmap puts observed)", nNew, nAdd, nPut), c.w.pos(fn.Pos()))
		return
	}
	var keys []string
	for k := range viols {
		keys = append(keys, k)
	}
	sort.Strings(keys)
	for _, k := range keys {
		v := viols[k]
		c.r.bad(rule, name+": "+v.key, v.msg, []string{v.pos}, v.trail...)
	}
}

func txlifeRule(c *Ctx, rule string, fn *ssa.Function) {
	name := safeFname(fn)
	hasCommit := false
	allInstrs(fn, func(i ssa.Instruction) {
		if call, ok := i.(*ssa.Call); ok && calleeName(&call.Call) == boltCommit {
			hasCommit = true
		}
	})
	if !hasCommit {
		return
	}
	viols := map[string]pathViol{}
	add := func(st *xState, ins ssa.Instruction, what, msg string) {
		k := what + "@" + c.w.ipos(ins)
		if _, ok := viols[k]; !ok {
			viols[k] = pathViol{what, msg, c.w.ipos(ins), st.trailStrings(c.w)}
		}
	}
	txInst := func(st *xState, v ssa.Value) int {
		r := st.resolve(v)
		if e, ok := r.(*ssa.Extract); ok {
			return st.inst[e.Tuple]
		}
		return st.inst[r]
	}
	creates := func(ins ssa.Instruction) (ssa.Value, bool) {
		call, ok := ins.(*ssa.Call)
		if !ok {
			return nil, false
		}
		switch calleeName(&call.Call) {
		case "(*go.etcd.io/bbolt.DB).Begin", "(*go.etcd.io/bbolt.Tx).Bucket", "(*go.etcd.io/bbolt.Tx).CreateBucket", "(*go.etcd.io/bbolt.Tx).CreateBucketIfNotExists":
			return call, true
		}
		return nil, false
	}
	nUses := 0
	h := xHooks{
		creates: creates,
		cond:    nilCond,
		instr: func(st *xState, ins ssa.Instruction) bool {
			call, ok := ins.(*ssa.Call)
			if !ok {
				return false
			}
			cname := calleeName(&call.Call)
			f := calleeFunc(&call.Call)
			if f == nil || f.Signature.Recv() == nil || len(call.Call.Args) == 0 {
				return false
			}
			recvT := f.Signature.Recv().Type()
			switch {
			case typeIs(recvT, pkgBolt, "Tx"):
				id := txInst(st, call.Call.Args[0])
				if id == 0 {
					return false
				}
				nUses++
				if st.user[fmt.Sprintf("dead:%d", id)] == 1 && f.Name() != "Rollback" {
					add(st, ins, "use of a finished transaction", "(*bbolt.Tx)."+f.Name()+" is called on a transaction that was already committed on this path")
					return true
				}
				switch f.Name() {
				case "Commit", "Rollback":
					st.user[fmt.Sprintf("dead:%d", id)] = 1
				case "Bucket", "CreateBucket", "CreateBucketIfNotExists":
					st.user[fmt.Sprintf("parent:%d", st.inst[call])] = id
				}
			case typeIs(recvT, pkgBolt, "Bucket"):
				r := st.resolve(call.Call.Args[0])
				bid := st.inst[r]
				if e, ok := r.(*ssa.Extract); ok {
					bid = st.inst[e.Tuple]
				}
				if bid == 0 {
					return false
				}
				nUses++
				parent := st.user[fmt.Sprintf("parent:%d", bid)]
				if parent != 0 && st.user[fmt.Sprintf("dead:%d", parent)] == 1 {
					add(st, ins, "stale bucket", "(*bbolt.Bucket)."+f.Name()+" is called on a bucket that belongs to a transaction already committed on this path (the bucket was not re-derived from the new transaction): the write after a batch commit fails or corrupts")
					return true
				}
			}
			_ = cname
			return false
		},
	}
	if !c.fc.explore(fn, h, 3, 400000) {
		c.r.undecided(rule, name, "path budget exhausted", c.w.pos(fn.Pos()))
		return
	}
	if len(viols) == 0 {
		c.r.ok(rule, name, fmt.Sprintf("no use of a committed transaction or of its buckets on any explored path (%d uses checked)", nUses), c.w.pos(fn.Pos()))
		return
	}
	var keys []string
	for k := range viols {
		keys = append(keys, k)
	}
	sort.Strings(keys)
	for _, k := range keys {
		v := viols[k]
		c.r.bad(rule, name+": "+v.key, v.msg, []string{v.pos}, v.trail...)
	}
}

func flushOrderRule(c *Ctx, rule string) {
	fn := c.a.BigFlush
	name := safeFname(fn)
	var reads []ssa.Instruction
	isTempCommit := func(i ssa.Instruction) bool {
		call, ok := i.(*ssa.Call)
		if !ok || calleeName(&call.Call) != boltCommit {
			return false
		}
		f := path(call.Call.Args[0]).lastField()
		return f != nil && typeIs(f.Type(), pkgBolt, "Tx")
	}
	allInstrs(fn, func(i ssa.Instruction) {
		call, ok := i.(*ssa.Call)
		if !ok || calleeName(&call.Call) != "(*go.etcd.io/bbolt.DB).Begin" {
			return
		}
		if w, isK := constBool(call.Call.Args[1]); isK && !w {
			reads = append(reads, i)
		}
	})
	if len(reads) == 0 {
		c.r.undecided(rule, name, "no read-only transaction on the temp database found", c.w.pos(fn.Pos()))
		return
	}
	for _, r := range reads {
		if p := c.fc.pathAvoiding(fn, nil, func(i ssa.Instruction) bool { return i == r }, isTempCommit); p != nil {
			c.r.bad(rule, name, "the read transaction on the temp database is opened before the writer's pending temp transaction is committed: the rows added since the last batch commit are not seen and are missing from the index", []string{c.w.ipos(r)}, c.fc.witnessStrings(p)...)
		} else {
			c.r.ok(rule, name, "pending temp transaction committed before the read transaction starts", c.w.ipos(r))
		}
	}
}

// schemaEncRule: writers store gob(schema field) under the schema key; open decodes that key into the same type.
func schemaEncRule(c *Ctx, rule string) {
	schemaT := c.a.SchemaT
	for _, anchor := range []*ssa.Function{c.a.MemWrite, c.a.BigFlush} {
		name := safeFname(anchor)
		okEnc := false
		why := "no gob Encode of the writer's schema whose buffer is stored under the schema key"
		scope := c.scope(anchor, 2)
		// (the value may be a parameter of a storage helper — putIndexMeta(bucket, encodedSchema, n) — which is bound to the
		// arguments of the helper's calls in the scope, or the value field of an entry of an encoded entry list, rules_ag23.go)
		stored, tops := keyedPutValues(c, scope, "schema")
		for _, sv := range stored {
			func() {
				var vals []ssa.Value
				for _, b := range callerArgsIn(scope, anchor, sv.v, sv.fn, 0) {
					enc := gobEncoded(c, b, 0)
					if len(enc) == 0 {
						return
					}
					vals = append(vals, enc...)
				}
				if len(vals) == 0 {
					return
				}
				all := true
				for _, v := range vals {
					// (the writer's own: a field of the writer, or of a struct the writer holds by value — `idx.schema` promoted from an
					// embedded header is still the writer's storage; a schema field of any other object is not)
					pt := path(v)
					f := pt.lastField()
					if f == nil || namedOf(f.Type()) != schemaT || pt.lastFieldHolder(c.w) != namedOf(anchor.Signature.Recv().Type()) {
						all = false
					}
				}
				if all {
					okEnc = true
				} else {
					why = "what is gob-encoded is not the writer's own schema field"
				}
			}()
		}
		if !okEnc && len(tops) > 0 {
			c.r.undecided(rule, name, "what is stored under the schema key cannot be established: the entries come from a list the rule cannot follow: "+tops[0].why, c.w.pos(anchor.Pos()))
		} else {
			c.r.check(okEnc, rule, name, "gob(schema field) stored under the schema key", "the schema key does not receive the gob encoding of the writer's schema: "+why, c.w.pos(anchor.Pos()))
		}
		// and it is stored by every successful flush (an index without schema is not an index: the round trip is lost)
		if okEnc {
			if p := c.headerMissingPath(anchor, "schema", 3, isSuccessReturn); p != nil {
				c.r.bad(rule, name+": always", "a flush can return successfully without having stored the schema: the file it leaves is rejected by the open function (or opens with the schema of an older flush), so the round trip is lost — typically a writer without bitmaps, whose write loop runs zero times", []string{c.w.ipos(p[len(p)-1])}, c.fc.witnessStrings(p)...)
			} else {
				c.r.ok(rule, name+": always", "every successful return has stored the schema", c.w.pos(anchor.Pos()))
			}
		}
	}
	// reader
	okDec := false
	re := openReach(c)
	var isSchemaItem func(v ssa.Value, depth int) bool
	isSchemaItem = func(v ssa.Value, depth int) bool {
		for n := 0; n < 6; n++ {
			switch x := v.(type) {
			case *ssa.MakeInterface:
				v = x.X
				continue
			case *ssa.Call:
				if calleeName(&x.Call) == "bytes.NewReader" || calleeName(&x.Call) == "bytes.NewBuffer" {
					v = x.Call.Args[0]
					continue
				}
				return calleeName(&x.Call) == "(*go.etcd.io/bbolt.Bucket).Get" && keyKind(c, x.Call.Args[1]) == "schema"
			case *ssa.Parameter:
				// a decoding helper: every caller passes the schema item
				if depth > 2 {
					return false
				}
				h := x.Parent()
				n, all := 0, true
				for _, g := range c.w.ModFuncs {
					allInstrs(g, func(j ssa.Instruction) {
						if call, ok := j.(*ssa.Call); ok && calleeFunc(&call.Call) == h {
							n++
							if a := argFor(call, h, x); a == nil || !isSchemaItem(a, depth+1) {
								all = false
							}
						}
					})
				}
				return n > 0 && all
			}
			break
		}
		return false
	}
	for _, fn := range re.sorted() {
		allInstrs(fn, func(i ssa.Instruction) {
			call, ok := i.(*ssa.Call)
			if !ok || calleeName(&call.Call) != "(*encoding/gob.Decoder).Decode" {
				return
			}
			arg := call.Call.Args[1]
			if mi, ok := arg.(*ssa.MakeInterface); ok {
				arg = mi.X
			}
			if namedOf(arg.Type()) != schemaT {
				return
			}
			// the decoder reads the item fetched with the schema key
			dec, ok := call.Call.Args[0].(*ssa.Call)
			if !ok {
				return
			}
			if isSchemaItem(dec.Call.Args[0], 0) {
				okDec = true
			}
		})
	}
	c.r.check(okDec, rule, "open", "the schema key is gob-decoded into the schema type", "the open function does not decode the schema key's item into the schema type", c.w.pos(c.a.OpenFromDB.Pos()))
}

// gobEncoded: buf holds the gob encoding of which value(s)? Recognises (*bytes.Buffer).Bytes() of a buffer that a gob
// encoder in the same function writes to, and a module helper all of whose non-nil returns are such encodings (a
// parameter of the helper is replaced by the call's argument).
func gobEncoded(c *Ctx, buf ssa.Value, depth int) []ssa.Value {
	if depth > 2 {
		return nil
	}
	if bc, ok := buf.(*ssa.Call); ok && calleeName(&bc.Call) == "(*bytes.Buffer).Bytes" {
		var out []ssa.Value
		// (a buffer of the enclosing function read inside a function literal — the callback of DB.Update — is the same buffer)
		buffer := peelCell(bc.Call.Args[0])
		fns := []*ssa.Function{bc.Parent()}
		if al, ok := buffer.(*ssa.Alloc); ok && al.Parent() != nil && al.Parent() != bc.Parent() {
			fns = append(fns, al.Parent())
		}
		for _, fn := range fns {
			allInstrs(fn, func(i ssa.Instruction) {
				call, ok := i.(*ssa.Call)
				if !ok || calleeName(&call.Call) != "(*encoding/gob.Encoder).Encode" {
					return
				}
				enc, ok := call.Call.Args[0].(*ssa.Call)
				if !ok || calleeName(&enc.Call) != "encoding/gob.NewEncoder" {
					return
				}
				if mi, ok := enc.Call.Args[0].(*ssa.MakeInterface); !ok || peelCell(mi.X) != buffer {
					return
				}
				arg := call.Call.Args[1]
				if mi, ok := arg.(*ssa.MakeInterface); ok {
					arg = mi.X
				}
				out = append(out, arg)
			})
		}
		return out
	}
	if call, callee, vals, ok := resultOrigins(c.w, buf); ok {
		var out []ssa.Value
		for _, rv := range vals {
			if isNilConst(rv) {
				continue
			}
			inner := gobEncoded(c, rv, depth+1)
			if len(inner) == 0 {
				return nil
			}
			for _, v := range inner {
				if a := argFor(call, callee, v); a != nil {
					out = append(out, a)
				} else {
					out = append(out, v)
				}
			}
		}
		return out
	}
	return nil
}

// rowCountRule: the counter persisted under the row-counter key is the writer's own counter field. The Put may sit in
// a storage helper (putRowCounter(bucket, n)) that encodes one of its parameters: the parameter is bound to the argument
// of every call of the helper inside the anchor's scope, and each of those arguments must be the counter field.
func rowCountRule(c *Ctx, rule string) {
	for _, anchor := range []*ssa.Function{c.a.MemWrite, c.a.BigFlush} {
		name := safeFname(anchor)
		ok := false
		why := "no 32-bit encoding of the writer's row counter is stored under the row-counter key"
		// the writer's counter field: by shape (the integer field AddRow increments, rules_ag10.go), not by its name
		recvT := namedOf(anchor.Signature.Recv().Type())
		ctr := c.a.rowsFieldOf(recvT)
		if ctr == nil {
			c.r.undecided(rule, name, "the writer's row counter field was not found"+c.a.SH.whyText(), c.w.pos(anchor.Pos()))
			continue
		}
		scope := c.scope(anchor, 2)
		// (what is stored: the value of a Put under the row-counter key, or the value field of the row-counter entry of an
		// encoded entry list, rules_ag23.go; callerArgsIn binds a helper's parameter to the arguments of its calls)
		stored, tops := keyedPutValues(c, scope, "rows")
		for _, sv := range stored {
			func() {
				var vals []ssa.Value
				for _, b := range callerArgsIn(scope, anchor, sv.v, sv.fn, 0) {
					for _, val := range encodedUint32(c, b, 0) {
						fn := sv.fn
						if ins, ok := val.(ssa.Instruction); ok {
							fn = ins.Parent()
						} else if p, ok := val.(*ssa.Parameter); ok {
							fn = p.Parent()
						}
						vals = append(vals, callerArgsIn(scope, anchor, val, fn, 0)...)
					}
				}
				if len(vals) == 0 {
					return
				}
				all := true
				for _, val := range vals {
					// (with the counter in a struct shared by the writers and the Index — an embedded header — the field alone does not
					// say whose counter it is: it must be selected from an object of the writer's type)
					f := srcField(val)
					if f == nil || f != ctr || srcHolder(val) != recvT {
						all = false
					}
				}
				if all {
					ok = true
				} else {
					why = "the value stored as row counter is not the writer's own row counter field (which counts every AddRow call, including rows without columns)"
				}
			}()
		}
		if !ok && len(tops) > 0 {
			c.r.undecided(rule, name, "what is stored under the row-counter key cannot be established: the entries come from a list the rule cannot follow: "+tops[0].why, c.w.pos(anchor.Pos()))
		} else {
			c.r.check(ok, rule, name, "row counter key <- writer's counter field", "the persisted row counter is wrong: "+why, c.w.pos(anchor.Pos()))
		}
		// and it is stored by every successful flush
		if ok {
			if p := c.headerMissingPath(anchor, "rows", 3, isSuccessReturn); p != nil {
				c.r.bad(rule, name+": always", "a flush can return successfully without having stored the row counter: the file it leaves is rejected by the open function (or keeps the counter of an older flush) — typically a writer without bitmaps, whose write loop runs zero times", []string{c.w.ipos(p[len(p)-1])}, c.fc.witnessStrings(p)...)
			} else {
				c.r.ok(rule, name+": always", "every successful return has stored the row counter", c.w.pos(anchor.Pos()))
			}
		}
	}
}

// callerArgsIn: v, a value of fn's frame; if it is (a conversion of) a parameter of a helper fn, the arguments bound to it
// at the helper's call sites in the scope (followed through two helper levels). A helper nobody in the scope calls keeps
// its parameter, which is no field load / no encoding and fails the callers' tests.
func callerArgsIn(scope []*ssa.Function, anchor *ssa.Function, v ssa.Value, fn *ssa.Function, depth int) []ssa.Value {
	p, isParam := peelConv(v).(*ssa.Parameter)
	if !isParam || fn == anchor || depth > 2 {
		return []ssa.Value{v}
	}
	fn = p.Parent()
	k := -1
	for j, q := range fn.Params {
		if q == p {
			k = j
		}
	}
	var out []ssa.Value
	for _, g := range scope {
		allInstrs(g, func(i ssa.Instruction) {
			if cc := callCommon(i); cc != nil && calleeFunc(cc) == fn && k >= 0 && k < len(cc.Args) {
				out = append(out, callerArgsIn(scope, anchor, cc.Args[k], g, depth+1)...)
			}
		})
	}
	if len(out) == 0 {
		return []ssa.Value{v}
	}
	return out
}

// keyedPutValues: the values that the functions of the scope store under the key of the given kind: the value argument
// of a Put whose key keyKind classifies, and the value field of every entry of that kind in an encoded entry list that a
// list Put walks (rules_ag23.go; an entry whose value field is not the one the Put stores does not count). tops: the
// entry lists met that cannot be followed.
type storedVal struct {
	v  ssa.Value
	fn *ssa.Function
}

func keyedPutValues(c *Ctx, scope []*ssa.Function, kind string) (out []storedVal, tops []*entList) {
	for _, fn := range scope {
		allInstrs(fn, func(i ssa.Instruction) {
			put, isPut := i.(*ssa.Call)
			if !isPut || calleeName(&put.Call) != boltPut {
				return
			}
			if keyKind(c, put.Call.Args[1]) == kind {
				out = append(out, storedVal{put.Call.Args[2], fn})
				return
			}
			lp, ok := listPutOf(put)
			if !ok {
				return
			}
			l := c.listOfPut(lp)
			if l.top {
				tops = append(tops, l)
				return
			}
			for _, s := range l.segs {
				if c.segKind(s, lp.fk) == kind && lp.fv >= 0 && s.fields[lp.fv] != nil {
					out = append(out, storedVal{s.fields[lp.fv], s.fn})
				}
			}
		})
	}
	return out, tops
}

// encodedUint32: buf holds the 32-bit encoding of which value(s)? Recognises PutUint32(arr[:], v) on the array buf is
// sliced from, AppendUint32(empty, v), and a module helper all of whose returns are such encodings of one of its
// parameters (the parameter is replaced by the call's argument).
func encodedUint32(c *Ctx, buf ssa.Value, depth int) []ssa.Value {
	if depth > 2 {
		return nil
	}
	if arr := sliceArray(buf); arr != nil {
		var out []ssa.Value
		fn := buf.(*ssa.Slice).Parent()
		allInstrs(fn, func(i ssa.Instruction) {
			call, ok := i.(*ssa.Call)
			if !ok || !strings.HasSuffix(calleeName(&call.Call), "PutUint32") || !strings.HasPrefix(calleeName(&call.Call), "(encoding/binary.") {
				return
			}
			if sliceArray(call.Call.Args[len(call.Call.Args)-2]) == arr {
				out = append(out, call.Call.Args[len(call.Call.Args)-1])
			}
		})
		return out
	}
	if call, ok := peel(buf).(*ssa.Call); ok {
		n := calleeName(&call.Call)
		if strings.HasPrefix(n, "(encoding/binary.") && strings.HasSuffix(n, "AppendUint32") && emptyBytes(call.Call.Args[len(call.Call.Args)-2]) {
			return []ssa.Value{call.Call.Args[len(call.Call.Args)-1]}
		}
	}
	if call, callee, vals, ok := resultOrigins(c.w, buf); ok {
		var out []ssa.Value
		for _, rv := range vals {
			if isNilConst(rv) {
				continue
			}
			inner := encodedUint32(c, rv, depth+1)
			if len(inner) == 0 {
				return nil
			}
			for _, v := range inner {
				if a := argFor(call, callee, peelConv(v)); a != nil {
					out = append(out, a)
				} else {
					out = append(out, v)
				}
			}
		}
		return out
	}
	return nil
}

// sliceArray: the array a slice expression `a[:]`, `a[i:j]` is taken from.
func sliceArray(v ssa.Value) ssa.Value {
	if sl, ok := v.(*ssa.Slice); ok {
		return sl.X
	}
	return nil
}

// persistsParam: on every successful path, h writes the serialisation of its bitmap parameter p under a bitmap key.
func persistsParam(c *Ctx, h *ssa.Function, p ssa.Value) bool {
	isPut := func(i ssa.Instruction) bool {
		call, ok := i.(*ssa.Call)
		if !ok || calleeName(&call.Call) != boltPut || keyKind(c, call.Call.Args[1]) != "value" {
			return false
		}
		e, ok := call.Call.Args[2].(*ssa.Extract)
		if !ok || e.Index != 0 {
			return false
		}
		tb, ok := e.Tuple.(*ssa.Call)
		if !ok {
			return false
		}
		n := calleeName(&tb.Call)
		if !strings.HasSuffix(n, ".ToBytes") && !strings.HasSuffix(n, ".MarshalBinary") {
			return false
		}
		return peel(tb.Call.Args[0]) == p
	}
	isOK := func(i ssa.Instruction) bool {
		if isSuccessReturn(i) {
			return true
		}
		// helpers without an error result: any return
		if r, ok := i.(*ssa.Return); ok && len(r.Results) == 0 {
			return true
		}
		return false
	}
	return c.fc.pathAvoiding(h, nil, isOK, isPut) == nil
}

// persistsField: on every successful path of h on which field fi of the struct its parameter p points to is non-nil, h
// writes the serialisation of that field's bitmap under a bitmap key. (The nil case is the "no run started yet" state;
// the caller's typestate knows whether the field is nil at the call.)
func persistsField(c *Ctx, h *ssa.Function, p ssa.Value, fi int) bool {
	isFieldLoad := func(v ssa.Value) bool {
		ld, ok := peel(v).(*ssa.UnOp)
		if !ok || ld.Op != token.MUL {
			return false
		}
		fa, ok := ld.X.(*ssa.FieldAddr)
		return ok && fa.Field == fi && peel(fa.X) == p
	}
	isPut := func(i ssa.Instruction) bool {
		call, ok := i.(*ssa.Call)
		if !ok || calleeName(&call.Call) != boltPut || keyKind(c, call.Call.Args[1]) != "value" {
			return false
		}
		e, ok := call.Call.Args[2].(*ssa.Extract)
		if !ok || e.Index != 0 {
			return false
		}
		tb, ok := e.Tuple.(*ssa.Call)
		if !ok {
			return false
		}
		n := calleeName(&tb.Call)
		if !strings.HasSuffix(n, ".ToBytes") && !strings.HasSuffix(n, ".MarshalBinary") {
			return false
		}
		return isFieldLoad(tb.Call.Args[0])
	}
	isOK := func(i ssa.Instruction) bool {
		if isSuccessReturn(i) {
			return true
		}
		if r, ok := i.(*ssa.Return); ok && len(r.Results) == 0 {
			return true
		}
		// `return bucket.Put(...)`: the returned error is the Put's own result — successful exactly when the Put was
		if r, ok := i.(*ssa.Return); ok && len(r.Results) == 1 {
			if pc, ok := r.Results[0].(*ssa.Call); ok && isPutCall(c, pc, isFieldLoad) {
				return false
			}
		}
		return false
	}
	nilEdge := func(pred, succ *ssa.BasicBlock) bool {
		iff, ok := pred.Instrs[len(pred.Instrs)-1].(*ssa.If)
		if !ok || len(pred.Succs) != 2 {
			return false
		}
		for _, cm := range trueCmps(fact{iff.Cond, pred.Succs[0] == succ}) {
			if cm.Op == token.EQL && cm.Y != nil && ((isFieldLoad(cm.X) && isNilConst(cm.Y)) || (isFieldLoad(cm.Y) && isNilConst(cm.X))) {
				return true
			}
		}
		return false
	}
	// some path must reach a Put at all
	has := false
	allInstrs(h, func(i ssa.Instruction) {
		if isPut(i) {
			has = true
		}
	})
	return has && c.fc.pathFrom(h, nil, isOK, isPut, nilEdge) == nil
}

func isPutCall(c *Ctx, call *ssa.Call, isBM func(ssa.Value) bool) bool {
	if calleeName(&call.Call) != boltPut || keyKind(c, call.Call.Args[1]) != "value" {
		return false
	}
	e, ok := call.Call.Args[2].(*ssa.Extract)
	if !ok || e.Index != 0 {
		return false
	}
	tb, ok := e.Tuple.(*ssa.Call)
	return ok && isBM(tb.Call.Args[0])
}

// schemaAddRule: schema.add records every (column, value) pair it is given. For each of its two maps (columns by name,
// values by value) every path from the entry to a return either takes the edge on which the lookup of the argument
// reported "present" or passes a map update under that argument; and what is returned is the looked-up or stored
// index. A shortcut that returns without consulting the maps leaves a pair out of the stored schema.
// A call of a get-or-create helper (getOrCreateHelper: looks the key up, and if it is missing stores the constructor's
// result under it) with the argument as key is "found or entered" in one step; a helper that does not store what it
// built is not recognised as one, so that variant is still reported as "never enters". The per-argument analysis is
// keyRecorded (below), which also follows a module helper that is handed the argument (`sch.column(k)`).
func schemaAddRule(c *Ctx, rule string) {
	sa := c.a.SchemaAdd
	if sa == nil || len(sa.Params) != 3 || len(sa.Blocks) == 0 {
		c.r.undecided(rule, "(*schema).add", "schema.add(column, value) not found")
		return
	}
	fc := c.fc
	for pi, what := range []string{"", "column", "value"} {
		if pi == 0 {
			continue
		}
		construct := "(*schema).add: " + what
		nUpd, w := keyRecorded(c, sa, sa.Params[pi], 0)
		if nUpd == 0 {
			c.r.bad(rule, construct, fmt.Sprintf("schema.add never enters its %s argument into a map: the stored schema cannot list it", what), []string{c.w.pos(sa.Pos())})
			continue
		}
		if w != nil {
			c.r.bad(rule, construct, fmt.Sprintf("a path through schema.add returns although its %s argument was neither found in nor entered into the schema: rows are recorded under an index whose pair the stored schema does not list", what), []string{c.w.ipos(w[len(w)-1])}, fc.witnessStrings(w)...)
		} else {
			c.r.ok(rule, construct, fmt.Sprintf("every return follows a successful lookup or an insertion of the %s", what), c.w.pos(sa.Pos()))
		}
	}
}

// keyRecorded is the per-argument analysis of C05.schemaadd: in fn, is the parameter par "found in or entered into a
// map" before fn returns? Events that enter it: a map update under par; a call of a get-or-create helper with par as
// key; a call of a module helper that is handed par and itself records that parameter on every path (followed two
// levels deep, e.g. `col := sch.column(k)`). It returns the number of entering sites and, if some path from the entry
// to a return neither takes an edge on which a comma-ok lookup of par reported "present" nor passes an entering event,
// that path as witness. (Arguments are compared after peel: a parameter captured by a function literal is spilled into
// a cell and loaded again.)
func keyRecorded(c *Ctx, fn *ssa.Function, par ssa.Value, depth int) (nEnter int, witness []ssa.Instruction) {
	isPar := func(v ssa.Value) bool { return v == par || peel(v) == par }
	isEnter := func(i ssa.Instruction) bool {
		if mu, ok := i.(*ssa.MapUpdate); ok {
			return isPar(mu.Key)
		}
		if _, key, _, ok := getOrCreateCall(c, i); ok {
			return isPar(key)
		}
		call, ok := i.(*ssa.Call)
		if !ok || depth >= 2 {
			return false
		}
		h := calleeFunc(&call.Call)
		if h == nil || h == fn || h.Blocks == nil || !c.w.inModule(h) {
			return false
		}
		for k, a := range call.Call.Args {
			if k < len(h.Params) && isPar(a) {
				if n, w := keyRecorded(c, h, h.Params[k], depth+1); n > 0 && w == nil {
					return true
				}
			}
		}
		return false
	}
	var oks []ssa.Value
	allInstrs(fn, func(i ssa.Instruction) {
		if x, ok := i.(*ssa.Lookup); ok && x.CommaOk && isPar(x.Index) {
			if e := extractOf(x, 1); e != nil {
				oks = append(oks, e)
			}
		}
		if isEnter(i) {
			nEnter++
		}
	})
	if nEnter == 0 {
		return 0, nil
	}
	isOK := func(v ssa.Value) bool {
		for _, o := range oks {
			if o == v {
				return true
			}
		}
		return false
	}
	witness = c.fc.pathAvoidingEdges(fn,
		func(i ssa.Instruction) bool { _, ok := i.(*ssa.Return); return ok },
		isEnter,
		func(pred, succ *ssa.BasicBlock) bool {
			iff, ok := pred.Instrs[len(pred.Instrs)-1].(*ssa.If)
			if !ok || len(pred.Succs) != 2 {
				return false
			}
			cond, pol := iff.Cond, pred.Succs[0] == succ
			for {
				if u, ok := cond.(*ssa.UnOp); ok && u.Op == token.NOT {
					cond, pol = u.X, !pol
					continue
				}
				break
			}
			return isOK(cond) && pol
		})
	return nEnter, witness
}
