package main

import (
	"fmt"
	"go/token"
	"go/types"
	"sort"
	"strings"

	"golang.org/x/tools/go/ssa"
)

func init() {
	register(&propDef{
		id:  "C07",
		run: runC07,
		explanation: "Decided (structural, for every Put/Get sequence and capacity): " +
			"C07.keymatch — Get returns the bitmap of the element found under exactly the requested key (the lookup may sit in a helper that hands back the element found and/or its bitmap under a flag that is true only when found); Put stores a new element under the key it records in the item (the item may be built by a constructor helper, whose parameters are bound to the call's arguments); eviction deletes the map entry under the evicted item's own key; " +
			"C07.putstore — every path through Put looks the key up, and when the key is present every path stores the new bitmap into the found item before returning (no return in front of the lookup, no skipped overwrite); " +
			"C07.touch — the hit path of Get and the existing-key path of Put move the element to the front on every path (after a lookup helper: its caller, on the branch of the helper's found flag; a helper that moves only `if entries[key] == elem` counts when it is handed the key the element was found under and the map cannot have changed in between), inserts push to the front, eviction removes the element at the back; " +
			"C07.account — every update of the byte counter adds or subtracts the same expression of an item (its recorded size plus the same overhead constants; a derived item field such as item.cost may stand for it iff every store of that field stores that item's size plus the same overhead and every store of item.size is followed by one — a size set without recomputing the field is reported); wherever a bitmap is stored into an item the item's size is set to that bitmap's GetSizeInBytes() (also when overwriting); every path that increases the counter reaches the eviction loop before returning, and the loop removes from the back while counter > capacity and the list is non-empty (capacity 0 needs no special case); " +
			"C07.counters — on every path Get/Put increment their call counter exactly once unless it is nil, a return of (bitmap, true) has passed exactly the hit counter, a return of (nil, false) exactly the miss counter (counting moved into a helper is summarised: on all of the helper's paths, or exactly on the paths selected by a boolean parameter whose argument is decided at the return in question). " +
			"NOT decided: that GetSizeInBytes is the true in-memory size (roaring, trusted); 'nothing is evicted while everything fits comfortably' as arithmetic over sizes.",
		assumptions: []string{"container/list semantics (MoveToFront/PushFront/Back/Remove)", "roaring GetSizeInBytes", "go/ssa CFG"},
	})
}

func runC07(c *Ctx) {
	if !c.need("C07.keymatch", c.a.LRUGet, c.a.LRUPut, c.a.LRUT, c.a.LRUItemT) {
		return
	}
	var entries, list *types.Var
	st := c.a.LRUT.Underlying().(*types.Struct)
	for i := 0; i < st.NumFields(); i++ {
		f := st.Field(i)
		if _, ok := f.Type().Underlying().(*types.Map); ok {
			entries = f
		}
		if typeIs(f.Type(), "container/list", "List") {
			list = f
		}
	}
	// the bookkeeping fields: by shape (limit = what the constructor stores its parameter in, running size = the other
	// integer field; item key = key of delete(entries, …), item size = assigned from GetSizeInBytes(); rules_ag10.go)
	curSize, maxSize := c.a.LRUCurF, c.a.LRUMaxF
	itKey, itSize := c.a.ItemKeyF, c.a.ItemSizeF
	var itBM *types.Var
	ist := c.a.LRUItemT.Underlying().(*types.Struct)
	for i := 0; i < ist.NumFields(); i++ {
		if typeIs(ist.Field(i).Type(), roaringPkg, "Bitmap") {
			itBM = ist.Field(i)
		}
	}
	if entries == nil || list == nil || curSize == nil || maxSize == nil || itKey == nil || itSize == nil || itBM == nil {
		c.r.undecided("C07.keymatch", "<anchor>", "LRUCache/lruCacheItem do not have the expected fields (map, list, curSize, maxSize / key, size, bitmap)"+c.a.SH.whyText())
		return
	}
	L := &lruCtx{c: c, entries: entries, list: list, curSize: curSize, maxSize: maxSize, itKey: itKey, itSize: itSize, itBM: itBM}
	L.keymatch()
	L.touch()
	L.account()
	L.counters()
}

type lruCtx struct {
	c                                                    *Ctx
	entries, list, curSize, maxSize, itKey, itSize, itBM *types.Var
	// derived caches derivedDef per item field (present with a nil value while the field's definition is being
	// established); sizeVals is set only while a store to a derived field is decomposed (see derivedDef)
	derived  map[*types.Var]*derivedInfo
	sizeVals map[ssa.Value]ssa.Value
}

// itemOf: v is `elem.Value.(*lruCacheItem)` (or the comma-ok form); returns elem.
func (L *lruCtx) elemOfItem(v ssa.Value) ssa.Value {
	v = peel(v)
	if e, ok := v.(*ssa.Extract); ok && e.Index == 0 {
		v = e.Tuple
	}
	ta, ok := v.(*ssa.TypeAssert)
	if !ok {
		return nil
	}
	ld, ok := ta.X.(*ssa.UnOp)
	if !ok {
		// result of list.Remove(...) is the Value itself
		return ta.X
	}
	fa, ok := ld.X.(*ssa.FieldAddr)
	if !ok {
		return nil
	}
	if f := fieldOf(fa.X.Type(), fa.Field); f == nil || f.Name() != "Value" {
		return nil
	}
	return fa.X
}

// removedAround: the element elem (whose item's key the delete `del` uses) is the very element handed to list.Remove
// in the same activation: the same SSA value (the same `back := list.Back()`, loop variable or parameter) is the
// argument of a Remove call of fn, and either
//
//	(a) every path from elem's definition (the function entry for a parameter) to the delete passes such a Remove
//	    (`l.Remove(e); it := e.Value.(*item); delete(m, it.key)` — Remove leaves e.Value in place), or
//	(b) every path from the delete to a return, or to the point where elem is defined anew (the next iteration of the
//	    eviction loop), passes such a Remove (`delete(m, e.Value.(*item).key); l.Remove(e)`).
//
// Measuring from elem's definition (not from the function entry) keeps a Remove of the *previous* iteration's element
// from vouching for this iteration's delete. An element of another variable (Front() while Back() is removed, another
// call of Back()) is a different SSA value and is not accepted.
func (L *lruCtx) removedAround(fn *ssa.Function, del ssa.Instruction, elem ssa.Value) bool {
	elem = peel(elem)
	isRemove := func(i ssa.Instruction) bool {
		call, ok := i.(*ssa.Call)
		return ok && calleeName(&call.Call) == "(*container/list.List).Remove" && len(call.Call.Args) == 2 && peel(call.Call.Args[1]) == elem
	}
	n := 0
	allInstrs(fn, func(i ssa.Instruction) {
		if isRemove(i) {
			n++
		}
	})
	if n == 0 {
		return false
	}
	var def ssa.Instruction // nil: a parameter, defined at the function entry
	switch d := elem.(type) {
	case *ssa.Parameter:
		if d.Parent() != fn {
			return false
		}
	case ssa.Instruction:
		if d.Parent() != fn {
			return false
		}
		def = d
	default:
		return false
	}
	fc := L.c.fc
	isDel := func(i ssa.Instruction) bool { return i == del }
	if fc.pathAvoiding(fn, def, isDel, isRemove) == nil {
		return true
	}
	leaves := func(i ssa.Instruction) bool {
		if _, ok := i.(*ssa.Return); ok {
			return true
		}
		return def != nil && i == def
	}
	return fc.pathAvoiding(fn, del, leaves, isRemove) == nil
}

func (L *lruCtx) lookups(fn *ssa.Function) []*ssa.Lookup {
	var out []*ssa.Lookup
	allInstrs(fn, func(i ssa.Instruction) {
		if lk, ok := i.(*ssa.Lookup); ok && path(lk.X).lastField() == L.entries {
			out = append(out, lk)
		}
	})
	return out
}

// useLookups: the lookups of fn whose result is used. A lookup whose value is only compared (`if c.entries[key] == elem`,
// the re-validation of an element that was looked up earlier) finds nothing for the caller and is not one of them.
func (L *lruCtx) useLookups(fn *ssa.Function) []*ssa.Lookup {
	var out []*ssa.Lookup
	for _, lk := range L.lookups(fn) {
		onlyCompared := !lk.CommaOk && len(referrers(lk)) > 0
		for _, r := range referrers(lk) {
			if b, ok := r.(*ssa.BinOp); !ok || (b.Op != token.EQL && b.Op != token.NEQ) {
				onlyCompared = false
			}
		}
		if !onlyCompared {
			out = append(out, lk)
		}
	}
	return out
}

// entriesWrite: i may change the entries map (insert, delete, replacing the map), itself or in a module function it calls.
func (L *lruCtx) entriesWrite(i ssa.Instruction) bool {
	direct := func(j ssa.Instruction) bool {
		switch x := j.(type) {
		case *ssa.MapUpdate:
			return path(x.Map).lastField() == L.entries
		case *ssa.Store:
			fa, ok := x.Addr.(*ssa.FieldAddr)
			return ok && fieldOf(fa.X.Type(), fa.Field) == L.entries
		case *ssa.Call:
			if b, ok := x.Call.Value.(*ssa.Builtin); ok {
				return (b.Name() == "delete" || b.Name() == "clear") && len(x.Call.Args) > 0 && path(x.Call.Args[0]).lastField() == L.entries
			}
		}
		return false
	}
	return L.c.fc.ipTarget(direct)(i)
}

// An lruFinder is a helper of Get (or Put) that does the map lookup for its caller: `elem, bm, ok := c.lookup(key)`.
type lruFinder struct {
	call       *ssa.Call // the one call of the helper in the anchor
	h          *ssa.Function
	lk         *ssa.Lookup
	key        ssa.Value // the anchor's argument that the helper looks up (nil: the helper looks up something else)
	ei, bi, fi int       // result indices of the element, of its bitmap and of the found flag (-1: not returned)
	bad        ssa.Instruction
	why        string
}

// result: the anchor's value for result idx of the finder call (nil if not returned or not used).
func (fd *lruFinder) result(idx int) ssa.Value {
	if idx < 0 {
		return nil
	}
	if v := resultValue(fd.call, idx); v != nil {
		return v
	}
	return nil
}

// finder recognises the lookup helper of anchor: the only module function called from anchor (once) that has exactly one
// used lookup in the entries map, returning a found flag that is true only on returns dominated by the lookup's ok,
// where it returns the element found and/or the bitmap of the item in that very element. fd.bad is set to a return
// that does not have this shape (a helper that hands back the bitmap of some other element is reported there).
func (L *lruCtx) finder(anchor *ssa.Function) *lruFinder {
	var fd *lruFinder
	n := 0
	allInstrs(anchor, func(i ssa.Instruction) {
		call, ok := i.(*ssa.Call)
		if !ok {
			return
		}
		h := calleeFunc(&call.Call)
		if h == nil || h == anchor || !L.c.w.inModule(h) || h.Blocks == nil || len(L.useLookups(h)) != 1 {
			return
		}
		n++
		fd = &lruFinder{call: call, h: h, lk: L.useLookups(h)[0], ei: -1, bi: -1, fi: -1}
	})
	if n != 1 {
		return nil
	}
	h, lk := fd.h, fd.lk
	if a := argFor(fd.call, h, lk.Index); a != nil {
		fd.key = a
	}
	res := h.Signature.Results()
	for k := 0; k < res.Len(); k++ {
		t := res.At(k).Type()
		switch {
		case typeIs(t, "container/list", "Element"):
			fd.ei = k
		case typeIs(t, roaringPkg, "Bitmap"):
			fd.bi = k
		default:
			if b, ok := t.Underlying().(*types.Basic); ok && b.Kind() == types.Bool {
				fd.fi = k
			}
		}
	}
	elem, okv := extractOf(lk, 0), extractOf(lk, 1)
	if fd.fi < 0 || (fd.ei < 0 && fd.bi < 0) || elem == nil || okv == nil {
		return nil
	}
	allInstrs(h, func(i ssa.Instruction) {
		ret, ok := i.(*ssa.Return)
		if !ok || isRecoverBlockReturn(ret) || fd.bad != nil {
			return
		}
		rv := retVals(ret)
		found, isK := constBool(rv[fd.fi])
		switch {
		case isK && !found:
			return
		case isK:
			if !knownTrue(okv, ret) {
				fd.bad, fd.why = ret, "the lookup helper reports found on a path on which the key was not found"
				return
			}
		case rv[fd.fi] == ssa.Value(okv) && fd.bi < 0:
			// `return elem, ok`: the element is only meaningful to the caller under ok
		default:
			fd.bad, fd.why = ret, "the lookup helper's found flag is neither a constant nor the lookup's ok"
			return
		}
		if fd.ei >= 0 && peel(rv[fd.ei]) != ssa.Value(elem) {
			fd.bad, fd.why = ret, "the lookup helper does not return the element it found under the key"
			return
		}
		if fd.bi >= 0 {
			okBM := false
			if ld, ok := peel(rv[fd.bi]).(*ssa.UnOp); ok {
				if fa, ok := ld.X.(*ssa.FieldAddr); ok && fieldOf(fa.X.Type(), fa.Field) == L.itBM {
					if e := L.elemOfItem(fa.X); e != nil && peel(e) == ssa.Value(elem) {
						okBM = true
					}
				}
			}
			if !okBM {
				fd.bad, fd.why = ret, "the lookup helper does not return the bitmap stored in the element it found under the key"
			}
		}
	})
	return fd
}

func listCalls(fn *ssa.Function, method string) []*ssa.Call {
	var out []*ssa.Call
	allInstrs(fn, func(i ssa.Instruction) {
		if call, ok := i.(*ssa.Call); ok && calleeName(&call.Call) == "(*container/list.List)."+method {
			out = append(out, call)
		}
	})
	return out
}

func (L *lruCtx) keymatch() {
	const rule = "C07.keymatch"
	c := L.c
	get, put := c.a.LRUGet, c.a.LRUPut
	keyParam := func(fn *ssa.Function) ssa.Value {
		for _, p := range fn.Params[1:] {
			if b, ok := p.Type().Underlying().(*types.Basic); ok && b.Kind() == types.Uint64 {
				return p
			}
		}
		return nil
	}
	// Get: lookup by the key parameter; hit return derives from that element. The lookup may sit in a helper
	// (`elem, bm, ok := c.lookup(key)`): then the helper is checked to hand back the element found / its bitmap under a
	// flag that is true only when found (finder), and Get's own returns are checked against the helper's results.
	gk := keyParam(get)
	lks := L.useLookups(get)
	var fd *lruFinder
	if len(lks) == 0 && gk != nil {
		fd = L.finder(get)
	}
	if (len(lks) != 1 && fd == nil) || gk == nil {
		c.r.undecided(rule, safeFname(get), fmt.Sprintf("expected one lookup in the entries map, found %d", len(lks)), c.w.pos(get.Pos()))
	} else {
		var elem, okv, bmv ssa.Value // the element found, the found flag, the found element's bitmap (helper result only)
		if fd != nil {
			c.r.check(fd.key == gk, rule, safeFname(get)+": lookup key", "entries[key] with the requested key", "Get looks up something other than the requested key", c.w.ipos(fd.call), c.w.ipos(fd.lk))
			if fd.bad != nil {
				c.r.bad(rule, safeFname(get)+": hit return", fd.why+": a hit does not return the bitmap stored in the element found under the requested key", []string{c.w.ipos(fd.bad)})
			}
			elem, okv, bmv = fd.result(fd.ei), fd.result(fd.fi), fd.result(fd.bi)
		} else {
			lk := lks[0]
			c.r.check(lk.Index == gk, rule, safeFname(get)+": lookup key", "entries[key] with the requested key", "Get looks up something other than the requested key", c.w.ipos(lk))
			if e := extractOf(lk, 0); e != nil {
				elem = e
			}
			if e := extractOf(lk, 1); e != nil {
				okv = e
			}
		}
		nHit := 0
		allInstrs(get, func(i ssa.Instruction) {
			ret, ok := i.(*ssa.Return)
			if !ok || isRecoverBlockReturn(ret) || len(ret.Results) != 2 {
				return
			}
			rv := retVals(ret)
			if b, isK := constBool(rv[1]); !isK || !b {
				if !isK && okv != nil && rv[1] != okv {
					c.r.undecided(rule, safeFname(get)+": found flag", "the found flag returned is neither a constant nor the lookup's ok", c.w.ipos(ret))
				}
				if isK && !b {
					c.r.check(isNilConst(rv[0]), rule, safeFname(get)+": miss return", "(nil, false)", "a miss returns a non-nil bitmap", c.w.ipos(ret))
				}
				return
			}
			nHit++
			// value: load of item.bm with item = elem.Value.(*lruCacheItem), or the bitmap the lookup helper read that way
			okVal := false
			if bmv != nil && peel(rv[0]) == bmv {
				okVal = true
			} else if ld, ok := peel(rv[0]).(*ssa.UnOp); ok {
				if fa, ok := ld.X.(*ssa.FieldAddr); ok && fieldOf(fa.X.Type(), fa.Field) == L.itBM {
					if e := L.elemOfItem(fa.X); e != nil && elem != nil && peel(e) == elem {
						okVal = true
					}
				}
			}
			c.r.check(okVal && okv != nil && knownTrue(okv, ret), rule, safeFname(get)+": hit return", "returns the bitmap of the element found under the key, on the found branch",
				"a hit does not return the bitmap stored in the element found under the requested key", c.w.ipos(ret))
		})
		if nHit == 0 {
			c.r.bad(rule, safeFname(get)+": hit return", "Get never reports a hit", []string{c.w.pos(get.Pos())})
		}
	}
	// Put: insert under the key recorded in the item
	pk := keyParam(put)
	var bmParam ssa.Value
	for _, p := range put.Params {
		if typeIs(p.Type(), roaringPkg, "Bitmap") {
			bmParam = p
		}
	}
	nIns := 0
	// the key / bitmap as seen inside a helper of Put: the helper's parameter that receives Put's key / bitmap
	// (also through a helper of a helper — `insert(key, bm)` calling `newItem(key, bm)`: every call of the helper in
	// Put's scope must hand on Put's own parameter)
	putScope := c.scope(put, 2)
	var sameAs func(v ssa.Value, putParam ssa.Value, depth int) bool
	sameAs = func(v ssa.Value, putParam ssa.Value, depth int) bool {
		if v == putParam {
			return true
		}
		par, ok := v.(*ssa.Parameter)
		if !ok || par.Parent() == put || depth <= 0 {
			return false
		}
		h := par.Parent()
		okAll, n := true, 0
		instrsOf(putScope, func(j ssa.Instruction) {
			if call, ok := j.(*ssa.Call); ok && calleeFunc(&call.Call) == h && j.Parent() != h {
				n++
				if a := argFor(call, h, par); a == nil || !sameAs(a, putParam, depth-1) {
					okAll = false
				}
			}
		})
		return n > 0 && okAll
	}
	sameAsPutParam := func(v ssa.Value, putParam ssa.Value) bool { return sameAs(v, putParam, 2) }
	instrsOf(c.scope(put, 2), func(i ssa.Instruction) {
		mu, ok := i.(*ssa.MapUpdate)
		if !ok || path(mu.Map).lastField() != L.entries {
			return
		}
		nIns++
		okIns := sameAsPutParam(mu.Key, pk)
		// value = PushFront/PushBack(list, item) with item.key == key, item.bm == bm
		var item ssa.Value
		if call, ok := mu.Value.(*ssa.Call); ok && strings.HasPrefix(calleeName(&call.Call), "(*container/list.List).Push") {
			if mi, ok := call.Call.Args[1].(*ssa.MakeInterface); ok {
				item = peel(mi.X)
			}
		}
		// a constructor (`item := newItem(key, bm)`): the item is the one object the module helper allocates and
		// returns on every path; its fields are stored in the helper, whose parameters sameAsPutParam binds to the
		// arguments of the call(s) — a constructor that is handed or records another key is still reported
		if cc, ok := item.(*ssa.Call); ok {
			item = nil
			if _, _, vals, ok := resultOrigins(c.w, cc); ok {
				var obj ssa.Value
				one := true
				for _, v := range vals {
					pv := peel(v)
					if _, isAlloc := pv.(*ssa.Alloc); !isAlloc || (obj != nil && obj != pv) {
						one = false
					}
					obj = pv
				}
				if one {
					item = obj
				}
			}
		}
		if item == nil {
			okIns = false
		} else {
			keyOK, bmOK := false, false
			for _, r := range referrers(item) {
				fa, ok := r.(*ssa.FieldAddr)
				if !ok {
					continue
				}
				for _, rr := range referrers(fa) {
					if st, ok := rr.(*ssa.Store); ok && st.Addr == ssa.Value(fa) {
						switch fieldOf(fa.X.Type(), fa.Field) {
						case L.itKey:
							keyOK = sameAsPutParam(st.Val, pk)
						case L.itBM:
							bmOK = sameAsPutParam(st.Val, bmParam)
						}
					}
				}
			}
			okIns = okIns && keyOK && bmOK
		}
		c.r.check(okIns, rule, fmt.Sprintf("%s: insert#%d", safeFname(put), nIns), "entries[key] = element holding {key, bm}",
			"a new entry is not stored as entries[key] = element{key: key, bm: bm}: later lookups or evictions address the wrong entry", c.w.ipos(mu))
	})
	if nIns == 0 {
		c.r.bad(rule, safeFname(put)+": insert", "Put never inserts into the entries map", []string{c.w.pos(put.Pos())})
	}
	// Put consults the map on every path, and on the found path stores the new bitmap into the found item
	L.putstore(put, pk, bmParam, sameAsPutParam)
	// eviction: delete(entries, removedItem.key)
	nDel := 0
	for _, fn := range append(c.scope(put, 2), c.scope(get, 2)...) {
		allInstrs(fn, func(i ssa.Instruction) {
			call, ok := i.(*ssa.Call)
			if !ok {
				return
			}
			if b, ok := call.Call.Value.(*ssa.Builtin); !ok || b.Name() != "delete" || path(call.Call.Args[0]).lastField() != L.entries {
				return
			}
			nDel++
			okDel := false
			if ld, ok := call.Call.Args[1].(*ssa.UnOp); ok {
				if fa, ok := ld.X.(*ssa.FieldAddr); ok && fieldOf(fa.X.Type(), fa.Field) == L.itKey {
					if src := L.elemOfItem(fa.X); src != nil {
						if rc, ok := src.(*ssa.Call); ok && calleeName(&rc.Call) == "(*container/list.List).Remove" {
							// item := list.Remove(e).(*item): Remove hands back e.Value
							okDel = true
						} else if L.removedAround(fn, i, src) {
							// list.Remove(e) … item := e.Value.(*item) (Remove leaves e.Value in place), in either order
							okDel = true
						}
					}
				}
			}
			c.r.check(okDel, rule, fmt.Sprintf("%s: delete#%d", safeFname(fn), nDel), "delete(entries, removed item's key)",
				"the map entry deleted on eviction is not the one of the element just removed from the list: a stale entry stays retrievable or a live one disappears", c.w.ipos(i))
		})
	}
	if nDel == 0 {
		c.r.bad(rule, safeFname(put)+": delete", "evicted elements are never deleted from the entries map", []string{c.w.pos(put.Pos())})
	}
}

// putstore: "a hit returns exactly the bitmap most recently stored under that key". Necessary shape: (1) every path
// through Put looks the key up in the entries map (a return in front of the lookup leaves an older bitmap retrievable
// under the key); (2) from the edge on which the lookup reported "present", every path to a return stores Put's bitmap
// into the bitmap field of the found item. A path that skips an absent key is not a violation (nothing stale is left).
func (L *lruCtx) putstore(put *ssa.Function, pk, bmParam ssa.Value, sameAsPutParam func(v, p ssa.Value) bool) {
	const rule = "C07.putstore"
	c := L.c
	isRet := func(i ssa.Instruction) bool { _, ok := i.(*ssa.Return); return ok }
	isLookup := func(i ssa.Instruction) bool {
		lk, ok := i.(*ssa.Lookup)
		return ok && path(lk.X).lastField() == L.entries
	}
	if w := c.fc.pathAvoiding(put, nil, isRet, c.fc.ipAvoid(isLookup)); w != nil {
		c.r.bad(rule, safeFname(put)+": lookup on every path", "a path through Put returns without consulting the entries map: if the key is present, the bitmap stored earlier stays retrievable under it", []string{c.w.ipos(w[len(w)-1])}, c.fc.witnessStrings(w)...)
	} else {
		c.r.ok(rule, safeFname(put)+": lookup on every path", "every path through Put looks the key up", c.w.pos(put.Pos()))
	}
	n := 0
	for _, fn := range c.scope(put, 2) {
		for _, lk := range L.lookups(fn) {
			elem, okv := extractOf(lk, 0), extractOf(lk, 1)
			if elem == nil || okv == nil {
				continue
			}
			n++
			isStore := func(i ssa.Instruction) bool {
				st, ok := i.(*ssa.Store)
				if !ok {
					return false
				}
				fa, ok := st.Addr.(*ssa.FieldAddr)
				if !ok || fieldOf(fa.X.Type(), fa.Field) != L.itBM {
					return false
				}
				return sameAsPutParam(st.Val, bmParam)
			}
			// entry of the found branch
			var w []ssa.Instruction
			found := false
			for _, b := range fn.Blocks {
				if len(b.Preds) != 1 {
					continue
				}
				p := b.Preds[0]
				iff, ok := p.Instrs[len(p.Instrs)-1].(*ssa.If)
				if !ok {
					continue
				}
				cond, pol := iff.Cond, p.Succs[0] == b
				if u, ok := cond.(*ssa.UnOp); ok && u.Op == token.NOT {
					cond, pol = u.X, !pol
				}
				if cond != ssa.Value(okv) || !pol {
					continue
				}
				found = true
				first := b.Instrs[0]
				if c.fc.ipAvoid(isStore)(first) {
					continue
				}
				if isRet(first) {
					w = []ssa.Instruction{first} // the path search starts behind `first`
					continue
				}
				if ww := c.fc.pathAvoiding(fn, first, isRet, c.fc.ipAvoid(isStore)); ww != nil {
					w = ww
				}
			}
			key := fmt.Sprintf("%s: overwrite", safeFname(fn))
			switch {
			case !found:
				c.r.undecided(rule, key, "no branch on the lookup's found flag", c.w.ipos(lk))
			case w != nil && fn != put:
				// a finder helper: the caller stores
				okCaller := true
				nCall := 0
				allInstrs(put, func(j ssa.Instruction) {
					if call, ok := j.(*ssa.Call); ok && calleeFunc(&call.Call) == fn {
						nCall++
						if ww := c.fc.pathAvoiding(put, call, isRet, c.fc.ipAvoid(isStore)); ww != nil {
							okCaller = false
						}
					}
				})
				if nCall > 0 && okCaller {
					c.r.ok(rule, key, "the caller stores the new bitmap after the lookup helper", c.w.ipos(lk))
				} else {
					c.r.bad(rule, key, "the key is present but some path returns without storing the new bitmap into the found item: Get keeps returning the older bitmap", []string{c.w.ipos(lk)}, c.fc.witnessStrings(w)...)
				}
			case w != nil:
				c.r.bad(rule, key, "the key is present but some path returns without storing the new bitmap into the found item: Get keeps returning the older bitmap", []string{c.w.ipos(lk)}, c.fc.witnessStrings(w)...)
			default:
				c.r.ok(rule, key, "on the found path the new bitmap is stored into the found item on every path", c.w.ipos(lk))
			}
		}
	}
	if n == 0 {
		c.r.undecided(rule, "<vacuity>", "Put (and its helpers) never look up the entries map", c.w.pos(put.Pos()))
	}
}

// touchOf returns the predicate "this instruction moves element e to the front of the recency list": the list call
// itself, or a call of a module helper that receives e and moves that parameter to the front on every path.
func (L *lruCtx) touchOf(e ssa.Value, depth int) func(ssa.Instruction) bool {
	return L.touchOfFound(e, nil, nil, depth)
}

// touchOfFound is touchOf for an element that was found in the entries map under `key` by the instruction `since` (the
// lookup, or the call of the lookup helper) of the function the predicate is applied in. It also accepts a helper that
// re-validates before it moves (`if c.entries[key] == elem { c.lruList.MoveToFront(elem) }`, the touch taken under a
// lock of its own): the path around MoveToFront is the one on which entries[key] is no longer elem, and that cannot
// be taken — in the sequential reading C07 is about — when the helper is handed the same key and no instruction that
// may change the map lies between `since` and the call, nor in the helper in front of the comparison. A helper that
// compares something else, or a caller that changes the map in between, is not accepted.
func (L *lruCtx) touchOfFound(e, key ssa.Value, since ssa.Instruction, depth int) func(ssa.Instruction) bool {
	fc := L.c.fc
	isRet := func(i ssa.Instruction) bool { _, ok := i.(*ssa.Return); return ok }
	return func(i ssa.Instruction) bool {
		call, ok := i.(*ssa.Call)
		if !ok {
			return false
		}
		if calleeName(&call.Call) == "(*container/list.List).MoveToFront" {
			return len(call.Call.Args) == 2 && call.Call.Args[1] == e && path(call.Call.Args[0]).lastField() == L.list
		}
		h := calleeFunc(&call.Call)
		if h == nil || depth <= 0 || !L.c.w.inModule(h) || h.Blocks == nil {
			return false
		}
		args := callArgs(&call.Call)
		for k, a := range args {
			if a == e && k < len(h.Params) {
				if fc.mustPass(h, L.touchOf(h.Params[k], depth-1), 0) {
					return true
				}
				if key == nil || since == nil || since.Parent() != call.Parent() || !fc.canReturn(h) {
					continue
				}
				stale := L.revalidationFails(h, h.Params[k], call, key)
				if stale == nil || fc.pathFrom(h, nil, isRet, L.touchOf(h.Params[k], depth-1), stale) != nil {
					continue
				}
				changed := false
				allInstrs(call.Parent(), func(w ssa.Instruction) {
					if w != ssa.Instruction(call) && w != since && L.entriesWrite(w) && fc.reachableFrom(call.Parent(), since, w) && fc.reachableFrom(call.Parent(), w, call) {
						changed = true
					}
				})
				if !changed {
					return true
				}
			}
		}
		return false
	}
}

// revalidationFails returns the predicate on CFG edges of helper h "the comparison entries[k] == ePar came out false",
// where k is the parameter of h that the call binds to key and nothing in h may change the map before the comparison;
// nil if h has no such comparison.
func (L *lruCtx) revalidationFails(h *ssa.Function, ePar ssa.Value, call *ssa.Call, key ssa.Value) func(pred, succ *ssa.BasicBlock) bool {
	fc := L.c.fc
	isCurrent := func(v ssa.Value) bool {
		lk, ok := v.(*ssa.Lookup)
		if !ok || lk.CommaOk || path(lk.X).lastField() != L.entries {
			return false
		}
		if a := argFor(call, h, lk.Index); a == nil || a != key {
			return false
		}
		changed := false
		allInstrs(h, func(w ssa.Instruction) {
			if L.entriesWrite(w) && fc.reachableFrom(h, w, lk) {
				changed = true
			}
		})
		return !changed
	}
	any := false
	allInstrs(h, func(i ssa.Instruction) {
		if b, ok := i.(*ssa.BinOp); ok && (b.Op == token.EQL || b.Op == token.NEQ) {
			if (b.X == ePar && isCurrent(b.Y)) || (b.Y == ePar && isCurrent(b.X)) {
				any = true
			}
		}
	})
	if !any {
		return nil
	}
	return func(pred, succ *ssa.BasicBlock) bool {
		iff, ok := pred.Instrs[len(pred.Instrs)-1].(*ssa.If)
		if !ok || len(pred.Succs) != 2 || pred.Succs[0] == pred.Succs[1] {
			return false
		}
		for _, cm := range trueCmps(fact{iff.Cond, pred.Succs[0] == succ}) {
			if cm.Op == token.NEQ && cm.Y != nil && ((cm.X == ePar && isCurrent(cm.Y)) || (cm.Y == ePar && isCurrent(cm.X))) {
				return true
			}
		}
		return false
	}
}

// isBackOfList: v is list.Back() of the recency list, or a loop variable all of whose values are such calls.
func (L *lruCtx) isBackOfList(v ssa.Value) bool {
	switch x := v.(type) {
	case *ssa.Call:
		return calleeName(&x.Call) == "(*container/list.List).Back" && path(x.Call.Args[0]).lastField() == L.list
	case *ssa.Phi:
		for _, e := range x.Edges {
			if _, isPhi := e.(*ssa.Phi); isPhi || !L.isBackOfList(e) {
				return false
			}
		}
		return len(x.Edges) > 0
	}
	return false
}

// isEmptyListTest: a comparison of list.Back() (or a loop variable holding it) with nil — the other half of the
// eviction loop's condition in the "walk from the back" form.
func (L *lruCtx) isEmptyListTest(i ssa.Instruction) bool {
	b, ok := i.(*ssa.BinOp)
	if !ok {
		return false
	}
	// list.Len() compared with 0 or 1 in either order (`Len() > 0 && counter > capacity` tests the list first)
	for _, pair := range [][2]ssa.Value{{b.X, b.Y}, {b.Y, b.X}} {
		if call, ok := peelConv(pair[0]).(*ssa.Call); ok && calleeName(&call.Call) == "(*container/list.List).Len" {
			if k, isK := constInt(pair[1]); isK && (k == 0 || k == 1) {
				switch b.Op {
				case token.EQL, token.NEQ, token.LSS, token.LEQ, token.GTR, token.GEQ:
					return true
				}
			}
		}
	}
	if b.Op != token.EQL && b.Op != token.NEQ {
		return false
	}
	return (isNilConst(b.Y) && L.isBackOfList(b.X)) || (isNilConst(b.X) && L.isBackOfList(b.Y))
}

func (L *lruCtx) touch() {
	const rule = "C07.touch"
	c := L.c
	type lookupFn struct{ fn, anchor *ssa.Function }
	var lookupFns []lookupFn
	for _, anchor := range []*ssa.Function{c.a.LRUGet, c.a.LRUPut} {
		for _, f := range c.scope(anchor, 2) {
			if len(L.useLookups(f)) > 0 {
				lookupFns = append(lookupFns, lookupFn{f, anchor})
			}
		}
	}
	isRet := func(i ssa.Instruction) bool { _, ok := i.(*ssa.Return); return ok }
	// foundPath: from the first instruction of every branch on which okv is known true, every path of fn to a return
	// moves elem to the front. branches == 0: fn never branches on okv.
	foundPath := func(fn *ssa.Function, elem, okv, key ssa.Value, since ssa.Instruction) (branches int, witness []ssa.Instruction) {
		isTouch := L.touchOfFound(elem, key, since, 2)
		for _, b := range fn.Blocks {
			if len(b.Preds) != 1 {
				continue
			}
			p := b.Preds[0]
			iff, ok := p.Instrs[len(p.Instrs)-1].(*ssa.If)
			if !ok || len(p.Succs) != 2 || p.Succs[0] == p.Succs[1] {
				continue
			}
			onFound := false
			for _, cm := range trueCmps(fact{iff.Cond, p.Succs[0] == b}) {
				if cm.Y == nil && cm.Op == token.EQL && cm.X == okv {
					onFound = true
				}
			}
			if !onFound {
				continue
			}
			branches++
			first := b.Instrs[0]
			if isTouch(first) {
				continue
			}
			// (the search starts behind `first`: a found branch that begins with the return is a path of its own)
			if isRet(first) {
				if witness == nil {
					witness = []ssa.Instruction{first}
				}
				continue
			}
			if w := c.fc.pathAvoiding(fn, first, isRet, isTouch); w != nil && witness == nil {
				witness = w
			}
		}
		return
	}
	const untouched = "an existing entry is used without being moved to the front of the recency list on some path: eviction order is no longer least-recently-used"
	for _, lf := range lookupFns {
		fn := lf.fn
		lks := L.useLookups(fn)
		if len(lks) != 1 {
			continue
		}
		key := safeFname(fn) + ": found path"
		var elem, okv ssa.Value
		if e := extractOf(lks[0], 0); e != nil {
			elem = e
		}
		if e := extractOf(lks[0], 1); e != nil {
			okv = e
		}
		// a lookup helper (`elem, bm, ok := c.lookup(key)`) that does not move the element itself: its caller has to,
		// on the branch on which the helper's found flag is true, with the element the helper returned
		var fd *lruFinder
		if fn != lf.anchor {
			if f := L.finder(lf.anchor); f != nil && f.h == fn && f.bad == nil && f.ei >= 0 {
				fd = f
			}
		}
		if elem == nil || okv == nil {
			c.r.bad(rule, key, "the lookup result is not used as (element, found)", []string{c.w.ipos(lks[0])})
			continue
		}
		branches, w := foundPath(fn, elem, okv, lks[0].Index, lks[0])
		if fd != nil && (branches == 0 || w != nil) {
			celem, cokv := fd.result(fd.ei), fd.result(fd.fi)
			if celem == nil || cokv == nil {
				c.r.bad(rule, key, "the lookup helper's caller does not use its result as (element, found): "+untouched, []string{c.w.ipos(fd.call)})
				continue
			}
			branches, w = foundPath(lf.anchor, celem, cokv, fd.key, fd.call)
			switch {
			case branches == 0:
				c.r.undecided(rule, key, "no branch on the lookup helper's found flag in its caller", c.w.ipos(fd.call))
			case w != nil:
				c.r.bad(rule, key, untouched, []string{c.w.ipos(fd.call)}, c.fc.witnessStrings(w)...)
			default:
				c.r.ok(rule, key, "the caller of the lookup helper moves the element to the front on every path", c.w.ipos(fd.call))
			}
			continue
		}
		switch {
		case branches == 0:
			c.r.undecided(rule, key, "no branch on the lookup's found flag", c.w.ipos(lks[0]))
		case w != nil:
			c.r.bad(rule, key, untouched, []string{c.w.ipos(lks[0])}, c.fc.witnessStrings(w)...)
		default:
			c.r.ok(rule, key, "moves the element to the front on every path", c.w.ipos(lks[0]))
		}
	}
	put := c.a.LRUPut
	var pb, pf []*ssa.Call
	for _, f := range c.scope(put, 2) {
		pb = append(pb, listCalls(f, "PushBack")...)
		pf = append(pf, listCalls(f, "PushFront")...)
	}
	if len(pb) > 0 {
		c.r.bad(rule, safeFname(put)+": insert position", "new entries are pushed to the back of the recency list (the eviction end)", []string{c.w.ipos(pb[0])})
	} else if len(pf) > 0 {
		c.r.ok(rule, safeFname(put)+": insert position", "new entries are pushed to the front", c.w.ipos(pf[0]))
	} else {
		c.r.bad(rule, safeFname(put)+": insert position", "new entries are not added to the recency list", []string{c.w.pos(put.Pos())})
	}
	var rms []*ssa.Call
	for _, f := range c.scope(put, 2) {
		rms = append(rms, listCalls(f, "Remove")...)
	}
	if len(rms) == 0 {
		c.r.bad(rule, safeFname(put)+": eviction end", "nothing is ever removed from the recency list", []string{c.w.pos(put.Pos())})
	}
	for k, rm := range rms {
		okBack := L.isBackOfList(rm.Call.Args[1])
		c.r.check(okBack, rule, fmt.Sprintf("%s: eviction end#%d", safeFname(put), k+1), "evicts list.Back()", "eviction does not remove the element at the back of the recency list (the least recently used one)", c.w.ipos(rm))
	}
}

// A costTerm is one signed summand of a byte-counter update.
type costTerm struct {
	sign int
	kind string    // "size", a global's name, "const:…", "?"
	item ssa.Value // for size terms: the item whose size is read
	load ssa.Instruction
	when string // for size terms: "old" (read before the item's size is overwritten in this call), "new" (after), "" (item's size is not written here)
	// via: the size is read through a derived field of the item (item.cost, kept equal to item.size + overhead, see
	// derivedDef): old/new is then relative to the stores of that field. val: the term is not a load at all but the
	// very value stored into item.size in the same function (only while a derived field's definition is decomposed).
	via *types.Var
	val ssa.Value
}

// signedTerms decomposes e (to be added with the given sign) into summands; calls to small module helpers are expanded.
func (L *lruCtx) signedTerms(e ssa.Value, sign int, at ssa.Instruction, bind map[ssa.Value]ssa.Value, depth int, out *[]costTerm) {
	e = peelConv(e)
	if b, ok := bind[e]; ok {
		e = b
	}
	if item, ok := L.sizeVals[e]; ok {
		*out = append(*out, costTerm{sign: sign, kind: "size", item: item, val: e})
		return
	}
	switch x := e.(type) {
	case *ssa.BinOp:
		if x.Op == token.ADD {
			L.signedTerms(x.X, sign, at, bind, depth, out)
			L.signedTerms(x.Y, sign, at, bind, depth, out)
			return
		}
		if x.Op == token.SUB {
			L.signedTerms(x.X, sign, at, bind, depth, out)
			L.signedTerms(x.Y, -sign, at, bind, depth, out)
			return
		}
	case *ssa.UnOp:
		if x.Op == token.MUL {
			if g, ok := x.X.(*ssa.Global); ok {
				*out = append(*out, costTerm{sign: sign, kind: g.Name()})
				return
			}
			if fa, ok := x.X.(*ssa.FieldAddr); ok && fieldOf(fa.X.Type(), fa.Field) == L.curSize {
				*out = append(*out, costTerm{sign: sign, kind: "counter"})
				return
			}
			if fa, ok := x.X.(*ssa.FieldAddr); ok && fieldOf(fa.X.Type(), fa.Field) == L.itSize {
				item := fa.X
				if b, ok := bind[item]; ok {
					item = b
				}
				pos := ssa.Instruction(x)
				if at != nil && x.Parent() != at.Parent() {
					pos = at // a load inside an expanded helper happens at the call
				}
				*out = append(*out, costTerm{sign: sign, kind: "size", item: peel(item), load: pos})
				return
			}
			// a derived field of the item (item.cost == item.size + overhead wherever the size is set): reading it is
			// reading the size plus that overhead, as of the last store of the derived field
			if fa, ok := x.X.(*ssa.FieldAddr); ok {
				if f := fieldOf(fa.X.Type(), fa.Field); L.isItemCounterField(f) {
					if d := L.derivedDef(f); d != nil && d.defined {
						item := fa.X
						if b, ok := bind[item]; ok {
							item = b
						}
						pos := ssa.Instruction(x)
						if at != nil && x.Parent() != at.Parent() {
							pos = at
						}
						*out = append(*out, costTerm{sign: sign, kind: "size", item: peel(item), load: pos, via: f})
						for _, o := range d.overhead {
							*out = append(*out, costTerm{sign: sign * o.sign, kind: o.kind})
						}
						return
					}
				}
			}
		}
	case *ssa.Const:
		*out = append(*out, costTerm{sign: sign, kind: "const:" + x.Value.ExactString()})
		return
	case *ssa.Call:
		if f := calleeFunc(&x.Call); f != nil && depth < 3 && L.c.w.inModule(f) && f.Blocks != nil && len(f.Blocks) == 1 {
			if ret, ok := f.Blocks[0].Instrs[len(f.Blocks[0].Instrs)-1].(*ssa.Return); ok && len(ret.Results) == 1 {
				b2 := map[ssa.Value]ssa.Value{}
				for k, p := range f.Params {
					if k < len(x.Call.Args) {
						b2[p] = x.Call.Args[k]
					}
				}
				L.signedTerms(ret.Results[0], sign, x, b2, depth+1, out)
				return
			}
		}
	}
	*out = append(*out, costTerm{sign: sign, kind: "?"})
}

// derivedInfo is the established definition of a derived field of the cache item: item.F == item.size + overhead.
type derivedInfo struct {
	defined  bool       // (a) every store of the field stores that item's size plus the same overhead
	ok       bool       // … and (b) every store of item.size is followed by one
	overhead []costTerm // the summands next to the size
}

// isItemCounterField: f is an integer field of the item type other than its key and its size.
func (L *lruCtx) isItemCounterField(f *types.Var) bool {
	if f == nil || f == L.itKey || f == L.itSize || L.c.w.ownerOf(f) != L.c.a.LRUItemT {
		return false
	}
	b, ok := f.Type().Underlying().(*types.Basic)
	return ok && b.Info()&types.IsInteger != 0
}

// before: a executes before b on every path on which both execute once (same block: earlier; else a's block
// strictly dominates b's).
func before(a, b ssa.Instruction) bool {
	if a.Block() == b.Block() {
		return pointOf(a).i < pointOf(b).i
	}
	return a.Parent() == b.Parent() && a.Block().Dominates(b.Block())
}

// derivedDef decides whether item field f is a *derived* field — a cached copy of the entry's cost — so that the byte
// counter may be kept as the sum of item.f instead of the sum of item.size + overhead:
//
//	(a) every store of item.f in the package stores `size of that item + the same overhead constants`, where the size
//	    is a load of item.size that is not older than a store of item.size in front of the store of f, or the very
//	    value that the same function stores into item.size (`size := bm.GetSizeInBytes(); &item{size: size, cost: cost(size)}`);
//	(b) every store of item.size in the package is followed on every path to a return by such a store of item.f for
//	    the same item (or stands next to one that uses the stored value itself). A size that changes without the
//	    derived field being recomputed is the defect "stale cost": what is subtracted when the entry is evicted later
//	    is not what the counter holds for it.
//
// Failures are reported once, under C07.account[derived field <f>]; a field whose stores do not agree on one definition
// (a) also makes the counter updates that read it undecomposable (reported by account as today). nil: f is never stored.
func (L *lruCtx) derivedDef(f *types.Var) *derivedInfo {
	if d, ok := L.derived[f]; ok {
		return d // nil while being established: a definition in terms of itself is none
	}
	if L.derived == nil {
		L.derived = map[*types.Var]*derivedInfo{}
	}
	L.derived[f] = nil
	const rule = "C07.account"
	c := L.c
	key := "derived field " + f.Name()
	var fns []*ssa.Function
	for _, fn := range c.w.ModFuncs {
		if c.w.pkgPathOf(fn) == pkgRoot {
			fns = append(fns, fn)
		}
	}
	dStores, sStores := storesTo(fns, f), storesTo(fns, L.itSize)
	if len(dStores) == 0 {
		return nil
	}
	itemOf := func(st *ssa.Store) ssa.Value { return peel(st.Addr.(*ssa.FieldAddr).X) }
	d := &derivedInfo{ok: true}
	sizeTerm := map[*ssa.Store]costTerm{}
	ohs, have := "", false
	for _, ds := range dStores {
		item := itemOf(ds)
		L.sizeVals = map[ssa.Value]ssa.Value{}
		for _, ss := range sStores {
			if ss.Parent() == ds.Parent() && itemOf(ss) == item {
				L.sizeVals[ss.Val] = item
				L.sizeVals[peelConv(ss.Val)] = item
			}
		}
		var terms []costTerm
		L.signedTerms(ds.Val, +1, nil, map[ssa.Value]ssa.Value{}, 0, &terms)
		L.sizeVals = nil
		var size []costTerm
		var oh []costTerm
		var kinds []string
		shape := true
		for _, t := range terms {
			switch {
			case t.kind == "size" && t.sign > 0 && t.item == item && t.via == nil:
				size = append(size, t)
			case t.kind == "size" || t.kind == "?" || t.kind == "counter" || t.sign < 0:
				shape = false
			default:
				oh = append(oh, t)
				kinds = append(kinds, t.kind)
			}
		}
		sort.Strings(kinds)
		if !shape || len(size) != 1 {
			c.r.bad(rule, key, "item."+f.Name()+" is read by the byte counter's arithmetic but is stored with something other than that item's size plus overhead constants: the counter is not the sum of what the entries are charged with", []string{c.w.ipos(ds)})
			d.ok = false
			continue
		}
		if t := size[0]; t.load != nil {
			for _, ss := range sStores {
				if ss.Parent() == ds.Parent() && itemOf(ss) == item && t.load.Parent() == ss.Parent() && before(t.load, ss) && before(ss, ds) {
					c.r.bad(rule, key, "item."+f.Name()+" is computed from the size the item had before its size was overwritten: the entry is charged with the cost of its previous bitmap", []string{c.w.ipos(ds)})
					d.ok = false
				}
			}
		}
		sizeTerm[ds] = size[0]
		if !have {
			d.overhead, ohs, have = oh, strings.Join(kinds, "+"), true
		} else if strings.Join(kinds, "+") != ohs {
			c.r.bad(rule, key, fmt.Sprintf("item.%s is stored as size + [%s] here and as size + [%s] elsewhere: entries are charged with different overheads", f.Name(), strings.Join(kinds, "+"), ohs), []string{c.w.ipos(ds)})
			d.ok = false
		}
	}
	// the field has one definition: reads of it are decomposed with it (a size that is set without the field being
	// recomputed is reported here, once, instead of making every counter update that reads the field undecomposable)
	d.defined = d.ok
	isRet := func(i ssa.Instruction) bool { _, ok := i.(*ssa.Return); return ok }
	for _, ss := range sStores {
		item := itemOf(ss)
		beside := false
		var after []ssa.Instruction
		for _, ds := range dStores {
			t, ok := sizeTerm[ds]
			if !ok || ds.Parent() != ss.Parent() || itemOf(ds) != item {
				continue
			}
			switch {
			case t.val != nil:
				if (t.val == ss.Val || t.val == peelConv(ss.Val)) && (before(ds, ss) || before(ss, ds)) {
					beside = true
				}
			case t.load != nil && t.load.Parent() == ss.Parent() && before(ss, t.load):
				after = append(after, ds)
			}
		}
		if beside {
			continue
		}
		isAfter := func(i ssa.Instruction) bool {
			for _, x := range after {
				if x == i {
					return true
				}
			}
			return false
		}
		if w := c.fc.pathAvoiding(ss.Parent(), ss, isRet, isAfter); w != nil {
			c.r.bad(rule, key, "an item's size is set without recomputing item."+f.Name()+", which the byte counter is kept in terms of: the entry keeps the cost of its previous bitmap, and when it is evicted later that stale cost is subtracted — the counter drifts away from the sum of the stored entries and the byte bound no longer holds", []string{c.w.ipos(ss)}, c.fc.witnessStrings(w)...)
			d.ok = false
		}
	}
	if d.ok {
		c.r.ok(rule, key, fmt.Sprintf("item.%s == item.size + [%s] at each of its %d stores, and recomputed after each of the %d stores of item.size", f.Name(), ohs, len(dStores), len(sStores)), c.w.ipos(dStores[0]))
	}
	L.derived[f] = d
	return d
}

func (L *lruCtx) account() {
	const rule = "C07.account"
	c := L.c
	put := c.a.LRUPut
	// stores to item.size in Put (to tell old from new size reads)
	var sizeStores []*ssa.Store
	instrsOf(c.scope(put, 2), func(i ssa.Instruction) {
		if st, ok := i.(*ssa.Store); ok {
			if fa, ok := st.Addr.(*ssa.FieldAddr); ok && fieldOf(fa.X.Type(), fa.Field) == L.itSize {
				sizeStores = append(sizeStores, st)
			}
		}
	})
	viaStores := map[*types.Var][]*ssa.Store{}
	when := func(t costTerm) string {
		stores := sizeStores
		if t.via != nil {
			// the size as cached in a derived field: old or new is decided by the stores of that field
			if _, ok := viaStores[t.via]; !ok {
				viaStores[t.via] = storesTo(c.scope(put, 2), t.via)
			}
			stores = viaStores[t.via]
		}
		for _, st := range stores {
			fa := st.Addr.(*ssa.FieldAddr)
			if peel(fa.X) != t.item || t.load == nil || t.load.Parent() != st.Parent() {
				continue
			}
			if _, isAlloc := t.item.(*ssa.Alloc); isAlloc {
				continue // a new item: its size is initialised, not overwritten
			}
			lb, sb := t.load.Block(), st.Block()
			switch {
			case lb == sb:
				if pointOf(t.load).i < pointOf(st).i {
					return "old"
				}
				return "new"
			case lb.Dominates(sb):
				return "old"
			case sb.Dominates(lb):
				return "new"
			}
		}
		return ""
	}
	type upd struct {
		st    *ssa.Store
		terms []costTerm
		desc  string
	}
	var upds []upd
	for _, fn := range append(c.scope(put, 2), c.scope(c.a.LRUGet, 2)...) {
		allInstrs(fn, func(i ssa.Instruction) {
			st, ok := i.(*ssa.Store)
			if !ok {
				return
			}
			fa, ok := st.Addr.(*ssa.FieldAddr)
			if !ok || fieldOf(fa.X.Type(), fa.Field) != L.curSize {
				return
			}
			var terms []costTerm
			L.signedTerms(st.Val, +1, nil, map[ssa.Value]ssa.Value{}, 0, &terms)
			// remove the counter itself (+curSize); anything else than exactly one such term is an unknown shape
			var rest []costTerm
			self := 0
			for _, t := range terms {
				if t.kind == "counter" {
					if t.sign > 0 {
						self++
					} else {
						self += 100
					}
					continue
				}
				rest = append(rest, t)
			}
			if self != 1 {
				rest = append(rest, costTerm{sign: 1, kind: "?"})
			}
			upds = append(upds, upd{st: st, terms: rest})
		})
	}
	if len(upds) < 2 {
		c.r.bad(rule, "counter updates", fmt.Sprintf("only %d update(s) of the byte counter found: additions and subtractions cannot balance", len(upds)), []string{c.w.pos(put.Pos())})
		return
	}
	// classify each update by its signed summands
	overhead := func(ts []costTerm, sign int) string {
		var g []string
		for _, t := range ts {
			if t.sign == sign && t.kind != "size" && t.kind != "counter" {
				g = append(g, t.kind)
			}
		}
		sort.Strings(g)
		return strings.Join(g, "+")
	}
	var insertOH, evictOH []string
	nPlus, nMinus := 0, 0
	for k := range upds {
		u := &upds[k]
		key := fmt.Sprintf("counter update#%d", k+1)
		var plusSize, minusSize []costTerm
		unknown := false
		for i := range u.terms {
			t := &u.terms[i]
			if t.kind == "size" {
				t.when = when(*t)
				if t.sign > 0 {
					plusSize = append(plusSize, *t)
				} else {
					minusSize = append(minusSize, *t)
				}
			}
			if t.kind == "?" {
				unknown = true
			}
		}
		var parts []string
		for _, t := range u.terms {
			sg := "+"
			if t.sign < 0 {
				sg = "-"
			}
			w := ""
			if t.when != "" {
				w = "(" + t.when + ")"
			}
			parts = append(parts, sg+t.kind+w)
		}
		u.desc = strings.Join(parts, " ")
		switch {
		case unknown:
			c.r.bad(rule, key, "the byte counter is updated with an expression the rule cannot decompose into item size and overhead constants ("+u.desc+")", []string{c.w.ipos(u.st)})
		case len(plusSize) == 1 && len(minusSize) == 0:
			nPlus++
			if plusSize[0].when == "old" {
				c.r.bad(rule, key, "the cost added for an entry is computed from the size it had before it was overwritten ("+u.desc+")", []string{c.w.ipos(u.st)})
				continue
			}
			insertOH = append(insertOH, overhead(u.terms, +1))
			if overhead(u.terms, -1) != "" {
				c.r.bad(rule, key, "an addition also subtracts overhead constants ("+u.desc+")", []string{c.w.ipos(u.st)})
				continue
			}
			c.r.ok(rule, key, "adds cost(item): "+u.desc, c.w.ipos(u.st))
		case len(minusSize) == 1 && len(plusSize) == 0:
			nMinus++
			if minusSize[0].when == "new" {
				c.r.bad(rule, key, "the cost subtracted for an overwritten entry is computed from its new size, not from the size that was added earlier ("+u.desc+"): the counter drifts and the byte bound no longer holds", []string{c.w.ipos(u.st)})
				continue
			}
			evictOH = append(evictOH, overhead(u.terms, -1))
			if overhead(u.terms, +1) != "" {
				c.r.bad(rule, key, "a subtraction also adds overhead constants ("+u.desc+")", []string{c.w.ipos(u.st)})
				continue
			}
			c.r.ok(rule, key, "subtracts cost(item): "+u.desc, c.w.ipos(u.st))
		case len(plusSize) == 1 && len(minusSize) == 1:
			// combined overwrite: + new size − old size, overheads must cancel
			nPlus++
			nMinus++
			okD := plusSize[0].when != "old" && minusSize[0].when == "old" && plusSize[0].item == minusSize[0].item && overhead(u.terms, +1) == overhead(u.terms, -1)
			c.r.check(okD, rule, key, "adjusts by new size − old size: "+u.desc,
				"an overwrite adjusts the counter by something other than (size after) − (size before) of the same item ("+u.desc+"): the counter no longer equals the sum of the stored entries", c.w.ipos(u.st))
		default:
			c.r.bad(rule, key, "unexpected combination of size terms in a counter update ("+u.desc+")", []string{c.w.ipos(u.st)})
		}
	}
	okOH := len(insertOH) > 0 && len(evictOH) > 0
	for _, a := range insertOH {
		for _, b := range evictOH {
			if a != b {
				okOH = false
			}
		}
	}
	c.r.check(okOH && nPlus > 0 && nMinus > 0, rule, "counter updates", fmt.Sprintf("%d additions and %d subtractions with the same overhead constants", nPlus, nMinus),
		fmt.Sprintf("additions use overhead %v, subtractions %v: what is added for an item is not what is subtracted when it leaves, so the counter drifts", insertOH, evictOH), c.w.pos(put.Pos()))
	// size recorded whenever a bitmap is stored into an item
	n := 0
	instrsOf(c.scope(put, 2), func(i ssa.Instruction) {
		st, ok := i.(*ssa.Store)
		if !ok {
			return
		}
		fa, ok := st.Addr.(*ssa.FieldAddr)
		if !ok || fieldOf(fa.X.Type(), fa.Field) != L.itBM {
			return
		}
		n++
		item := fa.X
		okSize := false
		allInstrs(st.Parent(), func(j ssa.Instruction) {
			s2, ok := j.(*ssa.Store)
			if !ok {
				return
			}
			fa2, ok := s2.Addr.(*ssa.FieldAddr)
			if !ok || fieldOf(fa2.X.Type(), fa2.Field) != L.itSize || peel(fa2.X) != peel(item) {
				return
			}
			if call, ok := s2.Val.(*ssa.Call); ok && calleeName(&call.Call) == "(*github.com/RoaringBitmap/roaring.Bitmap).GetSizeInBytes" && call.Call.Args[0] == st.Val {
				// same straight-line region: one dominates the other and no counter update lies between the bitmap store and the size store that reads the stale size
				if s2.Block() == st.Block() || s2.Block().Dominates(st.Block()) || st.Block().Dominates(s2.Block()) {
					okSize = true
				}
			}
		})
		c.r.check(okSize, rule, fmt.Sprintf("%s: bitmap store#%d", safeFname(put), n), "item.size = bm.GetSizeInBytes() for the stored bitmap",
			"a bitmap is stored into a cache item without setting the item's size to that bitmap's size: the accounting keeps the old size (overwriting a small entry with a large bitmap escapes the byte bound)", c.w.ipos(st))
	})
	// eviction loop
	var cmpI *ssa.BinOp
	instrsOf(c.scope(put, 2), func(i ssa.Instruction) {
		b, ok := i.(*ssa.BinOp)
		if !ok {
			return
		}
		switch b.Op {
		case token.GTR, token.LSS, token.LEQ, token.GEQ:
			if (srcField(b.X) == L.curSize && srcField(b.Y) == L.maxSize) || (srcField(b.Y) == L.curSize && srcField(b.X) == L.maxSize) {
				cmpI = b
			}
		}
	})
	if cmpI == nil {
		c.r.bad(rule, safeFname(put)+": eviction loop", "Put never compares the byte counter with the capacity (counter > capacity)", []string{c.w.pos(put.Pos())})
		return
	}
	loopFn := cmpI.Parent() // the function holding the eviction loop (Put itself or a helper it calls)
	rms := listCalls(loopFn, "Remove")
	isRemove := func(i ssa.Instruction) bool {
		for _, r := range rms {
			if ssa.Instruction(r) == i {
				return true
			}
		}
		return false
	}
	okLoop := len(rms) > 0
	for _, rm := range rms {
		if !c.fc.reachableFrom(loopFn, rm, cmpI) {
			okLoop = false
		}
	}
	// leaving the test towards a return without removing is only allowed on the "counter <= capacity" edge or the "list empty" edge
	exitEdge := func(pred, succ *ssa.BasicBlock) bool {
		iff, ok := pred.Instrs[len(pred.Instrs)-1].(*ssa.If)
		if !ok {
			return false
		}
		for _, cm := range trueCmps(fact{iff.Cond, pred.Succs[0] == succ}) {
			if cm.Y == nil {
				continue
			}
			// counter <= capacity
			if (cm.Op == token.LEQ && srcField(cm.X) == L.curSize && srcField(cm.Y) == L.maxSize) || (cm.Op == token.GEQ && srcField(cm.Y) == L.curSize && srcField(cm.X) == L.maxSize) {
				return true
			}
			// Back() == nil: the list is empty
			if cm.Op == token.EQL && ((isNilConst(cm.Y) && L.isBackOfList(cm.X)) || (isNilConst(cm.X) && L.isBackOfList(cm.Y))) {
				return true
			}
			// Len() <= 0 / == 0
			if call, ok := peelConv(cm.X).(*ssa.Call); ok && calleeName(&call.Call) == "(*container/list.List).Len" {
				if k, isK := constInt(cm.Y); isK && ((cm.Op == token.LEQ && k == 0) || (cm.Op == token.EQL && k == 0) || (cm.Op == token.LSS && k == 1)) {
					return true
				}
			}
		}
		return false
	}
	if okLoop {
		if p := c.fc.pathFrom(loopFn, cmpI, func(i ssa.Instruction) bool { _, ok := i.(*ssa.Return); return ok }, isRemove, exitEdge); p != nil {
			okLoop = false
		}
	}
	c.r.check(okLoop, rule, safeFname(put)+": eviction loop", "removes from the back while counter > capacity and the list is non-empty",
		"the eviction loop is not `while counter > capacity and list non-empty: remove back`: it can stop while the cache is still over its byte bound", c.w.ipos(cmpI))
	// every increase reaches the loop test
	for k, u := range upds {
		inc := false
		for _, t := range u.terms {
			if t.kind == "size" && t.sign > 0 {
				inc = true
			}
		}
		if !inc {
			continue
		}
		from := c.liftTo(u.st, put)
		if from == nil {
			continue // an increase outside Put's call tree (none today)
		}
		if p := c.fc.pathAvoiding(put, from, func(i ssa.Instruction) bool { _, ok := i.(*ssa.Return); return ok }, c.fc.ipAvoid(func(i ssa.Instruction) bool { return i == ssa.Instruction(cmpI) || L.isEmptyListTest(i) })); p != nil {
			c.r.bad(rule, fmt.Sprintf("%s: increase#%d reaches eviction", safeFname(put), k+1), "after increasing the byte counter Put can return without running the eviction loop: the cache stays over its bound", []string{c.w.ipos(u.st)}, c.fc.witnessStrings(p)...)
		} else {
			c.r.ok(rule, fmt.Sprintf("%s: increase#%d reaches eviction", safeFname(put), k+1), "followed by the eviction loop on every path", c.w.ipos(u.st))
		}
	}
}

// An incSite is an instruction of a function that increments a metrics counter (unless the counter is nil): the Inc
// call itself, a call of a helper that increments the counter it is handed, or a call of a helper that does the
// counting of the function (`c.recordGet(ok)`). cond != nil: the helper increments the counter exactly when its
// boolean parameter, bound to cond at the call, equals pol (hit/miss counting moved behind a flag).
type incSite struct {
	i    ssa.Instruction
	cond ssa.Value
	pol  bool
}

func (L *lruCtx) counters() {
	const rule = "C07.counters"
	c := L.c
	metricsT := c.w.namedType(pkgRoot, "CacheMetrics")
	if metricsT == nil {
		c.r.undecided(rule, "<anchor>", "CacheMetrics not found")
		return
	}
	isRet := func(j ssa.Instruction) bool {
		r, ok := j.(*ssa.Return)
		return ok && !isRecoverBlockReturn(r)
	}
	nilEdge := func(name string) func(pred, succ *ssa.BasicBlock) bool {
		return func(pred, succ *ssa.BasicBlock) bool {
			iff, ok := pred.Instrs[len(pred.Instrs)-1].(*ssa.If)
			if !ok {
				return false
			}
			for _, cm := range trueCmps(fact{iff.Cond, pred.Succs[0] == succ}) {
				if cm.Op == token.EQL && cm.Y != nil && isNilConst(cm.Y) {
					if f := srcField(cm.X); f != nil && f.Name() == name && c.w.ownerOf(f) == metricsT {
						return true
					}
				}
			}
			return false
		}
	}
	// flagEdge: the branch on the boolean v (possibly negated) taken in the direction v == val
	flagEdge := func(v ssa.Value, val bool) func(pred, succ *ssa.BasicBlock) bool {
		return func(pred, succ *ssa.BasicBlock) bool {
			iff, ok := pred.Instrs[len(pred.Instrs)-1].(*ssa.If)
			if !ok || len(pred.Succs) != 2 || pred.Succs[0] == pred.Succs[1] {
				return false
			}
			for _, cm := range trueCmps(fact{iff.Cond, pred.Succs[0] == succ}) {
				if cm.Y == nil && cm.X == v && (cm.Op == token.EQL) == val {
					return true
				}
			}
			return false
		}
	}
	inSites := func(l []incSite) func(ssa.Instruction) bool {
		return func(i ssa.Instruction) bool {
			for _, x := range l {
				if x.i == i {
					return true
				}
			}
			return false
		}
	}
	type sitesKey struct {
		fn   *ssa.Function
		name string
	}
	cache := map[sitesKey][]incSite{}
	opaque := map[sitesKey]ssa.Instruction{} // a helper call that increments the counter in a way that cannot be summarised
	var incs func(fn *ssa.Function, name string, depth int) []incSite
	incs = func(fn *ssa.Function, name string, depth int) []incSite {
		k := sitesKey{fn, name}
		if out, ok := cache[k]; ok {
			return out
		}
		cache[k] = nil // recursion
		var out []incSite
		allInstrs(fn, func(i ssa.Instruction) {
			call, ok := i.(*ssa.Call)
			if !ok || !call.Call.IsInvoke() || call.Call.Method.Name() != "Inc" {
				return
			}
			if f := path(call.Call.Value).lastField(); f != nil && f.Name() == name && c.w.ownerOf(f) == metricsT {
				out = append(out, incSite{i: i})
			}
		})
		allInstrs(fn, func(i ssa.Instruction) {
			call, ok := i.(*ssa.Call)
			if !ok {
				return
			}
			h := calleeFunc(&call.Call)
			if h == nil || h == fn || !c.w.inModule(h) || h.Blocks == nil {
				return
			}
			// a helper that increments the counter it is given (`count(c.metrics.X)` with `if m != nil { m.Inc() }` inside)
			handed := false
			for k, a := range call.Call.Args {
				if k >= len(h.Params) {
					continue
				}
				if f := path(a).lastField(); f == nil || f.Name() != name || c.w.ownerOf(f) != metricsT {
					continue
				}
				handed = true
				par := ssa.Value(h.Params[k])
				// every path through the helper increments the parameter exactly when it is non-nil
				isInc := func(j ssa.Instruction) bool {
					ic, ok := j.(*ssa.Call)
					return ok && ic.Call.IsInvoke() && ic.Call.Method.Name() == "Inc" && ic.Call.Value == par
				}
				nilEdgeP := func(pred, succ *ssa.BasicBlock) bool {
					iff, ok := pred.Instrs[len(pred.Instrs)-1].(*ssa.If)
					if !ok {
						return false
					}
					for _, cm := range trueCmps(fact{iff.Cond, pred.Succs[0] == succ}) {
						if cm.Op == token.EQL && cm.Y != nil && isNilConst(cm.Y) && cm.X == par {
							return true
						}
					}
					return false
				}
				if c.fc.pathFrom(h, nil, isRet, isInc, nilEdgeP) == nil && c.fc.mayContain(h, isInc, 0) {
					out = append(out, incSite{i: i})
				}
			}
			if handed || depth <= 0 {
				return
			}
			// a helper that does the counting itself, reading the counters from the same cache (`c.recordGet(ok)`): its
			// own increments are summarised — on every path exactly once unless the counter is nil, or exactly so on the
			// paths on which a boolean parameter has one value and never on the others. The summary is what the inline
			// code is checked for, so a helper that forgets a path, counts twice or counts under the wrong flag is
			// still reported (at the call, or here as opaque).
			if h.Signature.Recv() != nil && (len(fn.Params) == 0 || len(call.Call.Args) == 0 || call.Call.Args[0] != ssa.Value(fn.Params[0])) {
				return // the counters of some other cache
			}
			l := incs(h, name, depth-1)
			if len(l) == 0 {
				return
			}
			for _, x := range l {
				if x.cond != nil {
					opaque[k] = i // a flag handed on through two levels: not followed
					return
				}
			}
			once := true
			for _, x := range l {
				if c.fc.pathAvoiding(h, x.i, inSites(l), nil) != nil {
					once = false
				}
			}
			if once && c.fc.pathFrom(h, nil, isRet, inSites(l), nilEdge(name)) == nil {
				out = append(out, incSite{i: i})
				return
			}
			for pk, par := range h.Params {
				if b, ok := par.Type().Underlying().(*types.Basic); !ok || b.Kind() != types.Bool || pk >= len(call.Call.Args) || !once {
					continue
				}
				for _, pol := range []bool{true, false} {
					other := flagEdge(par, !pol)
					cut := func(pred, succ *ssa.BasicBlock) bool { return nilEdge(name)(pred, succ) || other(pred, succ) }
					if c.fc.pathFrom(h, nil, isRet, inSites(l), cut) != nil {
						continue // some path with par == pol does not count
					}
					// … and no increment is reachable unless the branch par == pol was taken
					only := true
					for _, x := range l {
						x := x
						if c.fc.pathFrom(h, nil, func(j ssa.Instruction) bool { return j == x.i }, nil, flagEdge(par, pol)) != nil {
							only = false
						}
					}
					if !only {
						continue
					}
					cond, p := call.Call.Args[pk], pol
					for {
						u, ok := cond.(*ssa.UnOp)
						if !ok || u.Op != token.NOT {
							break
						}
						cond, p = u.X, !p
					}
					if kb, isK := constBool(cond); isK {
						if kb == p {
							out = append(out, incSite{i: i})
						}
						return
					}
					out = append(out, incSite{i: i, cond: cond, pol: p})
					return
				}
			}
			opaque[k] = i
		})
		cache[k] = out
		return out
	}
	anyRet := isRet
	// effective: the sites that count on the way to return r — an unconditional site always, a flagged site when the
	// flag is known at r to have the counting value; a flagged site whose flag is not decided at r is returned apart.
	effective := func(l []incSite, r ssa.Instruction) (eff, open []incSite) {
		for _, x := range l {
			switch {
			case x.cond == nil:
				eff = append(eff, x)
			case (x.pol && knownTrue(x.cond, r)) || (!x.pol && knownFalse(x.cond, r)):
				eff = append(eff, x)
			case (x.pol && knownFalse(x.cond, r)) || (!x.pol && knownTrue(x.cond, r)):
			default:
				open = append(open, x)
			}
		}
		return
	}
	returnsOf := func(fn *ssa.Function, target func(ssa.Instruction) bool) []ssa.Instruction {
		var out []ssa.Instruction
		allInstrs(fn, func(i ssa.Instruction) {
			if target(i) {
				out = append(out, i)
			}
		})
		return out
	}
	exactlyOnce := func(fn *ssa.Function, name string, target func(ssa.Instruction) bool, what string) {
		l := incs(fn, name, 1)
		key := fmt.Sprintf("%s: %s on %s", safeFname(fn), name, what)
		if o := opaque[sitesKey{fn, name}]; o != nil {
			c.r.undecided(rule, key, "a helper increments "+name+" neither on all of its paths nor exactly on the paths selected by one boolean parameter: whether the counter is incremented exactly once cannot be decided", c.w.ipos(o))
			return
		}
		if len(l) == 0 {
			c.r.bad(rule, key, "the "+name+" counter is never incremented", []string{c.w.pos(fn.Pos())})
			return
		}
		for _, r := range returnsOf(fn, target) {
			r := r
			eff, open := effective(l, r)
			if len(open) > 0 {
				c.r.undecided(rule, key, "the helper called here increments "+name+" depending on a flag whose value is not decided at this "+what, c.w.ipos(open[0].i), c.w.ipos(r))
				return
			}
			if p := c.fc.pathFrom(fn, nil, func(i ssa.Instruction) bool { return i == r }, inSites(eff), nilEdge(name)); p != nil {
				c.r.bad(rule, key, "a "+what+" is reachable without incrementing "+name+" although the counter is set", []string{c.w.ipos(p[len(p)-1])}, c.fc.witnessStrings(p)...)
				return
			}
			for _, x := range eff {
				if p := c.fc.pathAvoiding(fn, x.i, inSites(eff), nil); p != nil {
					c.r.bad(rule, key, name+" can be incremented twice in one call", []string{c.w.ipos(x.i)}, c.fc.witnessStrings(p)...)
					return
				}
			}
		}
		c.r.ok(rule, key, "incremented exactly once (unless nil)", c.w.ipos(l[0].i))
	}
	never := func(fn *ssa.Function, name string, target func(ssa.Instruction) bool, what string) {
		key := fmt.Sprintf("%s: no %s on %s", safeFname(fn), name, what)
		l := incs(fn, name, 1)
		if o := opaque[sitesKey{fn, name}]; o != nil {
			c.r.undecided(rule, key, "a helper increments "+name+" in a way the rule cannot summarise", c.w.ipos(o))
			return
		}
		for _, r := range returnsOf(fn, target) {
			r := r
			eff, open := effective(l, r)
			for _, x := range append(eff, open...) {
				if p := c.fc.pathAvoiding(fn, x.i, func(i ssa.Instruction) bool { return i == r }, nil); p != nil {
					c.r.bad(rule, key, name+" is incremented on a path to a "+what, []string{c.w.ipos(x.i)}, c.fc.witnessStrings(p)...)
					return
				}
			}
		}
		c.r.ok(rule, key, "never incremented on that path", c.w.pos(fn.Pos()))
	}
	get, put := c.a.LRUGet, c.a.LRUPut
	foundRet := func(want bool) func(ssa.Instruction) bool {
		return func(i ssa.Instruction) bool {
			r, ok := i.(*ssa.Return)
			if !ok || isRecoverBlockReturn(r) || len(r.Results) != 2 {
				return false
			}
			b, isK := constBool(retVals(r)[1])
			return isK && b == want
		}
	}
	exactlyOnce(get, "GetCall", anyRet, "return")
	exactlyOnce(put, "PutCall", anyRet, "return")
	exactlyOnce(get, "CacheHit", foundRet(true), "hit return")
	exactlyOnce(get, "CacheMiss", foundRet(false), "miss return")
	never(get, "CacheMiss", foundRet(true), "hit return")
	never(get, "CacheHit", foundRet(false), "miss return")
	for _, n := range []string{"CacheHit", "CacheMiss", "GetCall"} {
		if l := incs(put, n, 1); len(l) > 0 {
			c.r.bad(rule, safeFname(put)+": "+n, "Put increments the "+n+" counter", []string{c.w.ipos(l[0].i)})
		} else if o := opaque[sitesKey{put, n}]; o != nil {
			c.r.bad(rule, safeFname(put)+": "+n, "Put increments the "+n+" counter", []string{c.w.ipos(o)})
		}
	}
	if l := incs(get, "PutCall", 1); len(l) > 0 {
		c.r.bad(rule, safeFname(get)+": PutCall", "Get increments the PutCall counter", []string{c.w.ipos(l[0].i)})
	} else if o := opaque[sitesKey{get, "PutCall"}]; o != nil {
		c.r.bad(rule, safeFname(get)+": PutCall", "Get increments the PutCall counter", []string{c.w.ipos(o)})
	}
}
