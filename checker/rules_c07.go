package main

import (
	"fmt"
	"go/token"
	"go/types"
	"sort"
	"strings"

	"golang.org/x/tools/go/ssa"
)

func init() {
	register(&propDef{
		id:  "C07",
		run: runC07,
		explanation: "Decided (structural, for every Put/Get sequence and capacity): " +
			"C07.keymatch — Get returns the bitmap of the element found under exactly the requested key; Put stores a new element under the key it records in the item; eviction deletes the map entry under the evicted item's own key; " +
			"C07.putstore — every path through Put looks the key up, and when the key is present every path stores the new bitmap into the found item before returning (no return in front of the lookup, no skipped overwrite); " +
			"C07.touch — the hit path of Get and the existing-key path of Put move the element to the front on every path, inserts push to the front, eviction removes the element at the back; " +
			"C07.account — every update of the byte counter adds or subtracts the same expression of an item (its recorded size plus the same overhead constants); wherever a bitmap is stored into an item the item's size is set to that bitmap's GetSizeInBytes() (also when overwriting); every path that increases the counter reaches the eviction loop before returning, and the loop removes from the back while counter > capacity and the list is non-empty (capacity 0 needs no special case); " +
			"C07.counters — on every path Get/Put increment their call counter exactly once unless it is nil, a return of (bitmap, true) has passed exactly the hit counter, a return of (nil, false) exactly the miss counter. " +
			"NOT decided: that GetSizeInBytes is the true in-memory size (roaring, trusted); 'nothing is evicted while everything fits comfortably' as arithmetic over sizes.",
		assumptions: []string{"container/list semantics (MoveToFront/PushFront/Back/Remove)", "roaring GetSizeInBytes", "go/ssa CFG"},
	})
}

func runC07(c *Ctx) {
	if !c.need("C07.keymatch", c.a.LRUGet, c.a.LRUPut, c.a.LRUT, c.a.LRUItemT) {
		return
	}
	var entries, list *types.Var
	st := c.a.LRUT.Underlying().(*types.Struct)
	for i := 0; i < st.NumFields(); i++ {
		f := st.Field(i)
		if _, ok := f.Type().Underlying().(*types.Map); ok {
			entries = f
		}
		if typeIs(f.Type(), "container/list", "List") {
			list = f
		}
	}
	// the bookkeeping fields: by shape (limit = what the constructor stores its parameter in, running size = the other
	// integer field; item key = key of delete(entries, …), item size = assigned from GetSizeInBytes(); rules_ag10.go)
	curSize, maxSize := c.a.LRUCurF, c.a.LRUMaxF
	itKey, itSize := c.a.ItemKeyF, c.a.ItemSizeF
	var itBM *types.Var
	ist := c.a.LRUItemT.Underlying().(*types.Struct)
	for i := 0; i < ist.NumFields(); i++ {
		if typeIs(ist.Field(i).Type(), roaringPkg, "Bitmap") {
			itBM = ist.Field(i)
		}
	}
	if entries == nil || list == nil || curSize == nil || maxSize == nil || itKey == nil || itSize == nil || itBM == nil {
		c.r.undecided("C07.keymatch", "<anchor>", "LRUCache/lruCacheItem do not have the expected fields (map, list, curSize, maxSize / key, size, bitmap)"+c.a.SH.whyText())
		return
	}
	L := &lruCtx{c: c, entries: entries, list: list, curSize: curSize, maxSize: maxSize, itKey: itKey, itSize: itSize, itBM: itBM}
	L.keymatch()
	L.touch()
	L.account()
	L.counters()
}

type lruCtx struct {
	c                                                    *Ctx
	entries, list, curSize, maxSize, itKey, itSize, itBM *types.Var
}

// itemOf: v is `elem.Value.(*lruCacheItem)` (or the comma-ok form); returns elem.
func (L *lruCtx) elemOfItem(v ssa.Value) ssa.Value {
	v = peel(v)
	if e, ok := v.(*ssa.Extract); ok && e.Index == 0 {
		v = e.Tuple
	}
	ta, ok := v.(*ssa.TypeAssert)
	if !ok {
		return nil
	}
	ld, ok := ta.X.(*ssa.UnOp)
	if !ok {
		// result of list.Remove(...) is the Value itself
		return ta.X
	}
	fa, ok := ld.X.(*ssa.FieldAddr)
	if !ok {
		return nil
	}
	if f := fieldOf(fa.X.Type(), fa.Field); f == nil || f.Name() != "Value" {
		return nil
	}
	return fa.X
}

// removedAround: the element elem (whose item's key the delete `del` uses) is the very element handed to list.Remove
// in the same activation: the same SSA value (the same `back := list.Back()`, loop variable or parameter) is the
// argument of a Remove call of fn, and either
//
//	(a) every path from elem's definition (the function entry for a parameter) to the delete passes such a Remove
//	    (`l.Remove(e); it := e.Value.(*item); delete(m, it.key)` — Remove leaves e.Value in place), or
//	(b) every path from the delete to a return, or to the point where elem is defined anew (the next iteration of the
//	    eviction loop), passes such a Remove (`delete(m, e.Value.(*item).key); l.Remove(e)`).
//
// Measuring from elem's definition (not from the function entry) keeps a Remove of the *previous* iteration's element
// from vouching for this iteration's delete. An element of another variable (Front() while Back() is removed, another
// call of Back()) is a different SSA value and is not accepted.
func (L *lruCtx) removedAround(fn *ssa.Function, del ssa.Instruction, elem ssa.Value) bool {
	elem = peel(elem)
	isRemove := func(i ssa.Instruction) bool {
		call, ok := i.(*ssa.Call)
		return ok && calleeName(&call.Call) == "(*container/list.List).Remove" && len(call.Call.Args) == 2 && peel(call.Call.Args[1]) == elem
	}
	n := 0
	allInstrs(fn, func(i ssa.Instruction) {
		if isRemove(i) {
			n++
		}
	})
	if n == 0 {
		return false
	}
	var def ssa.Instruction // nil: a parameter, defined at the function entry
	switch d := elem.(type) {
	case *ssa.Parameter:
		if d.Parent() != fn {
			return false
		}
	case ssa.Instruction:
		if d.Parent() != fn {
			return false
		}
		def = d
	default:
		return false
	}
	fc := L.c.fc
	isDel := func(i ssa.Instruction) bool { return i == del }
	if fc.pathAvoiding(fn, def, isDel, isRemove) == nil {
		return true
	}
	leaves := func(i ssa.Instruction) bool {
		if _, ok := i.(*ssa.Return); ok {
			return true
		}
		return def != nil && i == def
	}
	return fc.pathAvoiding(fn, del, leaves, isRemove) == nil
}

func (L *lruCtx) lookups(fn *ssa.Function) []*ssa.Lookup {
	var out []*ssa.Lookup
	allInstrs(fn, func(i ssa.Instruction) {
		if lk, ok := i.(*ssa.Lookup); ok && path(lk.X).lastField() == L.entries {
			out = append(out, lk)
		}
	})
	return out
}

func listCalls(fn *ssa.Function, method string) []*ssa.Call {
	var out []*ssa.Call
	allInstrs(fn, func(i ssa.Instruction) {
		if call, ok := i.(*ssa.Call); ok && calleeName(&call.Call) == "(*container/list.List)."+method {
			out = append(out, call)
		}
	})
	return out
}

func (L *lruCtx) keymatch() {
	const rule = "C07.keymatch"
	c := L.c
	get, put := c.a.LRUGet, c.a.LRUPut
	keyParam := func(fn *ssa.Function) ssa.Value {
		for _, p := range fn.Params[1:] {
			if b, ok := p.Type().Underlying().(*types.Basic); ok && b.Kind() == types.Uint64 {
				return p
			}
		}
		return nil
	}
	// Get: lookup by the key parameter; hit return derives from that element
	gk := keyParam(get)
	lks := L.lookups(get)
	if len(lks) != 1 || gk == nil {
		c.r.undecided(rule, safeFname(get), fmt.Sprintf("expected one lookup in the entries map, found %d", len(lks)), c.w.pos(get.Pos()))
	} else {
		lk := lks[0]
		c.r.check(lk.Index == gk, rule, safeFname(get)+": lookup key", "entries[key] with the requested key", "Get looks up something other than the requested key", c.w.ipos(lk))
		elem := extractOf(lk, 0)
		okv := extractOf(lk, 1)
		nHit := 0
		allInstrs(get, func(i ssa.Instruction) {
			ret, ok := i.(*ssa.Return)
			if !ok || isRecoverBlockReturn(ret) || len(ret.Results) != 2 {
				return
			}
			rv := retVals(ret)
			if b, isK := constBool(rv[1]); !isK || !b {
				if !isK && okv != nil && rv[1] != ssa.Value(okv) {
					c.r.undecided(rule, safeFname(get)+": found flag", "the found flag returned is neither a constant nor the lookup's ok", c.w.ipos(ret))
				}
				if isK && !b {
					c.r.check(isNilConst(rv[0]), rule, safeFname(get)+": miss return", "(nil, false)", "a miss returns a non-nil bitmap", c.w.ipos(ret))
				}
				return
			}
			nHit++
			// value: load of item.bm with item = elem.Value.(*lruCacheItem)
			okVal := false
			if ld, ok := peel(rv[0]).(*ssa.UnOp); ok {
				if fa, ok := ld.X.(*ssa.FieldAddr); ok && fieldOf(fa.X.Type(), fa.Field) == L.itBM {
					if e := L.elemOfItem(fa.X); e != nil && elem != nil && peel(e) == ssa.Value(elem) {
						okVal = true
					}
				}
			}
			c.r.check(okVal && okv != nil && knownTrue(okv, ret), rule, safeFname(get)+": hit return", "returns the bitmap of the element found under the key, on the found branch",
				"a hit does not return the bitmap stored in the element found under the requested key", c.w.ipos(ret))
		})
		if nHit == 0 {
			c.r.bad(rule, safeFname(get)+": hit return", "Get never reports a hit", []string{c.w.pos(get.Pos())})
		}
	}
	// Put: insert under the key recorded in the item
	pk := keyParam(put)
	var bmParam ssa.Value
	for _, p := range put.Params {
		if typeIs(p.Type(), roaringPkg, "Bitmap") {
			bmParam = p
		}
	}
	nIns := 0
	// the key / bitmap as seen inside a helper of Put: the helper's parameter that receives Put's key / bitmap
	sameAsPutParam := func(v ssa.Value, putParam ssa.Value) bool {
		if v == putParam {
			return true
		}
		par, ok := v.(*ssa.Parameter)
		if !ok || par.Parent() == put {
			return false
		}
		h := par.Parent()
		okAll, n := true, 0
		allInstrs(put, func(j ssa.Instruction) {
			if call, ok := j.(*ssa.Call); ok && calleeFunc(&call.Call) == h {
				n++
				if argFor(call, h, par) != putParam {
					okAll = false
				}
			}
		})
		return n > 0 && okAll
	}
	instrsOf(c.scope(put, 2), func(i ssa.Instruction) {
		mu, ok := i.(*ssa.MapUpdate)
		if !ok || path(mu.Map).lastField() != L.entries {
			return
		}
		nIns++
		okIns := sameAsPutParam(mu.Key, pk)
		// value = PushFront/PushBack(list, item) with item.key == key, item.bm == bm
		var item ssa.Value
		if call, ok := mu.Value.(*ssa.Call); ok && strings.HasPrefix(calleeName(&call.Call), "(*container/list.List).Push") {
			if mi, ok := call.Call.Args[1].(*ssa.MakeInterface); ok {
				item = peel(mi.X)
			}
		}
		if item == nil {
			okIns = false
		} else {
			keyOK, bmOK := false, false
			for _, r := range referrers(item) {
				fa, ok := r.(*ssa.FieldAddr)
				if !ok {
					continue
				}
				for _, rr := range referrers(fa) {
					if st, ok := rr.(*ssa.Store); ok && st.Addr == ssa.Value(fa) {
						switch fieldOf(fa.X.Type(), fa.Field) {
						case L.itKey:
							keyOK = sameAsPutParam(st.Val, pk)
						case L.itBM:
							bmOK = sameAsPutParam(st.Val, bmParam)
						}
					}
				}
			}
			okIns = okIns && keyOK && bmOK
		}
		c.r.check(okIns, rule, fmt.Sprintf("%s: insert#%d", safeFname(put), nIns), "entries[key] = element holding {key, bm}",
			"a new entry is not stored as entries[key] = element{key: key, bm: bm}: later lookups or evictions address the wrong entry", c.w.ipos(mu))
	})
	if nIns == 0 {
		c.r.bad(rule, safeFname(put)+": insert", "Put never inserts into the entries map", []string{c.w.pos(put.Pos())})
	}
	// Put consults the map on every path, and on the found path stores the new bitmap into the found item
	L.putstore(put, pk, bmParam, sameAsPutParam)
	// eviction: delete(entries, removedItem.key)
	nDel := 0
	for _, fn := range append(c.scope(put, 2), c.scope(get, 2)...) {
		allInstrs(fn, func(i ssa.Instruction) {
			call, ok := i.(*ssa.Call)
			if !ok {
				return
			}
			if b, ok := call.Call.Value.(*ssa.Builtin); !ok || b.Name() != "delete" || path(call.Call.Args[0]).lastField() != L.entries {
				return
			}
			nDel++
			okDel := false
			if ld, ok := call.Call.Args[1].(*ssa.UnOp); ok {
				if fa, ok := ld.X.(*ssa.FieldAddr); ok && fieldOf(fa.X.Type(), fa.Field) == L.itKey {
					if src := L.elemOfItem(fa.X); src != nil {
						if rc, ok := src.(*ssa.Call); ok && calleeName(&rc.Call) == "(*container/list.List).Remove" {
							// item := list.Remove(e).(*item): Remove hands back e.Value
							okDel = true
						} else if L.removedAround(fn, i, src) {
							// list.Remove(e) … item := e.Value.(*item) (Remove leaves e.Value in place), in either order
							okDel = true
						}
					}
				}
			}
			c.r.check(okDel, rule, fmt.Sprintf("%s: delete#%d", safeFname(fn), nDel), "delete(entries, removed item's key)",
				"the map entry deleted on eviction is not the one of the element just removed from the list: a stale entry stays retrievable or a live one disappears", c.w.ipos(i))
		})
	}
	if nDel == 0 {
		c.r.bad(rule, safeFname(put)+": delete", "evicted elements are never deleted from the entries map", []string{c.w.pos(put.Pos())})
	}
}

// putstore: "a hit returns exactly the bitmap most recently stored under that key". Necessary shape: (1) every path
// through Put looks the key up in the entries map (a return in front of the lookup leaves an older bitmap retrievable
// under the key); (2) from the edge on which the lookup reported "present", every path to a return stores Put's bitmap
// into the bitmap field of the found item. A path that skips an absent key is not a violation (nothing stale is left).
func (L *lruCtx) putstore(put *ssa.Function, pk, bmParam ssa.Value, sameAsPutParam func(v, p ssa.Value) bool) {
	const rule = "C07.putstore"
	c := L.c
	isRet := func(i ssa.Instruction) bool { _, ok := i.(*ssa.Return); return ok }
	isLookup := func(i ssa.Instruction) bool {
		lk, ok := i.(*ssa.Lookup)
		return ok && path(lk.X).lastField() == L.entries
	}
	if w := c.fc.pathAvoiding(put, nil, isRet, c.fc.ipAvoid(isLookup)); w != nil {
		c.r.bad(rule, safeFname(put)+": lookup on every path", "a path through Put returns without consulting the entries map: if the key is present, the bitmap stored earlier stays retrievable under it", []string{c.w.ipos(w[len(w)-1])}, c.fc.witnessStrings(w)...)
	} else {
		c.r.ok(rule, safeFname(put)+": lookup on every path", "every path through Put looks the key up", c.w.pos(put.Pos()))
	}
	n := 0
	for _, fn := range c.scope(put, 2) {
		for _, lk := range L.lookups(fn) {
			elem, okv := extractOf(lk, 0), extractOf(lk, 1)
			if elem == nil || okv == nil {
				continue
			}
			n++
			isStore := func(i ssa.Instruction) bool {
				st, ok := i.(*ssa.Store)
				if !ok {
					return false
				}
				fa, ok := st.Addr.(*ssa.FieldAddr)
				if !ok || fieldOf(fa.X.Type(), fa.Field) != L.itBM {
					return false
				}
				return sameAsPutParam(st.Val, bmParam)
			}
			// entry of the found branch
			var w []ssa.Instruction
			found := false
			for _, b := range fn.Blocks {
				if len(b.Preds) != 1 {
					continue
				}
				p := b.Preds[0]
				iff, ok := p.Instrs[len(p.Instrs)-1].(*ssa.If)
				if !ok {
					continue
				}
				cond, pol := iff.Cond, p.Succs[0] == b
				if u, ok := cond.(*ssa.UnOp); ok && u.Op == token.NOT {
					cond, pol = u.X, !pol
				}
				if cond != ssa.Value(okv) || !pol {
					continue
				}
				found = true
				first := b.Instrs[0]
				if c.fc.ipAvoid(isStore)(first) {
					continue
				}
				if ww := c.fc.pathAvoiding(fn, first, isRet, c.fc.ipAvoid(isStore)); ww != nil {
					w = ww
				}
			}
			key := fmt.Sprintf("%s: overwrite", safeFname(fn))
			switch {
			case !found:
				c.r.undecided(rule, key, "no branch on the lookup's found flag", c.w.ipos(lk))
			case w != nil && fn != put:
				// a finder helper: the caller stores
				okCaller := true
				nCall := 0
				allInstrs(put, func(j ssa.Instruction) {
					if call, ok := j.(*ssa.Call); ok && calleeFunc(&call.Call) == fn {
						nCall++
						if ww := c.fc.pathAvoiding(put, call, isRet, c.fc.ipAvoid(isStore)); ww != nil {
							okCaller = false
						}
					}
				})
				if nCall > 0 && okCaller {
					c.r.ok(rule, key, "the caller stores the new bitmap after the lookup helper", c.w.ipos(lk))
				} else {
					c.r.bad(rule, key, "the key is present but some path returns without storing the new bitmap into the found item: Get keeps returning the older bitmap", []string{c.w.ipos(lk)}, c.fc.witnessStrings(w)...)
				}
			case w != nil:
				c.r.bad(rule, key, "the key is present but some path returns without storing the new bitmap into the found item: Get keeps returning the older bitmap", []string{c.w.ipos(lk)}, c.fc.witnessStrings(w)...)
			default:
				c.r.ok(rule, key, "on the found path the new bitmap is stored into the found item on every path", c.w.ipos(lk))
			}
		}
	}
	if n == 0 {
		c.r.undecided(rule, "<vacuity>", "Put (and its helpers) never look up the entries map", c.w.pos(put.Pos()))
	}
}

// touchOf returns the predicate "this instruction moves element e to the front of the recency list": the list call
// itself, or a call of a module helper that receives e and moves that parameter to the front on every path.
func (L *lruCtx) touchOf(e ssa.Value, depth int) func(ssa.Instruction) bool {
	return func(i ssa.Instruction) bool {
		call, ok := i.(*ssa.Call)
		if !ok {
			return false
		}
		if calleeName(&call.Call) == "(*container/list.List).MoveToFront" {
			return len(call.Call.Args) == 2 && call.Call.Args[1] == e && path(call.Call.Args[0]).lastField() == L.list
		}
		h := calleeFunc(&call.Call)
		if h == nil || depth <= 0 || !L.c.w.inModule(h) || h.Blocks == nil {
			return false
		}
		args := callArgs(&call.Call)
		for k, a := range args {
			if a == e && k < len(h.Params) {
				if L.c.fc.mustPass(h, L.touchOf(h.Params[k], depth-1), 0) {
					return true
				}
			}
		}
		return false
	}
}

// isBackOfList: v is list.Back() of the recency list, or a loop variable all of whose values are such calls.
func (L *lruCtx) isBackOfList(v ssa.Value) bool {
	switch x := v.(type) {
	case *ssa.Call:
		return calleeName(&x.Call) == "(*container/list.List).Back" && path(x.Call.Args[0]).lastField() == L.list
	case *ssa.Phi:
		for _, e := range x.Edges {
			if _, isPhi := e.(*ssa.Phi); isPhi || !L.isBackOfList(e) {
				return false
			}
		}
		return len(x.Edges) > 0
	}
	return false
}

// isEmptyListTest: a comparison of list.Back() (or a loop variable holding it) with nil — the other half of the
// eviction loop's condition in the "walk from the back" form.
func (L *lruCtx) isEmptyListTest(i ssa.Instruction) bool {
	b, ok := i.(*ssa.BinOp)
	if !ok || (b.Op != token.EQL && b.Op != token.NEQ) {
		return false
	}
	return (isNilConst(b.Y) && L.isBackOfList(b.X)) || (isNilConst(b.X) && L.isBackOfList(b.Y))
}

func (L *lruCtx) touch() {
	const rule = "C07.touch"
	c := L.c
	var lookupFns []*ssa.Function
	for _, anchor := range []*ssa.Function{c.a.LRUGet, c.a.LRUPut} {
		for _, f := range c.scope(anchor, 2) {
			if len(L.lookups(f)) > 0 {
				lookupFns = append(lookupFns, f)
			}
		}
	}
	for _, fn := range lookupFns {
		lks := L.lookups(fn)
		if len(lks) != 1 {
			continue
		}
		elem, okv := extractOf(lks[0], 0), extractOf(lks[0], 1)
		if elem == nil || okv == nil {
			c.r.bad(rule, safeFname(fn)+": found path", "the lookup result is not used as (element, found)", []string{c.w.ipos(lks[0])})
			continue
		}
		isTouch := L.touchOf(elem, 2)
		// from the first instruction of the found branch to any return: must pass MoveToFront(elem)
		var foundBlk *ssa.BasicBlock
		for _, b := range fn.Blocks {
			if len(b.Preds) == 1 {
				p := b.Preds[0]
				if iff, ok := p.Instrs[len(p.Instrs)-1].(*ssa.If); ok && iff.Cond == ssa.Value(okv) && p.Succs[0] == b {
					foundBlk = b
				}
			}
		}
		if foundBlk == nil {
			c.r.undecided(rule, safeFname(fn)+": found path", "no branch on the lookup's found flag", c.w.ipos(lks[0]))
			continue
		}
		first := foundBlk.Instrs[0]
		if isTouch(first) {
			c.r.ok(rule, safeFname(fn)+": found path", "moves the element to the front", c.w.ipos(first))
			continue
		}
		if p := c.fc.pathAvoiding(fn, first, func(i ssa.Instruction) bool { _, ok := i.(*ssa.Return); return ok }, isTouch); p != nil {
			c.r.bad(rule, safeFname(fn)+": found path", "an existing entry is used without being moved to the front of the recency list on some path: eviction order is no longer least-recently-used", []string{c.w.ipos(lks[0])}, c.fc.witnessStrings(p)...)
		} else {
			c.r.ok(rule, safeFname(fn)+": found path", "moves the element to the front on every path", c.w.ipos(lks[0]))
		}
	}
	put := c.a.LRUPut
	var pb, pf []*ssa.Call
	for _, f := range c.scope(put, 2) {
		pb = append(pb, listCalls(f, "PushBack")...)
		pf = append(pf, listCalls(f, "PushFront")...)
	}
	if len(pb) > 0 {
		c.r.bad(rule, safeFname(put)+": insert position", "new entries are pushed to the back of the recency list (the eviction end)", []string{c.w.ipos(pb[0])})
	} else if len(pf) > 0 {
		c.r.ok(rule, safeFname(put)+": insert position", "new entries are pushed to the front", c.w.ipos(pf[0]))
	} else {
		c.r.bad(rule, safeFname(put)+": insert position", "new entries are not added to the recency list", []string{c.w.pos(put.Pos())})
	}
	var rms []*ssa.Call
	for _, f := range c.scope(put, 2) {
		rms = append(rms, listCalls(f, "Remove")...)
	}
	if len(rms) == 0 {
		c.r.bad(rule, safeFname(put)+": eviction end", "nothing is ever removed from the recency list", []string{c.w.pos(put.Pos())})
	}
	for k, rm := range rms {
		okBack := L.isBackOfList(rm.Call.Args[1])
		c.r.check(okBack, rule, fmt.Sprintf("%s: eviction end#%d", safeFname(put), k+1), "evicts list.Back()", "eviction does not remove the element at the back of the recency list (the least recently used one)", c.w.ipos(rm))
	}
}

// A costTerm is one signed summand of a byte-counter update.
type costTerm struct {
	sign int
	kind string    // "size", a global's name, "const:…", "?"
	item ssa.Value // for size terms: the item whose size is read
	load ssa.Instruction
	when string // for size terms: "old" (read before the item's size is overwritten in this call), "new" (after), "" (item's size is not written here)
}

// signedTerms decomposes e (to be added with the given sign) into summands; calls to small module helpers are expanded.
func (L *lruCtx) signedTerms(e ssa.Value, sign int, at ssa.Instruction, bind map[ssa.Value]ssa.Value, depth int, out *[]costTerm) {
	e = peelConv(e)
	if b, ok := bind[e]; ok {
		e = b
	}
	switch x := e.(type) {
	case *ssa.BinOp:
		if x.Op == token.ADD {
			L.signedTerms(x.X, sign, at, bind, depth, out)
			L.signedTerms(x.Y, sign, at, bind, depth, out)
			return
		}
		if x.Op == token.SUB {
			L.signedTerms(x.X, sign, at, bind, depth, out)
			L.signedTerms(x.Y, -sign, at, bind, depth, out)
			return
		}
	case *ssa.UnOp:
		if x.Op == token.MUL {
			if g, ok := x.X.(*ssa.Global); ok {
				*out = append(*out, costTerm{sign: sign, kind: g.Name()})
				return
			}
			if fa, ok := x.X.(*ssa.FieldAddr); ok && fieldOf(fa.X.Type(), fa.Field) == L.curSize {
				*out = append(*out, costTerm{sign: sign, kind: "counter"})
				return
			}
			if fa, ok := x.X.(*ssa.FieldAddr); ok && fieldOf(fa.X.Type(), fa.Field) == L.itSize {
				item := fa.X
				if b, ok := bind[item]; ok {
					item = b
				}
				pos := ssa.Instruction(x)
				if at != nil && x.Parent() != at.Parent() {
					pos = at // a load inside an expanded helper happens at the call
				}
				*out = append(*out, costTerm{sign: sign, kind: "size", item: peel(item), load: pos})
				return
			}
		}
	case *ssa.Const:
		*out = append(*out, costTerm{sign: sign, kind: "const:" + x.Value.ExactString()})
		return
	case *ssa.Call:
		if f := calleeFunc(&x.Call); f != nil && depth < 3 && L.c.w.inModule(f) && f.Blocks != nil && len(f.Blocks) == 1 {
			if ret, ok := f.Blocks[0].Instrs[len(f.Blocks[0].Instrs)-1].(*ssa.Return); ok && len(ret.Results) == 1 {
				b2 := map[ssa.Value]ssa.Value{}
				for k, p := range f.Params {
					if k < len(x.Call.Args) {
						b2[p] = x.Call.Args[k]
					}
				}
				L.signedTerms(ret.Results[0], sign, x, b2, depth+1, out)
				return
			}
		}
	}
	*out = append(*out, costTerm{sign: sign, kind: "?"})
}

func (L *lruCtx) account() {
	const rule = "C07.account"
	c := L.c
	put := c.a.LRUPut
	// stores to item.size in Put (to tell old from new size reads)
	var sizeStores []*ssa.Store
	instrsOf(c.scope(put, 2), func(i ssa.Instruction) {
		if st, ok := i.(*ssa.Store); ok {
			if fa, ok := st.Addr.(*ssa.FieldAddr); ok && fieldOf(fa.X.Type(), fa.Field) == L.itSize {
				sizeStores = append(sizeStores, st)
			}
		}
	})
	when := func(t costTerm) string {
		for _, st := range sizeStores {
			fa := st.Addr.(*ssa.FieldAddr)
			if peel(fa.X) != t.item || t.load == nil || t.load.Parent() != st.Parent() {
				continue
			}
			if _, isAlloc := t.item.(*ssa.Alloc); isAlloc {
				continue // a new item: its size is initialised, not overwritten
			}
			lb, sb := t.load.Block(), st.Block()
			switch {
			case lb == sb:
				if pointOf(t.load).i < pointOf(st).i {
					return "old"
				}
				return "new"
			case lb.Dominates(sb):
				return "old"
			case sb.Dominates(lb):
				return "new"
			}
		}
		return ""
	}
	type upd struct {
		st    *ssa.Store
		terms []costTerm
		desc  string
	}
	var upds []upd
	for _, fn := range append(c.scope(put, 2), c.scope(c.a.LRUGet, 2)...) {
		allInstrs(fn, func(i ssa.Instruction) {
			st, ok := i.(*ssa.Store)
			if !ok {
				return
			}
			fa, ok := st.Addr.(*ssa.FieldAddr)
			if !ok || fieldOf(fa.X.Type(), fa.Field) != L.curSize {
				return
			}
			var terms []costTerm
			L.signedTerms(st.Val, +1, nil, map[ssa.Value]ssa.Value{}, 0, &terms)
			// remove the counter itself (+curSize); anything else than exactly one such term is an unknown shape
			var rest []costTerm
			self := 0
			for _, t := range terms {
				if t.kind == "counter" {
					if t.sign > 0 {
						self++
					} else {
						self += 100
					}
					continue
				}
				rest = append(rest, t)
			}
			if self != 1 {
				rest = append(rest, costTerm{sign: 1, kind: "?"})
			}
			upds = append(upds, upd{st: st, terms: rest})
		})
	}
	if len(upds) < 2 {
		c.r.bad(rule, "counter updates", fmt.Sprintf("only %d update(s) of the byte counter found: additions and subtractions cannot balance", len(upds)), []string{c.w.pos(put.Pos())})
		return
	}
	// classify each update by its signed summands
	overhead := func(ts []costTerm, sign int) string {
		var g []string
		for _, t := range ts {
			if t.sign == sign && t.kind != "size" && t.kind != "counter" {
				g = append(g, t.kind)
			}
		}
		sort.Strings(g)
		return strings.Join(g, "+")
	}
	var insertOH, evictOH []string
	nPlus, nMinus := 0, 0
	for k := range upds {
		u := &upds[k]
		key := fmt.Sprintf("counter update#%d", k+1)
		var plusSize, minusSize []costTerm
		unknown := false
		for i := range u.terms {
			t := &u.terms[i]
			if t.kind == "size" {
				t.when = when(*t)
				if t.sign > 0 {
					plusSize = append(plusSize, *t)
				} else {
					minusSize = append(minusSize, *t)
				}
			}
			if t.kind == "?" {
				unknown = true
			}
		}
		var parts []string
		for _, t := range u.terms {
			sg := "+"
			if t.sign < 0 {
				sg = "-"
			}
			w := ""
			if t.when != "" {
				w = "(" + t.when + ")"
			}
			parts = append(parts, sg+t.kind+w)
		}
		u.desc = strings.Join(parts, " ")
		switch {
		case unknown:
			c.r.bad(rule, key, "the byte counter is updated with an expression the rule cannot decompose into item size and overhead constants ("+u.desc+")", []string{c.w.ipos(u.st)})
		case len(plusSize) == 1 && len(minusSize) == 0:
			nPlus++
			if plusSize[0].when == "old" {
				c.r.bad(rule, key, "the cost added for an entry is computed from the size it had before it was overwritten ("+u.desc+")", []string{c.w.ipos(u.st)})
				continue
			}
			insertOH = append(insertOH, overhead(u.terms, +1))
			if overhead(u.terms, -1) != "" {
				c.r.bad(rule, key, "an addition also subtracts overhead constants ("+u.desc+")", []string{c.w.ipos(u.st)})
				continue
			}
			c.r.ok(rule, key, "adds cost(item): "+u.desc, c.w.ipos(u.st))
		case len(minusSize) == 1 && len(plusSize) == 0:
			nMinus++
			if minusSize[0].when == "new" {
				c.r.bad(rule, key, "the cost subtracted for an overwritten entry is computed from its new size, not from the size that was added earlier ("+u.desc+"): the counter drifts and the byte bound no longer holds", []string{c.w.ipos(u.st)})
				continue
			}
			evictOH = append(evictOH, overhead(u.terms, -1))
			if overhead(u.terms, +1) != "" {
				c.r.bad(rule, key, "a subtraction also adds overhead constants ("+u.desc+")", []string{c.w.ipos(u.st)})
				continue
			}
			c.r.ok(rule, key, "subtracts cost(item): "+u.desc, c.w.ipos(u.st))
		case len(plusSize) == 1 && len(minusSize) == 1:
			// combined overwrite: + new size − old size, overheads must cancel
			nPlus++
			nMinus++
			okD := plusSize[0].when != "old" && minusSize[0].when == "old" && plusSize[0].item == minusSize[0].item && overhead(u.terms, +1) == overhead(u.terms, -1)
			c.r.check(okD, rule, key, "adjusts by new size − old size: "+u.desc,
				"an overwrite adjusts the counter by something other than (size after) − (size before) of the same item ("+u.desc+"): the counter no longer equals the sum of the stored entries", c.w.ipos(u.st))
		default:
			c.r.bad(rule, key, "unexpected combination of size terms in a counter update ("+u.desc+")", []string{c.w.ipos(u.st)})
		}
	}
	okOH := len(insertOH) > 0 && len(evictOH) > 0
	for _, a := range insertOH {
		for _, b := range evictOH {
			if a != b {
				okOH = false
			}
		}
	}
	c.r.check(okOH && nPlus > 0 && nMinus > 0, rule, "counter updates", fmt.Sprintf("%d additions and %d subtractions with the same overhead constants", nPlus, nMinus),
		fmt.Sprintf("additions use overhead %v, subtractions %v: what is added for an item is not what is subtracted when it leaves, so the counter drifts", insertOH, evictOH), c.w.pos(put.Pos()))
	// size recorded whenever a bitmap is stored into an item
	n := 0
	instrsOf(c.scope(put, 2), func(i ssa.Instruction) {
		st, ok := i.(*ssa.Store)
		if !ok {
			return
		}
		fa, ok := st.Addr.(*ssa.FieldAddr)
		if !ok || fieldOf(fa.X.Type(), fa.Field) != L.itBM {
			return
		}
		n++
		item := fa.X
		okSize := false
		allInstrs(st.Parent(), func(j ssa.Instruction) {
			s2, ok := j.(*ssa.Store)
			if !ok {
				return
			}
			fa2, ok := s2.Addr.(*ssa.FieldAddr)
			if !ok || fieldOf(fa2.X.Type(), fa2.Field) != L.itSize || peel(fa2.X) != peel(item) {
				return
			}
			if call, ok := s2.Val.(*ssa.Call); ok && calleeName(&call.Call) == "(*github.com/RoaringBitmap/roaring.Bitmap).GetSizeInBytes" && call.Call.Args[0] == st.Val {
				// same straight-line region: one dominates the other and no counter update lies between the bitmap store and the size store that reads the stale size
				if s2.Block() == st.Block() || s2.Block().Dominates(st.Block()) || st.Block().Dominates(s2.Block()) {
					okSize = true
				}
			}
		})
		c.r.check(okSize, rule, fmt.Sprintf("%s: bitmap store#%d", safeFname(put), n), "item.size = bm.GetSizeInBytes() for the stored bitmap",
			"a bitmap is stored into a cache item without setting the item's size to that bitmap's size: the accounting keeps the old size (overwriting a small entry with a large bitmap escapes the byte bound)", c.w.ipos(st))
	})
	// eviction loop
	var cmpI *ssa.BinOp
	instrsOf(c.scope(put, 2), func(i ssa.Instruction) {
		b, ok := i.(*ssa.BinOp)
		if !ok {
			return
		}
		switch b.Op {
		case token.GTR, token.LSS, token.LEQ, token.GEQ:
			if (srcField(b.X) == L.curSize && srcField(b.Y) == L.maxSize) || (srcField(b.Y) == L.curSize && srcField(b.X) == L.maxSize) {
				cmpI = b
			}
		}
	})
	if cmpI == nil {
		c.r.bad(rule, safeFname(put)+": eviction loop", "Put never compares the byte counter with the capacity (counter > capacity)", []string{c.w.pos(put.Pos())})
		return
	}
	loopFn := cmpI.Parent() // the function holding the eviction loop (Put itself or a helper it calls)
	rms := listCalls(loopFn, "Remove")
	isRemove := func(i ssa.Instruction) bool {
		for _, r := range rms {
			if ssa.Instruction(r) == i {
				return true
			}
		}
		return false
	}
	okLoop := len(rms) > 0
	for _, rm := range rms {
		if !c.fc.reachableFrom(loopFn, rm, cmpI) {
			okLoop = false
		}
	}
	// leaving the test towards a return without removing is only allowed on the "counter <= capacity" edge or the "list empty" edge
	exitEdge := func(pred, succ *ssa.BasicBlock) bool {
		iff, ok := pred.Instrs[len(pred.Instrs)-1].(*ssa.If)
		if !ok {
			return false
		}
		for _, cm := range trueCmps(fact{iff.Cond, pred.Succs[0] == succ}) {
			if cm.Y == nil {
				continue
			}
			// counter <= capacity
			if (cm.Op == token.LEQ && srcField(cm.X) == L.curSize && srcField(cm.Y) == L.maxSize) || (cm.Op == token.GEQ && srcField(cm.Y) == L.curSize && srcField(cm.X) == L.maxSize) {
				return true
			}
			// Back() == nil: the list is empty
			if cm.Op == token.EQL && ((isNilConst(cm.Y) && L.isBackOfList(cm.X)) || (isNilConst(cm.X) && L.isBackOfList(cm.Y))) {
				return true
			}
			// Len() <= 0 / == 0
			if call, ok := peelConv(cm.X).(*ssa.Call); ok && calleeName(&call.Call) == "(*container/list.List).Len" {
				if k, isK := constInt(cm.Y); isK && ((cm.Op == token.LEQ && k == 0) || (cm.Op == token.EQL && k == 0) || (cm.Op == token.LSS && k == 1)) {
					return true
				}
			}
		}
		return false
	}
	if okLoop {
		if p := c.fc.pathFrom(loopFn, cmpI, func(i ssa.Instruction) bool { _, ok := i.(*ssa.Return); return ok }, isRemove, exitEdge); p != nil {
			okLoop = false
		}
	}
	c.r.check(okLoop, rule, safeFname(put)+": eviction loop", "removes from the back while counter > capacity and the list is non-empty",
		"the eviction loop is not `while counter > capacity and list non-empty: remove back`: it can stop while the cache is still over its byte bound", c.w.ipos(cmpI))
	// every increase reaches the loop test
	for k, u := range upds {
		inc := false
		for _, t := range u.terms {
			if t.kind == "size" && t.sign > 0 {
				inc = true
			}
		}
		if !inc {
			continue
		}
		from := c.liftTo(u.st, put)
		if from == nil {
			continue // an increase outside Put's call tree (none today)
		}
		if p := c.fc.pathAvoiding(put, from, func(i ssa.Instruction) bool { _, ok := i.(*ssa.Return); return ok }, c.fc.ipAvoid(func(i ssa.Instruction) bool { return i == ssa.Instruction(cmpI) || L.isEmptyListTest(i) })); p != nil {
			c.r.bad(rule, fmt.Sprintf("%s: increase#%d reaches eviction", safeFname(put), k+1), "after increasing the byte counter Put can return without running the eviction loop: the cache stays over its bound", []string{c.w.ipos(u.st)}, c.fc.witnessStrings(p)...)
		} else {
			c.r.ok(rule, fmt.Sprintf("%s: increase#%d reaches eviction", safeFname(put), k+1), "followed by the eviction loop on every path", c.w.ipos(u.st))
		}
	}
}

func (L *lruCtx) counters() {
	const rule = "C07.counters"
	c := L.c
	metricsT := c.w.namedType(pkgRoot, "CacheMetrics")
	if metricsT == nil {
		c.r.undecided(rule, "<anchor>", "CacheMetrics not found")
		return
	}
	incs := func(fn *ssa.Function, name string) []ssa.Instruction {
		var out []ssa.Instruction
		allInstrs(fn, func(i ssa.Instruction) {
			call, ok := i.(*ssa.Call)
			if !ok || !call.Call.IsInvoke() || call.Call.Method.Name() != "Inc" {
				return
			}
			if f := path(call.Call.Value).lastField(); f != nil && f.Name() == name && c.w.ownerOf(f) == metricsT {
				out = append(out, i)
			}
		})
		// a helper that increments the counter it is given (`count(c.metrics.X)` with `if m != nil { m.Inc() }` inside)
		allInstrs(fn, func(i ssa.Instruction) {
			call, ok := i.(*ssa.Call)
			if !ok {
				return
			}
			h := calleeFunc(&call.Call)
			if h == nil || !c.w.inModule(h) || h.Blocks == nil {
				return
			}
			for k, a := range call.Call.Args {
				if k >= len(h.Params) {
					continue
				}
				if f := path(a).lastField(); f == nil || f.Name() != name || c.w.ownerOf(f) != metricsT {
					continue
				}
				par := ssa.Value(h.Params[k])
				// every path through the helper increments the parameter exactly when it is non-nil
				isInc := func(j ssa.Instruction) bool {
					ic, ok := j.(*ssa.Call)
					return ok && ic.Call.IsInvoke() && ic.Call.Method.Name() == "Inc" && ic.Call.Value == par
				}
				nilEdgeP := func(pred, succ *ssa.BasicBlock) bool {
					iff, ok := pred.Instrs[len(pred.Instrs)-1].(*ssa.If)
					if !ok {
						return false
					}
					for _, cm := range trueCmps(fact{iff.Cond, pred.Succs[0] == succ}) {
						if cm.Op == token.EQL && cm.Y != nil && isNilConst(cm.Y) && cm.X == par {
							return true
						}
					}
					return false
				}
				isRet := func(j ssa.Instruction) bool { _, ok := j.(*ssa.Return); return ok }
				if c.fc.pathFrom(h, nil, isRet, isInc, nilEdgeP) == nil && c.fc.mayContain(h, isInc, 0) {
					out = append(out, i)
				}
			}
		})
		return out
	}
	nilEdge := func(name string) func(pred, succ *ssa.BasicBlock) bool {
		return func(pred, succ *ssa.BasicBlock) bool {
			iff, ok := pred.Instrs[len(pred.Instrs)-1].(*ssa.If)
			if !ok {
				return false
			}
			for _, cm := range trueCmps(fact{iff.Cond, pred.Succs[0] == succ}) {
				if cm.Op == token.EQL && cm.Y != nil && isNilConst(cm.Y) {
					if f := srcField(cm.X); f != nil && f.Name() == name && c.w.ownerOf(f) == metricsT {
						return true
					}
				}
			}
			return false
		}
	}
	in := func(l []ssa.Instruction) func(ssa.Instruction) bool {
		return func(i ssa.Instruction) bool {
			for _, x := range l {
				if x == i {
					return true
				}
			}
			return false
		}
	}
	anyRet := func(i ssa.Instruction) bool {
		r, ok := i.(*ssa.Return)
		return ok && !isRecoverBlockReturn(r)
	}
	exactlyOnce := func(fn *ssa.Function, name string, target func(ssa.Instruction) bool, what string) {
		l := incs(fn, name)
		key := fmt.Sprintf("%s: %s on %s", safeFname(fn), name, what)
		if len(l) == 0 {
			c.r.bad(rule, key, "the "+name+" counter is never incremented", []string{c.w.pos(fn.Pos())})
			return
		}
		if p := c.fc.pathFrom(fn, nil, target, in(l), nilEdge(name)); p != nil {
			c.r.bad(rule, key, "a "+what+" is reachable without incrementing "+name+" although the counter is set", []string{c.w.ipos(p[len(p)-1])}, c.fc.witnessStrings(p)...)
			return
		}
		for _, x := range l {
			if p := c.fc.pathAvoiding(fn, x, in(l), nil); p != nil {
				c.r.bad(rule, key, name+" can be incremented twice in one call", []string{c.w.ipos(x)}, c.fc.witnessStrings(p)...)
				return
			}
		}
		c.r.ok(rule, key, "incremented exactly once (unless nil)", c.w.ipos(l[0]))
	}
	never := func(fn *ssa.Function, name string, target func(ssa.Instruction) bool, what string) {
		key := fmt.Sprintf("%s: no %s on %s", safeFname(fn), name, what)
		for _, x := range incs(fn, name) {
			if p := c.fc.pathAvoiding(fn, x, target, nil); p != nil {
				c.r.bad(rule, key, name+" is incremented on a path to a "+what, []string{c.w.ipos(x)}, c.fc.witnessStrings(p)...)
				return
			}
		}
		c.r.ok(rule, key, "never incremented on that path", c.w.pos(fn.Pos()))
	}
	get, put := c.a.LRUGet, c.a.LRUPut
	foundRet := func(want bool) func(ssa.Instruction) bool {
		return func(i ssa.Instruction) bool {
			r, ok := i.(*ssa.Return)
			if !ok || isRecoverBlockReturn(r) || len(r.Results) != 2 {
				return false
			}
			b, isK := constBool(retVals(r)[1])
			return isK && b == want
		}
	}
	exactlyOnce(get, "GetCall", anyRet, "return")
	exactlyOnce(put, "PutCall", anyRet, "return")
	exactlyOnce(get, "CacheHit", foundRet(true), "hit return")
	exactlyOnce(get, "CacheMiss", foundRet(false), "miss return")
	never(get, "CacheMiss", foundRet(true), "hit return")
	never(get, "CacheHit", foundRet(false), "miss return")
	for _, n := range []string{"CacheHit", "CacheMiss", "GetCall"} {
		if l := incs(put, n); len(l) > 0 {
			c.r.bad(rule, safeFname(put)+": "+n, "Put increments the "+n+" counter", []string{c.w.ipos(l[0])})
		}
	}
	if l := incs(get, "PutCall"); len(l) > 0 {
		c.r.bad(rule, safeFname(get)+": PutCall", "Get increments the PutCall counter", []string{c.w.ipos(l[0])})
	}
}
