package main

// State an object holds in a struct nested BY VALUE (embedded `header`, or a plain field `hdr header`).
//
// The roles "row counter of the Index / of a writer" and "the writer's schema" are storage locations inside the role
// object. Bundling them into a small struct that the role types embed (`header{schema; nextRowID}` embedded in Index,
// IndexWriter and BigIndexWriter) keeps every location where it was — `idx.nextRowID` is the promoted field, in SSA
// `FieldAddr(FieldAddr(idx, header), nextRowID)` — but three things change for the rules:
//   - the field is no longer a field of the role type: the lookup of the role must descend (heldFields, pickField);
//   - ONE *types.Var now stands for the counter of three different role types: "is this access the counter of an
//     IndexWriter" needs the type of the object the selection starts from, looking through the nested struct
//     (fieldHolder / holderType / srcHolder / (accPath).lastFieldHolder);
//   - the nested struct may have methods of its own (`func (h *header) rowAdded() { h.nextRowID++ }`): inside such a
//     method the object is a parameter, and which role object it is part of is decided at the call sites, where the
//     parameter is bound to `&idx.header` (nestedParam / bindingSites).
// Only by-value nesting of structs declared in the module (or unnamed structs) is looked through: that memory is part
// of the object. A struct held through a pointer may be shared between objects; it is not looked through, the rules
// then see a field of a different object and say so.

import (
	"go/token"
	"go/types"
	"strings"

	"golang.org/x/tools/go/ssa"
)

// nestedStruct: the struct type of a field that holds a struct of the module by value; nil for every other field
// (pointers, structs of other packages such as sync.Mutex — their fields are not updog's state).
func nestedStruct(f *types.Var) *types.Struct {
	if f == nil {
		return nil
	}
	t := types.Unalias(f.Type())
	st, ok := t.Underlying().(*types.Struct)
	if !ok {
		return nil
	}
	if n, isNamed := t.(*types.Named); isNamed {
		if n.Obj().Pkg() == nil || !strings.HasPrefix(n.Obj().Pkg().Path(), modPath) {
			return nil
		}
	}
	return st
}

// heldFields: the fields of T and of the structs nested in it by value (two levels down): everything an object of
// type T stores in its own memory. The nested struct fields themselves are included (a whole-struct copy reads them).
func heldFields(T *types.Named) []*types.Var {
	if T == nil {
		return nil
	}
	st, ok := T.Underlying().(*types.Struct)
	if !ok {
		return nil
	}
	var out []*types.Var
	var walk func(st *types.Struct, depth int)
	walk = func(st *types.Struct, depth int) {
		for i := 0; i < st.NumFields(); i++ {
			f := st.Field(i)
			out = append(out, f)
			if in := nestedStruct(f); in != nil && depth < 2 {
				walk(in, depth+1)
			}
		}
	}
	walk(st, 0)
	return out
}

// holdsField: f is a field of T or of a struct nested in T by value.
func holdsField(T *types.Named, f *types.Var) bool {
	for _, g := range heldFields(T) {
		if g == f && f != nil {
			return true
		}
	}
	return false
}

// selectedFrom: v selects a field (FieldAddr / Field); the operand it selects from and the field.
func selectedFrom(v ssa.Value) (ssa.Value, *types.Var) {
	switch s := v.(type) {
	case *ssa.FieldAddr:
		return s.X, fieldOf(s.X.Type(), s.Field)
	case *ssa.Field:
		return s.X, fieldOf(s.X.Type(), s.Field)
	}
	return nil, nil
}

// fieldHolder: v selects a field; the object the selection starts from when structs nested by value are looked
// through: for `&idx.header.nextRowID` that is idx, not `&idx.header`. nil if v is no field selection.
func fieldHolder(v ssa.Value) ssa.Value {
	x, _ := selectedFrom(v)
	if x == nil {
		return nil
	}
	for n := 0; n < 4; n++ {
		in, f := selectedFrom(x)
		if in == nil || nestedStruct(f) == nil {
			break
		}
		x = in
	}
	return x
}

// holderType: the named type of fieldHolder(v).
func holderType(v ssa.Value) *types.Named {
	if h := fieldHolder(v); h != nil {
		return namedOf(h.Type())
	}
	return nil
}

// srcHolder: the companion of srcField — v is (a conversion of) a load of a field; the type of the object that holds
// the field (nested structs looked through).
func srcHolder(v ssa.Value) *types.Named {
	v = peelConv(v)
	switch x := v.(type) {
	case *ssa.UnOp:
		if x.Op == token.MUL {
			if fa, ok := x.X.(*ssa.FieldAddr); ok {
				return holderType(fa)
			}
		}
	case *ssa.Field:
		return holderType(x)
	}
	return nil
}

// lastFieldHolder: the companion of lastField — the struct type that holds the last field of the path, where fields of
// nested structs count as held by the enclosing object: for idx.header.schema it is the type of idx.
func (p accPath) lastFieldHolder(w *World) *types.Named {
	for i := len(p.Steps) - 1; i >= 0; i-- {
		if p.Steps[i].Field == nil {
			continue
		}
		for i > 0 && nestedStruct(p.Steps[i-1].Field) != nil {
			i--
		}
		return w.ownerOf(p.Steps[i].Field)
	}
	return nil
}

// nestsType: T holds a struct of the named type S by value.
func nestsType(T, S *types.Named) bool {
	if T == nil || S == nil {
		return false
	}
	for _, f := range heldFields(T) {
		if nestedStruct(f) != nil && namedOf(f.Type()) == S {
			return true
		}
	}
	return false
}

// nestedParam: addr selects a field of a struct that is (part of) a pointer parameter of the function whose type is one
// of the structs T holds by value: the function works on the nested struct itself (a method of `header`, or a helper
// taking *header). Which object the struct is part of is known only at the call sites. Returns that parameter.
func nestedParam(addr ssa.Value, T *types.Named) *ssa.Parameter {
	p, ok := fieldHolder(addr).(*ssa.Parameter)
	if !ok || !nestsType(T, namedOf(p.Type())) {
		return nil
	}
	if _, isPtr := p.Type().Underlying().(*types.Pointer); !isPtr {
		return nil // a copy of the struct: writes to it reach no object
	}
	return p
}

// isRowsHolder: T is one of the types that have a row counter (the Index, the two writers).
func (a *Anchors) isRowsHolder(T *types.Named) bool {
	return T != nil && (T == a.IndexT || T == a.MemWriterT || T == a.BigWriterT)
}

// boundSite: one call (Call / Defer / Go) of a function that works on a nested struct through parameter p. T is the type
// of the object whose nested struct is passed (`&idx.header` with idx *IndexWriter: IndexWriter); nil when the argument is
// anything else (a parameter handed on, a local, a struct reached through a pointer): the object is not identified.
type boundSite struct {
	at     ssa.Instruction
	in     *ssa.Function
	arg    ssa.Value
	holder ssa.Value
	T      *types.Named
}

// bindingSites: the call sites of fn in the module with what is bound to its parameter p.
func (c *Ctx) bindingSites(fn *ssa.Function, p *ssa.Parameter) []boundSite {
	k := -1
	for j, q := range fn.Params {
		if q == p {
			k = j
		}
	}
	var out []boundSite
	for _, g := range c.w.ModFuncs {
		allInstrs(g, func(i ssa.Instruction) {
			cc := callCommon(i)
			if cc == nil || calleeFunc(cc) != fn || k < 0 || k >= len(cc.Args) {
				return
			}
			s := boundSite{at: i, in: g, arg: cc.Args[k]}
			if _, f := selectedFrom(s.arg); nestedStruct(f) != nil {
				s.holder = fieldHolder(s.arg)
				s.T = namedOf(s.holder.Type())
			}
			out = append(out, s)
		})
	}
	return out
}

// usedAsValue: fn is used other than as the static callee of a call (method value `idx.rowAdded`, stored in a variable,
// passed as a callback): then it can run at places bindingSites does not see.
func (c *Ctx) usedAsValue(fn *ssa.Function) bool {
	found := false
	for _, g := range c.w.ModFuncs {
		allInstrs(g, func(i ssa.Instruction) {
			var ops []*ssa.Value
			for _, op := range i.Operands(ops) {
				if op == nil || *op == nil {
					continue
				}
				if *op == ssa.Value(fn) {
					if cc := callCommon(i); cc != nil && cc.Value == ssa.Value(fn) {
						// the callee operand of a static call — unless fn is ALSO one of the arguments
						for _, a := range cc.Args {
							if a == ssa.Value(fn) {
								found = true
							}
						}
						continue
					}
					found = true
				}
				// a bound method value: the synthetic wrapper `(*header).rowAdded$bound` closes over the receiver
				if mc, ok := (*op).(*ssa.MakeClosure); ok {
					if w, ok := mc.Fn.(*ssa.Function); ok && w.Synthetic != "" && w.Object() == fn.Object() && fn.Object() != nil {
						found = true
					}
				}
			}
		})
	}
	return found
}

// reachingValue looks through loads of a local variable cell that is assigned more than once (a named result:
// `rowID = idx.nextRowID … return 0, err` stores the id and, before error returns, 0): if exactly one store of the cell
// reaches the load, the loaded value is the stored one. Anything else (several reaching stores, a cell written by a
// closure or whose address escapes) is returned unchanged.
func (fc *flowCtx) reachingValue(v ssa.Value) ssa.Value {
	for n := 0; n < 8; n++ {
		v = peelConv(v)
		ld, ok := v.(*ssa.UnOp)
		if !ok || ld.Op != token.MUL {
			return v
		}
		cell, ok := ld.X.(*ssa.Alloc)
		if !ok {
			return v
		}
		stores, esc := cellStores(cell)
		if esc || len(stores) == 0 {
			return v
		}
		fn := ld.Parent()
		isStore := func(i ssa.Instruction) bool {
			st, ok := i.(*ssa.Store)
			return ok && st.Addr == ssa.Value(cell)
		}
		var reach []*ssa.Store
		for _, st := range stores {
			if st.Parent() != fn {
				return v // written by a closure: not ordered with the load by this function's control flow
			}
			if st.Val == ssa.Value(ld) {
				continue // `*cell = *cell` (go/ssa re-stores a named result before rundefers)
			}
			if fc.pathFrom(fn, st, func(i ssa.Instruction) bool { return i == ssa.Instruction(ld) }, isStore, nil) != nil {
				reach = append(reach, st)
			}
		}
		// the zero value the cell has before any store
		if fc.pathFrom(fn, nil, func(i ssa.Instruction) bool { return i == ssa.Instruction(ld) }, isStore, nil) != nil {
			return v
		}
		if len(reach) != 1 {
			return v
		}
		v = reach[0].Val
	}
	return v
}
