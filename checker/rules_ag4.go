package main

// Rules added for the open/close properties (C06, C15) that are usable for other properties as well:
//   lockBalanceRule     — a mutex a function acquires is released on every path to every return (C15/C04/C18.lockbalance)
//   fileBytesBoundsRule — byte slices read from the bbolt file are indexed / re-sliced only under a dominating length
//                         test (part of C06.openvalidate = C15.validate)

import (
	"fmt"
	"go/types"

	"golang.org/x/tools/go/ssa"
)

// ---------- lock balance ----------

// lockBalanceRule: in every module function reachable from the entry points, a mutex field the function itself acquires
// (sync Lock/RLock or a lock() wrapper of the module, see lockOp) is released in the same mode on every path from the
// acquisition to every return: by an Unlock/RUnlock (or unlock wrapper, or a module helper that unlocks on all of its
// paths), or by a deferred one that is registered on that path (or was registered before the acquisition on every
// path). A return that can be reached with the lock still held leaves the mutex locked for ever: the next caller that
// needs it — a second Close, a query — blocks. This is a may-analysis by path search (LockAn's must-hold state is
// intersected at joins and would lose an early return that merges with a balanced path); edges whose branch condition
// contradicts a condition under which the lock was taken (`if x { Lock }` … `if x { Unlock }`) are not followed.
//
// Refutation-style: it reports a positively identified unbalanced path and is silent on functions that are meant to
// return with the lock held: a wrapper consisting only of the lock call (wrapperLockOp), a function that hands the
// unlock out (creates a function value that unlocks: `return func() { mu.Unlock() }`, `go func() { …Unlock() }()`),
// and the acquiring half of a lock/unlock pair of functions (it never releases the mutex itself, and some other module
// function releases that mutex without acquiring it). Mutexes that are not struct fields and TryLock are not tracked.
func lockBalanceRule(c *Ctx, rule string, entries ...*ssa.Function) {
	var es []*ssa.Function
	for _, e := range entries {
		if e != nil {
			es = append(es, e)
		}
	}
	re := c.w.reach(es...)
	type acq struct {
		call *ssa.Call
		fld  *types.Var
		mode int
	}
	// releaseOf: instruction i (a plain call) releases fld in the given mode, directly or in a helper on all its paths
	var releaseOf func(fld *types.Var, mode int) func(ssa.Instruction) bool
	releaseOf = func(fld *types.Var, mode int) func(ssa.Instruction) bool {
		direct := func(i ssa.Instruction) bool {
			call, ok := i.(*ssa.Call)
			if !ok {
				return false
			}
			f, a, m, ok := lockOp(&call.Call)
			return ok && !a && f == fld && m == mode
		}
		return func(i ssa.Instruction) bool {
			switch x := i.(type) {
			case *ssa.Call:
				if direct(i) {
					return true
				}
				h := calleeFunc(&x.Call)
				return h != nil && c.w.inModule(h) && c.fc.mustPass(h, direct, 2)
			case *ssa.Defer:
				// registered here, runs before every return that follows
				if f, a, m, ok := lockOp(&x.Call); ok {
					return !a && f == fld && m == mode
				}
				h := calleeFunc(&x.Call)
				return h != nil && c.w.inModule(h) && c.fc.mustPass(h, direct, 2)
			}
			return false
		}
	}
	anyRelease := func(fld *types.Var) func(ssa.Instruction) bool {
		return func(i ssa.Instruction) bool {
			cc := callCommon(i)
			if cc == nil {
				return false
			}
			f, a, _, ok := lockOp(cc)
			return ok && !a && f == fld
		}
	}
	anyAcquire := func(fld *types.Var) func(ssa.Instruction) bool {
		return func(i ssa.Instruction) bool {
			cc := callCommon(i)
			if cc == nil {
				return false
			}
			f, a, _, ok := lockOp(cc)
			return ok && a && f == fld
		}
	}
	ownerName := func(f *types.Var) string {
		if o := c.w.ownerOf(f); o != nil {
			return o.Obj().Name() + "." + f.Name()
		}
		return f.Name()
	}
	// the releasing half of a lock/unlock pair: a module function that releases fld and never acquires it
	pairMemo := map[*types.Var]bool{}
	hasReleaseHalf := func(fld *types.Var, except *ssa.Function) bool {
		if v, ok := pairMemo[fld]; ok {
			return v
		}
		found := false
		for _, g := range c.w.ModFuncs {
			if g == except || g.Blocks == nil || g.Parent() == except {
				continue
			}
			rel, acq := false, false
			allInstrs(g, func(i ssa.Instruction) {
				if anyRelease(fld)(i) {
					rel = true
				}
				if anyAcquire(fld)(i) {
					acq = true
				}
			})
			if rel && !acq {
				found = true
			}
		}
		pairMemo[fld] = found
		return found
	}
	isRet := func(i ssa.Instruction) bool {
		ret, ok := i.(*ssa.Return)
		return ok && !isRecoverBlockReturn(ret)
	}
	n := 0
	for _, fn := range re.sorted() {
		if _, _, _, isWrapper := wrapperLockOp(fn); isWrapper {
			continue
		}
		var acqs []acq
		allInstrs(fn, func(i ssa.Instruction) {
			call, ok := i.(*ssa.Call)
			if !ok {
				return
			}
			if f, a, m, ok := lockOp(&call.Call); ok && a && f != nil {
				acqs = append(acqs, acq{call, f, m})
			}
		})
		count := map[*types.Var]int{}
		for _, a := range acqs {
			count[a.fld]++
			verb := "Lock"
			if a.mode == lkR {
				verb = "RLock"
			}
			key := fmt.Sprintf("%s: %s %s#%d", safeFname(fn), ownerName(a.fld), verb, count[a.fld])
			// the unlock is handed out as a function value: whoever gets it releases the lock
			handedOut := false
			allInstrs(fn, func(i ssa.Instruction) {
				mc, ok := i.(*ssa.MakeClosure)
				if !ok {
					return
				}
				g, _ := mc.Fn.(*ssa.Function)
				if g == nil || !c.fc.mayContain(g, anyRelease(a.fld), 2) {
					return
				}
				for _, u := range referrers(mc) {
					if d, isDefer := u.(*ssa.Defer); isDefer && d.Call.Value == ssa.Value(mc) {
						continue
					}
					if cl, isCall := u.(*ssa.Call); isCall && cl.Call.Value == ssa.Value(mc) {
						continue
					}
					handedOut = true
				}
			})
			if handedOut {
				continue
			}
			// acquiring half of a lock()/unlock() pair of functions
			releasesHere := false
			for _, g := range append([]*ssa.Function{fn}, fn.AnonFuncs...) {
				if c.fc.mayContain(g, anyRelease(a.fld), 0) {
					releasesHere = true
				}
			}
			if !releasesHere && hasReleaseHalf(a.fld, fn) {
				continue
			}
			n++
			release := releaseOf(a.fld, a.mode)
			// a deferred release registered before the acquisition on every path runs at every exit as well
			deferredBefore := false
			allInstrs(fn, func(i ssa.Instruction) {
				if d, ok := i.(*ssa.Defer); ok && release(d) {
					if d.Block() == a.call.Block() && pointOf(d).i < pointOf(a.call).i || d.Block() != a.call.Block() && d.Block().Dominates(a.call.Block()) {
						deferredBefore = true
					}
				}
			})
			if deferredBefore {
				c.r.ok(rule, key, "released by a deferred unlock registered before the acquisition", c.w.ipos(a.call))
				continue
			}
			held := factsAt(a.call)
			contradicts := func(pred, succ *ssa.BasicBlock) bool {
				iff, ok := pred.Instrs[len(pred.Instrs)-1].(*ssa.If)
				if !ok || len(pred.Succs) != 2 || pred.Succs[0] == pred.Succs[1] {
					return false
				}
				val := pred.Succs[0] == succ
				for _, f := range held {
					if f.Cond == iff.Cond && f.Val != val {
						return true
					}
				}
				return false
			}
			if p := c.fc.pathFrom(fn, a.call, isRet, release, contradicts); p != nil {
				c.r.bad(rule, key, fmt.Sprintf("%s is acquired here and a return is reachable without releasing it (no unlock and no deferred unlock registered on this path): the mutex stays locked for ever after this call, so the next call that needs it — a repeated Close, a query, another writer call — blocks instead of returning", ownerName(a.fld)),
					[]string{c.w.ipos(p[len(p)-1])}, c.fc.witnessStrings(p)...)
			} else {
				c.r.ok(rule, key, "released (directly or by a deferred unlock registered on the path) on every path to every return", c.w.ipos(a.call))
			}
		}
	}
	if n == 0 {
		c.r.ok(rule, "<none>", fmt.Sprintf("no function reachable from the %d entry points acquires a mutex field", len(es)))
	}
}

// ---------- bounds of byte slices read from the file ----------

var boltByteSources = map[string][]int{
	"(*go.etcd.io/bbolt.Bucket).Get":   {0},
	"(*go.etcd.io/bbolt.Cursor).First": {0, 1},
	"(*go.etcd.io/bbolt.Cursor).Last":  {0, 1},
	"(*go.etcd.io/bbolt.Cursor).Next":  {0, 1},
	"(*go.etcd.io/bbolt.Cursor).Prev":  {0, 1},
	"(*go.etcd.io/bbolt.Cursor).Seek":  {0, 1},
}

func isByteSlice(t types.Type) bool {
	s, ok := t.Underlying().(*types.Slice)
	if !ok {
		return false
	}
	b, ok := s.Elem().Underlying().(*types.Basic)
	return ok && b.Kind() == types.Uint8
}

// fileBytesBoundsRule: a []byte that comes from the file — the result of Bucket.Get, a cursor's key or value, the
// key/value parameters of a ForEach callback; followed through phis, local variables, re-slicing, helper results and
// helper parameters bound to such an argument — may be missing (nil) or shorter than the writer made it in a damaged or
// partially written file. Every indexing of it (ssa.IndexAddr) and every re-slicing with a constant bound needs a
// dominating length test that covers the bound (lenAtLeast; indexInBounds for a variable index), in the function
// itself or, for a helper's parameter, at every call that passes file bytes; a cursor key known to be non-nil has at
// least one byte (bbolt stores no empty keys). Otherwise opening such a file panics with
// "index out of range" instead of rejecting it. Re-slicing with variable bounds only is not decided (silent).
func fileBytesBoundsRule(c *Ctx, rule string, re *Reach) {
	fns := re.sorted()
	inReach := re.Funcs
	tainted := map[ssa.Value]bool{}
	// cursor keys: bbolt stores no empty key (Put fails with ErrKeyRequired), so a key that is not nil has length >= 1
	cursorKey := map[ssa.Value]bool{}
	type bind struct {
		call *ssa.Call
		arg  ssa.Value
	}
	binds := map[ssa.Value][]bind{}
	changed := true
	mark := func(v ssa.Value) {
		if v != nil && !tainted[v] && isByteSlice(v.Type()) {
			tainted[v] = true
			changed = true
		}
	}
	isT := func(v ssa.Value) bool {
		if tainted[v] {
			return true
		}
		if fv, ok := v.(*ssa.FreeVar); ok {
			if b := freeVarBinding(fv); b != nil {
				return tainted[b]
			}
		}
		return false
	}
	addBind := func(p ssa.Value, call *ssa.Call, arg ssa.Value) {
		for _, b := range binds[p] {
			if b.call == call {
				return
			}
		}
		binds[p] = append(binds[p], bind{call, arg})
	}
	for rounds := 0; changed && rounds < 50; rounds++ {
		changed = false
		for _, fn := range fns {
			allInstrs(fn, func(i ssa.Instruction) {
				switch x := i.(type) {
				case *ssa.Call:
					name := calleeName(&x.Call)
					if idxs, ok := boltByteSources[name]; ok {
						if x.Call.Signature().Results().Len() == 1 {
							mark(x)
						} else {
							for _, k := range idxs {
								if e := extractOf(x, k); e != nil {
									mark(e)
									if k == 0 && !cursorKey[e] {
										cursorKey[e], changed = true, true
									}
								}
							}
						}
						return
					}
					if name == "(*go.etcd.io/bbolt.Bucket).ForEach" && len(x.Call.Args) > 1 {
						var cb *ssa.Function
						switch v := x.Call.Args[1].(type) {
						case *ssa.MakeClosure:
							cb, _ = v.Fn.(*ssa.Function)
						case *ssa.Function:
							cb = v
						}
						if cb != nil {
							for _, p := range cb.Params {
								mark(p)
							}
						}
						return
					}
					h := calleeFunc(&x.Call)
					if h == nil || !c.w.inModule(h) || h.Blocks == nil {
						return
					}
					for k, a := range x.Call.Args {
						if k < len(h.Params) && isT(a) {
							mark(h.Params[k])
							addBind(h.Params[k], x, a)
						}
					}
					// file bytes handed back by a helper
					allInstrs(h, func(j ssa.Instruction) {
						ret, ok := j.(*ssa.Return)
						if !ok || isRecoverBlockReturn(ret) {
							return
						}
						for k, rv := range retVals(ret) {
							if isT(rv) {
								mark(resultValue(x, k))
							}
						}
					})
				case *ssa.Phi:
					allKeys := true
					for _, e := range x.Edges {
						if isT(e) {
							mark(x)
						}
						if !cursorKey[e] && e != ssa.Value(x) {
							allKeys = false
						}
					}
					if allKeys && !cursorKey[x] {
						cursorKey[x], changed = true, true
					}
				case *ssa.Slice:
					if isT(x.X) {
						mark(x)
					}
				case *ssa.ChangeType:
					if isT(x.X) {
						mark(x)
					}
				case *ssa.UnOp:
					// load of a local variable that holds file bytes
					if vals, ok := cellValues(x.X); ok {
						for _, v := range vals {
							if isT(v) {
								mark(x)
							}
						}
					}
				}
			})
		}
	}
	// guardedAt: len(s) >= need at instruction `at`, in the function or — for a parameter — at every call that binds it
	var guardedAt func(s ssa.Value, need int64, at ssa.Instruction, depth int) bool
	guardedAt = func(s ssa.Value, need int64, at ssa.Instruction, depth int) bool {
		if lenAtLeast(s, need, at) {
			return true
		}
		if need <= 1 && cursorKey[s] && knownNonNil(s, at) {
			return true
		}
		p, isPar := peel(s).(*ssa.Parameter)
		if !isPar || depth <= 0 || len(binds[p]) == 0 {
			return false
		}
		for _, b := range binds[p] {
			if !guardedAt(b.arg, need, b.call, depth-1) {
				return false
			}
		}
		// all calls that pass file bytes are guarded (what another caller passes is not file data)
		return true
	}
	for _, fn := range fns {
		if !inReach[fn] {
			continue
		}
		name := safeFname(fn)
		nIdx, nSl := 0, 0
		allInstrs(fn, func(i ssa.Instruction) {
			switch x := i.(type) {
			case *ssa.IndexAddr:
				if !isT(x.X) {
					return
				}
				nIdx++
				key := fmt.Sprintf("%s: file bytes index#%d", name, nIdx)
				if k, ok := constInt(x.Index); ok {
					c.r.check(guardedAt(x.X, k+1, x, 2), rule, key, fmt.Sprintf("length >= %d is guaranteed by a dominating test", k+1),
						fmt.Sprintf("element %d of a byte slice read from the file is accessed without a dominating length test: an item that is missing (nil — a file that has the data bucket but not yet this key, as every committed prefix of a creation) or short makes opening panic with index out of range instead of rejecting the file", k), c.w.ipos(x))
					return
				}
				ok, why := c.fc.indexInBounds(x.X, x.Index, x)
				c.r.check(ok, rule, key, "index bounded by the slice's length on every path",
					"a byte slice read from the file is indexed with an index that no dominating test bounds by its length ("+why+"): a missing or short item makes opening panic with index out of range instead of rejecting the file", c.w.ipos(x))
			case *ssa.Slice:
				if !isT(x.X) {
					return
				}
				need, have := int64(0), false
				for _, b := range []ssa.Value{x.Low, x.High, x.Max} {
					if b == nil {
						continue
					}
					if k, ok := constInt(b); ok && k > 0 {
						have = true
						if k > need {
							need = k
						}
					}
				}
				if !have {
					return
				}
				nSl++
				key := fmt.Sprintf("%s: file bytes reslice#%d", name, nSl)
				c.r.check(guardedAt(x.X, need, x, 2), rule, key, fmt.Sprintf("length >= %d is guaranteed by a dominating test", need),
					fmt.Sprintf("a byte slice read from the file is re-sliced with the constant bound %d without a dominating length test: a missing (nil) or short item makes opening panic with slice bounds out of range instead of rejecting the file", need), c.w.ipos(x))
			}
		})
	}
}
